"""Shared machinery for the per-property checks (see /verif/BUILDING.md).

A property plug-in (props/Cxx/check.py) defines `run(ctx)`; this module provides the context:
building and auditing the Lean obligations, building the Go harness from /repo's *current working
tree* with `go test -c -overlay`, running model driver and implementation on the same op lines,
recording coverage, classifying violations against known_findings.json and writing the evidence.
"""
import fcntl
import hashlib
import json
import os
import random
import re
import shutil
import subprocess
import sys
import tempfile
import time

VERIF = os.path.dirname(os.path.dirname(os.path.abspath(__file__)))
REPO = os.environ.get("VERIF_REPO", "/repo")
LEAN = os.path.join(VERIF, "lean")
STD_AXIOMS = {"propext", "Classical.choice", "Quot.sound"}
FORBIDDEN_TEXT = re.compile(
    r"\b(sorry|admit|native_decide|bv_decide|implemented_by|unsafe)\b|^\s*axiom\s|maxHeartbeats\s+0\b", re.M)


def go_env():
    env = dict(os.environ)
    env["GOFLAGS"] = "-mod=mod"
    env["GOPROXY"] = "off"
    env.pop("GOSUMDB", None)  # GOSUMDB=off breaks the offline auto-toolchain selection
    env.setdefault("GOTOOLCHAIN", "auto")
    if env.get("GOTOOLCHAIN") == "local":
        env["GOTOOLCHAIN"] = "auto"
    return env


def strip_lean_comments(src):
    """Remove `--` line comments and (nested) `/- -/` block comments."""
    out = []
    i, n, depth = 0, len(src), 0
    while i < n:
        if src.startswith("/-", i):
            depth += 1
            i += 2
        elif depth and src.startswith("-/", i):
            depth -= 1
            i += 2
        elif depth:
            i += 1
        elif src.startswith("--", i):
            j = src.find("\n", i)
            i = n if j < 0 else j
        else:
            out.append(src[i])
            i += 1
    return "".join(out)


class Ctx:
    def __init__(self, prop_id, tier="quick", seed=0, replay=None):
        self.prop = prop_id
        self.tier = tier
        self.seed = int(seed)
        self.replay = replay
        self.rng = random.Random(f"{prop_id}:{self.seed}")
        self.t0 = time.time()
        self.tmp = tempfile.mkdtemp(prefix=f"verif-{prop_id}-")
        self.level = "proof"
        self.violations = []       # dicts: kind, signature, replay path, no_input
        self.known_hits = []
        self.obligations = []      # dicts: theorem, axioms, ok
        self.obligation_errors = []
        self.evaluations = 0
        self.distinct = set()
        self.samples = []
        self.hist = {}
        self.traces_validated = 0
        self.rule = ""
        self.assumptions = []
        self.trusted_base = []
        self.checker_cmds = []
        self.extra = {}
        self.notes = []
        self.thorough = tier == "thorough"

    # ------------------------------------------------------------------ utilities
    def log(self, *a):
        print(f"[{self.prop} {time.time() - self.t0:6.1f}s]", *a, file=sys.stderr, flush=True)

    def scale(self, quick, thorough):
        return thorough if self.thorough else quick

    def count(self, key, n=1):
        self.hist[key] = self.hist.get(key, 0) + n

    def record(self, case, nontrivial=True, sample_every=None):
        """Record one explored case (a string or JSON-able value)."""
        self.evaluations += 1
        if nontrivial:
            h = hashlib.sha1(json.dumps(case, sort_keys=True, default=str).encode()).digest()[:8]
            self.distinct.add(h)
        if len(self.samples) < 5:
            self.samples.append(case)

    # ------------------------------------------------------------------ Lean side
    def _lake(self, args, timeout=3600):
        os.makedirs(os.path.join(LEAN, ".lake"), exist_ok=True)
        lock = open(os.path.join(LEAN, ".lake", "verif-build.lock"), "w")
        fcntl.flock(lock, fcntl.LOCK_EX)
        try:
            p = subprocess.run(["lake"] + args, cwd=LEAN, stdout=subprocess.PIPE, stderr=subprocess.STDOUT,
                               text=True, timeout=timeout)
            return p.returncode, p.stdout
        finally:
            fcntl.flock(lock, fcntl.LOCK_UN)
            lock.close()

    def write_gen(self, relname, content):
        """Write a regenerated Lean module under lean/CentrifugeVerif/Gen (only if changed)."""
        path = os.path.join(LEAN, "CentrifugeVerif", "Gen", relname)
        os.makedirs(os.path.dirname(path), exist_ok=True)
        old = None
        if os.path.exists(path):
            old = open(path).read()
        if old != content:
            tmp = path + f".tmp{os.getpid()}"
            open(tmp, "w").write(content)
            os.replace(tmp, path)
        return path

    def lean_obligations(self, modules=None, allow_axioms=None, source_files=None):
        """Build the property modules, audit every theorem in them, register them as obligations.

        modules: Lean module names (default CentrifugeVerif.Props.<id>).
        allow_axioms: extra axiom names accepted (beyond propext/Classical.choice/Quot.sound),
          mapping theorem-name-regex -> set of axioms.
        Returns True when every obligation is discharged.
        """
        modules = modules or [f"CentrifugeVerif.Props.{self.prop}"]
        allow_axioms = allow_axioms or {}
        self.checker_cmds.append("cd /verif/lean && lake build " + " ".join(modules) +
                                 " && lake env lean <AuditTemplate instantiated per module>")
        rc, out = self._lake(["build"] + modules)
        if rc != 0:
            self.obligation_errors.append({"stage": "lake build", "modules": modules, "log": out[-6000:]})
            self.log("lake build FAILED for", modules)
            return False
        ok = True
        # textual gate over the transitive project-local sources of the modules
        for f in self._local_sources(modules):
            txt = strip_lean_comments(open(f).read())
            m = FORBIDDEN_TEXT.search(txt)
            if m and not self._text_whitelisted(f, m.group(0), allow_axioms):
                self.obligation_errors.append({"stage": "text gate", "file": f, "hit": m.group(0).strip()})
                ok = False
        tmpl = open(os.path.join(LEAN, "AuditTemplate.lean.in")).read()
        for mod in modules:
            af = os.path.join(self.tmp, "Audit_" + mod.replace(".", "_") + ".lean")
            open(af, "w").write(tmpl.replace("@MODULE@", mod))
            p = subprocess.run(["lake", "env", "lean", af], cwd=LEAN, stdout=subprocess.PIPE,
                               stderr=subprocess.STDOUT, text=True, timeout=1800)
            if p.returncode != 0:
                self.obligation_errors.append({"stage": "audit", "module": mod, "log": p.stdout[-4000:]})
                ok = False
                continue
            n = 0
            for line in p.stdout.splitlines():
                if not line.startswith("AUDIT "):
                    continue
                rec = json.loads(line[6:])
                n += 1
                allowed = set(STD_AXIOMS)
                for rx, axs in allow_axioms.items():
                    if re.search(rx, rec["theorem"]):
                        allowed |= set(axs)
                bad = [a for a in rec["axioms"] if a not in allowed]
                rec["ok"] = not bad
                if bad:
                    ok = False
                    self.obligation_errors.append({"stage": "axioms", "theorem": rec["theorem"], "bad": bad})
                self.obligations.append(rec)
            if n == 0:
                self.obligation_errors.append({"stage": "audit", "module": mod, "log": "no theorems found"})
                ok = False
        if self.thorough:
            for mod in modules:
                p = subprocess.run(["lake", "env", "leanchecker", mod], cwd=LEAN, stdout=subprocess.PIPE,
                                   stderr=subprocess.STDOUT, text=True, timeout=3600)
                self.extra.setdefault("leanchecker", {})[mod] = p.returncode
                if p.returncode != 0:
                    self.obligation_errors.append({"stage": "leanchecker", "module": mod, "log": p.stdout[-3000:]})
                    ok = False
        return ok

    def _text_whitelisted(self, f, hit, allow_axioms):
        # native_decide is tolerated textually only when some theorem is whitelisted for its axioms
        if "native_decide" in hit:
            return any("Lean.ofReduceBool" in axs for axs in allow_axioms.values())
        return False

    def _local_sources(self, modules):
        seen, todo, files = set(), list(modules), []
        while todo:
            m = todo.pop()
            if m in seen:
                continue
            seen.add(m)
            f = os.path.join(LEAN, *m.split(".")) + ".lean"
            if not os.path.exists(f):
                continue
            files.append(f)
            for line in open(f):
                mm = re.match(r"\s*(?:public\s+)?import\s+(CentrifugeVerif\.[\w.]+|Drivers\.[\w.]+)", line)
                if mm:
                    todo.append(mm.group(1))
        return files

    def lean_driver_build(self, exe=None):
        exe = exe or f"drv_{self.prop.lower()}"
        rc, out = self._lake(["build", exe])
        if rc != 0:
            self.obligation_errors.append({"stage": "driver build", "exe": exe, "log": out[-6000:]})
            return None
        return os.path.join(LEAN, ".lake", "build", "bin", exe)

    def run_lines(self, argv, lines, env=None, timeout=1800, cwd=None):
        """Feed lines on stdin, return stdout lines (used for the Lean driver)."""
        data = "\n".join(lines) + "\n"
        p = subprocess.run(argv, input=data, stdout=subprocess.PIPE, stderr=subprocess.PIPE, text=True,
                           env=env, timeout=timeout, cwd=cwd)
        if p.returncode != 0:
            self.notes.append(f"{argv[0]} exited {p.returncode}: {p.stderr[-500:]}")
        return p.stdout.splitlines()

    def lean_run(self, lines, exe=None, timeout=1800):
        path = self.lean_driver_build(exe)
        if path is None:
            return None
        return self.run_lines([path], lines, timeout=timeout)

    # ------------------------------------------------------------------ Go side
    def go_test_binary(self, pkg, harness_files, tags="verif", race=False, extra_overlay=None):
        """Build a test binary of /repo package `pkg` (e.g. "." or "internal/recovery") with the given
        harness files injected by overlay.  Always compiles the current working tree (Go's build
        cache makes unchanged trees fast)."""
        pkgdir = os.path.normpath(os.path.join(REPO, pkg))
        replace = {}
        for hf in harness_files:
            src = hf if os.path.isabs(hf) else os.path.join(VERIF, hf)
            dst = os.path.join(pkgdir, os.path.basename(src))
            if os.path.exists(dst):
                raise RuntimeError(f"overlay would replace existing file {dst}")
            replace[dst] = src
        for dst, src in (extra_overlay or {}).items():
            if os.path.exists(dst):
                raise RuntimeError(f"overlay would replace existing file {dst}")
            replace[dst] = src
        tagname = re.sub(r"\W", "_", pkg)
        ov = os.path.join(self.tmp, f"overlay_{tagname}.json")
        json.dump({"Replace": replace}, open(ov, "w"))
        out = os.path.join(self.tmp, f"harness_{tagname}{'_race' if race else ''}.test")
        cmd = ["go", "test", "-c", "-tags", tags, "-overlay", ov, "-o", out]
        if race:
            cmd.append("-race")
        cmd.append("./" + pkg if pkg != "." else ".")
        p = subprocess.run(cmd, cwd=REPO, env=go_env(), stdout=subprocess.PIPE, stderr=subprocess.STDOUT, text=True,
                           timeout=1800)
        if p.returncode != 0 or not os.path.exists(out):
            self.build_error = p.stdout[-6000:]
            self.log("go build failed:\n" + p.stdout[-3000:])
            return None
        return out

    def go_run(self, binary, test, lines, env=None, timeout=1800, extra_args=None):
        """Run harness test `test` of `binary` on op lines; returns output lines (one per op).
        A crash of the process is reported as missing trailing lines plus ctx.last_go_crash."""
        n = getattr(self, "_runs", 0) + 1
        self._runs = n
        ops = os.path.join(self.tmp, f"ops{n}.txt")
        outp = os.path.join(self.tmp, f"out{n}.txt")
        open(ops, "w").write("\n".join(lines) + "\n")
        e = go_env()
        e.update({"VERIF_OPS": ops, "VERIF_OUT": outp, "VERIF_SEED": str(self.seed), "VERIF_TIER": self.tier})
        e.setdefault("GOMEMLIMIT", "8GiB")
        if env:
            e.update(env)
        argv = [binary, "-test.run", f"^{test}$", "-test.count=1", f"-test.timeout={timeout}s"] + (extra_args or [])
        self.last_go_crash = None
        try:
            p = subprocess.run(argv, stdout=subprocess.PIPE, stderr=subprocess.STDOUT, text=True, env=e,
                               timeout=timeout + 30, cwd=self.tmp)
            if p.returncode != 0:
                self.last_go_crash = p.stdout[-4000:]
        except subprocess.TimeoutExpired:
            self.last_go_crash = "timeout"
        res = open(outp).read().splitlines() if os.path.exists(outp) else []
        for f in (ops, outp):
            try:
                os.remove(f)
            except OSError:
                pass
        return res

    # ------------------------------------------------------------------ violations
    def write_replay(self, payload):
        os.makedirs(os.path.join(VERIF, "replays"), exist_ok=True)
        payload = dict(payload)
        payload.setdefault("property", self.prop)
        blob = json.dumps(payload, sort_keys=True, indent=1, default=str)
        h = hashlib.sha1(blob.encode()).hexdigest()[:12]
        path = os.path.join(VERIF, "replays", f"{self.prop}-{h}.json")
        open(path, "w").write(blob + "\n")
        return path

    def violation(self, kind, what, signature=None, replay=None, no_input=False):
        """Register a violation.
        kind: 'property' (failing input shown on the implementation), 'correspondence' (model and
        implementation differ, property predicate still true on the implementation's output),
        'proof' (a theorem / regenerated model no longer checks).
        signature: dict describing the *specific* failing input/call site; matched against
        known_findings.json entries (all keys of an entry's `match` must be equal)."""
        signature = signature or {}
        known = self._match_known(signature) if not no_input else None
        payload = {"kind": kind, "what": what, "signature": signature, "seed": self.seed, "tier": self.tier}
        payload.update(replay or {})
        if known is not None:
            key = known.get("id")
            if key not in [k.get("id") for k in self.known_hits]:
                self.known_hits.append(known)
                print(f"KNOWN-FINDING: property={self.prop} {known.get('what', '')}", flush=True)
            return
        sigkey = json.dumps([kind, signature], sort_keys=True)
        for v in self.violations:
            if v["sigkey"] == sigkey:
                v["count"] += 1
                return
        path = self.write_replay(payload)
        self.violations.append({"sigkey": sigkey, "kind": kind, "what": what, "replay": path, "no_input": no_input,
                                "count": 1})
        tail = " no-failing-input-found" if no_input else ""
        print(f"VIOLATION property={self.prop} replay={path}{tail}", flush=True)
        self.log(f"violation [{kind}] {what}")

    def _match_known(self, signature):
        entries = []
        # known_findings.json is generated (tools/mkmanifest.py) from props/*/findings.json; both are
        # committed and neither is written at run time.  Reading the per-property file as well makes a
        # freshly recorded finding effective before the union file is regenerated.
        byid = {}
        for path in (os.path.join(VERIF, "known_findings.json"),
                     os.path.join(VERIF, "props", self.prop, "findings.json")):
            try:
                for e in json.load(open(path)).get("findings", []):
                    byid[e.get("id", id(e))] = e      # the per-property file wins (e.g. known -> fixed)
            except (FileNotFoundError, ValueError):
                pass
        entries = list(byid.values())
        for e in entries:
            if e.get("property") != self.prop or e.get("status") != "known":
                continue
            m = e.get("match") or {}
            if m and all(signature.get(k) == v for k, v in m.items()):
                return e
        return None

    def proof_broken(self, search_result=None):
        """Called by plug-ins when lean_obligations() returned False and the failing-input search
        (if any) found nothing."""
        names = [e.get("theorem") or e.get("module") or e.get("modules") or e.get("file") or e.get("exe")
                 for e in self.obligation_errors]
        self.violation("proof", f"proof obligations no longer check: {names}",
                       signature={"kind": "proof-break", "items": str(names)},
                       replay={"obligation_errors": self.obligation_errors, "search": search_result},
                       no_input=True)

    # ------------------------------------------------------------------ evidence
    def finish(self):
        wall = time.time() - self.t0
        nobl = len(self.obligations) + len([e for e in self.obligation_errors
                                            if e["stage"] in ("lake build", "audit", "driver build")])
        ndis = len([o for o in self.obligations if o.get("ok")]) if not [
            e for e in self.obligation_errors if e["stage"] in ("text gate", "leanchecker")] else 0
        cov = {
            "obligations": nobl,
            "discharged": ndis,
            "checker_cmd": " ; ".join(self.checker_cmds) or "n/a",
            "trusted_base": self.trusted_base or [
                "Lean 4.33.0 kernel", "axioms: propext, Classical.choice, Quot.sound",
                "correspondence harness + canonicalisation (vlib, props/%s)" % self.prop],
            "theorems": [{"name": o["theorem"], "axioms": o["axioms"]} for o in self.obligations],
            "evaluations": self.evaluations,
            "distinct_nontrivial": len(self.distinct),
            "rule": self.rule,
            "samples": self.samples[:5] or ["<none>"],
            "traces_validated_against_impl": self.traces_validated,
            "histogram": self.hist,
            "known_findings_reproduced": [k.get("id") for k in self.known_hits],
            "obligation_errors": self.obligation_errors[:10],
        }
        cov.update(self.extra)
        ev = {
            "property_id": self.prop, "tier": self.tier, "seed": self.seed, "level": self.level,
            "coverage": cov, "assumptions": self.assumptions, "wall_s": round(wall, 2),
            "violations": len(self.violations), "notes": self.notes[:20],
        }
        # evidence/ holds only runs against /repo itself; runs against a scratch tree (VERIF_REPO=…,
        # used to try seeded changes) write to evidence/_scratch/ (git-ignored)
        evdir = os.path.join(VERIF, "evidence") if os.path.realpath(REPO) == "/repo" else os.path.join(VERIF, "evidence", "_scratch")
        os.makedirs(evdir, exist_ok=True)
        path = os.path.join(evdir, f"{self.prop}.json")
        tmp = path + f".tmp{os.getpid()}"
        json.dump(ev, open(tmp, "w"), indent=1, default=str)
        os.replace(tmp, path)
        shutil.rmtree(self.tmp, ignore_errors=True)
        self.log(f"done: obligations {ndis}/{nobl}, evaluations {self.evaluations}, "
                 f"distinct {len(self.distinct)}, violations {len(self.violations)}, "
                 f"known {len(self.known_hits)}, {wall:.1f}s")
        return 1 if self.violations else 0


# ---------------------------------------------------------------------- generic helpers
def diff_lines(ops, impl, model):
    """Yield (index, op, impl_line, model_line) for every op whose outputs differ
    (missing lines count as '<missing>')."""
    for i, op in enumerate(ops):
        a = impl[i] if i < len(impl) else "<missing>"
        b = model[i] if i < len(model) else "<missing>"
        if a != b:
            yield i, op, a, b


def ddmin(seq, fails):
    """Delta debugging: minimal subsequence of `seq` for which fails(subseq) is True."""
    assert fails(seq)
    n = 2
    while len(seq) >= 2:
        chunk = max(1, len(seq) // n)
        subsets = [seq[i:i + chunk] for i in range(0, len(seq), chunk)]
        reduced = False
        for i in range(len(subsets)):
            comp = [x for j, s in enumerate(subsets) if j != i for x in s]
            if comp and fails(comp):
                seq, n, reduced = comp, max(n - 1, 2), True
                break
        if not reduced:
            if n >= len(seq):
                break
            n = min(len(seq), n * 2)
    return seq
