#!/bin/sh
# Offline setup: build the Lean project (library, proofs, drivers) and warm the Go build cache.
set -e
cd "$(dirname "$0")"
./check regen || true
cd lean
exes=$(ls Drivers/*.lean 2>/dev/null | sed 's#Drivers/\(.*\)\.lean#drv_\1#' | tr 'A-Z' 'a-z')
lake build CentrifugeVerif $exes
cd /repo
export GOFLAGS=-mod=mod GOPROXY=off
unset GOSUMDB
go build ./... 
go test -tags verif -vet=off -count=1 -run '^$' ./... >/dev/null 2>&1 || true
echo setup done
