#!/usr/bin/env python3
"""Regenerate MANIFEST.json from props/*/meta.json (claimed properties) and
props/not_applicable.json (reasons for the ones not claimed).  Validates against the schema when
jsonschema is importable."""
import glob
import json
import os
import sys

HERE = os.path.dirname(os.path.dirname(os.path.abspath(__file__)))
ids = [json.loads(l)["id"] for l in open(os.path.join(HERE, "properties.jsonl"))]
checks, engines = [], {}
claimed = set()
for pid in ids:
    mp = os.path.join(HERE, "props", pid, "meta.json")
    if not (os.path.exists(mp) and os.path.exists(os.path.join(HERE, "props", pid, "check.py"))):
        continue
    m = json.load(open(mp))
    if not m.get("claimed", True):
        continue
    claimed.add(pid)
    checks.append({
        "property_id": pid,
        "quick_cmd": f"./check {pid} --tier quick",
        "thorough_cmd": f"./check {pid} --tier thorough",
        "evidence_file": f"/verif/evidence/{pid}.json",
        "replay_cmd_template": f"./check {pid} --replay {{path}}",
        "engine": m.get("engine", "lean4+differential"),
        "level_claimed": {"category": m.get("level_category", "proof"), "text": m["level_text"],
                          "design_ref": m.get("design_ref", f"DESIGN.md §4 {pid}")},
        "level_note": m["level_note"],
        "technique": m.get("technique", "Lean 4 theorems over an executable model + differential correspondence with the Go code"),
    })
    engines.setdefault(m.get("engine", "lean4+differential"), []).append(pid)
na_path = os.path.join(HERE, "props", "not_applicable.json")
na_reasons = json.load(open(na_path)) if os.path.exists(na_path) else {}
not_applicable = [{"property_id": pid, "reason": na_reasons.get(pid, "check not built yet in this round (model, theorems and correspondence harness pending; see DESIGN.md §4)")}
                  for pid in ids if pid not in claimed]
man = {
    "version": 1,
    "setup_cmd": "./setup.sh",
    "hooks": {
        "guard": "verif",
        "enable": "go test -c -tags verif -overlay <harness files from /verif/props/*/harness> (harness sources are injected by overlay; no file of /repo is replaced)",
        "baseline_off_cmd": "cd /repo && go test -mod=mod -json -vet=off -count=1 -timeout 25m ./...",
        "source_commits": json.load(open(os.path.join(HERE, "props", "hook_commits.json"))) if os.path.exists(os.path.join(HERE, "props", "hook_commits.json")) else [],
        "add_only": True,
    },
    "engines": [{"name": k, "path": "/verif/lean + /verif/vlib + /verif/props", "serves_properties": v,
                 "kind_free_text": "Lean 4 model + kernel-checked theorems; Go harness injected by overlay; line-protocol differential run"}
                for k, v in sorted(engines.items())],
    "checks": checks,
    "notes": "See DESIGN.md. Every check: (1) regenerates any translated Lean input from /repo, (2) lake-builds the property's theorems and audits their axioms, (3) builds the Go harness from /repo's working tree, (4) runs model and implementation on the same generated inputs and evaluates the property oracle on the implementation's outputs.",
    "not_applicable": not_applicable,
}
out = os.path.join(HERE, "MANIFEST.json")
json.dump(man, open(out, "w"), indent=1)
try:
    import jsonschema
    jsonschema.validate(man, json.load(open("/root/.vp/MANIFEST.schema.json")))
    print("MANIFEST.json valid;", len(checks), "checks,", len(not_applicable), "not claimed")
except ImportError:
    print("MANIFEST.json written (jsonschema not available);", len(checks), "checks")
