#!/usr/bin/env python3
"""Regenerate DESIGN.md §8 (between the RESULTS markers) from props/*/meta.json, evidence/*.json,
props/*/findings.json and seeded/*/meta.json."""
import glob
import json
import os

HERE = os.path.dirname(os.path.dirname(os.path.abspath(__file__)))
props = [json.loads(l) for l in open(os.path.join(HERE, "properties.jsonl"))]
rows = []
find_rows = []
for p in props:
    pid = p["id"]
    meta = {}
    try:
        meta = json.load(open(os.path.join(HERE, "props", pid, "meta.json")))
    except Exception:
        pass
    ev = {}
    try:
        ev = json.load(open(os.path.join(HERE, "evidence", pid + ".json")))
    except Exception:
        pass
    cov = ev.get("coverage", {})
    thms = [t["name"].split(".")[-1] for t in cov.get("theorems", [])]
    fnd = []
    try:
        fnd = json.load(open(os.path.join(HERE, "props", pid, "findings.json"))).get("findings", [])
    except Exception:
        pass
    known = [f["id"] for f in fnd if f.get("status") == "known"]
    fixed = [f["id"] for f in fnd if f.get("status") == "fixed"]
    seeded = []
    for d in sorted(glob.glob(os.path.join(HERE, "seeded", pid + "-*"))):
        try:
            m = json.load(open(os.path.join(d, "meta.json")))
            seeded.append((os.path.basename(d), m.get("detected_by_check")))
        except Exception:
            pass
    sd = ", ".join(f"{n}:{'caught' if ok else 'MISSED'}" for n, ok in seeded) or "–"
    rows.append(f"| {pid} | {cov.get('discharged', '?')}/{cov.get('obligations', '?')} | "
                f"{cov.get('evaluations', '?')} | {', '.join(known) or '–'} | {', '.join(fixed) or '–'} | {sd} |")
    for f in fnd:
        what = f.get("what", "").replace("|", "/")
        find_rows.append(f"| {f['id']} | {f.get('status')} | {f.get('commit') or f.get('fixed_by') or ''} | {what[:260]} |")
out = []
out.append("| id | obligations discharged | cases explored (last committed run) | known findings | fixed findings | seeded changes |")
out.append("|---|---|---|---|---|---|")
out += rows
out.append("")
out.append("### 8.2 Findings (genuine defects of the pinned code, each replayed on the real code)")
out.append("")
out.append("| id | status | fix commit in /repo | what fails |")
out.append("|---|---|---|---|")
out += find_rows
text = "\n".join(out)
dp = os.path.join(HERE, "DESIGN.md")
s = open(dp).read()
b, e = "<!-- RESULTS:BEGIN -->", "<!-- RESULTS:END -->"
if b in s:
    s = s[:s.index(b) + len(b)] + "\n" + text + "\n" + s[s.index(e):]
    open(dp, "w").write(s)
    print("DESIGN.md §8 updated:", len(rows), "properties,", len(find_rows), "findings")
else:
    print(text)
