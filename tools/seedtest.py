#!/usr/bin/env python3
"""Run checks against a seeded change without touching /repo:
   tools/seedtest.py <dir with patch.diff + meta.json> [--props C01,C39] [--tier quick] [--seed N]
Creates a scratch worktree of /repo under /tmp, applies patch.diff, runs ./check <prop> with
VERIF_REPO pointing at it, prints which checks reported a VIOLATION, removes the worktree and
regenerates Gen/ from the real /repo."""
import argparse
import json
import os
import subprocess
import sys
import tempfile

ap = argparse.ArgumentParser()
ap.add_argument("dir")
ap.add_argument("--props", default=None)
ap.add_argument("--tier", default="quick")
ap.add_argument("--seed", default="0")
a = ap.parse_args()
meta = json.load(open(os.path.join(a.dir, "meta.json")))
props = a.props.split(",") if a.props else [meta["property"]]
wt = tempfile.mkdtemp(prefix="seedwt-")
os.rmdir(wt)
subprocess.run(["git", "-C", "/repo", "worktree", "add", "--detach", wt, "HEAD", "-q"], check=True)
res = {}
try:
    p = subprocess.run(["git", "apply", os.path.abspath(os.path.join(a.dir, "patch.diff"))], cwd=wt)
    if p.returncode != 0:
        print("patch does not apply")
        sys.exit(2)
    for pr in props:
        env = dict(os.environ, VERIF_REPO=wt)
        p = subprocess.run(["./check", pr, "--tier", a.tier, "--seed", a.seed], cwd="/verif", env=env,
                           stdout=subprocess.PIPE, stderr=subprocess.PIPE, text=True)
        viol = [l for l in p.stdout.splitlines() if l.startswith("VIOLATION")]
        res[pr] = {"exit": p.returncode, "violations": viol, "tail": p.stderr.strip().splitlines()[-3:]}
        print(pr, "exit", p.returncode, "DETECTED" if viol else "missed")
        for v in viol[:4]:
            print("   ", v)
        for t in res[pr]["tail"]:
            print("   |", t)
finally:
    subprocess.run(["git", "-C", "/repo", "worktree", "remove", "--force", wt])
    subprocess.run(["./check", "regen"], cwd="/verif", stdout=subprocess.DEVNULL,
                   env=dict(os.environ, VERIF_REGEN_ONLY=",".join(props)))
json.dump(res, open(os.path.join(a.dir, "seedtest_result.json"), "w"), indent=1)
