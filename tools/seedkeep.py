#!/usr/bin/env python3
"""Copy confirmed seeded changes from the mutators' output dirs into /verif/seeded/<id>/:
patch.diff, the demonstration file(s) and meta.json (author's description + what was run here:
independent confirmation and which check caught it).  Usage: tools/seedkeep.py /tmp/mut/*/out/*"""
import glob
import json
import os
import shutil
import sys

HERE = os.path.dirname(os.path.dirname(os.path.abspath(__file__)))
for d in sys.argv[1:]:
    d = d.rstrip("/")
    try:
        meta = json.load(open(os.path.join(d, "meta.json")))
        conf = json.load(open(os.path.join(d, "confirm.json")))
    except Exception:
        continue
    if not conf.get("confirmed"):
        print("skip (not confirmed)", d)
        continue
    st = {}
    try:
        st = json.load(open(os.path.join(d, "seedtest_result.json")))
    except Exception:
        pass
    sid = os.path.basename(d) + os.environ.get("SEED_SUFFIX", "")
    dst = os.path.join(HERE, "seeded", sid)
    os.makedirs(dst, exist_ok=True)
    for f in os.listdir(d):
        if f in ("confirm.json", "seedtest_result.json", "meta.json") or f.endswith(".orig.diff"):
            continue
        if os.path.isfile(os.path.join(d, f)):
            shutil.copy(os.path.join(d, f), os.path.join(dst, f))
    detected = {k: bool(v.get("violations")) for k, v in st.items()}
    out = {
        "property": meta.get("property"),
        "summary": meta.get("summary"),
        "breaks": meta.get("breaks"),
        "needs_to_manifest": meta.get("needs_to_manifest"),
        "files": meta.get("files"),
        "demo": meta.get("demo"),
        "author_verified": meta.get("verified"),
        "confirmed_here": {
            "how": "tools/seedconfirm.py in a scratch worktree of /repo HEAD: demo on clean tree, apply patch, demo again, existing tests of touched packages",
            "demo_passes_without_patch": conf.get("demo_without_patch", {}).get("rc") == 0,
            "demo_fails_with_patch": conf.get("demo_with_patch", {}).get("rc") not in (0, None),
            "existing_tests": conf.get("existing_tests", {}).get("pkgs"),
            "existing_tests_pass": conf.get("existing_tests", {}).get("rc") == 0 or bool(conf.get("rerun_of_failed_passed")),
            "load_sensitive_tests_rerun_alone": conf.get("rerun_of_failed_passed"),
        },
        "checks_run": {k: {"cmd": f"tools/seedtest.py (VERIF_REPO=<scratch worktree with patch> ./check {k} --tier quick)",
                           "violations": v.get("violations", [])[:4], "tail": v.get("tail", [])[-2:]} for k, v in st.items()},
        "detected_by_check": all(detected.values()) if detected else None,
        "ported_to_current_head": os.path.exists(os.path.join(d, "patch.orig.diff")),
    }
    json.dump(out, open(os.path.join(dst, "meta.json"), "w"), indent=1)
    print("kept", sid, "detected" if out["detected_by_check"] else "MISSED" if out["detected_by_check"] is False else "untested")
