#!/usr/bin/env python3
"""Confirm seeded changes independently of their author:
   tools/seedconfirm.py <dir> [<dir> …]
For each directory (patch.diff, demo file(s), meta.json with demo.place_at / demo.run):
 1. fresh scratch worktree of /repo; place the demo; run it            → must PASS
 2. apply patch.diff; build; run the demo                               → must FAIL
 3. run the existing tests of the packages the patch touches            → must PASS
Writes <dir>/confirm.json.  Worktrees are removed afterwards."""
import json
import os
import re
import shutil
import subprocess
import sys
import tempfile


def sh(cmd, cwd, timeout=2400):
    env = dict(os.environ, GOFLAGS="-mod=mod", GOPROXY="off")
    env.pop("GOSUMDB", None)
    try:
        p = subprocess.run(cmd, cwd=cwd, shell=True, env=env, stdout=subprocess.PIPE, stderr=subprocess.STDOUT,
                           text=True, errors="replace", timeout=timeout)
        return p.returncode, p.stdout[-3000:]
    except subprocess.TimeoutExpired:
        return 124, "timeout"


def confirm(d):
    meta = json.load(open(os.path.join(d, "meta.json")))
    demo = meta.get("demo", {})
    demos = demo if isinstance(demo, list) else [demo]
    wt = tempfile.mkdtemp(prefix="seedconf-")
    os.rmdir(wt)
    subprocess.run(["git", "-C", "/repo", "worktree", "add", "--detach", wt, "HEAD", "-q"], check=True)
    res = {"dir": d}
    try:
        placed = []
        for dm in demos:
            place = dm["place_at"].split()[0].rstrip(",;")      # authors append remarks after the path
            files = [dm["file"]] if isinstance(dm["file"], str) else list(dm["file"])
            for f in files:
                src = os.path.join(d, os.path.basename(f.split()[0]))
                dst = os.path.join(wt, place)
                if os.path.isdir(dst) or place.endswith("/") or not place.endswith(".go"):
                    dst = os.path.join(dst, os.path.basename(src))
                elif len(files) > 1:
                    dst = os.path.join(os.path.dirname(dst), os.path.basename(src))
                os.makedirs(os.path.dirname(dst), exist_ok=True)
                shutil.copy(src, dst)
                placed.append(dst)
        run = demos[0]["run"]
        run = re.sub(r"^cd \S+ && ", "", run)
        run = re.sub(r"\s+\((?![^']*'\s*(?:\.|\./\S*)?\s*$).*$", "", run).strip()   # authors append remarks in parentheses
        rc0, out0 = sh(run + " -count=1" if "go test" in run and "-count" not in run else run, wt)
        res["demo_without_patch"] = {"rc": rc0, "tail": out0[-600:]}
        rc, out = sh("git apply " + os.path.abspath(os.path.join(d, "patch.diff")), wt)
        res["patch_applies"] = rc == 0
        rc1, out1 = sh(run + " -count=1" if "go test" in run and "-count" not in run else run, wt)
        res["demo_with_patch"] = {"rc": rc1, "tail": out1[-600:]}
        # existing tests of touched packages (demo files removed first)
        for dst in placed:
            if os.path.exists(dst):
                os.remove(dst)
        _, files = sh("git diff --name-only", wt)
        pkgs = sorted({"./" + os.path.dirname(f) if os.path.dirname(f) else "." for f in files.split() if f.endswith(".go")})
        rc2, out2 = sh("go test -vet=off -count=1 -timeout 20m " + " ".join(pkgs), wt, timeout=3000)
        fails = re.findall(r"^--- FAIL: (\S+)", out2, re.M)
        # load-sensitive tests: re-run the failed top-level tests alone (twice); passing alone = flaky
        tops = sorted({f.split("/")[0] for f in fails})
        if tops and len(tops) <= 8:
            for _ in range(2):
                rc3, out3 = sh("go test -vet=off -count=1 -timeout 20m -run '^(" + "|".join(tops) + ")$' " + " ".join(pkgs), wt)
                if rc3 == 0:
                    res["rerun_of_failed_passed"] = tops
                    fails, rc2 = [], 0
                    break
        flaky_only = bool(fails) and set(fails) <= {"TestRuntimeStability_SlowRefreshHandler"}
        res["existing_tests"] = {"pkgs": pkgs, "rc": rc2, "failed": fails, "tail": out2[-500:]}
        ran = "no tests to run" not in out0 and "no test files" not in out0
        res["demo_ran"] = ran
        res["confirmed"] = bool(ran and rc0 == 0 and res["patch_applies"] and rc1 != 0 and (rc2 == 0 or flaky_only))
    finally:
        subprocess.run(["git", "-C", "/repo", "worktree", "remove", "--force", wt])
    json.dump(res, open(os.path.join(d, "confirm.json"), "w"), indent=1)
    print(d, "CONFIRMED" if res.get("confirmed") else "NOT-CONFIRMED", flush=True)


for d in sys.argv[1:]:
    if os.path.exists(os.path.join(d, "confirm.json")):
        continue
    try:
        confirm(d.rstrip("/"))
    except Exception as e:  # noqa
        print(d, "error", e, flush=True)
