import CentrifugeVerif.DriverLib
import CentrifugeVerif.Model.ConnProtoLifecycle
/-!
Driver for C08: replays a label sequence on the lifecycle LTS and prints the callback log, the
verdict of the executable ordering predicate, and the final status.
  run <labels>   labels: connectCmdOk triggerAcquire triggerEnd subscribe closeTry wAcquirePresence wRemove wCb
                 wDisc wDiscEnd unsubRemove:<n> unsubCb:<n> tickAcquire tickAliveStart tickAliveEnd tickRelease
                 shutdownSnapshot shutdownDone
  scan <events>  events: connect+ connect- alive+ alive- disconnect+ disconnect- unsub:<n>  → `ok=0|1`
-/
open CentrifugeVerif DriverLib Lifecycle

def label? (w : String) : Option Label :=
  match w.splitOn ":" with
  | ["connectCmdOk"] => some .connectCmdOk | ["connectCmdRefused"] => some .connectCmdRefused
  | ["triggerAcquire"] => some .triggerAcquire
  | ["triggerEnd"] => some .triggerEnd | ["subscribe"] => some .subscribe | ["closeTry"] => some .closeTry
  | ["wAcquirePresence"] => some .wAcquirePresence | ["wRemove"] => some .wRemove | ["wCb"] => some .wCb
  | ["wDisc"] => some .wDisc | ["wDiscEnd"] => some .wDiscEnd
  | ["unsubRemove", n] => n.toNat?.map .unsubRemove | ["unsubCb", n] => n.toNat?.map .unsubCb
  | ["tickAcquire"] => some .tickAcquire | ["tickAliveStart"] => some .tickAliveStart
  | ["tickAliveEnd"] => some .tickAliveEnd | ["tickRelease"] => some .tickRelease
  | ["shutdownSnapshot"] => some .shutdownSnapshot | ["shutdownDone"] => some .shutdownDone
  | _ => none

def ev? (w : String) : Option Ev :=
  match w.splitOn ":" with
  | ["connect+"] => some .connectStart | ["connect-"] => some .connectEnd
  | ["alive+"] => some .aliveStart | ["alive-"] => some .aliveEnd
  | ["disconnect+"] => some .discStart | ["disconnect-"] => some .discEnd
  | ["unsub", n] => n.toNat?.map .unsub
  | _ => none

def showEv : Ev → String
  | .connectStart => "connect+" | .connectEnd => "connect-" | .aliveStart => "alive+" | .aliveEnd => "alive-"
  | .discStart => "disconnect+" | .discEnd => "disconnect-" | .unsub n => s!"unsub:{n}"

def showStatus : Status → String
  | .connecting => "connecting" | .connected => "connected" | .closed => "closed"

def stepLine (line : String) : String :=
  match words line with
  | "run" :: rest =>
    match rest.mapM label? with
    | none => "bad-op"
    | some labels =>
      match run {} labels with
      | some s =>
        let log := if s.log.isEmpty then "-" else joinWith "," (s.log.map showEv)
        s!"log={log} ok={if (scan s.log).ok then 1 else 0} status={showStatus s.status} shut={if s.shut == .done then 1 else 0}"
      | none => "rejected"
  | "scan" :: rest =>
    match rest.mapM ev? with
    | none => "bad-op"
    | some evs => s!"ok={if (scan evs).ok then 1 else 0}"
  | _ => "bad-op"

def main : IO Unit := runPure stepLine
