import CentrifugeVerif.DriverLib
import CentrifugeVerif.Model.Survey
/-!
Driver for C41: replays the harness ops (see `props/C41/harness/root/zz_verif_c41_test.go`) through
`Survey.next`, closing under the internal steps (collector receive, collector exit on ctx.Done,
return) after each op, and prints the same observation line as the harness.
-/
open CentrifugeVerif DriverLib Survey

structure Meta where
  deadline : Nat
  hasLocal : Bool
  held : Bool

structure DS where
  st : State
  k : Nat
  clock : Nat
  metas : List Meta

def insStr (x : String) : List String → List String
  | [] => [x]
  | y :: ys => if x < y || x == y then x :: y :: ys else y :: insStr x ys
def sortStr (l : List String) : List String := l.foldr insStr []

def svLine (t : Nat) (sv : Sv) : String :=
  let state := match sv.main with
    | .returnedErr => "puberr"
    | .returnedOk => if sv.retErr then "deadline" else "ok"
    | _ => "run"
  let res := match sv.main with
    | .returnedErr => "nil"
    | .returnedOk =>
      if sv.returned.isEmpty then "-"
      else joinWith "," (sortStr (sv.returned.map fun (r : Reply) => s!"{r.uid}:{r.code}"))
    | _ => "-"
  let chanLen := if sv.main = .returnedErr then "*" else toString sv.chan.length
  s!"t{t}={sv.id}/{state}/{chanLen}/{if sv.registered then 1 else 0}/{res}"

def obs (r : String) (s : State) : String :=
  let rec go (t : Nat) : List Sv → List String
    | [] => []
    | sv :: rest => svLine t sv :: go (t + 1) rest
  joinWith " " (s!"r={r}" :: go 0 s.surveys)

def fuelOf (s : State) : Nat :=
  16 + 4 * s.surveys.foldl (fun a sv => a + sv.chan.length + 3) 0

def settle (d : DS) (r : String) (s : State) : DS × String :=
  let s' := tauClose (fuelOf s) s
  ({ d with st := s' }, obs r s')

def applyAll (s : State) : List Label → Option State
  | [] => some s
  | l :: ls => (next s l).bind (applyAll · ls)

def step (d : DS) (line : String) : DS × String :=
  let ws := words line
  match ws with
  | ["reset", k] =>
    match k.toNat? with
    | some kn => ({ st := init, k := kn, clock := 0, metas := [] }, obs "-" init)
    | none => (d, "bad-op")
  | "survey" :: rest =>
    match kv rest "to", kvNat rest "timeout", kvNat rest "sync", kv rest "pub" with
    | some to, some ms, some sync, some pub =>
      let numNodes := if to == "all" then d.k else 1
      let hasLocal := to == "all" || to == "self"
      let needPub := (to == "all" && d.k != 1) || (to != "all" && to != "self")
      let t := d.st.surveys.length
      let locals := if hasLocal then (List.range sync).map (fun i => Label.localReply t (100 + i)) else []
      let pubL := if !needPub then [Label.publish t true]
        else if pub == "ok" then [Label.publish t true]
        else if pub == "fail" then [Label.publish t false, Label.ctxDone t]
        else []
      match applyAll d.st ([Label.begin numNodes] ++ locals ++ [Label.spawn t] ++ pubL) with
      | none => (d, "deadlock")
      | some s1 =>
        let m : Meta := { deadline := d.clock + (if ms == 0 then 10000 else ms), hasLocal := hasLocal,
                          held := needPub && pub == "hold" }
        settle { d with metas := d.metas ++ [m] } "-" s1
    | _, _, _, _ => (d, "bad-op")
  | ["local", t, code] =>
    match t.toNat?, code.toNat? with
    | some tn, some c =>
      match d.metas[tn]? with
      | some m =>
        if !m.hasLocal then settle d "nocb" d.st else
        if (d.st.surveys[tn]?.map (·.main)) == some MainPc.returnedErr then settle d "skipped" d.st else
        match next d.st (.localReply tn c) with
        | none => settle d "would-block" d.st
        | some s1 => settle d "-" s1
      | none => settle d "nocb" d.st
    | _, _ => (d, "bad-op")
  | ["resp", u, id, code] =>
    match u.toNat?, id.toNat?, code.toNat? with
    | some un, some idn, some c =>
      match next d.st (.response un idn c) with
      | none => settle d "BLOCKED" d.st
      | some s1 => settle d "-" s1
    | _, _, _ => (d, "bad-op")
  | ["tick", ms] =>
    match ms.toNat? with
    | some m =>
      let clock := d.clock + m
      let s1 := Id.run do
        let mut s := d.st
        let mut t := 0
        for mt in d.metas do
          if mt.deadline ≤ clock then
            match s.surveys[t]? with
            | some sv =>
              if !sv.ctxDone && (sv.main != .returnedOk && sv.main != .returnedErr || sv.coll == .collecting) then
                match next s (.ctxDone t) with
                | some s' => s := s'
                | none => pure ()
            | none => pure ()
          t := t + 1
        return s
      settle { d with clock := clock } "-" s1
    | none => (d, "bad-op")
  | ["pubrelease", t, r] =>
    match t.toNat? with
    | some tn =>
      match d.metas[tn]? with
      | some m =>
        if m.held then
          match applyAll d.st (if r == "ok" then [.publish tn true] else [.publish tn false, .ctxDone tn]) with
          | some s1 =>
            settle { d with metas := d.metas.set tn { m with held := false } } "-" s1
          | none => settle d "disabled" d.st
        else settle d "disabled" d.st
      | none => settle d "disabled" d.st
    | none => (d, "bad-op")
  | _ => (d, "bad-op")

def main : IO Unit := runState step { st := init, k := 1, clock := 0, metas := [] }
