import CentrifugeVerif.DriverLib
import CentrifugeVerif.Model.Survey
/-!
Driver for C41: replays the harness ops (see `props/C41/harness/root/zz_verif_c41_test.go`) through
`Survey.next`, closing under the internal steps (collector receive, collector exit on ctx.Done,
return) after each op, and prints the same observation line as the harness.
-/
open CentrifugeVerif DriverLib Survey

structure Meta where
  deadline : Nat
  hasLocal : Bool
  held : Bool

/-- a survey in the multi-node part -/
structure BSv where
  issuer : Nat
  tl : Nat            -- index of the call in the issuer's state
  deadline : Nat
  cbs : List Nat      -- nodes whose handler callback has not been used yet

structure DS where
  st : State
  k : Nat
  clock : Nat
  metas : List Meta
  /-- multi-node part: one model state per node; a response is applied to the state of the node it
  is addressed to (the requester), with the responder's uid -/
  bst : List State := []
  bsv : List BSv := []
  bclock : Nat := 0

def insStr (x : String) : List String → List String
  | [] => [x]
  | y :: ys => if x < y || x == y then x :: y :: ys else y :: insStr x ys
def sortStr (l : List String) : List String := l.foldr insStr []

def svLine (t : Nat) (sv : Sv) : String :=
  let state := match sv.main with
    | .returnedErr => "puberr"
    | .returnedOk => if sv.retErr then "deadline" else "ok"
    | _ => "run"
  let res := match sv.main with
    | .returnedErr => "nil"
    | .returnedOk =>
      if sv.returned.isEmpty then "-"
      else joinWith "," (sortStr (sv.returned.map fun (r : Reply) => s!"{r.uid}:{r.code}"))
    | _ => "-"
  let chanLen := if sv.main = .returnedErr then "*" else toString sv.chan.length
  s!"t{t}={sv.id}/{state}/{chanLen}/{if sv.registered then 1 else 0}/{res}"

def obs (r : String) (s : State) : String :=
  let rec go (t : Nat) : List Sv → List String
    | [] => []
    | sv :: rest => svLine t sv :: go (t + 1) rest
  joinWith " " (s!"r={r}" :: go 0 s.surveys)

def fuelOf (s : State) : Nat :=
  16 + 4 * s.surveys.foldl (fun a sv => a + sv.chan.length + 3) 0

def settle (d : DS) (r : String) (s : State) : DS × String :=
  let s' := tauClose (fuelOf s) s
  ({ d with st := s' }, obs r s')

def applyAll (s : State) : List Label → Option State
  | [] => some s
  | l :: ls => (next s l).bind (applyAll · ls)

def bsvLine (d : DS) (t : Nat) (b : BSv) : String :=
  match (d.bst[b.issuer]?).bind (·.surveys[b.tl]?) with
  | none => s!"b{t}=?"
  | some sv =>
    let state := match sv.main with
      | .returnedErr => "err"
      | .returnedOk => if sv.retErr then "deadline" else "ok"
      | _ => "run"
    let res :=
      if sv.main != .returnedOk || sv.returned.isEmpty then "-"
      else joinWith "," (sortStr (sv.returned.map fun (r : Reply) =>
        s!"{if r.uid == selfUid then b.issuer else r.uid - 1}:{r.code}"))
    s!"b{t}={b.issuer}/{sv.id}/{state}/{res}"

def bobs (d : DS) (r : String) : String :=
  let rec go (t : Nat) : List BSv → List String
    | [] => []
    | b :: rest => bsvLine d t b :: go (t + 1) rest
  joinWith " " (s!"r={r}" :: go 0 d.bsv)

def bsettle (d : DS) (r : String) : DS × String :=
  let d' := { d with bst := d.bst.map fun s => tauClose (fuelOf s) s }
  (d', bobs d' r)

def bstep (d : DS) (ws : List String) : DS × String :=
  match ws with
  | ["bus", k] =>
    match k.toNat? with
    | some kn =>
      let d' : DS := { d with bst := List.replicate kn init, bsv := [], bclock := 0 }
      (d', bobs d' ("nodes" ++ String.join (List.replicate kn (toString kn))))
    | none => (d, "bad-op")
  | ["bsurvey", n, ms] =>
    match n.toNat?, ms.toNat? with
    | some ni, some m =>
      match d.bst[ni]? with
      | none => (d, "bad-op")
      | some s =>
        let tl := s.surveys.length
        match applyAll s [Label.begin d.bst.length, Label.spawn tl, Label.publish tl true] with
        | none => (d, "reject")
        | some s1 =>
          bsettle { d with bst := d.bst.set ni s1,
                           bsv := d.bsv ++ [{ issuer := ni, tl := tl, deadline := d.bclock + m,
                                              cbs := List.range d.bst.length }] } "-"
    | _, _ => (d, "bad-op")
  | ["breply", r, t, code] =>
    match r.toNat?, t.toNat?, code.toNat? with
    | some rn, some tn, some c =>
      match d.bsv[tn]? with
      | none => bsettle d "nocb"
      | some b =>
        if !b.cbs.contains rn then bsettle d "nocb" else
        let d1 := { d with bsv := d.bsv.set tn { b with cbs := b.cbs.filter (· != rn) } }
        match d1.bst[b.issuer]? with
        | none => (d, "reject")
        | some s =>
          let id := ((s.surveys[b.tl]?).map (·.id)).getD 0
          let l := if rn == b.issuer then Label.localReply b.tl c else Label.response (rn + 1) id c
          match next s l with
          | none => bsettle d1 "BLOCKED"
          | some s1 => bsettle { d1 with bst := d1.bst.set b.issuer s1 } "-"
    | _, _, _ => (d, "bad-op")
  | ["btick", ms] =>
    match ms.toNat? with
    | some m =>
      let clock := d.bclock + m
      let bst := d.bsv.foldl (fun (acc : List State) b =>
        if b.deadline ≤ clock then
          match acc[b.issuer]? with
          | some s =>
            match s.surveys[b.tl]? with
            | some sv =>
              if !sv.ctxDone && sv.main != .returnedOk && sv.main != .returnedErr then
                match next s (.ctxDone b.tl) with
                | some s' => acc.set b.issuer s'
                | none => acc
              else acc
            | none => acc
          | none => acc
        else acc) d.bst
      bsettle { d with bst := bst, bclock := clock } "-"
    | none => (d, "bad-op")
  | _ => (d, "bad-op")

def step (d : DS) (line : String) : DS × String :=
  let ws := words line
  if (ws.head?.map (fun w => w.startsWith "b")).getD false then bstep d ws else
  match ws with
  | ["reset", k] =>
    match k.toNat? with
    | some kn => ({ st := init, k := kn, clock := 0, metas := [] }, obs "-" init)
    | none => (d, "bad-op")
  | "survey" :: rest =>
    match kv rest "to", kvNat rest "timeout", kvNat rest "sync", kv rest "pub" with
    | some to, some ms, some sync, some pub =>
      let numNodes := if to == "all" then d.k else 1
      let hasLocal := to == "all" || to == "self"
      let needPub := (to == "all" && d.k != 1) || (to != "all" && to != "self")
      let t := d.st.surveys.length
      let locals := if hasLocal then (List.range sync).map (fun i => Label.localReply t (100 + i)) else []
      let pubL := if !needPub then [Label.publish t true]
        else if pub == "ok" then [Label.publish t true]
        else if pub == "fail" then [Label.publish t false, Label.ctxDone t]
        else []
      match applyAll d.st ([Label.begin numNodes] ++ locals ++ [Label.spawn t] ++ pubL) with
      | none => (d, "deadlock")
      | some s1 =>
        let m : Meta := { deadline := d.clock + (if ms == 0 then 10000 else ms), hasLocal := hasLocal,
                          held := needPub && pub == "hold" }
        settle { d with metas := d.metas ++ [m] } "-" s1
    | _, _, _, _ => (d, "bad-op")
  | ["local", t, code] =>
    match t.toNat?, code.toNat? with
    | some tn, some c =>
      match d.metas[tn]? with
      | some m =>
        if !m.hasLocal then settle d "nocb" d.st else
        if (d.st.surveys[tn]?.map (·.main)) == some MainPc.returnedErr then settle d "skipped" d.st else
        match next d.st (.localReply tn c) with
        | none => settle d "would-block" d.st
        | some s1 => settle d "-" s1
      | none => settle d "nocb" d.st
    | _, _ => (d, "bad-op")
  | ["resp", u, id, code] =>
    match u.toNat?, id.toNat?, code.toNat? with
    | some un, some idn, some c =>
      match next d.st (.response un idn c) with
      | none => settle d "BLOCKED" d.st
      | some s1 => settle d "-" s1
    | _, _, _ => (d, "bad-op")
  | ["tick", ms] =>
    match ms.toNat? with
    | some m =>
      let clock := d.clock + m
      let s1 := Id.run do
        let mut s := d.st
        let mut t := 0
        for mt in d.metas do
          if mt.deadline ≤ clock then
            match s.surveys[t]? with
            | some sv =>
              if !sv.ctxDone && (sv.main != .returnedOk && sv.main != .returnedErr || sv.coll == .collecting) then
                match next s (.ctxDone t) with
                | some s' => s := s'
                | none => pure ()
            | none => pure ()
          t := t + 1
        return s
      settle { d with clock := clock } "-" s1
    | none => (d, "bad-op")
  | ["pubrelease", t, r] =>
    match t.toNat? with
    | some tn =>
      match d.metas[tn]? with
      | some m =>
        if m.held then
          match applyAll d.st (if r == "ok" then [.publish tn true] else [.publish tn false, .ctxDone tn]) with
          | some s1 =>
            settle { d with metas := d.metas.set tn { m with held := false } } "-" s1
          | none => settle d "disabled" d.st
        else settle d "disabled" d.st
      | none => settle d "disabled" d.st
    | none => (d, "bad-op")
  | _ => (d, "bad-op")

def main : IO Unit := runState step { st := init, k := 1, clock := 0, metas := [] }
