import CentrifugeVerif.DriverLib
import CentrifugeVerif.Model.DeltaTok
/-!
Driver for C14.  Same scenario lines as the Go harness (props/C14/harness/root) with the payload
table replaced by the codec table measured by the harness:

  st proto=json|pb pos=0|1 hist=0|1 hsize=N med=0|1 keep=0|1 cf=0|1 sf=0|1 M=<rows> ops=<tok,…>
  mp proto=json|pb cf=0|1 sf=0|1 M=<rows> ops=<tok,…>

It simulates broker history, hub decision and the subscription's `flagDeltaAllowed` with the functions
of Model/Delta.lean over the symbolic codec of Model/DeltaTok.lean, plays the client with
`Client.recv`, and prints the deliveries in the harness's format (`F`/`D`, `!` = not reconstructed).
-/
open CentrifugeVerif DriverLib Delta

structure HP where
  off : Nat
  pid : Nat
  t : Nat          -- bit0 passes the client filter, bit1 passes the server filter
deriving Inhabited

structure Cfg where
  json : Bool
  positioned : Bool
  histOn : Bool
  hsize : Nat
  med : Bool
  keep : Bool
  cf : Bool
  sf : Bool
  tbl : Nat → Nat → Nat

structure DS where
  hist : List HP := []
  top : Nat := 0
  subscribed : Bool := false
  flag : Bool := false
  pos : Nat := 0
  medAlive : Bool := false
  medLatest : Option Nat := none
  held : Option Tok := none
  coff : Nat := 0
  last : Option (HP × Option Nat) := none     -- last publication and its prevPub (payload number)

def passes (cfg : Cfg) (t : Nat) : Bool :=
  (!cfg.cf || t % 2 == 1) && (!cfg.sf || (t / 2) % 2 == 1)

def mkPub (h : HP) : Pub Tok := { off := h.off, data := .pay h.pid }

/-- the client: apply, compare with the payload published at that offset, resynchronise on failure -/
def clientRecv (cfg : Cfg) (held : Option Tok) (w : WPub Tok) (expect : Nat) : Option Tok × String :=
  let c := tokCodec cfg.tbl cfg.json
  let tok := (if w.delta then "D" else "F") ++ toString w.off
  match Client.recv c { held := held } w with
  | some t => if t = .pay expect then (some t, tok) else (some (.pay expect), tok ++ "!")
  | none => (some (.pay expect), tok ++ "!")

def retained (cfg : Cfg) (s : DS) : List HP := s.hist.drop (s.hist.length - cfg.hsize)

/-- the subscription is gone; the channel medium goes with the last subscriber -/
def unsubbed (cfg : Cfg) (s : DS) : DS :=
  let ml := if cfg.keep then s.medLatest else none
  { s with subscribed := false, medAlive := cfg.keep, medLatest := ml }

/-- one live delivery to the subscriber under test (`prev` = broker prevPub, `dflag` = UseDelta) -/
def deliverLive (cfg : Cfg) (s : DS) (h : HP) (prev : Option Nat) (dflag : Bool) : DS × String :=
  let c := tokCodec cfg.tbl cfg.json
  if !s.subscribed then (s, "-") else
  if cfg.positioned then
    if h.off > s.pos + 1 then (unsubbed cfg s, "-;x2500")
    else if h.off < s.pos + 1 then (s, "-")
    else
      let (w, fl) := liveStep c s.flag (prev.map Tok.pay) (mkPub h)
      let (held, tok) := clientRecv cfg s.held w h.pid
      ({ s with pos := h.off, flag := fl, held := held, coff := h.off }, tok)
  else
    let localPrev := if cfg.med && s.medAlive && dflag then s.medLatest else none
    let (w, fl) := liveStep c s.flag (localPrev.map Tok.pay) (mkPub h)
    let (held, tok) := clientRecv cfg s.held w h.pid
    ({ s with flag := fl, held := held, coff := if h.off > 0 then h.off else s.coff }, tok)

def afterBroadcast (cfg : Cfg) (s : DS) (pid : Nat) : DS :=
  if cfg.med && s.medAlive then { s with medLatest := some pid } else s

def recoverFold (cfg : Cfg) : Option Tok → List (WPub Tok) → List HP → Option Tok × List String
  | held, w :: ws, h :: hs =>
    let (held1, tok) := clientRecv cfg held w h.pid
    let (held2, toks) := recoverFold cfg held1 ws hs
    (held2, tok :: toks)
  | held, _, _ => (held, [])

def b2s (b : Bool) : String := if b then "1" else "0"

def stepOp (cfg : Cfg) (s : DS) (op : String) : DS × String :=
  let c := tokCodec cfg.tbl cfg.json
  if op.startsWith "p" then
    match (String.ofList (op.toList.drop 1)).splitOn "." with
    | [a, b, d] =>
      match a.toNat?, b.toNat? with
      | some pid, some t =>
        let dflag := d == "1"
        if cfg.histOn then
          let prev := if dflag then (retained cfg s).getLast?.map (fun (x : HP) => x.pid) else none
          let h : HP := { off := s.top + 1, pid := pid, t := t }
          let s1 := { s with hist := s.hist ++ [h], top := s.top + 1, last := some (h, prev) }
          let (s2, out) := deliverLive cfg s1 h prev dflag
          (afterBroadcast cfg s2 pid, "p:" ++ out)
        else
          let h : HP := { off := 0, pid := pid, t := t }
          let s1 := { s with last := some (h, none) }
          let (s2, out) := deliverLive cfg s1 h none dflag
          (afterBroadcast cfg s2 pid, "p:" ++ out)
      | _, _ => (s, "bad-op")
    | _ => (s, "bad-op")
  else if op == "D" then
    match s.last with
    | none => (s, "d:none")
    | some (h, prev) =>
      let (s2, out) := deliverLive cfg s h prev true
      (afterBroadcast cfg s2 h.pid, "d:" ++ out)
  else if op.startsWith "G" then
    match (String.ofList (op.toList.drop 1)).toNat? with
    | some pid =>
      let h : HP := { off := s.top + 2, pid := pid, t := 3 }
      let (s2, out) := deliverLive cfg s h (s.last.map (·.1.pid)) true
      (afterBroadcast cfg s2 pid, "g:" ++ out)
    | none => (s, "bad-op")
  else if op == "U" then
    if !s.subscribed then (s, "u:not")
    else (unsubbed cfg s, "u")
  else if op == "S" || op == "R" then
    if s.subscribed then (s, "s:already") else
    let s0 := if s.medAlive then s else { s with medAlive := true, medLatest := none }
    if cfg.positioned && op == "R" then
      let a := s.coff
      let ret := retained cfg s
      let since := ret.filter (fun h => h.off > a)
      let recovered := if a ≥ s.top then a == s.top
        else match since.head? with
          | some h => h.off == a + 1
          | none => false
      if recovered then
        let kept := since.filter (fun h => passes cfg h.t)
        let ws := makeRecovered c (kept.map mkPub)
        let (held, toks) := recoverFold cfg s.held ws kept
        let coff := match kept.getLast? with | some h => h.off | none => a
        ({ s0 with subscribed := true, flag := true, pos := s.top, held := held, coff := coff },
          s!"s:rec=1:delta=1:[{joinWith "+" toks}]")
      else
        ({ s0 with subscribed := true, flag := false, pos := s.top, coff := s.top }, "s:rec=0:delta=1:[]")
    else
      ({ s0 with subscribed := true, flag := false, pos := s.top,
                 coff := if cfg.positioned then s.top else 0 }, "s:rec=0:delta=1:[]")
  else (s, "bad-op")


/-! ### map scenarios (`mp` lines) -/

structure ME where
  key : Nat
  off : Nat
  pid : Nat
  t : Nat
  removed : Bool := false
deriving Inhabited

structure MS where
  cur : List ME := []          -- server state, one entry per key
  stream : List ME := []
  top : Nat := 0
  subscribed : Bool := false
  vals : List (Nat × Tok) := []
  coff : Nat := 0

def mpPub (e : ME) : Pub Tok := { off := e.off, data := .pay e.pid, key := e.key, removed := e.removed }

def insertSorted (e : ME) : List ME → List ME
  | [] => [e]
  | x :: xs => if e.off ≤ x.off then e :: x :: xs else x :: insertSorted e xs

def mapClientRecv (cfg : Cfg) (vals : List (Nat × Tok)) (w : WPub Tok) (expect : Nat) : List (Nat × Tok) × String :=
  let c := tokCodec cfg.tbl cfg.json
  if w.removed then (Delta.erase vals w.key, "X" ++ toString w.off) else
  let tok := (if w.delta then "D" else "F") ++ toString w.off
  match MapClient.recv c { vals := vals } w with
  | some (cl, t) => if t = .pay expect then (cl.vals, tok) else (Delta.insert vals w.key (.pay expect), tok ++ "!")
  | none => (Delta.insert vals w.key (.pay expect), tok ++ "!")

def mapFold (cfg : Cfg) : List (Nat × Tok) → List (WPub Tok) → List ME → List (Nat × Tok) × List String
  | vals, w :: ws, e :: es =>
    let (v1, tok) := mapClientRecv cfg vals w e.pid
    let (v2, toks) := mapFold cfg v1 ws es
    (v2, tok :: toks)
  | vals, _, _ => (vals, [])

def mpStep (cfg : Cfg) (s : MS) (op : String) : MS × String :=
  let c := tokCodec cfg.tbl cfg.json
  let body := String.ofList (op.toList.drop 1)
  if op.startsWith "p" then
    match body.splitOn "." with
    | [a, k, b, d] =>
      match a.toNat?, k.toNat?, b.toNat? with
      | some pid, some key, some t =>
        let prev := if d == "1" then (s.cur.find? (fun e => e.key == key)).map (fun (e : ME) => e.pid) else none
        let e : ME := { key := key, off := s.top + 1, pid := pid, t := t }
        let s1 := { s with cur := e :: s.cur.filter (fun x => x.key != key), stream := s.stream ++ [e], top := s.top + 1 }
        if s.subscribed then
          let (w, _) := liveStep c true (prev.map Tok.pay) (mpPub e)
          let (vals, tok) := mapClientRecv cfg s.vals w pid
          ({ s1 with vals := vals, coff := e.off }, "p:" ++ tok)
        else (s1, "p:-")
      | _, _, _ => (s, "bad-op")
    | _ => (s, "bad-op")
  else if op.startsWith "x" then
    match body.toNat? with
    | some key =>
      if !(s.cur.any (fun e => e.key == key)) then (s, "x:suppressed") else
      -- the removal publication carries the tags of the entry it removes
      let t0 := ((s.cur.find? (fun e => e.key == key)).map (fun (e : ME) => e.t)).getD 0
      let e : ME := { key := key, off := s.top + 1, pid := 0, t := t0, removed := true }
      let s1 := { s with cur := s.cur.filter (fun x => x.key != key), stream := s.stream ++ [e], top := s.top + 1 }
      if s.subscribed then
        let (w, _) := liveStep c true none (mpPub e)
        let (vals, tok) := mapClientRecv cfg s.vals w 0
        ({ s1 with vals := vals, coff := e.off }, "x:" ++ tok)
      else (s1, "x:-")
    | none => (s, "bad-op")
  else if op == "U" then
    if s.subscribed then ({ s with subscribed := false }, "u") else (s, "u:not")
  else if op == "S" then
    if s.subscribed then (s, "s:already") else
    let entries := (s.cur.filter (fun e => passes cfg e.t)).foldl (fun acc e => insertSorted e acc) []
    let ws := entries.map (fun e => encodeFull c (mpPub e))
    let (vals, toks) := mapFold cfg [] ws entries
    ({ s with subscribed := true, vals := vals, coff := s.top }, s!"s:[{joinWith "+" toks}]:[]")
  else if op == "R" then
    if s.subscribed then (s, "r:already") else
    let since := s.stream.filter (fun e => e.off > s.coff)
    let kept := since.filter (fun e => passes cfg e.t)
    let ws := makeRecoveredMap c (kept.map mpPub)
    let (vals, toks) := mapFold cfg s.vals ws kept
    ({ s with subscribed := true, vals := vals, coff := s.top }, s!"r:rec=1:[{joinWith "+" toks}]")
  else (s, "bad-op")

def runMp (cfg : Cfg) : MS → List String → List String → List String
  | _, [], acc => acc.reverse
  | s, op :: ops, acc =>
    let (s1, out) := mpStep cfg s op
    runMp cfg s1 ops (out :: acc)

def parseTbl (m : String) : Nat → Nat → Nat :=
  let rows := (m.splitOn ".").map (fun r => r.toList.map (fun ch => ch.toNat - '0'.toNat))
  let arr := rows.toArray.map List.toArray
  fun i j => ((arr[i]?).bind (·[j]?)).getD 0

def runOps (cfg : Cfg) : DS → List String → List String → List String
  | _, [], acc => acc.reverse
  | s, op :: ops, acc =>
    let (s1, out) := stepOp cfg s op
    runOps cfg s1 ops (out :: acc)

def step (line : String) : String :=
  let ws := words line
  let g := fun k => (kv ws k).getD ""
  match ws with
  | "st" :: _ =>
    let cfg : Cfg := { json := g "proto" == "json", positioned := g "pos" == "1", histOn := g "hist" == "1",
                       hsize := (kvNat ws "hsize").getD 0, med := g "med" == "1", keep := g "keep" == "1",
                       cf := g "cf" == "1", sf := g "sf" == "1", tbl := parseTbl (g "M") }
    let ops := if g "ops" == "" then [] else (g "ops").splitOn ","
    let s0 : DS := { medAlive := cfg.keep }
    joinWith " | " (runOps cfg s0 ops [])
  | "mp" :: _ =>
    let cfg : Cfg := { json := g "proto" == "json", positioned := true, histOn := true, hsize := 0, med := false,
                       keep := false, cf := g "cf" == "1", sf := g "sf" == "1", tbl := parseTbl (g "M") }
    let ops := if g "ops" == "" then [] else (g "ops").splitOn ","
    joinWith " | " (runMp cfg {} ops [])
  | _ => "bad-op"

def main : IO Unit := runPure step
