import CentrifugeVerif.DriverLib
import CentrifugeVerif.Model.Handshake
import CentrifugeVerif.Model.CloseCode
/-!
Driver for C31 (line protocol, `-` = empty byte string, all strings hex encoded).

* `key <hex>`                      → `valid` | `invalid` | `PANIC`            (`isValidChallengeKey`)
* `accept <hex>`                   → hex of `computeAcceptKey`
* `tok <value> <line>…`            → `1` | `0`                                 (`tokenListContainsValue`)
* `ext <line>…`                    → `name[;k=v…],…` (params sorted by key, last duplicate wins)
* `trim <hex>`                     → hex of `strings.TrimSpace`
* `utf8 <hex>`                     → `1` | `0`
* `codes`                          → accepted received close codes in 0…65535 as ranges
* `up pm=<n> m=<hex> host=<hex> sub=nil|<hex>,… comp=0|1 noh1=0|1 co=nil|0|1|samehost oh=err|<hex> H <name>:<value>…`
                                   → `reject <status> <reason>` | `PANIC` | `h1 <response hex>` | `h2 sub=<hex> ext=0|1`
* `reset`                          → `ok` (fresh server connection)
* `send <code> <reason>`           → `tooLong|already|wrote <frame>` ` cc=<code>,<incoming>`
* `recv <payload>`                 → `protoErr bad|utf8|len w=<frame|none> cc=…` | `close <code> <text> w=<frame|none> cc=…`
* `tclose <code> <reason>`         → `frames=<hex,…|-> cc=…`   (fresh transport, `websocketTransport.Close`)
-/
open CentrifugeVerif DriverLib
open CentrifugeVerif.Sha1 (Bytes ascii)
open CentrifugeVerif.Handshake CentrifugeVerif.CloseCode

def bytesLt : Bytes → Bytes → Bool
  | [], [] => false
  | [], _ :: _ => true
  | _ :: _, [] => false
  | a :: as, b :: bs => if a < b then true else if b < a then false else bytesLt as bs

def insertParam (p : Bytes × Bytes) : List (Bytes × Bytes) → List (Bytes × Bytes)
  | [] => [p]
  | q :: qs => if bytesLt p.1 q.1 then p :: q :: qs else q :: insertParam p qs

/-- Go map semantics: last duplicate wins; output sorted by key. -/
def canonParams (ps : List (Bytes × Bytes)) : List (Bytes × Bytes) :=
  let dedup := ps.foldl (fun acc p => (acc.filter (fun q => q.1 != p.1)) ++ [p]) []
  dedup.foldl (fun acc p => insertParam p acc) []

def showExt (e : Ext) : String :=
  hex e.name ++ String.join ((canonParams e.params).map fun p => ";" ++ hex p.1 ++ "=" ++ hex p.2)

def showReason : Reason → String
  | .h1Disabled => "h1Disabled" | .noUpgradeToken => "noUpgradeToken" | .noWebsocketToken => "noWebsocketToken"
  | .methodNotGet => "methodNotGet" | .badVersion => "badVersion" | .badKey => "badKey"
  | .h2NoProtocol => "h2NoProtocol" | .h2NotConnect => "h2NotConnect" | .badProto => "badProto"
  | .originDenied => "originDenied"

def unhexAll (ws : List String) : Option (List Bytes) := ws.mapM unhex

def parseHeaders (ws : List String) : Option (List (Bytes × Bytes)) :=
  ws.mapM fun w =>
    match w.splitOn ":" with
    | [n, v] => do
      let n ← unhex n
      let v ← unhex v
      pure (canonicalKey n, v)
    | _ => none

def b01 (s : String) : Option Bool := if s == "1" then some true else if s == "0" then some false else none

def stepUp (ws : List String) : String :=
  let kvs := ws.takeWhile (· ≠ "H")
  let hs := (ws.dropWhile (· ≠ "H")).drop 1
  let r : Option String := do
    let pm ← kvNat kvs "pm"
    let m ← (kv kvs "m").bind unhex
    let host ← (kv kvs "host").bind unhex
    let subS ← kv kvs "sub"
    let sub ← if subS == "nil" then some none else (unhexAll (subS.splitOn ",")).map some
    let comp ← (kv kvs "comp").bind b01
    let noh1 ← (kv kvs "noh1").bind b01
    let coS ← kv kvs "co"
    let ohS ← kv kvs "oh"
    let oh ← if ohS == "err" then some none else (unhex ohS).map some
    let headers ← parseHeaders hs
    let req : Request := { protoMajor := pm, method := m, host := host, headers := headers, originHost := oh }
    -- `co=samehost`: the CheckOrigin centrifuge's WebsocketHandler installs by default
    let co ← if coS == "nil" then some none else if coS == "samehost" then some (some (checkSameHost req))
             else (b01 coS).map some
    let cfg : Config := { subprotocols := sub, enableCompression := comp, disableHTTP1Upgrade := noh1, checkOrigin := co }
    pure <| match upgrade cfg req with
      | .reject st why => s!"reject {st} {showReason why}"
      | .panic => "PANIC"
      | .acceptH1 k sub c => "h1 " ++ hex (responseH1 k sub c)
      | .acceptH2 sub c => s!"h2 sub={hex sub} ext={if c then 1 else 0}"
  r.getD "bad-op"

def showCC (c : Conn) : String :=
  let (code, inc) := closeCodeOf c.recorded
  s!"cc={code},{if inc then 1 else 0}"

def showW : WriteRes → String
  | .wrote f => hex f
  | _ => "none"

/-- accepted codes below `n` as `lo-hi` ranges -/
def codeRanges (n : Nat) : String :=
  let rec go (i : Nat) (fuel : Nat) (start : Option Nat) (acc : List String) : List String :=
    match fuel with
    | 0 => (match start with | some s => s!"{s}-{i - 1}" :: acc | none => acc).reverse
    | f + 1 =>
      if isValidReceivedCloseCode i then go (i + 1) f (start.orElse fun _ => some i) acc
      else match start with
        | some s => go (i + 1) f none (s!"{s}-{i - 1}" :: acc)
        | none => go (i + 1) f none acc
  joinWith "," (go 0 n none [])

def step (c : Conn) (line : String) : Conn × String :=
  match words line with
  | ["key", h] => (c, match unhex h with
      | some k => (match isValidChallengeKey k with | .valid => "valid" | .invalid => "invalid" | .panic => "PANIC")
      | none => "bad-op")
  | ["accept", h] => (c, match unhex h with | some k => hex (computeAcceptKey k) | none => "bad-op")
  | "tok" :: v :: ls => (c, match unhex v, unhexAll ls with
      | some v, some ls => if tokenListContains ls v then "1" else "0"
      | _, _ => "bad-op")
  | "ext" :: ls => (c, match unhexAll ls with
      | some ls =>
        let es := parseExtensions ls
        if es.isEmpty then "-" else joinWith "," (es.map showExt)
      | none => "bad-op")
  | ["trim", h] => (c, match unhex h with | some s => hex (trimSpace s) | none => "bad-op")
  | ["utf8", h] => (c, match unhex h with | some s => (if utf8Valid s then "1" else "0") | none => "bad-op")
  | ["codes"] => (c, codeRanges 65536)
  | "up" :: rest => (c, stepUp rest)
  | ["reset"] => ({}, "ok")
  | ["send", code, reason] =>
    match code.toNat?, unhex reason with
    | some code, some reason =>
      let (c', w) := writeClose c (formatCloseMessage code reason)
      let s := match w with
        | .tooLong => "tooLong"
        | .closeAlreadySent => "already"
        | .wrote f => "wrote " ++ hex f
      (c', s ++ " " ++ showCC c')
    | _, _ => (c, "bad-op")
  | ["recv", payload] =>
    match unhex payload with
    | some p =>
      if p.length > 125 then (c, "bad-op") else
      let (c', r, w) := recvClose c p
      let s := match r with
        | .protoErr .badCode => "protoErr bad"
        | .protoErr .badUtf8 => "protoErr utf8"
        | .protoErr .badLength => "protoErr len"
        | .closeError code text => s!"close {code} {hex text}"
      (c', s!"{s} w={showW w} {showCC c'}")
    | none => (c, "bad-op")
  | ["tclose", code, reason] =>
    match code.toNat?, unhex reason with
    | some code, some reason =>
      let (c', fs) := transportClose {} code reason
      (c, s!"frames={if fs.isEmpty then "-" else joinWith "," (fs.map hex)} {showCC c'}")
    | _, _ => (c, "bad-op")
  | _ => (c, "bad-op")

def main : IO Unit := runState step ({} : Conn)
