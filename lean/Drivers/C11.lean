import CentrifugeVerif.DriverLib
import CentrifugeVerif.Model.ConnProtoEncoder
/-!
Driver for C11: replays label sequences on the two transition systems of
`Model/ConnProtoEncoder.lean`.
  c dict=0|1 <labels: add reply push>      → `frames=C|ZC|P|ZP,…` or `rejected`
  e rwq=0|1 <labels: qLock qBegin qEnd dLoad dBegin dEnd closeWriter closeEncoder closeTransport>
                                            → `encodes=… closes=… inflight=… violated=0|1` or `rejected`
-/
open CentrifugeVerif DriverLib ConnProtoEncoder

def cLabel? : String → Option CLabel
  | "add" => some .addClient | "reply" => some .writeReply | "push" => some .push | _ => none

def eLabel? : String → Option ELabel
  | "qLock" => some .qLock | "qBegin" => some .qBegin | "qEnd" => some .qEnd
  | "dLoad" => some .dLoad | "dBegin" => some .dBegin | "dEnd" => some .dEnd
  | "closeWriter" => some .closeWriter | "closeEncoder" => some .closeEncoder
  | "closeTransport" => some .closeTransport | _ => none

def showFrame : Frame → String
  | .connectReply e => (if e then "Z" else "") ++ "C"
  | .push e => (if e then "Z" else "") ++ "P"

def stepLine (line : String) : String :=
  match words line with
  | "c" :: rest =>
    let labels := (rest.filter (fun w => !w.contains '=')).filterMap cLabel?
    match crun { dict := (kv rest "dict") == some "1" } labels with
    | some s => "frames=" ++ (if s.frames.isEmpty then "-" else joinWith "," (s.frames.map showFrame))
    | none => "rejected"
  | "e" :: rest =>
    let labels := (rest.filter (fun w => !w.contains '=')).filterMap eLabel?
    match erun { rwq := (kv rest "rwq") == some "1" } labels with
    | some s => s!"encodes={s.encodes} closes={s.closes} inflight={s.inFlight} violated={if s.violated then 1 else 0}"
    | none => "rejected"
  | _ => "bad-op"

def main : IO Unit := runPure stepLine
