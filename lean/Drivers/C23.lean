import CentrifugeVerif.DriverLib
import CentrifugeVerif.Model.LuaRedis
import CentrifugeVerif.Gen.Lua.BrokerHistoryAddStream
import CentrifugeVerif.Gen.Lua.BrokerHistoryAddList
import CentrifugeVerif.Gen.Lua.BrokerHistoryStream
import CentrifugeVerif.Gen.Lua.BrokerHistoryList
import CentrifugeVerif.Gen.Lua.BrokerPublishIdempotent
import CentrifugeVerif.Gen.Lua.MapBrokerAdd
import CentrifugeVerif.Gen.Lua.MapBrokerStreamRead
import CentrifugeVerif.Gen.Lua.MapBrokerReadOrdered
import CentrifugeVerif.Gen.Lua.MapBrokerReadUnordered
/-!
Driver for C23 (also used by the C18 real-glue run): the **Redis server side** as a line-protocol
service.  The Go harness runs the real `RedisMapBroker` / `RedisBroker` against an in-process fake
RESP2 endpoint and forwards every command to this driver, which holds the Redis model state and
executes the translated Lua scripts.

```
reset                                   -> ok
S <now_ms> <script> <nkeys> <hex> …     -> <reply>      EVALSHA/EVAL of a known script
R <now_ms> <hex> …                      -> <reply>      any other command (first <hex> = name)
outbox                                  -> <cmd>/<chan>/<payload> … | -   messages PUBLISHed since the last call
```
`<hex>` = hex of the byte string (`-` = empty; bytes are mapped to Latin-1 characters).
`<reply>` (prefix notation, one line): `:<int>` | `$<hex>` | `_` (nil) | `+<hex>` (status) |
`-<hex>` (error reply) | `*<n> <reply>…` | `!<hex>` (the op left the modelled subset).
-/
open CentrifugeVerif DriverLib Lua Redis LuaRedis

def bytesToStr (bs : List UInt8) : String := String.ofList (bs.map fun b => Char.ofNat b.toNat)
def strToBytes (s : String) : List UInt8 := s.toList.map fun c => UInt8.ofNat c.toNat
def hexS (s : String) : String := hex (strToBytes s)
def unhexS (w : String) : Option String := (unhex w).map bytesToStr

partial def fmtResp : Resp → String
  | .int i => s!":{i}"
  | .bulk s => "$" ++ hexS s
  | .nil => "_"
  | .status s => "+" ++ hexS s
  | .arr l => s!"*{l.length}" ++ String.join (l.map fun r => " " ++ fmtResp r)

def fmtErr : LuaErr → String
  | .runtime m => "-" ++ hexS m
  | .unsupported m => "!" ++ hexS m

def scriptByName (n : String) : Option (LVal → LVal → RedisM LVal) :=
  match n with
  | "broker_history_add_stream" => some Gen.Lua.broker_history_add_stream
  | "broker_history_add_list" => some Gen.Lua.broker_history_add_list
  | "broker_history_stream" => some Gen.Lua.broker_history_stream
  | "broker_history_list" => some Gen.Lua.broker_history_list
  | "broker_publish_idempotent" => some Gen.Lua.broker_publish_idempotent
  | "map_broker_add" => some Gen.Lua.map_broker_add
  | "map_broker_stream_read" => some Gen.Lua.map_broker_stream_read
  | "map_broker_read_ordered" => some Gen.Lua.map_broker_read_ordered
  | "map_broker_read_unordered" => some Gen.Lua.map_broker_read_unordered
  | _ => none

def step (r : Redis) (line : String) : Redis × String :=
  match words line with
  | ["reset"] => ({}, "ok")
  | ["outbox"] =>
    ({ r with out := [] },
      if r.out.isEmpty then "-" else
      joinWith " " (r.out.map fun m => hexS m.cmd ++ "/" ++ hexS m.chan ++ "/" ++ hexS m.payload))
  | "S" :: now :: name :: nk :: rest =>
    match parseNat now, parseNat nk, rest.mapM unhexS, scriptByName name with
    | some now, some nk, some args, some body =>
      if nk > args.length then (r, "bad-op") else
      match runScript body (args.take nk) (args.drop nk) now r with
      | (.ok resp, r') => (r', fmtResp resp)
      | (.error e, r') => (r', fmtErr e)
    | _, _, _, none => (r, "!" ++ hexS s!"script {name} is not translated")
    | _, _, _, _ => (r, "bad-op")
  | "R" :: now :: rest =>
    match parseNat now, rest.mapM unhexS with
    | some now, some (name :: args) =>
      let r0 := r.setNow now
      match exec r0 (strLower name) args with
      | .ok (resp, r') => (r', fmtResp resp)
      | .error e => (r0, fmtErr e)
    | _, _ => (r, "bad-op")
  | _ => (r, "bad-op")

partial def loop (h out : IO.FS.Stream) (r : Redis) : IO Unit := do
  let line ← h.getLine
  if line.isEmpty then return ()
  let (r', o) := step r (stripEOL line)
  out.putStrLn o
  out.flush
  loop h out r'

def main : IO Unit := do
  let i ← IO.getStdin
  let o ← IO.getStdout
  loop i o {}
