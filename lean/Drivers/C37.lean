import CentrifugeVerif.DriverLib
import CentrifugeVerif.Model.Limits
/-!
Driver for C37 (channel limit / channel name length).  One op per line:
  `reset limit= maxlen=` · `sub ch= len= kind=<r|m|p|s> async=<0|1> ok=<0|1>` · `complete i=` · `page ch= len=` ·
  `unsub ch=` · `ssub ch=`
Output: `res=<…> n=<len(channels)> m=<len(mapSubscribing)> subs=<client-side subscriptions>`.
-/
open CentrifugeVerif DriverLib Limits

structure Pending where
  ch : Nat
  gen : Nat
  isMap : Bool
  ok : Bool
  done : Bool := false

structure St where
  s : LState := { limit := 0, maxLen := 0 }
  pending : List Pending := []
  /-- paged map subscribes that served their first state page: channel ↦ generation -/
  loading : List (Nat × Nat) := []

def fmt (s : LState) (res : String) : String :=
  s!"res={res} n={s.channels.length} m={s.mapSubscribing.length} subs={s.clientSubs}"

def resStr : Res → String
  | .ok _ => "ok" | .badRequest => "bad" | .alreadySubscribed => "already" | .limitExceeded => "limit"
  | .disconnectChannelLimit => "disconnect" | .nothing => "none"

/-- the part of a subscribe that runs once the `OnSubscribe` handler has answered -/
def finish (s : LState) (p : Pending) : LState × String :=
  if p.isMap then
    if !p.ok then (s, "failed") else
    match step s (.mapReserve p.ch) with
    | (s1, .ok g) => ((step s1 (.mapCommit p.ch g)).1, "ok")
    | (s1, r) => (s1, resStr r)
  else
    if p.ok then
      match step s (.complete p.ch p.gen true) with
      | (s1, .ok _) => (s1, "ok")
      | (s1, _) => (s1, "lost")
    else ((step s (.complete p.ch p.gen false)).1, "failed")

def stepLine (st : St) (line : String) : St × String :=
  if st.s.closed ∧ (words line).head? ≠ some "reset" ∧ (words line).head? ≠ some "slow" then (st, "dead") else
  match words line with
  | "slow" :: _ => ({}, "skip")
  | "reset" :: rest =>
    match kvNat rest "limit", kvNat rest "maxlen" with
    | some l, some m => ({ s := { limit := l, maxLen := m }, pending := [] }, "reset")
    | _, _ => (st, "bad-op")
  | "sub" :: rest =>
    match kvNat rest "ch", kvNat rest "len", kv rest "kind", kvNat rest "async", kvNat rest "ok" with
    | some ch, some len, some kind, some async, some ok =>
      if kind == "p" then
        -- paged map subscribe (handler answers at once): validate, reserve, first page served
        match step st.s (.subMapValidate ch len) with
        | (s1, .ok _) =>
          match step s1 (.mapReserve ch) with
          | (s2, .ok g) => ({ st with s := s2, loading := (st.loading.filter (·.1 ≠ ch)) ++ [(ch, g)] }, fmt s2 "loading")
          | (s2, r) => ({ st with s := s2 }, fmt s2 (resStr r))
        | (s1, r) => ({ st with s := s1 }, fmt s1 (resStr r))
      else
      let isMap := kind == "m"
      let (s1, r) := step st.s (if isMap then .subMapValidate ch len else if kind == "s" then .subPoll ch len
        else .subReg ch len)
      match r with
      | .ok g =>
        let p : Pending := { ch := ch, gen := g, isMap := isMap, ok := ok != 0 }
        if async != 0 then ({ st with s := s1, pending := st.pending ++ [p] }, fmt s1 "pending")
        else let (s2, o) := finish s1 p; ({ st with s := s2 }, fmt s2 o)
      | _ =>
        let slot : Pending := { ch := ch, gen := 0, isMap := isMap, ok := false, done := true }
        ({ st with s := s1, pending := if async != 0 then st.pending ++ [slot] else st.pending }, fmt s1 (resStr r))
    | _, _, _, _, _ => (st, "bad-op")
  | "complete" :: rest =>
    match kvNat rest "i" with
    | some i =>
      match st.pending[i]? with
      | some p =>
        if p.done then (st, "bad-op") else
        let (s2, o) := finish st.s p
        ({ st with s := s2, pending := st.pending.set i { p with done := true } }, fmt s2 o)
      | none => (st, "bad-op")
    | none => (st, "bad-op")
  | "page" :: rest =>
    match kvNat rest "ch" with
    | some ch =>
      match st.loading.find? (·.1 = ch) with
      | some (_, g) =>
        let (s1, r) := step st.s (.mapCommit ch g)
        ({ st with s := s1, loading := st.loading.filter (·.1 ≠ ch) },
          fmt s1 (match r with | .ok _ => "ok" | _ => "lost"))
      | none => (st, "bad-op")
    | none => (st, "bad-op")
  | "unsub" :: rest =>
    match kvNat rest "ch" with
    | some ch => let s1 := (step st.s (.unsub ch)).1; ({ st with s := s1 }, fmt s1 "none")
    | none => (st, "bad-op")
  | "ssub" :: rest =>
    match kvNat rest "ch" with
    | some ch => let (s1, r) := step st.s (.serverSub ch); ({ st with s := s1 }, fmt s1 (resStr r))
    | none => (st, "bad-op")
  | _ => (st, "bad-op")

def main : IO Unit := runState stepLine {}
