import CentrifugeVerif.DriverLib
import CentrifugeVerif.Model.HistoryHubLine
/-!
Driver for C17 (memory stream broker): the line protocol of `Model/HistoryHubLine.lean`.
-/
open CentrifugeVerif DriverLib HistoryHub

def main : IO Unit := runState stepLine ({} : DState)
