import CentrifugeVerif.DriverLib
import CentrifugeVerif.Model.Merge
/-!
Driver for C39.  Line: `merge <pubs> | <pubs>` with `<pubs>` = space separated `offset:filtered`
(filtered ∈ {0,1}); ids are assigned by position (recovered first).  Output:
`ok=1 offs=o1,o2,… max=m` or `ok=0`.
-/
open CentrifugeVerif DriverLib Merge

def parsePubs (ws : List String) (start : Nat) : Option (List MPub) :=
  let rec go : List String → Nat → List MPub → Option (List MPub)
    | [], _, acc => some acc.reverse
    | w :: rest, i, acc =>
      match w.splitOn ":" with
      | [o, f] =>
        match o.toNat?, f with
        | some n, "0" => go rest (i + 1) ({ offset := n, filtered := false, id := i } :: acc)
        | some n, "1" => go rest (i + 1) ({ offset := n, filtered := true, id := i } :: acc)
        | _, _ => none
      | _ => none
  go ws start []

def step (line : String) : String :=
  match words line with
  | "merge" :: rest =>
    let recW := rest.takeWhile (· ≠ "|")
    let bufW := (rest.dropWhile (· ≠ "|")).drop 1
    match parsePubs recW 0 with
    | none => "bad-op"
    | some r =>
      match parsePubs bufW r.length with
      | none => "bad-op"
      | some b =>
        match merge r b with
        | none => "ok=0"
        | some (l, m) =>
          s!"ok=1 offs={joinWith "," (l.map (fun p => toString p.offset))} max={m}"
  | _ => "bad-op"

def main : IO Unit := runPure step
