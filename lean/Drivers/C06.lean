import CentrifugeVerif.DriverLib
import CentrifugeVerif.Model.PresenceHub
import CentrifugeVerif.Model.PresenceProto
/-!
Driver for C06 (store part).  Stateful; lines:
`reset` → `ok`; `add <ch> <uid> <clientID> <userID>` → `ok`; `rm <ch> <uid>` → `ok`;
`get <ch>` → `nil` or `uid=clientID/userID,…` sorted by uid; `stats <ch>` → `clients=<n> users=<n>`.
-/
open CentrifugeVerif DriverLib PresenceHub


/-! ## protocol part: harness-level labels over `PresenceProto.next`

`prun quiet=<b> | <hlabel>…` replays, `pgen quiet=<b> | <n>…` builds a schedule (random part, then all
live actors are run to their end so that the final state is settled).  Harness labels: `S` (spawn /
advance the subscribe attempt), `Sf` (OnSubscribe handler answers with an error), `Sl` (history read
fails after presence was added), `U` (Client.Unsubscribe), `C` (close), `T` (presence tick).
Output: `chan=<none|res|sub> present=<b> live=<actor@gate,…> settled=<b>`. -/
namespace PP
open CentrifugeVerif.PresenceProto

def seqL (cfg : Cfg) (s : State) : List Label → Option State
  | [] => some s
  | l :: ls => (next cfg s l).bind (fun s' => seqL cfg s' ls)

/-- unsubscribe calls blocked on `subscribingCh` continue by themselves once the attempt ended -/
def autoWake (cfg : Cfg) (s : State) : State :=
  let s1 := match s.U with
    | some u =>
      if u.pc = UPc.waiting && s.S.isNone then
        match next cfg s .uWake with
        | some s' => (match s'.U with
            | some u' => if u'.pc = UPc.toRemove then (next cfg s' .uRemove).getD s' else s'
            | none => s')
        | none => s
      else s
    | none => s
  match s1.C with
  | some (.locked (some u)) =>
    if u.pc = UPc.waiting && s1.S.isNone then
      match next cfg s1 .cWake with
      | some s' => (match s'.C with
          | some (.locked (some u')) => if u'.pc = UPc.toRemove then (next cfg s' .cRemove).getD s' else s'
          | _ => s')
      | none => s1
    else s1
  | _ => s1

def hstep (cfg : Cfg) (s : State) (lab : String) : Option State :=
  -- harness restriction (not a model restriction): while close() is parked inside Transport.Close it
  -- holds connectMu, and a subscribe step that ends in a reply/disconnect write on the closed writer
  -- spawns another close() goroutine that would sit on that mutex (invisible to synctest.Wait)
  let cMarked := match s.C with | some (.marked _) => true | _ => false
  let sWrites := match lab, s.S with
    | "S", some t => t.pc != SPc.toAdd
    | "Sf", _ => true
    | "Sl", _ => true
    | _, _ => false
  if cMarked && sWrites then none else
  let r : Option State :=
    match lab with
    | "S" =>
      match s.S with
      | none => next cfg s .sSpawn
      | some t =>
        match t.pc with
        | .reserved => next cfg s .sCheck
        | .toAdd => next cfg s .sAdd
        | .toCommit => (next cfg s .sCommit).bind fun s' =>
            match s'.S with
            | some _ => next cfg s' .sRollback
            | none => some s'
        | .rollback => next cfg s .sRollback
    | "Sf" => next cfg s .sFail
    | "Sl" => next cfg s .sFailLate
    | "U" =>
      match s.U with
      | none => (next cfg s .uSpawn).bind fun s' =>
          match s'.U with
          | some u => if u.pc = .toRemove then next cfg s' .uRemove else some s'
          | none => some s'
      | some u => if u.pc = .toPresence then next cfg s .uPresence else none
    | "C" =>
      match s.C with
      | none => next cfg s .cMark
      | some (.marked _) => (next cfg s .cLock).bind fun s1 =>
          match s1.C with
          | some (.locked none) => (next cfg s1 .cSnap).bind fun s2 =>
              match s2.C with
              | some (.locked (some u)) => if u.pc = .toRemove then next cfg s2 .cRemove else some s2
              | _ => some s2
          | _ => some s1
      | some (.locked (some u)) => if u.pc = .toPresence then next cfg s .cPresence else none
      | _ => none
    | "T" =>
      let comp (s' : State) : Option State := next cfg s' .tCompensate
      match s.T with
      | none => next cfg s .tStart
      | some t =>
        match t.pc with
        | .alive => (next cfg s .tCheck).bind fun s1 =>
            match s1.T with
            | some t1 => if t1.pc = .compensate then comp s1 else some s1
            | none => some s1
        | .toAdd => (next cfg s .tAdd).bind comp
        | .compensate => comp s
        | .toRemove => next cfg s .tRemove
    | _ => none
  r.map (autoWake cfg)

def insS (x : String) : List String → List String
  | [] => [x]
  | y :: ys => if x ≤ y then x :: y :: ys else y :: insS x ys

def liveKeys (s : State) : List String :=
  let a := match s.S with
    | some t => (match t.pc with
        | .reserved => ["S@onsub"] | .toAdd => ["S@addpres"] | .toCommit => ["S@history"] | .rollback => ["S@?"])
    | none => []
  let b := match s.U with
    | some u => (match u.pc with | .waiting => ["U@wait"] | .toRemove => ["U@?"] | .toPresence => ["U@rmpres"])
    | none => []
  let c := match s.C with
    | some (.marked _) => ["C@tclose"]
    | some (.locked none) => ["C@?"]
    | some (.locked (some u)) =>
      (match u.pc with | .waiting => ["C@wait"] | .toRemove => ["C@?"] | .toPresence => ["C@rmpres"])
    | _ => []
  let d := match s.T with
    | some t => (match t.pc with
        | .alive => ["T@alive"] | .toAdd => ["T@addpres"] | .compensate => ["T@?"] | .toRemove => ["T@rmpres"])
    | none => []
  (a ++ b ++ c ++ d).foldr insS []

def render (s : State) : String :=
  let ch := match s.chan with | none => "none" | some (_, false) => "res" | some (_, true) => "sub"
  let b (x : Bool) : String := if x then "1" else "0"
  s!"chan={ch} present={b s.present} live={joinWith "," (liveKeys s)} settled={b (Settled s)}"

def liveStr (s : State) : String := joinWith "," (liveKeys s)

def runLabels (cfg : Cfg) : State → List String → Nat → List String → Except Nat (State × List String)
  | s, [], _, tr => .ok (s, tr.reverse)
  | s, l :: ls, i, tr =>
    match hstep cfg s l with
    | none => .error i
    | some s' => runLabels cfg s' ls (i + 1) (liveStr s' :: tr)

def candidates : List String := ["S", "S", "S", "Sf", "Sl", "U", "U", "C", "T", "T", "T"]

def genLabels (cfg : Cfg) : State → List Nat → List String → List String → State × List String × List String
  | s, [], acc, tr => (s, acc, tr)
  | s, r :: rs, acc, tr =>
    let en := candidates.filterMap fun l => (hstep cfg s l).map fun s' => (l, s')
    match en[r % (max en.length 1)]? with
    | none => (s, acc, tr)
    | some (l, s') => genLabels cfg s' rs (acc ++ [l]) (tr ++ [liveStr s'])

/-- run every live actor to its end (no new actors) -/
def finish (cfg : Cfg) : Nat → State → List String → List String → State × List String × List String
  | 0, s, acc, tr => (s, acc, tr)
  | fuel + 1, s, acc, tr =>
    if Settled s then (s, acc, tr)
    else
      let tryL (l : String) (live : Bool) : Option (String × State) :=
        if live then (hstep cfg s l).map fun s' => (l, s') else none
      let cLive := match s.C with | some .done => false | some _ => true | none => false
      match (tryL "S" s.S.isSome).orElse fun _ => (tryL "T" s.T.isSome).orElse fun _ =>
            (tryL "U" s.U.isSome).orElse fun _ => tryL "C" cLive with
      | some (l, s') => finish cfg fuel s' (acc ++ [l]) (tr ++ [liveStr s'])
      | none => (s, acc, tr)

def protoStep (ws : List String) : String :=
  let headW := ws.takeWhile (· ≠ "|")
  let tailW := (ws.dropWhile (· ≠ "|")).drop 1
  match headW with
  | "prun" :: cfgW =>
    let cfg : Cfg := { quietResub := kv cfgW "quiet" == some "1" }
    match runLabels cfg {} tailW 0 [] with
    | .ok (s, tr) => s!"{render s} trail={joinWith "/" tr}"
    | .error i => s!"disabled@{i}"
  | "pgen" :: cfgW =>
    let cfg : Cfg := { quietResub := kv cfgW "quiet" == some "1" }
    let (s1, l1, t1) := genLabels cfg {} (tailW.filterMap String.toNat?) [] []
    let (s2, l2, t2) := finish cfg 40 s1 l1 t1
    s!"labels={joinWith "," l2} {render s2} trail={joinWith "/" t2}"
  | _ => "bad-op"

end PP

def insBy (x : String × Info) : List (String × Info) → List (String × Info)
  | [] => [x]
  | y :: ys => if x.1 ≤ y.1 then x :: y :: ys else y :: insBy x ys

def step (h : Hub) (line : String) : Hub × String :=
  match words line with
  | ["reset"] => ([], "ok")
  | ["add", ch, uid, cid, user] => (add ch uid ⟨cid, user⟩ h, "ok")
  | ["rm", ch, uid] => (remove ch uid h, "ok")
  | ["get", ch] =>
    match get ch h with
    | none => (h, "nil")
    | some m =>
      let s := m.foldr insBy []
      (h, joinWith "," (s.map fun (k, i) => s!"{k}={i.clientID}/{i.userID}"))
  | ["stats", ch] =>
    let st := getStats ch h
    (h, s!"clients={st.numClients} users={st.numUsers}")
  | ws => (h, PP.protoStep ws)



def main : IO Unit := runState step ([] : Hub)
