import CentrifugeVerif.DriverLib
import CentrifugeVerif.Model.PresenceHub
/-!
Driver for C06 (store part).  Stateful; lines:
`reset` → `ok`; `add <ch> <uid> <clientID> <userID>` → `ok`; `rm <ch> <uid>` → `ok`;
`get <ch>` → `nil` or `uid=clientID/userID,…` sorted by uid; `stats <ch>` → `clients=<n> users=<n>`.
-/
open CentrifugeVerif DriverLib PresenceHub

def insBy (x : String × Info) : List (String × Info) → List (String × Info)
  | [] => [x]
  | y :: ys => if x.1 ≤ y.1 then x :: y :: ys else y :: insBy x ys

def step (h : Hub) (line : String) : Hub × String :=
  match words line with
  | ["reset"] => ([], "ok")
  | ["add", ch, uid, cid, user] => (add ch uid ⟨cid, user⟩ h, "ok")
  | ["rm", ch, uid] => (remove ch uid h, "ok")
  | ["get", ch] =>
    match get ch h with
    | none => (h, "nil")
    | some m =>
      let s := m.foldr insBy []
      (h, joinWith "," (s.map fun (k, i) => s!"{k}={i.clientID}/{i.userID}"))
  | ["stats", ch] =>
    let st := getStats ch h
    (h, s!"clients={st.numClients} users={st.numUsers}")
  | _ => (h, "bad-op")

def main : IO Unit := runState step ([] : Hub)
