import CentrifugeVerif.Model.RecoveryDriver
/-! Driver for C02: the recovery line protocol of `Model/RecoveryDriver.lean`. -/
open CentrifugeVerif DriverLib Recovery

def main : IO Unit := runState step initHub
