import CentrifugeVerif.DriverLib
import CentrifugeVerif.Model.Filter
/-!
Driver for C15.  Lines (strings hex encoded, `-` = empty):

  eval <khex:vhex>* | <tree>   -> validate=<ok|err:kind|PANIC> match=<true|false|err:kind|PANIC> hash=<hex>
  dec <ahex> <bhex>            -> pa=<0|1> pb=<0|1> cmp=<-1|0|1|na>

<tree> = N <op> <key> <cmp> <val> <nvals> <val>* <nchildren> <child>*,  child = <tree> | Z
-/
open CentrifugeVerif DriverLib Filter Decimal

def mapOpt {α β : Type} (f : α → Option β) : List α → Option (List β)
  | [] => some []
  | x :: xs => match f x, mapOpt f xs with
    | some y, some ys => some (y :: ys)
    | _, _ => none

mutual
partial def parseNode : List String → Option (Node × List String)
  | "N" :: op :: key :: cmp :: val :: nv :: rest =>
    match unhex op, unhex key, unhex cmp, unhex val, nv.toNat? with
    | some op, some key, some cmp, some val, some nv =>
      if rest.length < nv + 1 then none else
      match mapOpt unhex (rest.take nv), rest.drop nv with
      | some vals, nc :: rest =>
        match nc.toNat? with
        | some nc =>
          match parseNodes nc rest with
          | some (ns, rest) => some (Node.mk op key cmp val vals ns, rest)
          | none => none
        | none => none
      | _, _ => none
    | _, _, _, _, _ => none
  | _ => none
partial def parseNodes : Nat → List String → Option (Nodes × List String)
  | 0, rest => some (.nil, rest)
  | k + 1, "Z" :: rest =>
    match parseNodes k rest with
    | some (ns, r) => some (.null ns, r)
    | none => none
  | k + 1, rest =>
    match parseNode rest with
    | some (n, r) =>
      match parseNodes k r with
      | some (ns, r2) => some (.cons n ns, r2)
      | none => none
    | none => none
end

def parseTag (w : String) : Option (Str × Str) :=
  match w.splitOn ":" with
  | [k, v] => match unhex k, unhex v with
    | some k, some v => some (k, v)
    | _, _ => none
  | _ => none

def showVErr : VErr → String
  | .noCmp => "noCmp" | .needVal => "needVal" | .noVals => "noVals" | .needVals => "needVals"
  | .noVal => "noVal" | .exNoValVals => "exNoValVals" | .unknownCmp => "unknownCmp"
  | .needKey => "needKey" | .emptyChildren => "emptyChildren" | .notArity => "notArity" | .badOp => "badOp"

def showV : VRes → String
  | .ok => "ok"
  | .err e => "err:" ++ showVErr e
  | .panic => "PANIC"

def showM : MRes → String
  | .val true => "true"
  | .val false => "false"
  | .err .badCmp => "err:badCmp"
  | .err .notArity => "err:notArity"
  | .err .badOp => "err:badOp"
  | .panic => "PANIC"

def step (line : String) : String :=
  match words line with
  | ["dec", a, b] =>
    match unhex a, unhex b with
    | some a, some b =>
      let pa := Decimal.parse a
      let pb := Decimal.parse b
      let c := match pa, pb with
        | some x, some y => toString (Decimal.cmp x y)
        | _, _ => "na"
      s!"pa={if pa.isSome then 1 else 0} pb={if pb.isSome then 1 else 0} cmp={c}"
    | _, _ => "bad-op"
  | "eval" :: rest =>
    let tagW := rest.takeWhile (· ≠ "|")
    let treeW := (rest.dropWhile (· ≠ "|")).drop 1
    match mapOpt parseTag tagW, parseNode treeW with
    | some tags, some (n, []) =>
      s!"validate={showV (validate n)} match={showM (Match tags n)} hash={hex (hashInput n)}"
    | _, _ => "bad-op"
  | _ => "bad-op"

def main : IO Unit := runPure step
