import CentrifugeVerif.DriverLib
import CentrifugeVerif.Model.BPool
/-!
Driver for C42: validates a trace *observed on the Go pools* against the nondeterministic model.

Lines (see props/C42/harness): the check annotates the implementation's answers onto the op
lines, so that the model can be asked "is this observed step one of my allowed steps, and what
do I say the buffer looks like":

  idx <v>                                  -> next=.. prev=.. nextG=.. prevG=.. inextG=.. iprevG=..
                                              (i… = writer.go's copies of the guarded helpers)
  reset <bytes|slices|items>               -> ok
  new <kind> <slot> <cap> buf=<id>         -> buf=<id>
  get <kind> <n> <slot> via=<id> new=<b>   -> buf=<id> new=<b> len=.. cap=.. dirty=.. hdirty=..
                                              | PANIC | not-allowed …
  get <kind> <n> <slot> via=panic          -> what the model says for a pool miss
  put <kind> <slot> <len> <mode>           -> ok | bad-slot | PANIC
-/
open CentrifugeVerif DriverLib BPool

structure DS where
  kind : Kind
  pools : Pools
  ids : Nat → List Nat
  slots : List (String × (Nat × Buf))

def DS.init : DS := ⟨.bytes, Pools.empty, fun _ => [], []⟩

def parseKind : String → Option Kind
  | "bytes" => some .bytes
  | "slices" => some .slices
  | "items" => some .items
  | _ => none

def buckets : List Nat := List.range 40

def findId (ids : Nat → List Nat) (id : Nat) : Option (Nat × Nat) :=
  buckets.findSome? fun i =>
    match (ids i).idxOf? id with
    | some pos => some (i, pos)
    | none => none

def modelGet (k : Kind) (p : Pools) (n : Int) (c : Option Nat) : Pools × Res :=
  match k with
  | .bytes => getByteBuffer p n c
  | .slices => getByteSlicesBuf p n c
  | .items => getItemBuf p n c

def modelPut (k : Kind) (p : Pools) (b : Buf) : Pools × Res :=
  match k with
  | .bytes => putByteBuffer p b
  | .slices => putByteSlicesBuf p b
  | .items => putItemBuf p b

def countDirty (l : List Bool) : Nat := (l.filter id).length

def showBuf (id : Nat) (nw : String) (b : Buf) : String :=
  s!"buf={id} new={nw} len={b.len} cap={b.cap} dirty={countDirty b.vis} hdirty={countDirty b.hid}"

def setSlot (slots : List (String × (Nat × Buf))) (s : String) (v : Nat × Buf) :=
  (s, v) :: slots.filter (fun x => x.1 ≠ s)

def fill (mode : String) (len : Nat) (cells : List Bool) : List Bool :=
  match mode with
  | "z" => cells.map (fun _ => false)
  | "v" => (List.range cells.length).map (fun i => decide (i < len))
  | "h" => (List.range cells.length).map (fun i => decide (i ≥ len))
  | "a" => cells.map (fun _ => true)
  | _ => cells

def step (s : DS) (line : String) : DS × String :=
  match words line with
  | ["idx", v] =>
    match v.toNat? with
    | some v => (s, s!"next={nextLogBase2 v} prev={prevLogBase2 v} nextG={nextLogBase2G v} prevG={prevLogBase2G v} inextG={nextLogBase2G v} iprevG={prevLogBase2G v}")
    | none => (s, "bad-op")
  | ["reset", k] =>
    match parseKind k with
    | some k => ({ DS.init with kind := k }, "ok")
    | none => (s, "bad-op")
  | "new" :: _k :: slot :: cp :: rest =>
    match cp.toNat?, kvNat rest "buf" with
    | some cp, some id => ({ s with slots := setSlot s.slots slot (id, Buf.fresh 0 cp) }, s!"buf={id}")
    | _, _ => (s, "bad-op")
  | "get" :: _k :: n :: slot :: rest =>
    match n.toInt?, kv rest "via" with
    | some n, some "panic" =>
      let (p', r) := modelGet s.kind s.pools n none
      match r with
      | .panic => ({ s with pools := p' }, "PANIC")
      | .buf b => ({ s with pools := p' }, "model-no-panic " ++ showBuf 0 "1" b)
    | some n, some via =>
      match via.toNat?, kv rest "new" with
      | some id, some "1" =>
        let (p', r) := modelGet s.kind s.pools n none
        match r with
        | .panic => ({ s with pools := p' }, "PANIC")
        | .buf b => ({ s with pools := p', slots := setSlot s.slots slot (id, b) }, showBuf id "1" b)
      | some id, some "0" =>
        match findId s.ids id with
        | none => (s, s!"not-allowed buffer {id} is not pooled in the model")
        | some (i, pos) =>
          let (p', r) := modelGet s.kind s.pools n (some pos)
          if (p' i).length + 1 ≠ (s.pools i).length then
            (s, s!"not-allowed buffer {id} is pooled in bucket {i}, which is not the bucket of a request for {n}")
          else
            let ids' : Nat → List Nat := fun j => if j = i then (s.ids j).eraseIdx pos else s.ids j
            match r with
            | .panic => ({ s with pools := p', ids := ids' }, "PANIC")
            | .buf b => ({ s with pools := p', ids := ids', slots := setSlot s.slots slot (id, b) }, showBuf id "0" b)
      | _, _ => (s, "bad-op")
    | _, _ => (s, "bad-op")
  | ["put", _k, slot, len, mode] =>
    match s.slots.lookup slot, len.toInt? with
    | some (id, b), some len =>
      let cells := b.vis ++ b.hid
      let l : Nat := if len < 0 then b.len else min len.toNat cells.length
      let cells := fill mode l cells
      let b' : Buf := ⟨cells.take l, cells.drop l⟩
      let (p', r) := modelPut s.kind s.pools b'
      let ids' : Nat → List Nat := fun j =>
        if j < 40 ∧ (p' j).length = (s.pools j).length + 1 then id :: s.ids j else s.ids j
      let s' := { s with pools := p', ids := ids', slots := s.slots.filter (fun x => x.1 ≠ slot) }
      match r with
      | .panic => (s', "PANIC")
      | .buf _ => (s', "ok")
    | none, some _ => (s, "bad-slot")
    | _, _ => (s, "bad-op")
  | _ => (s, "bad-op")

def main : IO Unit := runState step DS.init
