import CentrifugeVerif.DriverLib
import CentrifugeVerif.Model.Interest
/-!
Driver for C26: replays the harness ops (see `props/C26/harness/root/zz_verif_c26_test.go`) through
one copy of `Interest.next` per channel.  On top of the transition system the driver keeps the
*timing layer* that the harness realises on the virtual clock: a job becomes ready 1 s after it was
submitted, a failed broker unsubscribe keeps the lock for 500 ms and the job is retried right after.
The timing layer only chooses *which* labels are applied when; every state change goes through
`Interest.next` (a label that is not enabled prints `reject`).
-/
open CentrifugeVerif DriverLib Interest

structure JobT where
  seq : Nat
  ch : String
  w : Bool
  readyAt : Nat
  held : Bool

structure QOp where
  isAdd : Bool
  c : Nat
  gen : Nat
  kind : Bool
  res : String

structure ChT where
  name : String
  st : Ch
  mode : String
  held : Bool
  queued : Option QOp
  coolSeq : Nat

structure DS where
  clock : Nat
  chans : List ChT
  jobs : List JobT
  seq : Nat
  dead : Bool

def kindStr (k : Bool) : String := if k then "m" else "s"
def b01 (b : Bool) : String := if b then "1" else "0"

def getCh (d : DS) (name : String) : ChT :=
  match d.chans.find? (·.name == name) with
  | some c => c
  | none => { name := name, st := Interest.init, mode := "ok", held := false, queued := none, coolSeq := 0 }

def insCh (c : ChT) : List ChT → List ChT
  | [] => [c]
  | x :: xs => if x.name == c.name then c :: xs else if c.name < x.name then c :: x :: xs else x :: insCh c xs

def putCh (d : DS) (c : ChT) : DS := { d with chans := insCh c d.chans }

/-- make sure the channel is listed in observations -/
def touch (d : DS) (name : String) : DS := putCh d (getCh d name)

abbrev Ev := String × String   -- (channel, text)

def insStr (x : String) : List String → List String
  | [] => [x]
  | y :: ys => if x < y || x == y then x :: y :: ys else y :: insStr x ys
def sortStr (l : List String) : List String := l.foldr insStr []

/-- sort every maximal run of `U:` events -/
def canonRuns (l : List String) : List String :=
  let rec go (run : List String) : List String → List String
    | [] => sortStr run.reverse
    | e :: rest =>
      if e.startsWith "U:" then go (e :: run) rest
      else sortStr run.reverse ++ e :: go [] rest
  go [] l

def canon (evs : List Ev) : String :=
  if evs.isEmpty then "-" else
  let chs := sortStr (evs.foldl (fun acc e => if acc.contains e.1 then acc else e.1 :: acc) [])
  joinWith "," (chs.flatMap fun c => canonRuns ((evs.filter (·.1 == c)).map (·.2)))

def obs (d : DS) (r : String) (evs : List Ev) : String :=
  let base := s!"r={r} ev={canon evs}"
  if d.chans.any (·.queued.isSome) then base else
  joinWith " " (base :: d.chans.map fun c =>
    s!"{c.name}={c.st.subs.length}/{b01 c.st.subStream}/{b01 c.st.subMap}/{b01 (c.st.lock != Lock.free)}")

/-- apply a label to a channel; `none` = not enabled -/
def app (c : ChT) (l : Label) : Option ChT := (next c.st l).map fun s => { c with st := s }

/-- `addSubscription` on a channel whose lock is free -/
def doAdd (d : DS) (name : String) (cl gen : Nat) (kind : Bool) (res : String) : Option (DS × List Ev) := do
  let c := getCh d name
  let c1 ← app c (.addBegin cl gen kind)
  match c1.st.lock with
  | .adder _ _ k =>
    let cnt := c1.st.subs.length
    if res == "hold" then
      return (putCh d { c1 with held := true }, [])
    else
      let ok := res == "ok"
      let c2 ← app c1 (.addBroker ok)
      return (putCh d c2, [(name, s!"S:{name}:{kindStr k}:{if ok then "ok" else "fail"}:{cnt}:{cnt}"),
                           (name, s!"ret:add:{cl}:{name}:{if ok then 0 else 1}")])
  | _ => return (putCh d c1, [(name, s!"ret:add:{cl}:{name}:0")])

def doRm (d : DS) (name : String) (cl gen : Nat) : Option (DS × List Ev) := do
  let c := getCh d name
  let c1 ← app c (.remove cl gen)
  let d1 := putCh d c1
  let d2 :=
    if c1.st.jobs.length > c.st.jobs.length then
      { d1 with jobs := d1.jobs ++ [{ seq := d1.seq, ch := name, w := c1.st.jobs.getLast?.getD false,
                                      readyAt := d1.clock + 1000, held := false }],
                seq := d1.seq + 1 }
    else d1
  return (d2, [(name, s!"ret:rm:{cl}:{name}:0")])

def runQueued (d : DS) (name : String) : Option (DS × List Ev) :=
  let c := getCh d name
  match c.queued with
  | none => some (d, [])
  | some q =>
    let d1 := putCh d { c with queued := none }
    if q.isAdd then doAdd d1 name q.c q.gen q.kind q.res else doRm d1 name q.c q.gen

/-- one job attempt at the current clock -/
def attempt (d : DS) (j : JobT) : Option (DS × List Ev) := do
  let c0 := getCh d j.ch
  -- the cooling job itself: its sleep ends, the lock is released, the error returned, the job re-run
  let c ← (match c0.st.lock with
    | .cool _ => if c0.coolSeq == j.seq then app c0 .coolEnd else none
    | _ => some c0)
  let c1 ← app c (.jobStart j.w)
  let dropJob (d : DS) : DS := { d with jobs := d.jobs.filter (·.seq != j.seq) }
  match c1.st.lock with
  | .job _ =>
    if c.mode == "hold" then
      let d1 := putCh d { c1 with held := true, mode := "ok" }
      return ({ d1 with jobs := d1.jobs.map fun x => if x.seq == j.seq then { x with held := true } else x }, [])
    else
      let ok := c.mode == "ok"
      let c2 ← app c1 (.jobBroker ok)
      let ev := (j.ch, s!"U:{j.ch}:{kindStr j.w}:{if ok then "ok" else "fail"}:0:0")
      if ok then return (dropJob (putCh d c2), [ev])
      else
        let d1 := putCh d { c2 with coolSeq := j.seq }
        return ({ d1 with jobs := d1.jobs.map fun x =>
                    if x.seq == j.seq then { x with readyAt := d.clock + 500 } else x }, [ev])
  | _ => return (dropJob (putCh d c1), [])   -- subscribers present: the job returns nil silently

def nextJob (d : DS) (target : Nat) : Option JobT :=
  d.jobs.foldl (fun best j =>
    if j.held || j.readyAt > target then best else
    match best with
    | none => some j
    | some b => if j.readyAt < b.readyAt || (j.readyAt == b.readyAt && j.seq < b.seq) then some j else best) none

def tick (d : DS) (target : Nat) : Nat → List Ev → Option (DS × List Ev)
  | 0, _ => none
  | fuel + 1, evs =>
    match nextJob d target with
    | none => some ({ d with clock := target }, evs)
    | some j =>
      match attempt { d with clock := max d.clock j.readyAt } j with
      | none => none
      | some (d', e) => tick d' target fuel (evs ++ e)

/-- the gated broker call on `ch` returns with outcome `ok`; then the queued call (if any) runs -/
def doRelease (d : DS) (ch : String) (ok : Bool) : Option (DS × List Ev) :=
  let ct := getCh d ch
  match ct.st.lock with
  | .adder cl _ k => do
    let cnt := ct.st.subs.length
    let c2 ← app { ct with held := false } (.addBroker ok)
    let evs := [(ch, s!"S:{ch}:{kindStr k}:{if ok then "ok" else "fail"}:{cnt}:{cnt}"),
                (ch, s!"ret:add:{cl}:{ch}:{if ok then 0 else 1}")]
    let (d2, e2) ← runQueued (putCh d c2) ch
    return (d2, evs ++ e2)
  | .job w => do
    let c2 ← app { ct with held := false } (.jobBroker ok)
    let ev := (ch, s!"U:{ch}:{kindStr w}:{if ok then "ok" else "fail"}:0:0")
    let hj := d.jobs.find? (fun x => x.held && x.ch == ch)
    let hseq := (hj.map (·.seq)).getD 0
    let d1 := putCh d (if ok then c2 else { c2 with coolSeq := hseq })
    let d2 := if ok then { d1 with jobs := d1.jobs.filter (·.seq != hseq) }
              else { d1 with jobs := d1.jobs.map fun x =>
                       if x.seq == hseq then { x with held := false, readyAt := d.clock + 500 } else x }
    let (d3, e3) ← runQueued d2 ch
    return (d3, ev :: e3)
  | _ => none

/-- what the harness does at the end of a scenario: every gate is released with success (queued
calls then run, possibly gated again), all outcomes become ok, 5 s pass.  `false` = some goroutine
would have to wait for a sub lock whose holder waits for virtual time, which testing/synctest cannot
execute; the check cuts a script before the first op after which this is the case. -/
def finishable (d : DS) : Bool :=
  let rec rel (d : DS) : Nat → Option DS
    | 0 => none
    | fuel + 1 =>
      match d.chans.find? (·.held) with
      | none => some d
      | some ct => match doRelease d ct.name true with
        | none => none
        | some (d', _) => rel d' fuel
  match rel d 64 with
  | none => false
  | some d1 =>
    let d2 := { d1 with chans := d1.chans.map fun c => { c with mode := "ok" } }
    (tick d2 (d2.clock + 5000) (8 * d2.jobs.length + 64) []).isSome

def fin (d : DS) (r : String) (x : Option (DS × List Ev)) : DS × String :=
  match x with
  | none => ({ d with dead := true }, "reject")
  | some (d', evs) => (d', obs d' r evs)

def step0 (d : DS) (line : String) : DS × String :=
  let ws := words line
  if ws == ["reset"] then
    let d' : DS := { clock := 0, chans := [], jobs := [], seq := 0, dead := false }
    (d', obs d' "-" [])
  else if d.dead then (d, "reject") else
  let anyQueued := d.chans.any (·.queued.isSome)
  match ws with
  | [op, c, ch, gen, kind, res] =>
    match c.toNat?, gen.toNat? with
    | some cn, some gn =>
      let d := touch d ch
      let ct := getCh d ch
      if op == "add" then
        if anyQueued then (d, obs d "refused" [])
        else if ct.st.lock != Lock.free then (d, obs d "busy" [])
        else fin d "-" (doAdd d ch cn gn (kind == "m") res)
      else if op == "qadd" then
        if !ct.held || ct.queued.isSome || anyQueued then (d, obs d "bad-q" [])
        else
          let d' := putCh d { ct with queued := some { isAdd := true, c := cn, gen := gn, kind := kind == "m", res := res } }
          (d', obs d' "queued" [])
      else (d, "bad-op")
    | _, _ => (d, "bad-op")
  | [op, c, ch, gen] =>
    match c.toNat?, gen.toNat? with
    | some cn, some gn =>
      let d := touch d ch
      let ct := getCh d ch
      if op == "rm" then
        if anyQueued then (d, obs d "refused" [])
        else if ct.st.lock != Lock.free then (d, obs d "busy" [])
        else fin d "-" (doRm d ch cn gn)
      else if op == "qrm" then
        if !ct.held || ct.queued.isSome || anyQueued then (d, obs d "bad-q" [])
        else
          let d' := putCh d { ct with queued := some { isAdd := false, c := cn, gen := gn, kind := false, res := "ok" } }
          (d', obs d' "queued" [])
      else (d, "bad-op")
    | _, _ => (d, "bad-op")
  | ["release", ch, r] =>
    let ct := getCh d ch
    if anyQueued && ct.queued.isNone then (d, obs d "refused" []) else
    if !ct.held then (d, obs d "disabled" []) else
    let ok := r == "ok"
    match ct.st.lock with
    | .job _ =>
      if !ok && ct.queued.isSome then (d, obs d "refused" []) else fin d "-" (doRelease d ch ok)
    | _ => fin d "-" (doRelease d ch ok)
  | ["setunsub", ch, mode] =>
    let d := touch d ch
    let d' := putCh d { getCh d ch with mode := mode }
    (d', obs d' "-" [])
  | ["tick", ms] =>
    match ms.toNat? with
    | some m =>
      if anyQueued then (d, obs d "refused" [])
      else fin d "-" (tick d (d.clock + m) (4 * d.jobs.length + 4 * m / 500 * (d.jobs.length + 1) + 16) [])
    | none => (d, "bad-op")
  | ["settle"] =>
    if anyQueued || d.chans.any (·.held) then (d, obs d "refused" []) else
    let d1 := { d with chans := d.chans.map fun c => { c with mode := "ok" } }
    fin d1 "-" (tick d1 (d1.clock + 3000) (8 * d1.jobs.length + 64) [])
  | _ => (d, "bad-op")

def step (d : DS) (line : String) : DS × String :=
  let (d', o) := step0 d line
  (d', o ++ (if d'.dead || !finishable d' then " fin=0" else " fin=1"))

def main : IO Unit := runState step { clock := 0, chans := [], jobs := [], seq := 0, dead := false }
