import CentrifugeVerif.DriverLib
import CentrifugeVerif.Gen.ControlCodec
/-!
Driver for C27 over the regenerated codec.

* `probes`  → `probes op/Option=1|0 …` : the round trip evaluated on records that differ from the
  default in one option at a time (1 = the remote hub call equals the local one).
* `call op=<op> user=<hex> [ch=<hex>] opts=<WithX:val;…>` → `eq` or `diff <hub-call fields that differ>`.
* `reset`, `conn`, `presub`, `hist` (scenario lines, meaningful to the Go harness only) → `ok`.
-/
open CentrifugeVerif DriverLib
open CentrifugeVerif.Gen.ControlCodec

def parseOpts (s : String) : Option (List (String × String)) :=
  if s == "-" || s == "" then some [] else
  (s.splitOn ";").mapM fun item =>
    match item.splitOn ":" with
    | name :: v :: rest => some (name, ":".intercalate (v :: rest))
    | _ => none

def step (line : String) : String :=
  match words line with
  | "probes" :: _ =>
    "probes stamp=" ++ genStamp ++ " " ++ joinWith " " (probes.map fun p => s!"{p.1}/{p.2.1}={if p.2.2 then 1 else 0}")
  | "reset" :: _ => "ok"
  | "conn" :: _ => "ok"
  | "presub" :: _ => "ok"
  | "hist" :: _ => "ok"
  | "call" :: rest =>
    match kv rest "op", (kv rest "user").bind pStr, parseOpts ((kv rest "opts").getD "-") with
    | some op, some user, some opts =>
      if op == "subscribe" || op == "unsubscribe" then
        match (kv rest "ch").bind pStr with
        | some ch => roundtripLine op [user, ch] opts
        | none => "bad-op"
      else roundtripLine op [user] opts
    | _, _, _ => "bad-op"
  | _ => "bad-op"

def main : IO Unit := runPure step
