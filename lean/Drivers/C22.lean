import CentrifugeVerif.DriverLib
import CentrifugeVerif.Model.MapSub
/-!
Driver for C22: transcript validator.  Input line = `<cfg words> :: <transcript tokens of the harness>`.
The driver replays the broker events (`w:*`, checked against the abstract broker), runs the model's server
(`MapSub.handle`) at the recorded read points (`rd:* / ex / ret`), the model's live delivery and the
reference client, and prints the transcript as the *model* predicts it (requests, read parameters, replies,
pushes, final observation).  check.py compares that with what the implementation produced.
-/
open CentrifugeVerif DriverLib MapSub

structure V where
  cfg : Cfg
  recMode : String := "none"
  b : Broker := {}
  sub : Option SubSt := none
  hubSub : Bool := false
  buffering : Bool := false
  buf : List Pub := []
  live : Bool := false
  pos : Pos := { off := 0, ep := 0 }
  req : Option Req := none
  reads : List ReadRes := []
  pending : Option Action := none
  cl : Ref := {}
  seen : List Nat := []
  out : List String := []
  sessions : Nat := 1
  snap : Option String := none        -- first observation (at the first `|`)
  fresh : Bool := true                -- the channel does not exist in the hub (never touched / cleared)
  bad : Bool := false

def V.emit (v : V) (s : String) : V := { v with out := v.out ++ [s] }

/-- first-seen index of an epoch (0 = ""). -/
def V.ep (v : V) (e : Nat) : V × String :=
  if e = 0 then (v, "e0") else
  match v.seen.idxOf? e with
  | some i => (v, s!"e{i + 1}")
  | none => ({ v with seen := v.seen ++ [e] }, s!"e{v.seen.length + 1}")

def pubStr (p : Pub) : String :=
  match p.val with
  | some n => s!"{p.key}={n}@{p.off}"
  | none => s!"{p.key}=x@{p.off}"

def entryStr (e : Entry) : String := s!"{e.key}={e.val}@{e.off}"

def listStr (l : List String) : String := if l.isEmpty then "-" else joinWith "," l

def mapStr (m : List (String × Nat)) : String := listStr (m.map fun kv => s!"{kv.1}={kv.2}")

/-- deliver a committed change to the subscriber (buffer / live). -/
def V.deliver (v : V) (p : Pub) : V :=
  if !v.hubSub then v
  else if v.buffering then { v with buf := v.buf ++ [p] }
  else if v.live then
    let (pos', o) := liveStep v.cfg v.pos p v.b.epoch
    match o with
    | .deliver q => ({ v with pos := pos', cl := v.cl.onPush q }).emit ("p:" ++ pubStr q)
    | .filtered => { v with pos := pos' }
    | .skip => { v with pos := pos' }
    | .insufficient =>
      ({ v with live := false, hubSub := false, cl := { v.cl with told := true } }).emit "p:unsub:2500"
  else v

def V.reqStr (v : V) (r : Req) : V × String :=
  match r with
  | .state cursor off ep =>
    let (v1, e) := v.ep ep
    (v1, s!"q:S:{if cursor = "" then "-" else cursor}:{off}:{e}")
  | .stream off ep rec =>
    let (v1, e) := v.ep ep
    (v1, s!"q:T:{off}:{e}:{if rec then 1 else 0}")
  | .live off ep =>
    let (v1, e) := v.ep ep
    (v1, s!"q:L:{off}:{e}:1")

def V.replyStr (v : V) (r : Reply) : V × String :=
  match r with
  | .statePage cursor off ep es =>
    let (v1, e) := v.ep ep
    (v1, s!"a:S:{if cursor = "" then "-" else cursor}:{off}:{e}:{listStr (es.map entryStr)}")
  | .streamPage off ep ps =>
    let (v1, e) := v.ep ep
    (v1, s!"a:T:{off}:{e}:{listStr (ps.map pubStr)}")
  | .live off ep rec st ps =>
    let (v1, e) := v.ep ep
    (v1, s!"a:L:{off}:{e}:{if rec then 1 else 0}:{listStr (st.map entryStr)}:{listStr (ps.map pubStr)}")
  | .err c => (v, s!"a:err:{c}")
  | .disc c => (v, s!"a:disc:{c}")

/-- run the handler until it needs a broker read or replies. -/
def V.advance (v : V) : V :=
  match v.req with
  | none => v
  | some r =>
    match handle v.cfg v.sub r v.reads v.buf with
    | .reply rp sub' goLive =>
      let (v1, s) := v.replyStr rp
      let v2 := { v1 with sub := sub', req := none, reads := [], pending := none, cl := v1.cl.onReply rp }
      let v3 := match goLive with
        | some p => { v2 with pos := p, live := true, hubSub := true, buffering := false, buf := [] }
        | none => if v2.buffering then { v2 with hubSub := false, buffering := false, buf := [], live := false } else v2
      v3.emit s
    | act@(.needStream _ _ true) =>
      -- StartBuffering + addSubscription happen before the transition's stream read
      { v with pending := some act, hubSub := true, buffering := true, buf := [] }
    | act => { v with pending := some act }

def optNat (o : Option Nat) : String := match o with | some n => toString n | none => "-1"

def V.rdStr (v : V) : String :=
  match v.pending with
  | some (.needState ..) => "rd:S"
  | some .needPos => "rd:P"
  | some (.needStream since lim _) => s!"rd:T:{since.off}:{optNat lim}"
  | _ => "rd:none"

/-- a broker read; on a channel that does not exist the hub creates it (createStreamPosition) and answers with
the fresh position without validating the caller's epoch (getStream) / rejecting a non-empty revision epoch
(getState). -/
def V.exec (v : V) : V :=
  let v := { v with fresh := false }
  match v.pending with
  | some (.needState cursor lim rev) =>
    let r := if v0fresh then
        (match rev with
         | some rv => if rv.ep ≠ 0 then none else some { entries := [], pos := v.b.pos, cursor := "" }
         | none => some { entries := [], pos := v.b.pos, cursor := "" })
      else readState v.b cursor lim rev
    { v with reads := v.reads ++ [.st r], pending := none }
  | some .needPos => { v with reads := v.reads ++ [.ps v.b.pos], pending := none }
  | some (.needStream since lim _) =>
    let r := if v0fresh then some ([], v.b.pos) else nodeStreamRead v.b since lim
    { v with reads := v.reads ++ [.tr r], pending := none }
  | _ => { v with bad := true }
where v0fresh := v.fresh

def V.finStr (v : V) : V × String :=
  let cm := mapStr v.cl.m
  let bm := mapStr (expected v.cfg v.b)
  let (v1, e1) := v.ep v.cl.ep
  let (v2, e2) := if v.fresh then (v1, "e0") else v1.ep v.b.epoch
  (v2, s!"phase={v.cl.phase} told={if v.cl.told then 1 else 0} q1={if cm = bm then "eq" else "ne"} cm={cm} bm={bm} pos={v.cl.off}:{e1} top={v.b.top}:{e2} rec={match v.cl.lastRec with | some true => "1" | some false => "0" | none => "-"}")

def V.tok (v : V) (t : String) : V :=
  match t.splitOn ":" with
  | ["w", "P", k, n, _] =>
    match n.toNat? with
    | none => { v with bad := true }
    | some nv =>
      let b' := (v.b.apply (.publish k nv)).sizeTrim v.cfg.size
      let v1 := ({ v with b := b', fresh := false }).emit s!"w:P:{k}:{nv}:{b'.top}"
      v1.deliver { off := b'.top, key := k, val := some nv }
  | ["w", kind, k, _] =>
    if kind = "R" ∨ kind = "X" then
      if v.b.st.any (·.key = k) then
        let b' := (v.b.apply (.remove k)).sizeTrim v.cfg.size
        let v1 := ({ v with b := b' }).emit s!"w:{kind}:{k}:{b'.top}"
        v1.deliver { off := b'.top, key := k, val := none }
      else v.emit s!"w:{kind}:{k}:-"
    else { v with bad := true }
  | ["w", "L", n] =>
    match n.toNat? with
    | some lo => ({ v with b := v.b.apply (.trimTo lo) }).emit s!"w:L:{(v.b.apply (.trimTo lo)).lo}"
    | none => { v with bad := true }
  | ["w", "C"] => ({ v with b := v.b.apply .clear, fresh := true }).emit "w:C"
  | ["w", "M"] => ({ v with b := v.b.apply .clear, fresh := true }).emit "w:M"
  | "q" :: "U" :: _ =>
    let cl := { v.cl with recovering := true, phase := if v.recMode = "live" then "reclive" else "stream" }
    ({ v with hubSub := false, live := false, cl := cl, sessions := 2 }).emit "q:U"
  | "q" :: _ =>
    match v.cl.next with
    | none => v.emit "q:none"
    | some r =>
      let (v1, s) := v.reqStr r
      ({ v1 with req := some r, reads := [] }).emit s |>.advance
  | "rd" :: _ => v.emit v.rdStr
  | ["tw"] => ({ v with fresh := false }).emit "tw"
  | ["ex"] => (v.exec).emit "ex"
  | ["ret"] => (v.emit "ret").advance
  | "a" :: _ => v
  | "p" :: _ => v
  | _ => { v with bad := true }

/-- periodic position check at the end of the drain: position ≠ stream top ⇒ insufficient state. -/
def V.positionCheck (v : V) : V :=
  if v.live ∧ (v.pos.off ≠ v.b.top ∨ v.pos.ep ≠ v.b.epoch) then
    ({ v with live := false, hubSub := false, cl := { v.cl with told := true } }).emit "p:unsub:2500"
  else v

def runTokens (v : V) : List String → V
  | [] => v
  | "|" :: "fin" :: _ =>
    -- second observation
    let v1 := v.positionCheck
    let cm := mapStr v1.cl.m
    let bm := mapStr (expected v1.cfg v1.b)
    let s2 := s!"told2={if v1.cl.told then 1 else 0} q2={if cm = bm then "eq" else "ne"}"
    v1.emit s!"| fin sess={v1.sessions} {v1.snap.getD "?"} {s2}"
  | "|" :: rest =>
    let (v1, s) := v.finStr
    runTokens (({ v1 with snap := some s }).emit "|") rest
  | t :: rest => runTokens (v.tok t) rest

def step (line : String) : String :=
  match line.splitOn " :: " with
  | [cfgs, toks] =>
    let ws := words cfgs
    let nat (k : String) (d : Nat) : Nat := (kvNat ws k).getD d
    let tl := nat "tlim" 0
    let cfg : Cfg := { size := nat "size" 100, page := max 1 (min (nat "page" 100) 1000), slim := max 1 (min (nat "slim" 100) 1000),
                       tlim := if tl = 0 then 1000 else tl, flt := kv ws "flt" == some "1" }
    -- with observers (obs=1) the channel already exists when the protocol client starts
    let v0 : V := { cfg := cfg, recMode := (kv ws "rec").getD "none", fresh := !(kv ws "obs" == some "1") }
    let v := runTokens v0 (words toks)
    if v.bad then "bad-op " ++ joinWith " " v.out else joinWith " " v.out
  | _ => "bad-op"

def main : IO Unit := runPure step
