import CentrifugeVerif.Model.RecoveryDriver
/-! Driver for C03: the recovery line protocol of `Model/RecoveryDriver.lean`. -/
open CentrifugeVerif DriverLib Recovery

def main : IO Unit := runState step initHub
