import CentrifugeVerif.DriverLib
import CentrifugeVerif.Model.Live
import CentrifugeVerif.Model.Medium
import CentrifugeVerif.Model.Dissolve
/-!
Driver for C38: one scenario per line (syntax: props/C38/harness/root/zz_verif_c38_test.go).
The medium model (`Medium.step`) is driven with the harness's timing discipline: before an event at
time T every writer wake-up due at ≤ T has run; with `delay = 0` the writer drains right after an add;
with `delay > 0` the writer wakes `delay` ms after it found the queue non-empty and takes everything
queued (`k = Len()`).  Prints the prediction in the harness's output format.
-/
open CentrifugeVerif DriverLib Live Medium

structure SubSt where
  kind : String            -- p | n | s
  sub : Option Sub         -- live-step state while the subscription exists
  pushes : List Nat := []
  ending : String := "none"
  pct : Nat := 0           -- the client's positionCheckTime (unix s since the scenario start)
deriving Inhabited

structure Sim where
  o : Opts
  medium : Bool
  q : List Item := []
  wake : Option Nat := none
  subs : List SubSt := []
  bc : List String := []
  shift : Nat := 0
  goneAt : Option Nat := none   -- when the last subscriber left (the dissolver closes the medium 1 s later)
  racy : Bool := false
  gated : Bool := false         -- the harness holds the writer inside every broadcast until a token arrives
  credits : Nat := 0
  held : Option Item := none    -- removed from the queue, waiting at the gate
  mct : Nat := 0                -- the medium's positionCheckTime (ms since the scenario start)
  top : Nat := 0                -- the broker's stream top as set by `top:` / `check:` events

def deliverOne (now : Nat) (it : Item) (s : SubSt) : SubSt :=
  match s.sub with
  | none => s
  | some st =>
    if s.kind == "n" then
      match npPush it with
      | some o => { s with pushes := s.pushes ++ [o] }
      | none => s
    else
      let (st1, a) := liveStep st (toInc it)
      match a with
      | .deliver o => { s with sub := some st1, pushes := s.pushes ++ [o], pct := now / 1000 }
      | .insufficient _ =>
        { s with sub := none, ending := if s.kind == "s" then "disc:3010" else "unsub:2500" }
      | _ => { s with sub := some st1 }

def showItem : Item → String
  | .pub p => toString p.offset
  | .insuff => "M"

def Sim.noteGone (m : Sim) (now : Nat) : Sim :=
  if m.goneAt.isNone && m.subs.all (fun s => s.sub.isNone) then { m with goneAt := some now } else m

def Sim.broadcast (m : Sim) (now : Nat) (its : List Item) : Sim :=
  (its.foldl (fun m it =>
    { m with subs := m.subs.map (deliverOne now it),
             bc := if m.medium then m.bc ++ [showItem it] else m.bc }) m).noteGone now

/-- the writer runs once at (virtual) time `now` -/
def Sim.writerPass (m : Sim) (now : Nat) : Sim :=
  let (q1, b) := step m.o m.q (.writer (m.q.length - 1))
  let m1 := { m with q := q1 }.broadcast now b
  if m.o.delay > 0 then { m1 with wake := if q1.isEmpty then none else some (now + m.o.delay) }
  else m1

/-- the dissolver job closes the medium (its queue is discarded) 1 s after the last subscriber left -/
def Sim.shutdown (m : Sim) : Sim := { m with medium := false, q := [], wake := none }

def Sim.deathAt (m : Sim) : Option Nat :=
  if m.medium then m.goneAt.map (· + 1000) else none

/-- run all writer wake-ups and the medium shutdown due at ≤ t, in time order -/
def Sim.advance (m : Sim) (t : Nat) : Nat → Sim
  | 0 => m
  | fuel + 1 =>
    match m.wake, m.deathAt with
    | some w, some d =>
      if w < d then (if w ≤ t then (m.writerPass w).advance t fuel else m)
      else if d ≤ t then ({ m with racy := m.racy || w == d }.shutdown).advance t fuel else m
    | some w, none => if w ≤ t then (m.writerPass w).advance t fuel else m
    | none, some d => if d ≤ t then m.shutdown.advance t fuel else m
    | none, none => m

def Sim.drain (m : Sim) (now : Nat) : Nat → Sim
  | 0 => m
  | fuel + 1 => if m.q.isEmpty then m else (m.writerPass now).drain now fuel

/-- gated writer (delay = 0): take the next item out of the queue, wait for a token, broadcast, repeat -/
def Sim.pump (m : Sim) (now : Nat) : Nat → Sim
  | 0 => m
  | fuel + 1 =>
    match m.held with
    | none =>
      match m.q with
      | [] => m
      | first :: rest => ({ m with q := rest, held := some first }).pump now fuel
    | some it =>
      if m.credits > 0 then
        (({ m with credits := m.credits - 1, held := none } : Sim).broadcast now [it]).pump now fuel
      else m

def Sim.arrive (m : Sim) (now : Nat) (it : Item) : Sim :=
  if !m.medium then m.broadcast now [it]
  else
    let m : Sim := { m with mct := now }     -- broadcastPublication / broadcastInsufficientState stamp the medium
    let (q1, b) := step m.o m.q (.arrive it)
    let m1 := { m with q := q1 }.broadcast now b
    if !m.o.queue then m1
    else if m.gated then m1.pump now (2 * q1.length + 4)
    else if m.o.delay = 0 then m1.drain now (q1.length + 1)
    else if m1.wake.isNone && !q1.isEmpty then { m1 with wake := some (now + m.o.delay) } else m1

def checkPause : Nat := 42000

/-- subscriber `i`'s periodic tick at `now`: `Client.checkPosition` (own gate, seconds) →
`Node.checkPosition` → with SharedPositionSync `channelMedium.CheckPosition` (shared gate) -/
def Sim.tick (m : Sim) (now : Nat) (i : Nat) : Sim :=
  match m.subs[i]? with
  | none => m
  | some s =>
    match s.sub with
    | none => m
    | some st =>
      if s.kind == "n" then m
      else if !(now / 1000 - s.pct > 40) then m
      else
        let ok := st.pos == m.top && st.epoch == 1
        let setPct := fun (m : Sim) => ({ m with subs := m.subs.mapIdx fun j (sj : SubSt) =>
            if j == i then { sj with pct := now / 1000 } else sj } : Sim)
        let endIt := fun (m : Sim) =>
          let subs' : List SubSt := m.subs.mapIdx fun j (sj : SubSt) =>
            if j == i && sj.sub.isSome then
              { sj with sub := none, ending := if sj.kind == "s" then "disc:3010" else "unsub:2500" }
            else sj
          ({ m with subs := subs' } : Sim).noteGone now
        if m.medium && m.o.sps then
          if now - m.mct ≥ 40000 then
            let m1 : Sim := { m with mct := now }
            if ok then setPct m1 else endIt (m1.arrive now .insuff)
          else setPct m      -- no real check: reported valid
        else if ok then setPct m else endIt m

def Sim.event (m : Sim) (parts : List String) : Option Sim :=
  match parts with
  | t :: kind :: args =>
    match t.toNat? with
    | none => none
    | some t0 =>
      let t := t0 + m.shift
      let m := m.advance t 100000
      match kind, args with
      | "pub", off :: size :: rest =>
        match off.toNat?, size.toNat? with
        | some o, some sz =>
          let ep := match rest with
            | e :: _ => e.toNat?.getD 1
            | [] => 1
          some (m.arrive t (.pub { offset := o, size := max sz 2, epoch := ep }))
        | _, _ => none
      | "insuff", _ => some (if m.medium then m.arrive t .insuff else m)
      | "top", v :: _ => v.toNat?.map fun v => { m with top := v }
      | "tick", i :: _ =>
        match i.toNat? with
        | some i => if i < m.subs.length then some (m.tick t i) else none
        | none => none
      | "rel", n :: _ =>
        match n.toNat? with
        | some n =>
          if m.gated then
            let m1 : Sim := { m with credits := m.credits + n }
            some (m1.pump t (2 * (m1.q.length + n) + 4))
          else some m
        | none => none
      | "check", i :: top :: _ =>
        match i.toNat?, top.toNat? with
        | some i, some top =>
          if i < m.subs.length then
            let t' := t + checkPause
            let m := m.advance t' 100000
            some { (({ m with top := top } : Sim).tick t' i) with shift := m.shift + checkPause }
          else none
        | _, _ => none
      | _, _ => none
  | _ => none

def showSub (i : Nat) (s : SubSt) : String :=
  let pos := match s.sub with
    | some st => if s.kind == "n" then "-" else toString st.pos
    | none => "-"
  s!"s{i}={s.kind}/{joinWith "+" (s.pushes.map toString)}/{s.ending}/{pos}"

/-! `q` lines: publicationQueue itself against the ring model (`Dissolve.Queue`: the same algorithm field
by field; `size` = Σ len(Data) of the queued publications, markers count 0). -/
def qShow (q : Dissolve.Queue) (ins : List Nat) : String :=
  let size := ((Dissolve.abs q).filter (fun j => !ins.contains j)).foldl (fun a j => a + (j % 5 + 1)) 0
  s!"{q.cnt}/{q.nodes.length}/{size}"

def qGo : List String → Dissolve.Queue → Nat → List Nat → List String → List String
  | [], _, _, _, acc => acc.reverse
  | op :: rest, q, id, ins, acc =>
    if op == "a" || op == "i" then
      let ins := if op == "i" then (id + 1) :: ins else ins
      match Dissolve.add q (id + 1) with
      | some (q', _) => qGo rest q' (id + 1) ins (s!"a:{qShow q' ins}" :: acc)
      | none => ("MODEL-PANIC" :: acc).reverse
    else if op == "r" then
      match Dissolve.remove q with
      | some (q', none) => qGo rest q' id ins (s!"r:-:{qShow q' ins}" :: acc)
      | some (q', some j) =>
        let tag := if ins.contains j then s!"I{j}" else toString j
        qGo rest q' id ins (s!"r:{tag}:{qShow q' ins}" :: acc)
      | none => ("MODEL-PANIC" :: acc).reverse
    else ("bad-op" :: acc).reverse

def step38 (line : String) : String :=
  let ws := words line
  match ws with
  | "sc" :: _ =>
    let g := fun k => (kv ws k).getD ""
    let n := fun k => (kvNat ws k).getD 0
    let o : Opts := { klp := g "klp" == "1", sps := g "sps" == "1", queue := g "q" == "1",
                      qmax := n "qmax", delay := n "delay" }
    let medium := g "nomedium" != "1" && o.enabled
    let kinds := if g "subs" == "" || g "subs" == "-" then [] else (g "subs").splitOn ","
    let top := n "top"
    if medium && !o.valid then
      -- newChannelMedium fails: the first subscribe (and every later one) ends in a server error
      let subs := kinds.mapIdx fun i k => s!"s{i}={k}//disc:3004/-"
      joinWith " " (["sub=disc:3004", "bc=none"] ++ subs)
    else
      let subs : List SubSt := kinds.map fun k => { kind := k, sub := some { pos := top, epoch := 1 } }
      let gated := medium && g "gate" == "1" && o.queue && o.delay == 0
      let m0 : Sim := { o := o, medium := medium, subs := subs, gated := gated, top := top }
      let evs := if g "ev" == "" || g "ev" == "-" then [] else (g "ev").splitOn ";"
      let r := evs.foldl (fun (acc : Option Sim) ev => acc.bind fun m => m.event (ev.splitOn ":")) (some m0)
      match r with
      | none => "bad-op"
      | some m =>
        -- the harness opens the gate for good before the end
        let m := if m.gated then
            let m1 : Sim := { m with credits := m.credits + 1000000 }
            m1.pump (n "end" + m.shift) (2 * m1.q.length + 8)
          else m
        let m := m.advance (n "end" + m.shift) 100000
        let bc := if medium then "bc=" ++ joinWith "," m.bc else "bc=none"
        joinWith " " ((if m.racy then ["racy"] else []) ++ ["sub=ok", bc] ++ m.subs.mapIdx showSub)
  | "q" :: _ =>
    let cap := (kvNat ws "cap").getD 2
    let ops := ((kv ws "ops").getD "").splitOn ","
    joinWith " " (qGo ops (Dissolve.newQueue cap) 0 [] [])
  | _ => "bad-op"

def main : IO Unit := runPure step38
