import CentrifugeVerif.DriverLib
import CentrifugeVerif.Model.SSE
import CentrifugeVerif.Model.HTTPStream
/-!
Driver for C32.  Message lists are comma separated hex strings (`-` = empty message, `none` = empty
list).

* `sse-body <msgs>`     → hex of the body `handler_sse.go` writes for these messages
* `sse-parse <body>`    → events an EventSource client dispatches: `type:data:id,…` (hex) | `none`
* `json-body <msgs>` / `json-parse <body>`   → newline-delimited JSON HTTP-stream
* `proto-body <msgs>` / `proto-parse <body>` → varint length-prefixed stream (`err` = malformed)
-/
open CentrifugeVerif DriverLib
open CentrifugeVerif.EventSource (Bytes)

def parseList (s : String) : Option (List Bytes) :=
  if s == "none" then some [] else (s.splitOn ",").mapM unhex

def showList (l : List Bytes) : String :=
  if l.isEmpty then "none" else joinWith "," (l.map hex)

def step (line : String) : String :=
  match words line with
  | ["sse-body", m] => match parseList m with | some l => hex (SSE.body l) | none => "bad-op"
  | ["json-body", m] => match parseList m with | some l => hex (HTTPStream.jsonBody l) | none => "bad-op"
  | ["proto-body", m] => match parseList m with | some l => hex (HTTPStream.protoBody l) | none => "bad-op"
  | ["sse-parse", b] =>
    match unhex b with
    | some body =>
      let evs := EventSource.parse body
      if evs.isEmpty then "none"
      else joinWith "," (evs.map fun e => hex e.type ++ ":" ++ hex e.data ++ ":" ++ hex e.lastEventId)
    | none => "bad-op"
  | ["json-parse", b] => match unhex b with | some body => showList (Lines.split body) | none => "bad-op"
  | ["proto-parse", b] =>
    match unhex b with
    | some body => (match Varint.decodeFrames body with | some l => "ok " ++ showList l | none => "err")
    | none => "bad-op"
  | _ => "bad-op"

def main : IO Unit := runPure step
