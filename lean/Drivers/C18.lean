import CentrifugeVerif.DriverLib
import CentrifugeVerif.Model.RedisGlue
/-!
Driver for C18: the Redis side of "Redis and Memory stream brokers agree".  The op lines are the
ones of the memory-broker harness (same protocol as `Model/HistoryHubLine.lean`):

```
reset meta=<ms> [lists=<0|1>]                       -> ok t0=<unix ms of the scenario start>
pub <ch> <data> size=<n> ttl=<ms> meta=<ms> idem=<key|-> ittl=<ms> ver=<n> vep=<s|-> delta=<0|1> @<ms>
                                                    -> off=<n> ep=<i> sup=<none|idem|ver> bc=<…|->
get <ch> since=<off>:<ep>|- limit=<int> rev=<0|1> meta=<ms> @<ms>
                                                    -> pos=<n>:<i> pubs=<off>/<data>,…|-
rm <ch> @<ms>                                       -> ok
sleep @<ms>                                         -> ok
```
Each op runs the hand model of the Go glue (`RedisGlue`) over the translated Lua scripts and the
Redis model at time `t0 + @ms`.  `bc=` is what `handleRedisClientMessage` would hand to
`HandlePublication` for the messages the op `PUBLISH`ed:
`<off>/<data>@<spoff>:<spep>;d=<0|1>;prev=<data>|-`.  Epoch strings (`E<k>`, the k-th
`epoch.Generate()` call) are printed as first-seen indices.  `err=<kind>` for Go-level errors,
`UNSUPPORTED:<msg>` when an op leaves the modelled subset.
-/
open CentrifugeVerif DriverLib Redis RedisGlue

def t0ms : Nat := 946684800000

structure DState where
  cfg : Cfg := {}
  r : Redis := {}
  nextEpoch : Nat := 1
  seen : List String := []

def canonEp (seen : List String) (e : String) : List String × Nat :=
  if e = "" then (seen, 0) else
  match seen.findIdx? (· == e) with
  | some i => (seen, i + 1)
  | none => (seen ++ [e], seen.length + 1)

def resolveEp (seen : List String) (k : Nat) : String :=
  if k = 0 then "" else
  match seen[k - 1]? with
  | some e => e
  | none => s!"bogus-{k}"

def atTime (ws : List String) : Option Nat :=
  ws.findSome? fun w => if w.startsWith "@" then Lua.parseNat (Lua.dropN w 1) else none

def dash (s : String) : String := if s == "-" then "" else s

def fmtErr : GoErr → String
  | .redis m => "err=redis:" ++ (m.replace " " "_")
  | .wrongReply w => "err=reply:" ++ (w.replace " " "_")
  | .unsupported m => "UNSUPPORTED:" ++ (m.replace " " "_")

def fmtPubs (l : List RPub) : String :=
  if l.isEmpty then "-" else joinWith "," (l.map fun p => s!"{p.offset}/{p.data}")

def fmtSup : Suppress → String
  | .none => "none" | .idempotency => "idem" | .version => "ver"

def fmtDelivery (seen : List String) (d : Delivery) : List String × String :=
  let (seen, ep) := canonEp seen d.sp.epoch
  let prev := match d.prev with | none => "-" | some p => p
  (seen, s!"{d.pub.offset}/{d.pub.data}@{d.sp.offset}:{ep};d={if d.delta then 1 else 0};prev={prev}")

def step (d : DState) (line : String) : DState × String :=
  let ws := words line
  match ws with
  | "reset" :: rest =>
    match kvNat rest "meta" with
    | none => (d, "bad-op")
    | some m =>
      let lists := (kvNat rest "lists").getD 0 != 0
      ({ cfg := { useLists := lists, nodeMetaTTL := m } }, s!"ok t0={t0ms}")
  | "pub" :: ch :: data :: rest =>
    match kvInt rest "size", kvNat rest "ttl", kvNat rest "meta", kv rest "idem", kvNat rest "ittl",
          kvNat rest "ver", kv rest "vep", kvNat rest "delta", atTime rest with
    | some size, some ttl, some m, some idem, some ittl, some ver, some vep, some delta, some atT =>
      let o : POpts := { size := size, ttl := ttl, metaTTL := m, idemKey := dash idem, idemTTL := ittl,
                         version := ver, versionEpoch := dash vep, useDelta := delta != 0 }
      let r0 := { d.r with out := [] }
      let (res, r') := publish d.cfg ch data o s!"E{d.nextEpoch}" (t0ms + atT) r0
      let d := { d with r := r', nextEpoch := d.nextEpoch + 1 }
      match res with
      | .error e => (d, fmtErr e)
      | .ok pr =>
        let (seen, ep) := canonEp d.seen pr.pos.epoch
        let (seen, bc) : List String × String :=
          match r'.out with
          | [] => (seen, "-")
          | [m] =>
            match deliver d.cfg m with
            | some dl =>
              let (seen, s) := fmtDelivery seen dl
              (seen, if dl.ch = ch then s else s ++ ";wrong-channel=" ++ dl.ch)
            | none => (seen, "undeliverable")
          | l => (seen, s!"multiple:{l.length}")
        ({ d with seen := seen }, s!"off={pr.pos.offset} ep={ep} sup={fmtSup pr.suppress} bc={bc}")
    | _, _, _, _, _, _, _, _, _ => (d, "bad-op")
  | "get" :: ch :: rest =>
    match kv rest "since", kvInt rest "limit", kvNat rest "rev", kvNat rest "meta", atTime rest with
    | some sinceS, some lim, some rev, some m, some atT =>
      let since : Option (Option RPos) :=
        if sinceS == "-" then some none else
        match sinceS.splitOn ":" with
        | [a, b] =>
          match Lua.parseNat a, Lua.parseNat b with
          | some off, some k => some (some ⟨off, resolveEp d.seen k⟩)
          | _, _ => none
        | _ => none
      match since with
      | none => (d, "bad-op")
      | some since =>
        let f : RFilter := { since := since, limit := lim, reverse := rev != 0 }
        let (res, r') := history d.cfg ch f m s!"E{d.nextEpoch}" (t0ms + atT) d.r
        let d := { d with r := r', nextEpoch := d.nextEpoch + 1 }
        match res with
        | .error e => (d, fmtErr e)
        | .ok (pubs, pos) =>
          let (seen, ep) := canonEp d.seen pos.epoch
          ({ d with seen := seen }, s!"pos={pos.offset}:{ep} pubs={fmtPubs pubs}")
    | _, _, _, _, _ => (d, "bad-op")
  | "rm" :: ch :: rest =>
    match atTime rest with
    | some atT => ({ d with r := removeHistory d.cfg ch (t0ms + atT) d.r }, "ok")
    | none => (d, "bad-op")
  | "sleep" :: rest =>
    match atTime rest with
    | some _ => (d, "ok")
    | none => (d, "bad-op")
  | _ => (d, "bad-op")

def main : IO Unit := runState step {}
