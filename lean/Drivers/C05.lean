import CentrifugeVerif.Model.SubProtoDriver
/-! Driver for C05: trace validation against the subscription-protocol LTS (shared with C04/C05/C07,
see `CentrifugeVerif/Model/SubProtoDriver.lean`). -/
def main : IO Unit := CentrifugeVerif.SubProto.Driver.main
