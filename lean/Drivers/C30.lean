import CentrifugeVerif.Model.WS.Fmt
import CentrifugeVerif.Model.WS.Writer
/-!
Driver for C30.
* `wr side=s|c wbuf=N comp=0|1 keys=<hex, 4 bytes per masked frame> ops=<op>;<op>;…` with
  `wm:<typ>:<hex>` (WriteMessage, no compression applies), `st:<typ>:<c|u|s>:<hex>/<hex>/…`
  (NextWriter, the listed Write calls on the message writer — WriteString calls for `s` —, Close;
  `c` = RSV1),
  `rf:<typ>:<hex>` (NextWriter + ReadFrom + Close), `wc:<typ>:<hex>` (WriteControl), `pm:<typ>:<hex>` (prepared, uncompressed).
  Output `wire=<hex> errs=<e>,<e>,…`.
* `tw chunks=<hex>/<hex>/…` → `out=<hex>/<hex>/… held=<hex>` (truncWriter).
* `mask key=<hex> pos=N align=N data=<hex>` → `out=<hex> pos=N same=1` (word-at-a-time maskBytes, and
  whether it equals the byte-wise definition).
* `rd …` as in the C29 driver (specification and reader model on the wire bytes).
-/
open CentrifugeVerif DriverLib WS Writer

def errStr : Option WErr → String
  | none => "ok"
  | some .badOpCode => "badop"
  | some .invalidControl => "invalidcontrol"
  | some .closeSent => "closesent"
  | some .writeClosed => "writeclosed"
  | some .extraInClient => "internal"
  | some .flateTail => "flatetail"

def parseChunks (s : String) : Option (List Bytes) :=
  if s == "" then some [] else (s.splitOn "/").mapM unhex

def keyOf (ks : Bytes) (i : Nat) : Key :=
  match ks.drop (4 * i) with
  | a :: b :: c :: d :: _ => ⟨a, b, c, d⟩
  | _ => Key.zero

def runOp (cfg : WCfg) (c : WConn) (op : String) : Option (WConn × Option WErr) :=
  match op.splitOn ":" with
  | ["wm", t, d] => do
    let t ← t.toNat?; let d ← unhex d
    pure (writeMessagePlain cfg c t d)
  | ["st", t, f, cs] => do
    let t ← t.toNat?; let cs ← parseChunks cs
    pure (if f == "s" then writeStrings cfg c t cs else writeStreamed cfg c t (f == "c") cs)
  | ["rf", t, d] => do
    let t ← t.toNat?; let d ← unhex d
    pure (writeReadFrom cfg c t d)
  | ["wc", t, d] => do
    let t ← t.toNat?; let d ← unhex d
    pure (writeControl cfg c t d)
  | ["pm", t, d] => do
    let t ← t.toNat?; let d ← unhex d
    pure (writePrepared cfg c t d)
  | _ => none

def wrStep (ws : List String) : String :=
  match kv ws "side", kvNat ws "wbuf", kvNat ws "comp", (kv ws "keys").bind unhex, kv ws "ops" with
  | some side, some wbuf, some comp, some keys, some ops =>
    let cfg : WCfg := { server := side == "s", bufSize := wbuf, compress := comp == 1, keyAt := keyOf keys }
    let rec go (c : WConn) (errs : List String) : List String → Option (WConn × List String)
      | [] => some (c, errs.reverse)
      | o :: os =>
        match runOp cfg c o with
        | none => none
        | some (c, e) => go c (errStr e :: errs) os
    match go {} [] ((ops.splitOn ";").filter (· ≠ "")) with
    | none => "bad-op"
    | some (c, errs) => s!"wire={hex c.wire} errs={joinWith "," errs}"
  | _, _, _, _, _ => "bad-op"

def step (line : String) : String :=
  match words line with
  | "rd" :: _ => Fmt.rdStep line
  | "wr" :: ws => wrStep ws
  | "tw" :: ws =>
    match (kv ws "chunks").bind parseChunks with
    | some cs =>
      let (t, out) := twWrites {} cs
      s!"out={joinWith "/" (out.map hex)} held={hex t.held}"
    | none => "bad-op"
  | "mask" :: ws =>
    match (kv ws "key").bind unhex, kvNat ws "pos", kvNat ws "align", (kv ws "data").bind unhex with
    | some [a, b, c, d], some pos, some align, some data =>
      let k : Key := ⟨a, b, c, d⟩
      let (out, p) := maskWordsGo k pos align data
      let same := out == xorMask k pos data
      s!"out={hex out} pos={p} same={if same then 1 else 0}"
    | _, _, _, _ => "bad-op"
  | _ => "bad-op"

def main : IO Unit := runPure step
