import CentrifugeVerif.Model.MapHubDriver
/-! Driver for C24: the map-broker line protocol (see `CentrifugeVerif/Model/MapHubDriver.lean`). -/
open CentrifugeVerif DriverLib MapHubDriver

def main : IO Unit := runState stepLine ({} : DState)
