import CentrifugeVerif.Model.WS.Fmt
/-!
Driver for C29.  Line:
`rd side=s|c comp=0|1 rl=N dl=N h=0|1 data=<hex> inf=<hexin>:<hexout|!>,…`
Output: `M ev=<events> w=<written frames> dev=<lenient branches> S ev=<spec events>`
(`M` = model of the Go reader, `S` = RFC specification).
-/
open CentrifugeVerif DriverLib WS

def main : IO Unit := runPure Fmt.rdStep
