import CentrifugeVerif.DriverLib
import CentrifugeVerif.Model.FilterPaths
/-!
Driver for C16.  Input: the harness's scenario line extended (by props/C16/check.py) with the facts
the harness measured on the real code: `T=<sm><cm>,…` (real `filter.Match` of the server / client
filter per publication), `rec=`, and the candidate lists `c.<section>=[ids]` recorded by the wrapper
brokers BEFORE any filter.  Output: the delivered ids per section as predicted by the path functions
of Model/FilterPaths.lean, in the harness's format.
-/
open CentrifugeVerif DriverLib FilterPaths

abbrev Tg := Bool × Bool
/-- filter slot: `false` = server filter, `true` = client filter -/
def passT (f : Bool) (t : Tg) : Bool := if f then t.2 else t.1

def parseIds (s : String) : List Nat :=
  let inner := String.ofList (s.toList.filter (fun c => c != '[' && c != ']'))
  if inner == "" then [] else (inner.splitOn ",").filterMap String.toNat?

def parseT (s : String) : Array Tg :=
  if s == "" then #[] else
  ((s.splitOn ",").map fun w => (w.toList.getD 0 '1' == '1', w.toList.getD 1 '1' == '1')).toArray

def fmtIds (ps : List (Pub Tg)) : String := "[" ++ joinWith "," (ps.map (fun p => toString p.id)) ++ "]"

def step (line : String) : String :=
  let ws := words line
  let g := fun k => (kv ws k).getD ""
  let tarr := parseT (g "T")
  let mk := fun (ids : List Nat) => ids.map fun i => ({ id := i, tags := tarr.getD i (true, true) } : Pub Tg)
  let cand := fun k => mk (parseIds (g ("c." ++ k)))
  match ws with
  | "fs" :: _ =>
    let sf : Option Bool := if g "sf" == "-" then none else some false
    let cf : Option Bool := if g "cf" == "-" then none else some true
    let push := "push=" ++ fmtIds (live passT sf cf false (cand "push"))
    match g "path" with
    | "multi" =>
      -- several subscribers of one channel: each judged with its own Match bits
      let n := ((g "sfs").splitOn "|").length
      let sfsL := (g "sfs").splitOn "|"
      let cfsL := (g "cfs").splitOn "|"
      joinWith " " ((List.range n).map fun k =>
        let tk := parseT (g s!"T{k}")
        let mkk := fun (ids : List Nat) => ids.map fun i => ({ id := i, tags := tk.getD i (true, true) } : Pub Tg)
        let sfk : Option Bool := if sfsL.getD k "-" == "-" then none else some false
        let cfk : Option Bool := if cfsL.getD k "-" == "-" then none else some true
        s!"push{k}=" ++ fmtIds (live passT sfk cfk false (mkk (parseIds (g s!"c.push{k}")))))
    | "live" => push
    | "rec" =>
      let reply := if g "rec" == "1" then streamRecovery passT sf cf (cand "reply") (cand "win") else []
      s!"reply={fmtIds reply} {push}"
    | "cache" =>
      let reply := if g "rec" == "1" then cacheReply passT sf cf (cand "reply") (cand "win") else []
      s!"reply={fmtIds reply} {push}"
    | "map" =>
      let tr := mapTransition passT sf cf [] (cand "trans") (cand "win")
      let base := s!"state={fmtIds (mapPage passT sf cf (cand "state"))} stream={fmtIds (mapPage passT sf cf (cand "stream"))} trans={fmtIds tr.2} {push}"
      if (kv ws "c.rejoin").isSome then base ++ s!" rejoin={fmtIds (mapPage passT sf cf (cand "rejoin"))}" else base
    | "streamless" =>
      let base := s!"state={fmtIds (mapPage passT sf cf (cand "state"))} stream=[] trans={fmtIds (streamlessBuffered passT sf cf [])}"
      let wp := if (kv ws "c.winpush").isSome then s!" winpush={fmtIds (live passT sf cf false (cand "winpush"))}" else ""
      base ++ wp ++ " " ++ push
    | _ => "bad-op"
  | "rf" :: _ =>
    -- hashes = the filter strings (the generator emits one canonical string per filter)
    let old : Option String := if g "old" == "-" then none else some (g "old")
    let new : Option String := if g "new" == "-" then none else some (g "new")
    let isMap := g "map" == "1"
    let (_, outcome) := subRefresh isMap old new
    match outcome with
    | .unsubscribedInvalidated => "refresh=unsub:2502 push=[]"
    | .replied =>
      -- the hub entry now holds the new filter when one was supplied (second T column), else the old one
      let eff : Option Bool := match new with | some _ => some true | none => old.map (fun _ => false)
      s!"refresh=replied push={fmtIds (live passT eff none false (cand "push"))}"
  | _ => "bad-op"

def main : IO Unit := runPure step
