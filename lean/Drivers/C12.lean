import CentrifugeVerif.DriverLib
import CentrifugeVerif.Model.Queue
/-!
Driver for C12.  Two op families (one output line per op):

`q …` — `internal/queue.Queue` against `Model/Queue.lean` (`TimedQ`):
  `q new <initCap>` · `q add <id>:<size>` · `q addmany <id>:<size>…` · `q rm` · `q rmmany <max>` ·
  `q into <buflen> <max>` · `q intoshrink <buflen> <max>` · `q finish <delay-ms>` · `q sleep <ms>` ·
  `q close` · `q closerem`
  Output: `<result> len= cap= size= h= t= closed=`.

`w …` — `writer` (writer.go) against `Model/Writer.lean` run to quiescence after every op (see
`Writer.Sim`): `w new …` · `w enq <id>:<size>` · `w enqmany …` · `w sleep <ms>` · `w close <0|1>` ·
`w direct <id>:<size>`.
-/
open CentrifugeVerif DriverLib Queue

def parseItem (w : String) : Option Item :=
  match w.splitOn ":" with
  | [a, b] => match a.toNat?, b.toNat? with
    | some i, some s => some ⟨i, s⟩
    | _, _ => none
  | _ => none

def parseItems : List String → Option (List Item)
  | [] => some []
  | w :: ws => match parseItem w, parseItems ws with
    | some i, some is => some (i :: is)
    | _, _ => none

def fmtIds (is : List Item) : String := "[" ++ joinWith "," (is.map (fun i => toString i.id)) ++ "]"

def fmtQ (q : RingQ) : String :=
  s!"len={q.cnt} cap={q.cap} size={q.size} h={q.head} t={q.tail} closed={if q.closed then 1 else 0}"

def fmtAdd (r : RingQ.AddRes) : String :=
  match r with | .ok => "ok=1" | .closed => "ok=0" | .panic => "PANIC"

def fmtOpt (r : Option (List Item)) : String :=
  match r with | none => "items=none" | some is => "items=" ++ fmtIds is

structure St where
  tq : TimedQ := { q := RingQ.new 1, now := 0, deadline := none }
  started : Bool := false

def qStep (t : TimedQ) (ws : List String) : TimedQ × String :=
  let fin (t' : TimedQ) (res : String) : TimedQ × String := (t', res ++ " " ++ fmtQ t'.q)
  match ws with
  | ["new", n] =>
    match n.toNat? with
    | some c => fin { q := RingQ.new c, now := t.now, deadline := none } "new"
    | none => (t, "bad-op")
  | ["add", w] =>
    match parseItem w with
    | some x => let (q', r) := t.q.add x
                match r with
                | .panic => (t, "PANIC")
                | _ => fin { t with q := q' } (fmtAdd r)
    | none => (t, "bad-op")
  | "addmany" :: rest =>
    match parseItems rest with
    | some xs => let (q', r) := t.q.addMany xs; fin { t with q := q' } (fmtAdd r)
    | none => (t, "bad-op")
  | ["rm"] =>
    let (q', r) := t.q.remove
    fin { t with q := q' } (match r with | none => "item=none" | some i => s!"item={i.id}")
  | ["rmmany", m] =>
    match m.toInt? with
    | some mi => let (q', r) := t.q.removeMany mi; fin { t with q := q' } (fmtOpt r)
    | none => (t, "bad-op")
  | ["into", b, m] =>
    match b.toNat?, m.toInt? with
    | some bl, some mi => let (q', r) := t.q.removeManyInto bl mi; fin { t with q := q' } (fmtOpt r)
    | _, _ => (t, "bad-op")
  | ["intoshrink", b, m] =>
    match b.toNat?, m.toInt? with
    | some bl, some mi => let (q', r) := t.q.removeManyIntoShrink bl mi; fin { t with q := q' } (fmtOpt r)
    | _, _ => (t, "bad-op")
  | ["finish", d] =>
    match d.toNat? with
    | some dl => fin (t.finishCollect dl) "finish"
    | none => (t, "bad-op")
  | ["sleep", d] =>
    match d.toNat? with
    | some dl => fin (t.sleep dl) "sleep"
    | none => (t, "bad-op")
  | ["close"] => fin ({ t with q := t.q.close }.stopTimer) "close"
  | ["closerem"] =>
    let (q', r) := t.q.closeRemaining
    -- CloseRemaining on an already closed queue returns before touching the timer
    let t' := if t.q.closed then t else ({ t with q := q' }).stopTimer
    fin t' ("rem=" ++ fmtIds r)
  | _ => (t, "bad-op")

def step (s : St) (line : String) : St × String :=
  match words line with
  | "q" :: rest => let (t', o) := qStep s.tq rest; ({ s with tq := t' }, o)
  | _ => (s, "bad-op")

def main : IO Unit := runState step {}
