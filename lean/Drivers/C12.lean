import CentrifugeVerif.DriverLib
import CentrifugeVerif.Model.Queue
import CentrifugeVerif.Model.Writer
/-!
Driver for C12.  Two op families (one output line per op):

`q …` — `internal/queue.Queue` against `Model/Queue.lean` (`TimedQ`):
  `q new <initCap>` · `q add <id>:<size>` · `q addmany <id>:<size>…` · `q rm` · `q rmmany <max>` ·
  `q into <buflen> <max>` · `q intoshrink <buflen> <max>` · `q finish <delay-ms>` · `q sleep <ms>` ·
  `q close` · `q closerem`
  Output: `<result> len= cap= size= h= t= closed=`.

`w …` — `writer` (writer.go) against `Model/Writer.lean` run to quiescence after every op (see
`Writer.Sim`): `w new …` · `w enq <id>:<size>` · `w enqmany …` · `w sleep <ms>` · `w close <0|1>` ·
`w direct <id>:<size>`.
-/
open CentrifugeVerif DriverLib Queue

def parseItem (w : String) : Option Item :=
  match w.splitOn ":" with
  | [a, b] => match a.toNat?, b.toNat? with
    | some i, some s => some ⟨i, s⟩
    | _, _ => none
  | _ => none

def parseItems : List String → Option (List Item)
  | [] => some []
  | w :: ws => match parseItem w, parseItems ws with
    | some i, some is => some (i :: is)
    | _, _ => none

def fmtIds (is : List Item) : String := "[" ++ joinWith "," (is.map (fun i => toString i.id)) ++ "]"

def fmtQ (q : RingQ) : String :=
  s!"len={q.cnt} cap={q.cap} size={q.size} h={q.head} t={q.tail} closed={if q.closed then 1 else 0}"

def fmtAdd (r : RingQ.AddRes) : String :=
  match r with | .ok => "ok=1" | .closed => "ok=0" | .panic => "PANIC"

def fmtOpt (r : Option (List Item)) : String :=
  match r with | none => "items=none" | some is => "items=" ++ fmtIds is

structure St where
  tq : TimedQ := { q := RingQ.new 1, now := 0, deadline := none }
  sim : Writer.Sim := Writer.Sim.init Writer.Cfg.default

def qStep (t : TimedQ) (ws : List String) : TimedQ × String :=
  let fin (t' : TimedQ) (res : String) : TimedQ × String := (t', res ++ " " ++ fmtQ t'.q)
  match ws with
  | ["new", n] =>
    match n.toNat? with
    | some c => fin { q := RingQ.new c, now := t.now, deadline := none } "new"
    | none => (t, "bad-op")
  | ["add", w] =>
    match parseItem w with
    | some x => let (q', r) := t.q.add x
                match r with
                | .panic => (t, "PANIC")
                | _ => fin { t with q := q' } (fmtAdd r)
    | none => (t, "bad-op")
  | "addmany" :: rest =>
    match parseItems rest with
    | some xs => let (q', r) := t.q.addMany xs; fin { t with q := q' } (fmtAdd r)
    | none => (t, "bad-op")
  | ["rm"] =>
    let (q', r) := t.q.remove
    fin { t with q := q' } (match r with | none => "item=none" | some i => s!"item={i.id}")
  | ["rmmany", m] =>
    match m.toInt? with
    | some mi => let (q', r) := t.q.removeMany mi; fin { t with q := q' } (fmtOpt r)
    | none => (t, "bad-op")
  | ["into", b, m] =>
    match b.toNat?, m.toInt? with
    | some bl, some mi => let (q', r) := t.q.removeManyInto bl mi; fin { t with q := q' } (fmtOpt r)
    | _, _ => (t, "bad-op")
  | ["intoshrink", b, m] =>
    match b.toNat?, m.toInt? with
    | some bl, some mi => let (q', r) := t.q.removeManyIntoShrink bl mi; fin { t with q := q' } (fmtOpt r)
    | _, _ => (t, "bad-op")
  | ["finish", d] =>
    match d.toNat? with
    | some dl => fin (t.finishCollect dl) "finish"
    | none => (t, "bad-op")
  | ["sleep", d] =>
    match d.toNat? with
    | some dl => fin (t.sleep dl) "sleep"
    | none => (t, "bad-op")
  | ["close"] => fin ({ t with q := t.q.close }.stopTimer) "close"
  | ["closerem"] =>
    let (q', r) := t.q.closeRemaining
    -- CloseRemaining on an already closed queue returns before touching the timer
    let t' := if t.q.closed then t else ({ t with q := q' }).stopTimer
    fin t' ("rem=" ++ fmtIds r)
  | _ => (t, "bad-op")

open Writer in
/-- the raw parameters of `newWriter`/`run` mapped as the Go code does (`0 ↦ 2`, `0 ↦ 16`,
`effectiveShrinkDelay`, mode selection) -/
def cfgOfRaw (delay : Nat) (timer : Bool) (max : Int) (shrink : Int) (maxq cap : Nat) : Cfg :=
  { mode := if 0 < delay ∧ timer then .timer else if 0 < delay then .delay else .direct,
    writeDelay := delay,
    maxFrame := if max = 0 then 16 else max,
    shrinkDelay := if shrink = 0 then 1000 else if shrink < 0 then 0 else shrink.toNat,
    maxQueueSize := maxq,
    initCap := if cap = 0 then 2 else cap }

open Writer in
def fmtCall : TEntry → String
  | .call items many ok => (if many then "WM" else "W") ++ (if ok then "" else "F") ++ fmtIds items
  | .direct x => "W" ++ fmtIds [x]

open Writer in
def fmtTx (es : List TEntry) : String :=
  if es.isEmpty then "tx=-" else "tx=" ++ joinWith ";" (es.map fmtCall)

open Writer in
def fmtRes : Res → String
  | .ok => "ok" | .slow => "slow" | .connClosed => "closed"

open Writer in
def wStep (s : Sim) (ws : List String) : Sim × String :=
  let report (s0 s1 : Sim) (withRes : Bool) : Sim × String :=
    let newTx := s1.w.tx.drop s0.w.tx.length
    let res := if withRes then
        (match s1.w.results.getLast? with | some (_, r, _) => "res=" ++ fmtRes r ++ " " | none => "res=? ")
      else ""
    (s1, res ++ fmtTx newTx ++ s!" qlen={s1.w.q.cnt}")
  match ws with
  | "new" :: rest =>
    match kvNat rest "delay", kvNat rest "timer", kvInt rest "max", kvInt rest "shrink", kvNat rest "maxq",
          kvNat rest "cap", kvNat rest "conc" with
    | some d, some t, some m, some sh, some mq, some cp, some cc =>
      let s' : Sim := { Sim.init (cfgOfRaw d (t != 0) m sh mq cp) with conc := cc != 0 }
      (s', if s'.conc then "skip" else "new")
    | _, _, _, _, _, _, _ => (s, "bad-op")
  | _ =>
    if s.conc then (s, "skip") else
    match ws with
    | ["enq", w] =>
      match parseItem w with
      | some x => report s (s.add [x] false) true
      | none => (s, "bad-op")
    | "enqmany" :: rest =>
      match parseItems rest with
      | some xs => report s (s.add xs true) true
      | none => (s, "bad-op")
    | ["sleep", d] =>
      match d.toNat? with
      | some dl => report s (Sim.sleep (dl + 2) s (s.w.now + dl)) false
      | none => (s, "bad-op")
    | ["close", f] => report s (s.ext (.close (f != "0"))) false
    | ["direct", w] =>
      match parseItem w with
      | some x => report s ({ s with failNext := false }.ext (.direct x (!s.failNext))) false
      | none => (s, "bad-op")
    | ["failnext"] => ({ s with failNext := true }, "failnext")
    | "gclose" :: rest =>
      match parseItems rest with
      | some xs =>
        let s1 := s.gclose xs
        let newTx := s1.w.tx.drop s.w.tx.length
        let res := match (s1.w.results.drop s.w.results.length).head? with
          | some (_, r, _) => fmtRes r
          | none => "?"
        (s1, s!"res={res} overlap=0 " ++ fmtTx newTx ++ s!" qlen={s1.w.q.cnt}")
      | none => (s, "bad-op")
    | _ => (s, "bad-op")

def step (s : St) (line : String) : St × String :=
  match words line with
  | "q" :: rest => let (t', o) := qStep s.tq rest; ({ s with tq := t' }, o)
  | "w" :: rest => let (sim', o) := wStep s.sim rest; ({ s with sim := sim' }, o)
  | _ => (s, "bad-op")

def main : IO Unit := runState step {}
