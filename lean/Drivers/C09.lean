import CentrifugeVerif.DriverLib
import CentrifugeVerif.Model.ConnProto
/-!
Driver for C09 (same op lines as props/C09/harness/root/zz_verif_c09_test.go).

  reset proto=… H=<handlers,> conn=<…> csr=0|1 rwq=0|1 chlimit=N
  frame <cmd> [| <cmd>]* [| !empty|!garbage|!trunc|!toolarge]
  fire i[,j…] | ping | eof

Output per op: `fr=<frames> h=<handlers> d=<close codes> p=<proceed>`, followed by
` racy codes=a/b` when the op's output depends on a race with a spawned close, or `unmodelled`.
-/
open CentrifugeVerif DriverLib ConnProto

def parseRes (s : String) : Res :=
  match s.splitOn ":" with
  | ["ok"] => .ok | ["gen"] => .gen | ["expired"] => .expired | ["past"] => .past
  | ["future"] => .future | ["nokey"] => .nokey | ["nores"] => .nores | ["csr"] => .csr
  | ["err", n] => .err (n.toNat?.getD 0)
  | ["disc", n] => .disc (n.toNat?.getD 0)
  | _ => .ok

def parseCmd (ws : List String) : Cmd :=
  let fields := ((kv ws "f").getD "").splitOn ","
  let has (f : String) : Bool := fields.contains f
  let script := (kv ws "s").getD "S:ok"
  let async := script.startsWith "A:"
  let res := parseRes ((script.drop 2).toString)
  let ch := (kv ws "ch").getD "-"
  let tok := (kv ws "tok").getD "-"
  let delta := (kv ws "delta").getD "-"
  { id := (kvNat ws "id").getD 0,
    connect := has "connect", ping := has "ping", subscribe := has "subscribe",
    unsubscribe := has "unsubscribe", publish := has "publish", presence := has "presence",
    presenceStats := has "presence_stats", history := has "history", rpc := has "rpc",
    send := has "send", refresh := has "refresh", subRefresh := has "sub_refresh",
    ch := if ch == "-" then "" else ch, chLong := ch == "LONG",
    tok := tok != "-", typ := (kvNat ws "type").getD 0, removed := (kv ws "removed") == some "1",
    delta := if delta == "-" then 0 else if delta == "fossil" then 1 else 2,
    async := async, res := res }

def parseConn (s : String) : Conn :=
  match s.splitOn ":" with
  | ["ok"] => .ok | ["exp"] => .exp | ["nocred"] => .nocred | ["gen"] => .gen
  | ["expired"] => .expired | ["none"] => .none | ["nonenocred"] => .nonenocred
  | ["subexp"] => .subexp
  | ["err", n] => .err (n.toNat?.getD 0)
  | ["disc", n] => .disc (n.toNat?.getD 0)
  | _ => .ok

def parseCfg (ws : List String) : Cfg :=
  let hs := ((kv ws "H").getD "").splitOn ","
  let has (f : String) : Bool := hs.contains f
  { hSub := has "sub", hUnsub := has "unsub", hPub := has "pub", hMapPub := has "mappub",
    hMapRem := has "maprem", hPres := has "pres", hStats := has "stats", hHist := has "hist",
    hRpc := has "rpc", hMsg := has "msg", hRefresh := has "refresh", hSubRefresh := has "subrefresh",
    conn := parseConn ((kv ws "conn").getD "ok"), csr := (kv ws "csr") == some "1",
    chLimit := (kvNat ws "chlimit").getD 0 }

def showFrame : Frame → String
  | .reply id k _ => s!"r{id}:{k}"
  | .error id c _ => s!"e{id}:{c}"
  | .ping => "P"
  | .discPush c => s!"D{c}"
  | .pubPush => "pub"

def showList (xs : List String) : String := if xs.isEmpty then "-" else joinWith "," xs

def parseFrame (rest : String) : List Cmd × Tail :=
  let parts := (rest.splitOn "|").map (fun p => words p)
  let cmds := parts.filter (fun ws => match ws with | w :: _ => !w.startsWith "!" | [] => false)
  let tails := parts.filter (fun ws => match ws with | w :: _ => w.startsWith "!" | [] => false)
  let tail := match tails with
    | [w] :: _ => if w == "!empty" then Tail.none else Tail.malformed
    | _ => Tail.none
  (cmds.map parseCmd, tail)

structure DState where
  cfg : Cfg := {}
  st : St := {}
  started : Bool := false

def render (old : St) (r : StepRes) : String :=
  let new := r.st
  let fr := (new.frameLog.drop old.frameLog.length).map showFrame
  let hs := new.handlerLog.drop old.handlerLog.length
  let cl := (new.closeLog.drop old.closeLog.length).map toString
  let p := match r.proceed with | some true => "1" | some false => "0" | none => "-"
  let base := s!"fr={showList fr} h={showList hs} d={showList cl} p={p} pend={new.pending.length}"
  if r.unmodelled then base ++ " unmodelled"
  else if r.racy then base ++ " racy codes=" ++ joinWith "/" (r.codes.map toString)
  else base

def stepLine (d : DState) (line : String) : DState × String :=
  match words line with
  | "reset" :: ws => ({ cfg := parseCfg ws, st := {}, started := true }, "ok")
  | "frame" :: _ =>
    if !d.started then (d, "bad-op") else
    let (cmds, tail) := parseFrame ((line.drop 5).toString)
    let r := step d.cfg d.st (.frame cmds tail)
    ({ d with st := r.st }, render d.st r)
  | ["fire", idx] =>
    if !d.started then (d, "bad-op") else
    let idxs := ((idx.splitOn ",").filterMap String.toNat?).eraseDups
    -- descending, so that every index still refers to the original position when its turn comes
    let idxs := (idxs.toArray.qsort (· > ·)).toList
    let r := step d.cfg d.st (.fire idxs)
    ({ d with st := r.st }, render d.st r)
  | ["ping"] =>
    if !d.started then (d, "bad-op") else
    let r := step d.cfg d.st .ping
    ({ d with st := r.st }, render d.st r)
  | ["eof"] =>
    if !d.started then (d, "bad-op") else
    let r := step d.cfg d.st .eof
    ({ d with st := r.st }, render d.st r)
  | _ => (d, "bad-op")

def main : IO Unit := runState stepLine {}
