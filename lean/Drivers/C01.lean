import CentrifugeVerif.DriverLib
import CentrifugeVerif.Model.Live
import CentrifugeVerif.Model.SubReply
/-!
Driver for C01: one scenario per line (same syntax as the Go harness, see
props/C01/harness/root/zz_verif_c01_test.go).  Prints the model's prediction in the harness's
canonical output format (for `mode=each`; `mode=burst` scenarios are judged by the oracle only and
print `burst`).
-/
open CentrifugeVerif DriverLib Merge SubReply Live

def parseList (s : String) (n : Nat) : Option (List (List Nat)) :=
  if s == "-" || s == "" then some [] else
  (s.splitOn ",").mapM fun w =>
    let parts := w.splitOn ":"
    if parts.length != n then none else parts.mapM String.toNat?

def b2n (b : Bool) : Nat := if b then 1 else 0

def showAct : Action → String
  | .deliver o => s!"d{o}"
  | .advanceFiltered _ => "-"
  | .skipOld => "-"
  | .insufficient .lag => "il"
  | .insufficient .epoch => "ie"
  | .insufficient .offset => "io"

/-- live phase in `mode=each`: the insufficient-state handler is awaited after every delivery, so
the subscription is gone after the first insufficient decision. -/
def liveEach (serverSide : Bool) (s : Sub) : List Inc → List String × String
  | [] => ([], "none")
  | i :: is =>
    let (s1, a) := liveStep s i
    match a with
    | .insufficient _ =>
      (showAct a :: is.map (fun _ => "-"), if serverSide then "disc:3010" else "unsub:2500")
    | _ =>
      let (rest, e) := liveEach serverSide s1 is
      (showAct a :: rest, e)

def step (line : String) : String :=
  let ws := words line
  match ws with
  | "sc" :: _ =>
    let g := fun k => (kv ws k).getD ""
    match parseList (g "hist") 2, parseList (g "buf") 3, parseList (g "live") 4,
          kvNat ws "top", kvNat ws "ep", kvNat ws "reqoff", kvNat ws "reqep" with
    | some hist, some buf, some live, some top, some ep, some reqoff, some reqep =>
      let serverSide := g "side" == "s"
      let req : Req := { recover := g "rec" == "1", reject := g "reject" == "1", offset := reqoff, epoch := reqep }
      -- the scripted broker returns the publications after `since` when recovering, none for streamTop
      let hp : List HPub := if req.recover
        then (hist.filter (fun p => p[0]! > reqoff)).map (fun p => { offset := p[0]!, filtered := p[1]! == 1 })
        else []
      let h : Hist := { pubs := hp, top := top, epoch := ep }
      let nrec := hp.length
      let buffered : List MPub := buf.mapIdx fun i p => { offset := p[0]!, filtered := p[1]! == 1, id := nrec + i }
      match subscribe req h buffered with
      | .unrecoverable => if serverSide then "reply=serr:112" else "reply=err:112"
      | .insufficient => "reply=disc:3010"
      | .reply recd pubs off pos e =>
        -- the server-side subscribe push carries no publications and no recovered flag
        let pubsS := if serverSide then "" else joinWith "," (pubs.map (fun p => toString p.offset))
        let recS := if serverSide then 0 else b2n recd
        let head := s!"reply=ok rec={recS} off={off} ep={e} pubs={pubsS} pos={pos}:{e}"
        if g "mode" == "burst" then head ++ " | burst"
        else
          let incs : List Inc := live.map fun p =>
            { offset := p[0]!, filtered := p[1]! == 1, epoch := p[2]!, lag := p[3]! == 1 }
          let (acts, e2) := liveEach serverSide { pos := pos, epoch := e } incs
          head ++ " | L=" ++ joinWith " " acts ++ " | end=" ++ e2
    | _, _, _, _, _, _, _ => "bad-op"
  | _ => "bad-op"

def main : IO Unit := runPure step
