import CentrifugeVerif.DriverLib
import CentrifugeVerif.Model.Live
import CentrifugeVerif.Model.SubReply
import CentrifugeVerif.Model.Sync
/-!
Driver for C01: one scenario per line (same syntax as the Go harness, see
props/C01/harness/root/zz_verif_c01_test.go).  Prints the model's prediction in the harness's
canonical output format (for `mode=each`; `mode=burst` scenarios are judged by the oracle only and
print `burst`).
-/
open CentrifugeVerif DriverLib Merge SubReply Live
open CentrifugeVerif.Sync (St Label next)

def parseList (s : String) (n : Nat) : Option (List (List Nat)) :=
  if s == "-" || s == "" then some [] else
  (s.splitOn ",").mapM fun w =>
    let parts := w.splitOn ":"
    if parts.length != n then none else parts.mapM String.toNat?

def b2n (b : Bool) : Nat := if b then 1 else 0

def showAct : Action → String
  | .deliver o => s!"d{o}"
  | .advanceFiltered _ => "-"
  | .skipOld => "-"
  | .insufficient .lag => "il"
  | .insufficient .epoch => "ie"
  | .insufficient .offset => "io"

/-- live phase in `mode=each`: the insufficient-state handler is awaited after every delivery, so
the subscription is gone after the first insufficient decision. -/
def liveEach (serverSide : Bool) (s : Sub) : List Inc → List String × String
  | [] => ([], "none")
  | i :: is =>
    let (s1, a) := liveStep s i
    match a with
    | .insufficient _ =>
      (showAct a :: is.map (fun _ => "-"), if serverSide then "disc:3010" else "unsub:2500")
    | _ =>
      let (rest, e) := liveEach serverSide s1 is
      (showAct a :: rest, e)

/-! `sync` lines: the PubSubSync part of the transition system against `internal/recovery` -/
def syncReq : Req := { recover := false, reject := false, offset := 0, epoch := 0 }
def syncHist : Hist := { pubs := [], top := 0, epoch := 0 }

def runL (s : St) (ls : List Label) : Option St :=
  ls.foldlM (fun s l => next syncReq syncHist s l) s

/-- one delivery: hub lookup + SyncPublication; returns the new state and `b`/`l`/`p` -/
def syncPub (s : St) (o : Nat) : St × String :=
  let d : Inc := { offset := o, epoch := 0 }
  match next syncReq syncHist s (.bStart d) with
  | none => (s, "model-stuck")
  | some s1 =>
    let s2 := match next syncReq syncHist s1 .bCheck with
      | some x => x
      | none => s1
    match s2.bpc with
    | .live _ => ((next syncReq syncHist s2 .bLive).getD s2, "l")
    | .wantMu _ =>
      match next syncReq syncHist s2 .bLock with
      | none => (s2, "p")                                   -- parked on pubBufferMu
      | some s3 =>
        match s3.bpc with
        | .live _ => ((next syncReq syncHist s3 .bLive).getD s3, "l")
        | _ => (s3, "b")
    | _ => (s2, "model-stuck")

def syncTok (acc : St × List String) (tok : String) : St × List String :=
  let (s, out) := acc
  if tok == "start" then
    -- a fresh subscribe attempt (the recovery-level harness has no hub: always routed)
    let s0 : St := { inHub := true, bpc := s.bpc }
    match runL s0 [.sStart] with
    | some s1 => ({ s1 with inHub := true }, out ++ ["start"])
    | none => (s, out ++ ["model-stuck"])
  else if tok == "lock" then
    match s.spc with
    | .s1 =>
      match runL s [.sHubAdd, .sHist, .sLock] with
      | some s1 => (s1, out ++ [s!"lock[{joinWith "," (s1.taken.map (fun p => toString p.offset))}]"])
      | none => (s, out ++ ["model-stuck"])
    | _ => (s, out ++ ["lock[]"])            -- no entry: LockBufferAndReadBuffered returns nil
  else if tok == "stop" then
    -- StopBuffering: clears the entry, releases pubBufferMu
    let s1 : St := { s with spc := .s7, inSub := false, muHeld := false, entry := false }
    match s1.bpc with
    | .wantMu _ =>
      match next syncReq syncHist s1 .bLock with
      | some s2 =>
        match s2.bpc with
        | .live _ => ({ ((next syncReq syncHist s2 .bLive).getD s2) with spc := .s0 }, out ++ ["stop[l]"])
        | _ => ({ s2 with spc := .s0 }, out ++ ["stop[b]"])
      | none => (s1, out ++ ["model-stuck"])
    | _ => ({ s1 with spc := .s0 }, out ++ ["stop[]"])
  else if tok.startsWith "pub:" then
    match (tok.drop 4).toNat? with
    | some o => let (s1, r) := syncPub s o; (s1, out ++ [r])
    | none => (s, out ++ ["bad-op"])
  else (s, out ++ ["bad-op"])

def step (line : String) : String :=
  let ws := words line
  match ws with
  | "rs" :: _ =>
    -- unsubscribe drops the channel's pending batch (`delWriter(ch, false)`), so the recovering
    -- resubscribe gets T+1..T+n in its reply and nothing stale afterwards
    match kvNat ws "top", kvNat ws "n" with
    | some top, some n =>
      let offs := (List.range n).map (fun i => toString (top + i + 1))
      s!"rs pubs={joinWith "," offs} late=-"
    | _, _ => "bad-op"
  | "sync" :: toks =>
    let (_, out) := toks.foldl syncTok (({ inHub := true } : St), [])
    joinWith " " out
  | "sc" :: _ =>
    let g := fun k => (kv ws k).getD ""
    match parseList (g "hist") 2, parseList (g "buf") 3, parseList (g "live") 4,
          kvNat ws "top", kvNat ws "ep", kvNat ws "reqoff", kvNat ws "reqep" with
    | some hist, some buf, some live, some top, some ep, some reqoff, some reqep =>
      let serverSide := g "side" == "s"
      let req : Req := { recover := g "rec" == "1", reject := g "reject" == "1", offset := reqoff, epoch := reqep }
      -- the scripted broker returns the publications after `since` when recovering, none for streamTop
      let hp : List HPub := if req.recover
        then (hist.filter (fun p => p[0]! > reqoff)).map (fun p => { offset := p[0]!, filtered := p[1]! == 1 })
        else []
      let h : Hist := { pubs := hp, top := top, epoch := ep }
      let nrec := hp.length
      let buffered : List MPub := buf.mapIdx fun i p => { offset := p[0]!, filtered := p[1]! == 1, id := nrec + i }
      match subscribe req h buffered with
      | .unrecoverable => if serverSide then "reply=serr:112" else "reply=err:112"
      | .insufficient => "reply=disc:3010"
      | .reply recd pubs off pos e =>
        -- the server-side subscribe push carries no publications and no recovered flag
        let pubsS := if serverSide then "" else joinWith "," (pubs.map (fun p => toString p.offset))
        let recS := if serverSide then 0 else b2n recd
        let head := s!"reply=ok rec={recS} off={off} ep={e} pubs={pubsS} pos={pos}:{e}"
        if g "mode" == "burst" then head ++ " | burst"
        else
          let incs : List Inc := live.map fun p =>
            { offset := p[0]!, filtered := p[1]! == 1, epoch := p[2]!, lag := p[3]! == 1 }
          let (acts, e2) := liveEach serverSide { pos := pos, epoch := e } incs
          head ++ " | L=" ++ joinWith " " acts ++ " | end=" ++ e2
    | _, _, _, _, _, _, _ => "bad-op"
  | _ => "bad-op"

def main : IO Unit := runPure step
