import CentrifugeVerif.DriverLib
import CentrifugeVerif.Model.HistoryHubLine
/-!
Driver for C19 (idempotent / versioned publishes on the memory broker): the line protocol of
`Model/HistoryHubLine.lean` (same ops as C17; the C19 generator stresses keys and versions).
-/
open CentrifugeVerif DriverLib HistoryHub

def main : IO Unit := runState stepLine ({} : DState)
