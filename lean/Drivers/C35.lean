import CentrifugeVerif.DriverLib
import CentrifugeVerif.Model.Partition
import CentrifugeVerif.Gen.PartitionSizes
import CentrifugeVerif.Gen.PartitionTags16
import CentrifugeVerif.Gen.PartitionTags32
import CentrifugeVerif.Gen.PartitionTags64
import CentrifugeVerif.Gen.PartitionTags128
import CentrifugeVerif.Gen.PartitionTags256
import CentrifugeVerif.Gen.PartitionTags512
import CentrifugeVerif.Gen.PartitionTags1024
import CentrifugeVerif.Gen.PartitionTags2048
import CentrifugeVerif.Gen.PartitionTags4096
/-!
Driver for C35 (same ops as the Go harness).  `tags`/`bal` use the regenerated tables and the model
functions `tagSlot` / `slotToNode`; additionally every `bal` line carries `chk=` (the proved-sound
checker `checkK` on the *specification* slots) and every `tags` line `spec=` (1 iff the package's
`tagSlot` equals `Spec.RedisSlot.slot {tag}` on every tag and the slots are strictly increasing).
-/
open CentrifugeVerif DriverLib Partition
open CentrifugeVerif.Gen.PartitionTags

def tagsFor (n : Nat) : Option (List (List UInt8)) :=
  match n with
  | 16 => some tags16 | 32 => some tags32 | 64 => some tags64 | 128 => some tags128 | 256 => some tags256
  | 512 => some tags512 | 1024 => some tags1024 | 2048 => some tags2048 | 4096 => some tags4096
  | _ => none

/-- package-`tagSlot` slots per table; closed terms, evaluated once at start-up -/
def goSlots16 : Array Nat := (tags16.map tagSlot).toArray
def goSlots32 : Array Nat := (tags32.map tagSlot).toArray
def goSlots64 : Array Nat := (tags64.map tagSlot).toArray
def goSlots128 : Array Nat := (tags128.map tagSlot).toArray
def goSlots256 : Array Nat := (tags256.map tagSlot).toArray
def goSlots512 : Array Nat := (tags512.map tagSlot).toArray
def goSlots1024 : Array Nat := (tags1024.map tagSlot).toArray
def goSlots2048 : Array Nat := (tags2048.map tagSlot).toArray
def goSlots4096 : Array Nat := (tags4096.map tagSlot).toArray

def goSlotsFor (n : Nat) : Option (Array Nat) :=
  match n with
  | 16 => some goSlots16 | 32 => some goSlots32 | 64 => some goSlots64 | 128 => some goSlots128
  | 256 => some goSlots256 | 512 => some goSlots512 | 1024 => some goSlots1024 | 2048 => some goSlots2048
  | 4096 => some goSlots4096
  | _ => none

def hexRaw (bs : List UInt8) : String := if bs.isEmpty then "" else hex bs

def step (line : String) : String :=
  match words line with
  | ["sizes"] => "sizes=" ++ joinWith "," (sizes.map toString)
  | ["tags", n] =>
    match n.toNat?.bind tagsFor with
    | none => "err"
    | some ts =>
      let sl := ts.map tagSlot
      s!"n={ts.length} tags={joinWith "," (ts.map hexRaw)} slots={joinWith "," (sl.map toString)}"
  | ["spec", n] =>
    match n.toNat?.bind tagsFor with
    | none => "err"
    | some ts =>
      let ok := (ts.map tagSlot == slotsOf ts) && strictlyIncreasing (slotsOf ts) && ts.all tagWF
      s!"spec={if ok then 1 else 0}"
  | ["node", s, k] =>
    match s.toNat?, k.toNat? with
    | some s, some k => s!"node={slotToNode s k}"
    | _, _ => "bad-op"
  | ["bal", n, k] =>
    match n.toNat?.bind goSlotsFor, k.toNat? with
    | some sl, some k =>
      let counts := sl.foldl (fun (arr : Array Nat) s => arr.modify (slotToNode s k) (· + 1)) (Array.replicate k 0)
      let mn := counts.foldl min (counts.getD 0 0)
      let mx := counts.foldl max 0
      s!"min={mn} max={mx} zero={(counts.toList.filter (· == 0)).length}"
    | _, _ => "err"
  | ["chk", n, k] =>
    match n.toNat?.bind tagsFor, k.toNat? with
    | some ts, some k => s!"chk={if checkK (slotsOf ts) k then 1 else 0}"
    | _, _ => "err"
  | ["chkall", n] =>
    match n.toNat?.bind tagsFor with
    | some ts => s!"chkall={if checkRange (slotsOf ts) 1 ts.length then 1 else 0}"
    | none => "err"
  | ["tagslot", h] =>
    match unhex h with
    | some b => s!"slot={tagSlot b} redis={Spec.RedisSlot.slot (tagKey b)} wf={if tagWF b then 1 else 0}"
    | none => "bad-op"
  | _ => "bad-op"

def main : IO Unit := runPure step
