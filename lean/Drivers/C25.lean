import CentrifugeVerif.DriverLib
import CentrifugeVerif.Model.Keyed
/-!
Driver for C25: same op lines as props/C25/harness/root/zz_verif_c25_test.go, same canonical output.
-/
open CentrifugeVerif DriverLib Keyed

def insertSorted (x : String) : List String → List String
  | [] => [x]
  | y :: r => if x < y then x :: y :: r else if x = y then y :: r else y :: insertSorted x r

def sortStrs (l : List String) : List String := l.foldl (fun acc x => insertSorted x acc) []

def evConn : Ev → ConnId
  | .push c .. => c | .item c .. => c | .removal c _ => c | .unsub c _ => c | .disc c _ => c | .err c _ => c

def evStr : Ev → String
  | .push _ k v _ delta res =>
    s!"{k}={v}:{if delta then "D" else "F"}:{match res with | some d => d | none => "!apply"}"
  | .item _ k v d => s!"R:{k}={v}:F:{d}"
  | .removal _ k => s!"{k}=x"
  | .unsub _ code => s!"unsub:{code}"
  | .disc _ code => s!"disc:{code}"
  | .err _ code => s!"err:{code}"

def stStr (s : St) : String :=
  if !s.chanExists then "st=none" else
  let ks := sortStrs (s.entries.map (·.1))
  if ks.isEmpty then "st=-" else
  "st=" ++ joinWith "," (ks.map fun k =>
    match alookup k s.entries with
    | some e => s!"{k}:{e.version}:{if e.needsBroadcast then 1 else 0}:{match e.data with | some d => d | none => "-"}"
    | none => k)

def render (s : St) (evs : List Ev) : String :=
  let cs := sortStrs (evs.map evConn)
  let parts := cs.map fun c => s!"{c}[{joinWith " " ((evs.filter (evConn · == c)).map evStr)}]"
  joinWith " " (parts ++ [stStr s])

def parseItem (w : String) : Option Item :=
  match w.splitOn ":" with
  | [k, "x"] => some { key := k, removed := true }
  | [k, v, d] => v.toNat?.map fun n => { key := k, version := n, data := d }
  | [k, v, d, p] => v.toNat?.map fun n => { key := k, version := n, data := d, prev := if p == "-" then none else some p }
  | _ => none

def ep (s : String) : String := if s == "-" then "" else s

def step' (s : Option St) (line : String) : Option St × String :=
  match words line with
  | "reset" :: rest =>
    let cfg : Cfg := { versionless := kv rest "mode" == some "l", keep := kv rest "keep" == some "1",
                       shut := kv rest "shut" == some "1" }
    (some { cfg := cfg, epoch := "" }, "ok")
  | ws =>
    match s with
    | none => (none, "bad-op")
    | some st =>
      let go (op : Op) (pre : String := "") : Option St × String :=
        let (st', evs) := Keyed.step st op
        (some st', pre ++ render st' evs)
      match ws with
      | ["sub", c, d] =>
        match alookup c st.conns with
        | some cn => if cn.subscribed then (s, s!"{c}[err:105] " ++ render st []) else go (.sub c (d == "delta=1"))
        | none => go (.sub c (d == "delta=1"))
      | ["trk", c, k, v] =>
        match v.toNat?, alookup c st.conns with
        | some n, some cn => if cn.subscribed then go (.trk c k n) else (s, s!"{c}[err:103] " ++ render st [])
        | _, _ => (s, "bad-op")
      | ["utk", c, k] =>
        match alookup c st.conns with
        | some cn => if cn.subscribed then go (.utk c k) else (s, s!"{c}[err:103] " ++ render st [])
        | none => (s, "bad-op")
      | ["unsub", c] => if (alookup c st.conns).isSome then go (.unsub c) else (s, "bad-op")
      | ["close", c] => if (alookup c st.conns).isSome then go (.close c) else (s, "bad-op")
      | "resp" :: e :: items =>
        match items.mapM parseItem with
        | none => (s, "bad-op")
        | some its => if st.chanExists then go (.resp (ep e) its) else (s, "nochan " ++ render st [])
      | ["pub", k, v, e, d] =>
        match v.toNat? with
        | none => (s, "bad-op")
        | some n => if st.cfg.versionless then (s, "err " ++ render st []) else go (.pub k n (ep e) d)
      | ["rvk", k] => go (.rvk k)
      | ["bgpub", k, v, e, d] =>
        match v.toNat? with
        | none => (s, "bad-op")
        | some n =>
          if st.cfg.versionless || st.stalled.isSome || (subscribersOf st k).length > 1 then (s, "bad-op")
          else go (.bgpub k n (ep e) d)
      | ["rel"] => go .rel
      | ["trkd", c, k, v] =>
        match v.toNat?, alookup c st.conns with
        | some n, some _ => go (.trkd c k n)
        | _, _ => (s, "bad-op")
      | ["tcb"] => if st.ptracks.isEmpty then (s, "bad-op") else go .tcb
      | _ => (s, "bad-op")

def main : IO Unit := do
  let i ← IO.getStdin
  let o ← IO.getStdout
  loopState i o step' none
  o.flush
