import CentrifugeVerif.DriverLib
import CentrifugeVerif.Model.Timers
/-!
Driver for C36: one scenario per line (syntax: props/C36/harness/root/zz_verif_c36_test.go, plus the
measured jitters `jp=NS jr=NS` appended by check.py).  The model (`Timers.step`) is driven with the
harness's discipline: before an event at time T the armed timer fires as long as its deadline is ≤ T
(each firing at `max deadline clock`), then the event is applied.  Times inside the model are absolute
nanoseconds (base = 10^6 s, `sec = 10^9`); printed relative to the base like the harness does.
-/
open CentrifugeVerif DriverLib Timers

def nsPerMs : Nat := 1000000
def secNs : Nat := 1000000000
def baseS : Nat := 1000000
def baseNs : Nat := baseS * secNs

def showAns : Ans → String
  | .at d => toString d
  | .zero => "0"
  | .expired => "x"
  | .error => "e"

def parseAns (s : String) : Option Ans :=
  if s == "x" then some .expired
  else if s == "e" then some .error
  else match s.toInt? with
    | some 0 => some .zero
    | some d => some (.at d)
    | none => none

def b2s (b : Bool) : String := if b then "1" else "0"

def showOut : Out → String
  | .ping => "ping"
  | .alive => "alive"
  | .disc c => s!"disc:{c}"
  | .unsub ch c => s!"unsub:{ch}:{c}"
  | .connected e t => s!"connected:{b2s e}:{t}"
  | .subscribed e t => s!"subscribed:{b2s e}:{t}"
  | .rrefresh e t => s!"rrefresh:{b2s e}:{t}"
  | .prefresh e t => s!"prefresh:{b2s e}:{t}"
  | .rsubrefresh e t => s!"rsubrefresh:{b2s e}:{t}"
  | .err c => s!"err:{c}"
  | .rh a => s!"rh:{showAns a}"
  | .srh ch a => s!"srh:{ch}:{showAns a}"

def relNs (t : Nat) : String := if t == 0 then "0" else toString (Int.ofNat t - Int.ofNat baseNs)
def relS (t : Nat) : String := if t == 0 then "0" else toString (Int.ofNat t - Int.ofNat baseS)

def opNum : TOp → Nat
  | .stale => 1 | .presence => 2 | .expire => 3 | .ping => 4 | .pong => 5

def insertSorted (x : SubC) : List SubC → List SubC
  | [] => [x]
  | y :: ys => if x.ch ≤ y.ch then x :: y :: ys else y :: insertSorted x ys

def dump (created : Bool) (s : St) : String :=
  if !created then "none"
  else match s.status with
  | .closed => "closed"
  | st =>
    let stn := if st == .connecting then "1" else "2"
    let top := if st == .connecting then "-" else toString (opNum s.timerOp)
    let arm := match s.armed with
      | some d => relNs d
      | none => "-"
    let subs := (s.subs.foldr insertSorted []).map fun sb => s!"{sb.ch}={relS sb.expireAt}"
    s!"{stn}/{top}/{relNs s.nextExpire}/{relNs s.nextPresence}/{relNs s.nextPing}/{relNs s.nextPong}/{relS s.exp}/{arm}/{joinWith "+" subs}"

structure Sim where
  c : Cfg
  s : St := {}
  created : Bool := false
  clock : Nat := baseNs
  tl : List String := []     -- reversed
  pp : List (Option Nat) := []   -- pong policy (delay in ns per ping; none = withheld)
  ppd : Option Nat := none
  npings : Nat := 0
  pend : List Nat := []          -- scheduled pong commands (ascending)

def insertNat (x : Nat) : List Nat → List Nat
  | [] => [x]
  | y :: ys => if x ≤ y then x :: y :: ys else y :: insertNat x ys

def Sim.emit (m : Sim) (t : Nat) (outs : List Out) : Sim :=
  outs.foldl (fun m o =>
    let m := { m with tl := s!"{relNs t}:{showOut o}" :: m.tl }
    match o with
    | .ping =>
      let d := match m.pp[m.npings]? with
        | some v => v
        | none => m.ppd
      let m := { m with npings := m.npings + 1 }
      match d with
      | some d => { m with pend := insertNat (t + d) m.pend }
      | none => m
    | _ => m) m

def Sim.pongAt (m : Sim) (t : Nat) : Sim :=
  let m := { m with clock := max m.clock t, tl := s!"{relNs t}:pin" :: m.tl }
  let (s', outs) := step m.c m.s t .pong
  { m with s := s' }.emit t outs

/-- fire the armed timer / deliver the scheduled pongs while they are due at ≤ t, in time order -/
def Sim.advance (m : Sim) (t : Nat) : Nat → Sim
  | 0 => m
  | fuel + 1 =>
    let ft : Option Nat := m.s.armed.map fun d => max d m.clock
    let pt : Option Nat := m.pend.head?
    let fireIt := fun (m : Sim) (ft : Nat) =>
      let (s', outs) := step m.c m.s ft .fire
      ({ m with s := s', clock := ft }.emit ft outs)
    match ft, pt with
    | some f, some p =>
      if f ≤ p then (if f ≤ t then (fireIt m f).advance t fuel else m)
      else if p ≤ t then ({ m with pend := m.pend.drop 1 }.pongAt p).advance t fuel else m
    | some f, none => if f ≤ t then (fireIt m f).advance t fuel else m
    | none, some p => if p ≤ t then ({ m with pend := m.pend.drop 1 }.pongAt p).advance t fuel else m
    | none, none => m

def Sim.apply (m : Sim) (t : Nat) (op : Op) : Sim :=
  let m := m.advance t 1000000
  let m := { m with clock := max m.clock t }
  let m := if op == .pong then { m with tl := s!"{relNs t}:pin" :: m.tl } else m
  let (s', outs) := step m.c m.s t op
  let m := { m with s := s', created := true }.emit t outs
  -- a timer armed for a deadline that already passed fires at once (settled before the dump)
  let m := m.advance t 1000000
  { m with tl := s!"{relNs t}:s/{dump true m.s}" :: m.tl }

def msToNs (ms : Int) : Nat := if ms > 0 then ms.toNat * nsPerMs else 0

/-- `getPingPongPeriodValues` -/
def pingPong (ping pong : Int) : Nat × Nat :=
  let p := if ping < 0 then 0 else if ping == 0 then 25 * secNs else msToNs ping
  let q := if pong < 0 then 0 else if pong == 0 then 10 * secNs else msToNs pong
  (p, q)

def parseOp (kind : String) (args : List String) (jp jr : Nat) : Option Op :=
  match kind, args with
  | "new", _ => some .new
  | "connect", e :: _ => e.toNat?.map fun e => .connect e jp jr
  | "connectfail", _ => some .connectFail
  | "pong", _ => some .pong
  | "refresh", a :: _ => (parseAns a).map .refresh
  | "srefresh", a :: _ => (parseAns a).map .srefresh
  | "sub", ch :: ttl :: csr :: _ =>
    match ch.toNat?, ttl.toNat? with
    | some ch, some ttl => some (.sub ch ttl (csr == "1"))
    | _, _ => none
  | "subrefresh", ch :: a :: _ =>
    match ch.toNat?, parseAns a with
    | some ch, some a => some (.subrefresh ch a)
    | _, _ => none
  | _, _ => none

def parseScript (s : String) : Option (List Ans) :=
  if s == "" || s == "-" then some [] else (s.splitOn ",").mapM parseAns

def step36 (line : String) : String :=
  let ws := words line
  match ws with
  | "sc" :: _ =>
    let g := fun k => (kv ws k).getD ""
    let gi := fun k => (kvInt ws k).getD 0
    let (pi, po) := pingPong (gi "ping") (gi "pong")
    -- Node config defaults: 0 → 25 s / 25 s / 25 s / 15 s; stale ≤ 0 after that → no stale timer
    let dflt := fun (v : Int) (d : Nat) => if v == 0 then d * secNs else msToNs v
    let c : Cfg := { sec := secNs, pingInterval := pi, pongTimeout := po,
                     staleDelay := dflt (gi "stale") 15, ecd := dflt (gi "ecd") 25, escd := dflt (gi "escd") 25,
                     presInterval := dflt (gi "pres") 25, csr := g "csr" == "1" && g "och" != "0", hasRH := g "rh" == "1",
                     hasSRH := g "srh" == "1", uni := g "uni" == "1" }
    match parseScript (g "rhr"), parseScript (g "srhr") with
    | some rhr, some srhr =>
      let jp := (gi "jp").toNat
      let jr := (gi "jr").toNat
      let parseD := fun (w : String) => if w == "-" || w == "" then none else w.toNat?.map (· * nsPerMs)
      let pp := if g "pp" == "" || g "pp" == "-" then [] else ((g "pp").splitOn ",").map parseD
      let m0 : Sim := { c := c, s := { rhr := rhr, srhr := srhr }, pp := pp, ppd := parseD (g "ppd") }
      let evs := if g "ev" == "" || g "ev" == "-" then [] else (g "ev").splitOn ";"
      let r := evs.foldl (fun (acc : Option Sim) ev => acc.bind fun m =>
        match ev.splitOn ":" with
        | t :: kind :: args =>
          match t.toNat?, parseOp kind args jp jr with
          | some t, some op =>
            if kind == "new" && m.created then none
            else if kind != "new" && !m.created then none
            else some (m.apply (baseNs + t * nsPerMs) op)
          | _, _ => none
        | _ => none) (some m0)
      match r with
      | none => "bad-op"
      | some m =>
        let tend := baseNs + (gi "end").toNat * nsPerMs
        let m := m.advance tend 1000000
        s!"tl={joinWith "," m.tl.reverse} st={dump m.created m.s}"
    | _, _ => "bad-op"
  | _ => "bad-op"

def main : IO Unit := runPure step36
