import CentrifugeVerif.DriverLib
import CentrifugeVerif.Model.Bracket
/-!
Driver for C10.  One scenario per line.

* `run ss=<b> pos=<b> bat=<b> rwq=<b> [fix=0] | <hlabel>…` (`fix=0` = the code before commit 9c975f8e: no
  `flagSubscribed` check on the offset-0 publication path; default = the current code) — replays harness-level labels through
  the model (`Bracket.next`), printing `frames=<tok,…> live=<actor@gate,…>` (or `disabled@<i>`).
* `gen ss=… pos=… bat=… rwq=… | <n>…` — builds a schedule: at every step the numbers pick one of
  the harness-level labels that are enabled in the model (so the real goroutines are never sent
  into a mutex); prints `labels=<hlabel,…> frames=… live=…`.

A harness-level label advances one actor from the gate it is parked at to its next gate (or its
end): it is a fixed sequence of atomic model labels.  After every label the writer goroutine drains
the queue unless it is held (`WH`), in which case it dequeues and parks before the transport write.
-/
open CentrifugeVerif DriverLib Bracket

structure HState where
  s : State := {}
  hold : Bool := false
  live : List (String × Kind) := []   -- parked broadcasters (id, kind)
  fresh : Nat := 1
  /-- a publication with offset that was started while the recovery buffer is locked: its goroutine sits
  in `PubSubSync.SyncPublication` on `pubBufferMu` (holding the shard read lock and the broker's publish
  lock) until the subscriber's `StopBuffering`; in the model that is "`bStart` not yet enabled" -/
  sync : Option Nat := none

def kindOfTag : String → Option Kind
  | "p" => some .pub0 | "h" => some .pubPos | "j" => some .join | "l" => some .leave | _ => none

def tagOfKind : Kind → String
  | .pub0 => "p" | .pubPos => "h" | .join => "j" | .leave => "l"

/-- run the subscribe attempt until it parks at a gate or ends -/
def advS (cfg : Cfg) : Nat → State → Option State
  | 0, _ => none
  | fuel + 1, s =>
    match next cfg s .sStep with
    | none => none
    | some s' =>
      match s'.S with
      | none => some s'
      | some t => if (t.atGate cfg).isSome then some s' else advS cfg fuel s'

def advU (cfg : Cfg) : Nat → State → Option State
  | 0, _ => none
  | fuel + 1, s =>
    match next cfg s .uStep with
    | none => none
    | some s' =>
      match s'.U with
      | none => some s'
      | some u => if u.atGate.isSome then some s' else advU cfg fuel s'

def drain (cfg : Cfg) : Nat → State → State
  | 0, s => s
  | fuel + 1, s =>
    match next cfg s .wWrite with
    | some s' => drain cfg fuel s'
    | none =>
      match next cfg s .wGrab with
      | some s' => drain cfg fuel s'
      | none => s

def afterLabel (cfg : Cfg) (h : HState) : HState :=
  if h.hold then
    match next cfg h.s .wGrab with
    | some s' => { h with s := s' }
    | none => h
  else { h with s := drain cfg 64 h.s }

def idxOf (k : Kind) (id : Nat) (l : List (Kind × Nat)) : Option Nat :=
  let i := l.findIdx (· == (k, id))
  if i < l.length then some i else none

/-- harness-level step -/
def hstepCore (cfg : Cfg) (h : HState) (lab : String) : Option HState :=
  let fin (h' : HState) : Option HState := some (afterLabel cfg h')
  match lab.splitOn ":" with
  | ["S"] =>
    match h.s.S with
    | none =>
      (next cfg h.s .sSpawn).bind fun s1 =>
        match s1.S with
        | some t =>
          if (t.atGate cfg).isSome then fin { h with s := s1 }
          else (advS cfg 16 s1).bind fun s2 => fin { h with s := s2 }
        | none => none
    | some _ => (advS cfg 16 h.s).bind fun s2 => fin { h with s := s2 }
  | [u] =>
    if u == "Uc" || u == "Us" then
      match h.s.U with
      | none =>
        (next cfg h.s (.uSpawn (u == "Us"))).bind fun s1 =>
          match s1.U with
          | some t =>
            if t.atGate.isSome then fin { h with s := s1 }
            else (advU cfg 8 s1).bind fun s2 => fin { h with s := s2 }
          | none => none
      | some _ => (advU cfg 8 h.s).bind fun s2 => fin { h with s := s2 }
    else if u == "WH" then
      if h.hold then none else fin { h with hold := true }
    else if u == "WR" then
      if !h.hold then none
      else
        let s1 := match next cfg h.s .wWrite with | some s' => s' | none => h.s
        fin { h with hold := false, s := s1 }
    else if u == "T" then
      let s1 := match next cfg h.s .tFlush with | some s' => s' | none => h.s
      fin { h with s := s1 }
    else none
  | ["B", tag, n] =>
    match kindOfTag tag with
    | none => none
    | some k =>
      let id := tag ++ n
      let idn := n.toNat?.getD 0
      match h.live.find? (·.1 == id) with
      | none =>
        -- start
        (next cfg h.s (.bStart k idn)).bind fun s1 =>
          if s1.checked.length > h.s.checked.length then
            fin { h with s := s1, live := h.live ++ [(id, k)] }      -- unchecked path: parked at the trace
          else if s1.looked.length > h.s.looked.length then
            if k.isPub then
              (next cfg s1 (.bCheck (s1.looked.length - 1))).bind fun s2 =>
                if s2.checked.length > s1.checked.length then fin { h with s := s2, live := h.live ++ [(id, k)] }
                else fin { h with s := s2 }
            else fin { h with s := s1, live := h.live ++ [(id, k)] }  -- join/leave trace precedes the check
          else fin { h with s := s1 }
      | some _ =>
        let live' := h.live.filter (·.1 != id)
        if k.isPub then
          (idxOf k idn h.s.checked).bind fun i =>
            (next cfg h.s (.bEnqueue i)).bind fun s1 => fin { h with s := s1, live := live' }
        else
          (idxOf k idn h.s.looked).bind fun i =>
            (next cfg h.s (.bCheck i)).bind fun s1 =>
              if s1.checked.length > h.s.checked.length then
                (next cfg s1 (.bEnqueue (s1.checked.length - 1))).bind fun s2 => fin { h with s := s2, live := live' }
              else fin { h with s := s1, live := live' }
  | _ => none

/-- harness-level step.  `Bq:h:n` starts a publication with offset while the subscriber, parked at its
last gate, holds the locked recovery buffer: the only label possible afterwards is the subscriber's
step, whose `StopBuffering` lets the publication continue (to the trace gate after the subscribed check). -/
def hstep (cfg : Cfg) (h : HState) (lab : String) : Option HState :=
  match h.sync with
  | some n =>
    if lab == "S" then
      (hstepCore cfg { h with sync := none } "S").bind fun h1 => hstepCore cfg h1 ("B:h:" ++ toString n)
    else none
  | none =>
    match lab.splitOn ":" with
    | ["Bq", "h", n] =>
      let atLast := match h.s.S with
        | some t => if cfg.serverSide then t.pc == SPc.committed else t.pc == SPc.replied
        | none => false
      match n.toNat? with
      | some k =>
        if cfg.positioned && h.s.buf == Buf.locked && h.s.hub.isSome && !pubInFlight h.s && atLast
            && (h.live.find? (·.1 == "h" ++ n)).isNone
        then some { h with sync := some k } else none
      | none => none
    | _ => hstepCore cfg h lab

def tok : Frame → String
  | .subStart => "S" | .subEnd => "E"
  | .push .pub0 n => s!"P0:p{n}" | .push .pubPos n => s!"PH:h{n}"
  | .push .join n => s!"J:j{n}" | .push .leave n => s!"L:l{n}"

def insSorted (x : String) : List String → List String
  | [] => [x]
  | y :: ys => if x ≤ y then x :: y :: ys else y :: insSorted x ys

def sortStrs (l : List String) : List String := l.foldr insSorted []

def liveStr (cfg : Cfg) (h : HState) : String :=
  let bs := h.live.map fun (id, _) => "B:" ++ id ++ "@trace"
  let ss := match h.s.S with
    | some t => match t.atGate cfg with | some g => ["S@" ++ g] | none => ["S@?"]
    | none => []
  let us := match h.s.U with
    | some u => match u.atGate with | some g => ["U@" ++ g] | none => ["U@?"]
    | none => []
  let ws := if h.hold && !h.s.inflight.isEmpty then ["W@write"] else []
  let qs := match h.sync with | some n => [s!"B:h{n}@sync"] | none => []
  joinWith "," (sortStrs (bs ++ qs ++ ss ++ us ++ ws))

def render (cfg : Cfg) (h : HState) : String :=
  s!"frames={joinWith "," (h.s.wire.map tok)} live={liveStr cfg h}"

def parseCfg (ws : List String) : Cfg :=
  let b (k : String) : Bool := kv ws k == some "1"
  { serverSide := b "ss", positioned := b "pos", batching := b "bat", rwq := b "rwq",
    offset0Checked := kv ws "fix" != some "0", serial := b "serial", pubSerial := true }

def runLabels (cfg : Cfg) : HState → List String → Nat → List String → Except Nat (HState × List String)
  | h, [], _, tr => .ok (h, tr.reverse)
  | h, l :: ls, i, tr =>
    match hstep cfg h l with
    | none => .error i
    | some h' => runLabels cfg h' ls (i + 1) (liveStr cfg h' :: tr)

/-- candidate harness labels in a state (with repetition = weight) -/
def candidates (h : HState) : List String :=
  let n := toString h.fresh
  let liveLabs := h.live.map fun (id, k) => "B:" ++ tagOfKind k ++ ":" ++ (id.drop 1).toString
  ["S", "S", "S", "Uc", "Us", "B:p:" ++ n, "B:p:" ++ n, "B:h:" ++ n, "B:h:" ++ n, "B:j:" ++ n, "B:l:" ++ n,
   "WH", "WR", "WR", "T", "Bq:h:" ++ n, "Bq:h:" ++ n, "Bq:h:" ++ n, "Bq:h:" ++ n] ++ liveLabs ++ liveLabs

def genLabels (cfg : Cfg) : HState → List Nat → List String → List String → HState × List String × List String
  | h, [], acc, tr => (h, acc.reverse, tr.reverse)
  | h, r :: rs, acc, tr =>
    let en := (candidates h).filterMap fun l => (hstep cfg h l).map fun h' => (l, h')
    if en.isEmpty then (h, acc.reverse, tr.reverse)
    else
      match en[r % en.length]? with
      | none => (h, acc.reverse, tr.reverse)
      | some (l, h') =>
        let h'' := if (l.startsWith "B:" || l.startsWith "Bq:") && (l.splitOn ":").getLast? == some (toString h.fresh)
          then { h' with fresh := h'.fresh + 1 } else h'
        genLabels cfg h'' rs (l :: acc) (liveStr cfg h'' :: tr)

def step (line : String) : String :=
  let ws := words line
  let headW := ws.takeWhile (· ≠ "|")
  let tailW := (ws.dropWhile (· ≠ "|")).drop 1
  match headW with
  | "run" :: cfgW =>
    let cfg := parseCfg cfgW
    match runLabels cfg {} tailW 0 [] with
    | .ok (h, tr) => s!"{render cfg h} trail={joinWith "/" tr}"
    | .error i => s!"disabled@{i}"
  | "gen" :: cfgW =>
    let cfg := parseCfg cfgW
    let (h, labs, tr) := genLabels cfg {} (tailW.filterMap String.toNat?) [] []
    s!"labels={joinWith "," labs} {render cfg h} trail={joinWith "/" tr}"
  | _ => "bad-op"

def main : IO Unit := runPure step
