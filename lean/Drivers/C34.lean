import CentrifugeVerif.DriverLib
import CentrifugeVerif.Model.RedisKeys
import CentrifugeVerif.Model.CRC16
import CentrifugeVerif.Spec.RedisSlot
/-!
Driver for C34.
* `keys <cluster> <N> <useLists> <usePre> <prefix> <ch> <idem> tag=<hex>` →
  `tag=<hex> <name>=<keyhex>:<slot> … xb=<hex> [xm=<hex>]` (keys rendered from `Gen/RedisKeys.lean`,
  slots by the model of Go's `redisSlot`)
* `slot <hex>` → `slot=<n>` (model of Go's redisSlot);  `spec <hex>` → `slot=<n>` (Spec.RedisSlot)
-/
open CentrifugeVerif DriverLib RedisKeys
open CentrifugeVerif.Gen.RedisKeys

def showKey (name : String) (k : List UInt8) : String :=
  s!" {name}={hex k}:{CRC16.goRedisSlot k}"

def keysLine (cluster : Bool) (n : Nat) (useLists : Bool) (e : Env) : String :=
  let sh := n > 0
  let r := fun (f : Bool → Bool → Bool → List Part) => render e (f cluster sh useLists)
  let msg := r broker_messageChannelID
  let base := s!"tag={hex e.tag}" ++ showKey "b.msg" msg ++ showKey "b.result" (r broker_resultCacheKey)
    ++ showKey "b.list" (r broker_historyListKey) ++ showKey "b.stream" (r broker_historyStreamKey)
    ++ showKey "b.meta" (r broker_historyMetaKey) ++ showKey "p.hash" (r presence_presenceHashKey)
    ++ showKey "p.set" (r presence_presenceSetKey) ++ showKey "p.uset" (r presence_userSetKey)
    ++ showKey "p.uhash" (r presence_userHashKey)
  let mapOK := cluster == sh
  let mmsg := r mapBroker_messageChannelID
  let m := if mapOK then
      showKey "m.stream" (r mapBroker_streamKey) ++ showKey "m.meta" (r mapBroker_metaKey)
      ++ showKey "m.state" (r mapBroker_stateHashKey) ++ showKey "m.order" (r mapBroker_stateOrderKey)
      ++ showKey "m.expire" (r mapBroker_stateExpireKey) ++ showKey "m.smeta" (r mapBroker_stateMetaKey)
      ++ showKey "m.cleanup" (r mapBroker_cleanupRegistrationKeyForChannel)
      ++ showKey "m.result" (r mapBroker_resultCacheKey) ++ showKey "m.msg" mmsg
    else ""
  let xb := s!" xb={hex (brokerExtractChannel e.prefix sh cluster msg)}"
  let xm := if mapOK then s!" xm={hex (mapBrokerExtractChannel e.prefix sh mmsg)}" else ""
  base ++ m ++ xb ++ xm

def step (line : String) : String :=
  match words line with
  | ["slot", h] => match unhex h with
    | some k => s!"slot={CRC16.goRedisSlot k}"
    | none => "bad-op"
  | ["spec", h] => match unhex h with
    | some k => s!"slot={Spec.RedisSlot.slot k}"
    | none => "bad-op"
  | ["keys", c, n, ul, _up, p, ch, idem, tg] =>
    match n.toNat?, unhex p, unhex ch, unhex idem, kv [tg] "tag" with
    | some n, some p, some ch, some idem, some t =>
      match unhex t with
      | some t => keysLine (c == "1") n (ul == "1") { «prefix» := p, ch := ch, tag := t, idem := idem }
      | none => "bad-op"
    | _, _, _, _, _ => "bad-op"
  | _ => "bad-op"

def main : IO Unit := runPure step
