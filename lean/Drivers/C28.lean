import CentrifugeVerif.DriverLib
import CentrifugeVerif.Model.ControlUnsub
/-!
Driver for C28.  Scenario lines (`reset`, `conn`, `presub`, `hist`) build a two-node cluster (node A = index 0,
node B = index 1); `call op=unsubscribe user=<hex> ch=<hex> opts=<…>` runs `nodeUnsubscribe` from node B (`L`) and
from node A (`R`), in both modes, and prints

    now L <state> R <state> old L <state> R <state>

(`now` = `Mode.fixed`, the code as it is; `old` = `Mode.preFix`, the code before commit 770c28ff)

with `<state>` = `conns=<id>[<ch>,…];… evs=<sorted events>` (channel names / reasons hex encoded, connections
sorted by id, channels and events sorted).  The label filter evaluator below covers the operators used by the
named filters F1..F5 of the generator (eq, neq, in, nin, ex, nex, and, or, not) and mirrors
internal/filter.Match / Validate for them (driver-level code, not part of the theorems: the theorems hold for any
filter semantics).
-/
open CentrifugeVerif DriverLib
open CentrifugeVerif.Gen.ControlCodec CentrifugeVerif.ControlUnsub

mutual
def matchNode (labels : List (String × String)) : GFilterNode → Bool
  | .mk op key cmp val vals nodes =>
    if op == "" then
      let v := labels.lookup key
      if cmp == "eq" then v == some val
      else if cmp == "neq" then v != some val
      else if cmp == "in" then vals.contains (v.getD "")
      else if cmp == "nin" then !vals.contains (v.getD "")
      else if cmp == "ex" then v.isSome
      else if cmp == "nex" then v.isNone
      else false
    else if op == "and" then allNodes labels nodes
    else if op == "or" then anyNodes labels nodes
    else if op == "not" then
      match nodes with
      | .cons n .nil => !matchNode labels n
      | _ => false
    else false
def allNodes (labels : List (String × String)) : GFilterNodes → Bool
  | .nil => true
  | .cons n ns => matchNode labels n && allNodes labels ns
def anyNodes (labels : List (String × String)) : GFilterNodes → Bool
  | .nil => false
  | .cons n ns => matchNode labels n || anyNodes labels ns
end

mutual
def validNode : GFilterNode → Bool
  | .mk op _ cmp val vals nodes =>
    if op == "" then
      if cmp == "eq" || cmp == "neq" then val != "" && vals.isEmpty
      else if cmp == "in" || cmp == "nin" then !vals.isEmpty && val == ""
      else if cmp == "ex" || cmp == "nex" then val == "" && vals.isEmpty
      else false
    else if op == "and" || op == "or" then validNodes nodes
    else if op == "not" then
      match nodes with
      | .cons n .nil => validNode n
      | _ => false
    else false
def validNodes : GFilterNodes → Bool
  | .nil => true
  | .cons n ns => validNode n && validNodes ns
end

def fm : FilterMatch := fun f labels =>
  match f with
  | none => true
  | some n => matchNode labels n

structure DConn where
  node : Nat
  conn : Conn

structure St where
  conns : List DConn := []

def hexStr (s : String) : String := hex s.toUTF8.toList

def sortStrings (l : List String) : List String := (l.toArray.qsort (· < ·)).toList

def parseLabels (s : String) : List (String × String) :=
  if s == "-" || s == "" then [] else
  (s.splitOn ",").filterMap fun p =>
    match p.splitOn ":" with
    | [k, v] => some (k, v)
    | _ => none

def evStr : Ev → String
  | .presenceRemove c ch => s!"prem:{c}:{hexStr ch}"
  | .leave c ch => s!"leave:{c}:{hexStr ch}"
  | .callback c ch code r => s!"cb:{c}:{hexStr ch}:{code}:{hexStr r}"
  | .push c ch code r => s!"push:{c}:{hexStr ch}:{code}:{hexStr r}"

def stateStr (r : List (List Conn) × List Ev) : String :=
  let cs := sortStrings (r.1.flatten.map fun c =>
    s!"{c.id}[{joinWith "," (sortStrings (c.subs.map fun s => hexStr s.ch))}]")
  s!"conns={joinWith ";" cs} evs={joinWith "," (sortStrings (r.2.map evStr))}"

def parseOpts (s : String) : Option (List (String × String)) :=
  if s == "-" || s == "" then some [] else
  (s.splitOn ";").mapM fun item =>
    match item.splitOn ":" with
    | name :: v :: rest => some (name, ":".intercalate (v :: rest))
    | _ => none

def step (st : St) (line : String) : St × String :=
  let ws := words line
  match ws with
  | "stamp" :: _ => (st, "stamp=" ++ genStamp)
  | "reset" :: _ => ({}, "ok")
  | "hist" :: _ => (st, "ok")
  | "conn" :: rest =>
    match kv rest "id", kv rest "node", (kv rest "user").bind pStr, (kv rest "session").bind pStr with
    | some id, some node, some user, some sess =>
      let uni := kv rest "uni" == some "1"
      let c : Conn := { id, user, session := if uni then sess else "", labels := parseLabels ((kv rest "labels").getD "-"), subs := [] }
      ({ st with conns := st.conns ++ [{ node := if node == "A" then 0 else 1, conn := c }] }, "ok")
    | _, _, _, _ => (st, "bad-op")
  | "presub" :: rest =>
    match kv rest "id", (kv rest "ch").bind pStr, parseOpts ((kv rest "opts").getD "-") with
    | some id, some ch, some opts =>
      let sub : Sub := { ch, emitPresence := opts.contains ("WithEmitPresence", "1"),
                         emitJoinLeave := opts.contains ("WithEmitJoinLeave", "1") }
      ({ st with conns := st.conns.map fun d =>
          if d.conn.id == id then { d with conn := { d.conn with subs := d.conn.subs ++ [sub] } } else d }, "ok")
    | _, _, _ => (st, "bad-op")
  | "call" :: rest =>
    if kv rest "op" != some "unsubscribe" then (st, "skip") else
    match (kv rest "user").bind pStr, (kv rest "ch").bind pStr, parseOpts ((kv rest "opts").getD "-") with
    | some user, some ch, some opts =>
      match opts.foldl (fun acc o => acc.bind fun r => applyUnsubscribeOpt r o.1 o.2) (some ({} : GUnsubscribeOptions)) with
      | none => (st, "bad-op")
      | some o =>
        let cluster := [(st.conns.filter (·.node == 0)).map (·.conn), (st.conns.filter (·.node == 1)).map (·.conn)]
        let run (m : Mode) (i : Nat) := stateStr (nodeUnsubscribe m fm validNode cluster i user ch o)
        (st, s!"now L {run .fixed 1} R {run .fixed 0} old L {run .preFix 1} R {run .preFix 0}")
    | _, _, _ => (st, "bad-op")
  | _ => (st, "bad-op")

def main : IO Unit := runState step ({} : St)
