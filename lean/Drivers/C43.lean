import CentrifugeVerif.DriverLib
import CentrifugeVerif.Model.HistoryHubLine
import CentrifugeVerif.Model.HistoryCmd
/-!
Driver for C43 (history / presence / presence_stats client commands vs node-level results).

```
reset max=<HistoryMaxPublicationLimit> meta=<ms> hh=<0|1> [sf=<0|1>]   -> ok   (sf = Config.UseSingleFlight)
ohist <ch> since=… limit=<int32> rev=… nodelimit=<int> @<ms> -> <as hist> bg=ok:<n>|err=<code>
    (the client command runs while a node-level History(ch, same since/rev, limit=nodelimit) is
    parked inside the broker; single-flight must not let the two share a result unless the
    effective filters are equal — in which case the results are equal anyway)
pub <ch> <data> size=<n> ttl=<ms> @<ms>                     -> off=<n> ep=<i>
hist <ch|-> since=<off>:<ep>|- limit=<int32> rev=<0|1> @<ms> -> ok pos=<n>:<i> pubs=… | err=<code> | disc=<code> | closed
nodehist <ch> since=… limit=<int> rev=… @<ms>               -> ok pos=… pubs=… | err=<code>
padd <ch> <client> <user> | prm <ch> <client>               -> ok
presence <ch|-> | nodepresence <ch>                         -> ok clients=<client>:<user>,…|- (sorted) | err | disc | closed
pstats <ch|-> | nodepstats <ch>                             -> ok nc=<n> nu=<n> | err | disc | closed
```
`-` as channel of a client command is the empty channel name.
-/
open CentrifugeVerif DriverLib MemStream HistoryHub HistoryCmd

structure CState where
  d : DState := {}
  maxLimit : Int := 0
  handler : Bool := true
  presence : Presence := fun _ => []
  closed : Bool := false

def insSorted (x : String) : List String → List String
  | [] => [x]
  | y :: ys => if x < y then x :: y :: ys else y :: insSorted x ys

def sortStrings (l : List String) : List String := l.foldr insSorted []

/-- epochs are printed as first-seen indices, like the harness does -/
def fmtHist (seen : List Nat) : Res HistResult → List Nat × String
  | .ok r =>
    let (seen, ep) := canonEp seen r.2.epoch
    (seen, s!"ok pos={r.2.offset}:{ep} pubs={fmtItems r.1}")
  | .error c => (seen, s!"err={c}")
  | .disconnect c => (seen, s!"disc={c}")

def fmtClients (l : List Info) : String :=
  if l.isEmpty then "ok clients=-"
  else "ok clients=" ++ joinWith "," (sortStrings (l.map fun i => s!"{i.client}:{i.user}"))

def fmtPresence : Res (List Info) → String
  | .ok l => fmtClients l
  | .error c => s!"err={c}"
  | .disconnect c => s!"disc={c}"

def fmtStats : Res (Nat × Nat) → String
  | .ok s => s!"ok nc={s.1} nu={s.2}"
  | .error c => s!"err={c}"
  | .disconnect c => s!"disc={c}"

def isDisc {α : Type} : Res α → Bool
  | .disconnect _ => true
  | _ => false

def chanTok (s : String) : String := if s == "-" then "" else s

def stepC43 (c : CState) (line : String) : CState × String :=
  match words line with
  | "reset" :: rest =>
    match kvInt rest "max", kvNat rest "meta", kvNat rest "hh" with
    | some mx, some m, some hh =>
      let m := if m = 0 then 2592000000 else m
      ({ d := { b := Broker.init m, last := t0ms }, maxLimit := mx, handler := hh != 0 }, "ok")
    | _, _, _ => (c, "bad-op")
  | "pub" :: ch :: data :: rest =>
    match kvNat rest "size", kvNat rest "ttl", atTime rest with
    | some size, some ttl, some t =>
      let d := c.d.advance (t0ms + t)
      let r := d.b.publish ch data { size := size, ttl := ttl } d.last
      let (seen, ep) := canonEp d.seen r.2.pos.epoch
      ({ c with d := { d with b := r.1, seen := seen } }, s!"off={r.2.pos.offset} ep={ep}")
    | _, _, _ => (c, "bad-op")
  | "hist" :: ch :: rest =>
    match parseFilter rest, atTime rest with
    | some f, some t =>
      let d := c.d.advance (t0ms + t)
      if c.closed then ({ c with d := d }, "closed") else
      let f := resolveFilter d.seen f
      let r := historyCmd c.handler c.maxLimit d.b
        { channel := chanTok ch, since := f.since, limit := f.limit, reverse := f.reverse } d.last
      let (seen, out) := fmtHist d.seen r.2
      ({ c with d := { d with b := r.1, seen := seen }, closed := isDisc r.2 }, out)
    | _, _ => (c, "bad-op")
  | "ohist" :: ch :: rest =>
    match parseFilter rest, kvInt rest "nodelimit", atTime rest with
    | some f, some nl, some t =>
      let d := c.d.advance (t0ms + t)
      let f := resolveFilter d.seen f
      -- the two calls only read the stream (and refresh the same meta deadline / create the same
      -- missing stream), so their order is irrelevant for both results
      let bg := nodeHistory d.b ch { f with limit := nl } d.last
      let bgOut := match bg.2 with
        | .ok r => s!"bg=ok:{r.1.length}"
        | .error code => s!"bg=err={code}"
        | .disconnect code => s!"bg=disc={code}"
      let d := { d with b := bg.1 }
      if c.closed then ({ c with d := d }, s!"closed {bgOut}") else
      let r := historyCmd c.handler c.maxLimit d.b
        { channel := chanTok ch, since := f.since, limit := f.limit, reverse := f.reverse } d.last
      let (seen, out) := fmtHist d.seen r.2
      ({ c with d := { d with b := r.1, seen := seen }, closed := isDisc r.2 }, s!"{out} {bgOut}")
    | _, _, _ => (c, "bad-op")
  | "nodehist" :: ch :: rest =>
    match parseFilter rest, atTime rest with
    | some f, some t =>
      let d := c.d.advance (t0ms + t)
      let r := nodeHistory d.b ch (resolveFilter d.seen f) d.last
      let (seen, out) := fmtHist d.seen r.2
      ({ c with d := { d with b := r.1, seen := seen } }, out)
    | _, _ => (c, "bad-op")
  | ["padd", ch, client, user] =>
    ({ c with presence := presenceAdd c.presence ch { client := client, user := user } }, "ok")
  | ["prm", ch, client] => ({ c with presence := presenceRemove c.presence ch client }, "ok")
  | ["presence", ch] =>
    if c.closed then (c, "closed") else
    let r := presenceCmd c.handler c.presence (chanTok ch)
    ({ c with closed := isDisc r }, fmtPresence r)
  | ["nodepresence", ch] => (c, fmtClients (nodePresence c.presence ch))
  | ["pstats", ch] =>
    if c.closed then (c, "closed") else
    let r := presenceStatsCmd c.handler c.presence (chanTok ch)
    ({ c with closed := isDisc r }, fmtStats r)
  | ["nodepstats", ch] =>
    let s := nodePresenceStats c.presence ch
    (c, s!"ok nc={s.1} nu={s.2}")
  | _ => (c, "bad-op")

def main : IO Unit := runState stepC43 ({} : CState)
