import CentrifugeVerif.DriverLib
import CentrifugeVerif.Model.RedisPush
/-!
Driver for C33.  Ops (payloads hex encoded, `-` = empty):
* `ext <hex>`     → `PANIC` | `ok=<0|1> type=<n> off=<n> epoch=<hex> delta=<0|1> data=<hex> prev=<hex>`
* `pdp <hex>`     → `PANIC` | `err=<kind>` | `ok off=… epoch=… pl=… prev=… l=… payload=…`
* `handle <hex>`  → `PANIC` | `nopanic`   (handleRedisClientMessage: panics iff extractPushData does — never, `extract_total`)
* `cls <hex>`     → `class=<none|pHeaderShort|prevLenNegative|prevLenEqRemaining|payloadLenNegative>` (model only)
* `pre <hex>`     → like `ext`, for the code before commit e8dc9ebe (model only)
* `build <kind> <off> <epoch> <prev> <payload>` → `frame=<hex>` | `frame=none` (model only)
-/
open CentrifugeVerif DriverLib RedisPush

def b01 (b : Bool) : String := if b then "1" else "0"

def showPush : Outcome Push → String
  | .panic => "PANIC"
  | .val p => s!"ok={b01 p.ok} type={p.typ} off={p.offset} epoch={hex p.epoch} delta={b01 p.delta} data={hex p.data} prev={hex p.prev}"

def errName : DErr → String
  | .noPrefix => "noPrefix" | .missingOffset => "missingOffset" | .badOffset => "badOffset"
  | .missingEpoch => "missingEpoch" | .missingPrevLen => "missingPrevLen" | .badPrevLen => "badPrevLen"
  | .shortPrev => "shortPrev" | .missingPayload => "missingPayload" | .badPayloadLen => "badPayloadLen"
  | .shortPayload => "shortPayload"

def showDelta : Outcome (Except DErr DeltaPush) → String
  | .panic => "PANIC"
  | .val (.error e) => s!"err={errName e}"
  | .val (.ok d) => s!"ok off={d.offset} epoch={hex d.epoch} pl={d.prevLen} prev={hex d.prev} l={d.payloadLen} payload={hex d.payload}"

def className : Option PanicKind → String
  | none => "none"
  | some .pHeaderShort => "pHeaderShort"
  | some .prevLenNegative => "prevLenNegative"
  | some .prevLenEqRemaining => "prevLenEqRemaining"
  | some .payloadLenNegative => "payloadLenNegative"

open CentrifugeVerif.Gen.RedisPushFmt in
def buildKind (kind : String) (e : Env) : Option Bytes :=
  match kind with
  | "streamPlain" => render e streamPlain
  | "streamDelta" => render e streamDelta
  | "listPlain" => render e listPlain
  | "listDelta" => render e listDelta
  | "join" => some (buildJoin e.payload)
  | "leave" => some (buildLeave e.payload)
  | _ => none

def step (line : String) : String :=
  match words line with
  | ["ext", h] => match unhex h with
    | some d => showPush (extractPushData d)
    | none => "bad-op"
  | ["pre", h] => match unhex h with
    | some d => showPush (extractPushDataPre d)
    | none => "bad-op"
  | ["pdp", h] => match unhex h with
    | some d => showDelta (parseDeltaPush d)
    | none => "bad-op"
  | ["handle", h] => match unhex h with
    | some d => if (extractPushData d).isPanic then "PANIC" else "nopanic"
    | none => "bad-op"
  | ["cls", h] => match unhex h with
    | some d => s!"class={className (panicClass d)}"
    | none => "bad-op"
  | ["build", kind, off, ep, pv, pl] =>
    match off.toNat?, unhex ep, unhex pv, unhex pl with
    | some o, some e, some p, some q =>
      match buildKind kind { offset := o, epoch := e, prev := p, payload := q } with
      | some f => s!"frame={hex f}"
      | none => "frame=none"
    | _, _, _, _ => "bad-op"
  | _ => "bad-op"

def main : IO Unit := runPure step
