import CentrifugeVerif.DriverLib
import CentrifugeVerif.Model.Dissolve
/-!
Driver for C40.

Concurrent scenario ops (the harness executes each op on the real `Dissolver` and then waits until
every goroutine is durably blocked; the driver applies the visible label and then the closure of
the workers' internal steps):
* `reset W`            new dissolver with `W` workers (`initialCapacity` 2), `Run()`
* `submit`             `Submit(job_k)` with `k` = number of submits so far
* `finish j ok|fail`   release the gate of the running job `j` with that outcome
* `close`              `Close()`
Output: `acc=… started=… running=… cnt=… len=… head=… tail=… closed=… runs=… panic=…`
(`started`: jobs whose body began during this op, sorted; `runs`: total job executions finished).

Sequential queue ops (white-box differential of `queueImpl`):
* `q.new C` / `q.add j` / `q.rem` / `q.close`
Output: `r=… cnt=… len=… head=… tail=… closed=…` or `PANIC`.
-/
open CentrifugeVerif DriverLib Dissolve

structure DS where
  sys : Sys
  q : Queue
  qdead : Bool

def natList (l : List Nat) : String :=
  if l.isEmpty then "-" else joinWith "," (l.map toString)

def insSorted (x : Nat) : List Nat → List Nat
  | [] => [x]
  | y :: ys => if x ≤ y then x :: y :: ys else y :: insSorted x ys
def sortNat (l : List Nat) : List Nat := l.foldr insSorted []

def running (ws : List W) : List Nat :=
  sortNat (ws.filterMap fun | .running j => some j | _ => none)

def b01 (b : Bool) : String := if b then "1" else "0"

def qline (q : Queue) : String :=
  s!"cnt={q.cnt} len={q.nodes.length} head={q.head} tail={q.tail} closed={b01 q.closed}"

def settle (acc : String) (s : Sys) : Sys × String :=
  let fuel := 64 + 16 * (s.ws.length + s.q.cnt + 1) * (s.ws.length + 1)
  let (s', ls) := tauClose fuel s []
  -- jobs started = for each `start w` label the job the worker held at that time; recompute by replay
  let startedJobs := Id.run do
    let mut cur := s
    let mut out : List Nat := []
    for l in ls do
      match l with
      | .start w =>
        match cur.ws[w]? with
        | some (.holding j) => out := j :: out
        | _ => pure ()
      | _ => pure ()
      match next cur l with
      | some c => cur := c
      | none => pure ()
    return out
  (s', s!"acc={acc} started={natList (sortNat startedJobs)} running={natList (running s'.ws)} {qline s'.q} runs={s'.runs.length} panic={b01 (s'.panicked || s'.deqAfterClose)}")

/-- free-running model run: submit all jobs, let every running job return its scripted outcome
(job `k` fails `fails[k]` times, then succeeds) under a fixed scheduler, until nothing runs. -/
def stress (nW : Nat) (fails : List Nat) : String :=
  let n := fails.length
  let total := fails.foldl (· + ·) n
  let fuelT (s : Sys) := 64 + 16 * (s.ws.length + s.q.cnt + 1) * (s.ws.length + 1)
  let drain (fuel : Nat) (s0 : Sys) : Sys := Id.run do
    let mut s := (tauClose (fuelT s0) s0 []).1
    for _ in [0:fuel] do
      match s.ws.findSome? (fun | .running j => some j | _ => none) with
      | none => break
      | some j =>
        let failedSoFar := (s.runs.filter (fun r => r.1 = j ∧ r.2 = false)).length
        let ok := failedSoFar ≥ (fails[j]?).getD 0
        match s.ws.findIdx? (· = W.running j) with
        | none => break
        | some w =>
          match next s (.finish w ok) with
          | none => break
          | some s1 => s := (tauClose (fuelT s1) s1 []).1
    return s
  let final := Id.run do
    let mut s := (tauClose 64 (init nW 2) []).1
    for _ in [0:n] do
      match next s (.submit (firstParked s.ws)) with
      | some s1 => s := (tauClose (fuelT s1) s1 []).1
      | none => pure ()
    return drain (total + 1) s
  let counts := (List.range n).map fun j => (final.runs.filter (fun r => r.1 = j)).length
  let bad := if final.panicked || final.deqAfterClose then 1 else 0
  s!"stress runs={joinWith "," (counts.map toString)} bad={bad}"

def step (d : DS) (line : String) : DS × String :=
  match words line with
  | ["reset", w] =>
    match w.toNat? with
    | some n =>
      let (s', o) := settle "-" (init n 2)
      ({ d with sys := s' }, o)
    | none => (d, "bad-op")
  | ["submit"] =>
    match next d.sys (.submit (firstParked d.sys.ws)) with
    | none => (d, "disabled")
    | some s1 =>
      let acc := if s1.accepted.length > d.sys.accepted.length then "1" else "0"
      let (s', o) := settle acc s1
      ({ d with sys := s' }, o)
  | ["finish", j, r] =>
    match j.toNat? with
    | none => (d, "bad-op")
    | some jn =>
      match d.sys.ws.findIdx? (· = W.running jn) with
      | none => (d, "disabled")
      | some w =>
        match next d.sys (.finish w (r == "ok")) with
        | none => (d, "disabled")
        | some s1 =>
          let (s', o) := settle "-" s1
          ({ d with sys := s' }, o)
  | ["close"] =>
    match next d.sys .close with
    | none => (d, "disabled")
    | some s1 =>
      let (s', o) := settle "-" s1
      ({ d with sys := s' }, o)
  | ["stress", w, fs] =>
    match w.toNat?, (fs.splitOn ",").mapM String.toNat? with
    | some n, some fails => (d, stress n fails)
    | _, _ => (d, "bad-op")
  | ["q.new", c] =>
    match c.toNat? with
    | some n => let q := newQueue n; ({ d with q := q, qdead := false }, s!"r=- {qline q}")
    | none => (d, "bad-op")
  | ["q.add", j] =>
    match j.toNat? with
    | none => (d, "bad-op")
    | some jn =>
      if d.qdead then (d, "PANIC") else
      match add d.q jn with
      | none => ({ d with qdead := true }, "PANIC")
      | some (q', acc) => ({ d with q := q' }, s!"r={b01 acc} {qline q'}")
  | ["q.rem"] =>
    if d.qdead then (d, "PANIC") else
    match remove d.q with
    | none => ({ d with qdead := true }, "PANIC")
    | some (q', none) => ({ d with q := q' }, s!"r=none {qline q'}")
    | some (q', some j) => ({ d with q := q' }, s!"r={j} {qline q'}")
  | ["q.close"] =>
    if d.qdead then (d, "PANIC") else
    let q' := close d.q
    ({ d with q := q' }, s!"r=- {qline q'}")
  | _ => (d, "bad-op")

def main : IO Unit := runState step { sys := init 0 2, q := newQueue 2, qdead := false }
