import CentrifugeVerif.DriverLib
import CentrifugeVerif.Model.ChanWriter
/-!
Driver for C13 (`perChannelWriter` / `channelWriter`).  One op per line:
  `reset` · `add ch= f=<p|j|l> key= id= size= delay= latest=` · `get ch=` · `addh f= key= id= size= delay= latest=`
  · `sleep <ms>` · `del ch= flush=` · `closeall flush=`
Output: `out=<groups>`; a group (`|`-separated) holds the batches (`;`-separated, `[ids]`) handed to the
flush callback at one virtual instant; `out=-` when nothing was flushed.
-/
open CentrifugeVerif DriverLib ChanWriter

structure St where
  p : PCW := {}
  h : Nat := 0
  /-- client-level scenario: the connection's per-channel writer and the channel's batch config -/
  cp : PCW := {}
  ccfg : BatchCfg := ⟨0, 0, false⟩
  /-- client-level scenario: the connection is subscribed to the channel -/
  csub : Bool := true

def fmtBatch (b : List CItem) : String := "[" ++ joinWith "," (b.map (fun i => toString i.id)) ++ "]"

def fmtGroups (gs : List (List (List CItem))) : String :=
  let gs := gs.filter (!·.isEmpty)
  if gs.isEmpty then "out=-" else "out=" ++ joinWith "|" (gs.map (fun g => joinWith ";" (g.map fmtBatch)))

def optGroup (b : Option (List CItem)) : List (List (List CItem)) :=
  match b with | some x => [[x]] | none => []

def parseFrame : String → Option Frame
  | "p" => some .pub | "j" => some .join | "l" => some .leave | _ => none

def parseAdd (ws : List String) : Option (CItem × BatchCfg) :=
  match (kv ws "f").bind parseFrame, kvNat ws "key", kvNat ws "id", kvNat ws "size", kvNat ws "delay", kvNat ws "latest" with
  | some f, some k, some i, some sz, some d, some l =>
    some (⟨i, k, f⟩, ⟨sz, d, l != 0⟩)
  | _, _, _, _, _, _ => none

def step (s : St) (line : String) : St × String :=
  match words line with
  | ["reset"] => ({}, "reset")
  | ["race", d] =>
    -- the unsubscribe-versus-broadcast schedule: the broadcast passed the subscribed check, the
    -- unsubscribe ran `delWriter(ch, false)`, then the broadcast reaches `perChannelWriter.Add`
    match d.toNat? with
    | some dl =>
      let p0 : PCW := {}
      let (p1, _) := p0.del 1 false
      let (p2, b) := p1.add 1 ⟨1, 0, .pub⟩ ⟨0, dl, false⟩
      let (_, gs) := PCW.sleep (dl + 7) p2 (dl + 5) []
      let delivered := b.isSome || !gs.isEmpty
      let late := !gs.isEmpty
      (s, s!"race unsub_reply=1 pub_delivered={if delivered then 1 else 0} pub_after_unsub={if late then 1 else 0}")
    | none => (s, "bad-op")
  | "add" :: rest =>
    match kvNat rest "ch", parseAdd rest with
    | some ch, some (x, c) => let (p', b) := s.p.add ch x c; ({ s with p := p' }, fmtGroups (optGroup b))
    | _, _ => (s, "bad-op")
  | "gadd" :: rest =>
    -- virtual time runs to the earliest pending timer; that timer's flush is held inside the flush
    -- callback while the Add runs (it has to wait for the writer's lock), so: fire, then add
    match kvNat rest "ch", parseAdd rest with
    | some ch, some (x, c) =>
      match s.p.nextDeadline with
      | some d =>
        if d ≤ s.p.now + 64 then
          let (p1, bs) := ({ s.p with now := max s.p.now d }).fireDue
          let (p2, b) := p1.add ch x c
          ({ s with p := p2 }, fmtGroups [bs ++ (match b with | some y => [y] | none => [])])
        else
          let (p', b) := ({ s.p with now := s.p.now + 64 }).add ch x c
          ({ s with p := p' }, fmtGroups (optGroup b))
      | none =>
        let (p', b) := ({ s.p with now := s.p.now + 64 }).add ch x c
        ({ s with p := p' }, fmtGroups (optGroup b))
    | _, _ => (s, "bad-op")
  | "creset" :: rest =>
    match kvNat rest "delay", kvNat rest "size", kvNat rest "latest" with
    | some d, some sz, some l => ({ s with cp := {}, ccfg := ⟨sz, d, l != 0⟩, csub := true }, "creset")
    | _, _, _ => (s, "bad-op")
  | "cadd" :: rest =>
    match (kv rest "f").bind parseFrame, kvNat rest "id" with
    | some f, some i =>
      -- not subscribed: the hub has no entry for the connection, nothing reaches its channel writer
      if !s.csub then (s, "seq=[]") else
      let key := if f == .pub then (kvNat rest "key").getD 0 else 0
      let (p', b) := s.cp.add 1 ⟨i, key, f⟩ s.ccfg
      ({ s with cp := p' }, "seq=" ++ fmtBatch (match b with | some y => y | none => []))
    | _, _ => (s, "bad-op")
  | ["cunsub"] =>
    -- a client unsubscribe runs `delWriter(ch, false)`: whatever is batched for the channel is dropped
    let (p', _) := s.cp.del 1 false
    ({ s with cp := p', csub := false }, "seq=[]")
  | ["csub"] => ({ s with csub := true }, "seq=[]")
  | ["csleep", d] =>
    match d.toNat? with
    | some dl =>
      let (p', gs) := PCW.sleep (dl + 2) s.cp (s.cp.now + dl) []
      ({ s with cp := p' }, "seq=" ++ fmtBatch (gs.flatten.flatten))
    | none => (s, "bad-op")
  | "get" :: rest =>
    match kvNat rest "ch" with
    | some ch => let (p', h) := s.p.getWriter ch; ({ p := p', h := h }, "got")
    | none => (s, "bad-op")
  | "addh" :: rest =>
    match parseAdd rest with
    | some (x, c) => let (p', b) := s.p.addH s.h x c; ({ s with p := p' }, fmtGroups (optGroup b))
    | none => (s, "bad-op")
  | ["sleep", d] =>
    match d.toNat? with
    | some dl => let (p', gs) := PCW.sleep (dl + 2) s.p (s.p.now + dl) []; ({ s with p := p' }, fmtGroups gs)
    | none => (s, "bad-op")
  | "del" :: rest =>
    match kvNat rest "ch", kvNat rest "flush" with
    | some ch, some f => let (p', b) := s.p.del ch (f != 0); ({ s with p := p' }, fmtGroups (optGroup b))
    | _, _ => (s, "bad-op")
  | "closeall" :: rest =>
    match kvNat rest "flush" with
    | some f => let (p', bs) := s.p.closeAll (f != 0); ({ s with p := p' }, fmtGroups [bs])
    | none => (s, "bad-op")
  | _ => (s, "bad-op")

def main : IO Unit := runState step {}
