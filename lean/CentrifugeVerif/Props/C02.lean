import CentrifugeVerif.Model.RecoveryHub
namespace CentrifugeVerif.Recovery
theorem c02_placeholder : True := trivial
end CentrifugeVerif.Recovery
