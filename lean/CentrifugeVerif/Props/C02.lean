import CentrifugeVerif.Proofs.Recovery
import CentrifugeVerif.Proofs.RecoveryHub
import CentrifugeVerif.Proofs.RecoveryBuffered
/-!
# C02 — stream recovery is exact or explicitly refused

Property theorems over `Model/Recovery.lean` (`streamSubscribe` = the stream-mode recovery branch of
`subscribeCmd` over `Node.recoverHistory` / `historyHub.getLocked` / `memstream.Stream.Get` /
`isStreamRecovered` / `MergePublications`).  They hold for **every** stream state satisfying
`RStream.Inv` (retained list = contiguous suffix of the epoch's publish log ending at `top`,
`top + 1 < 2^64`; proved inductive for the hub mini-model in `Proofs/RecoveryHub.lean`), every
request offset below `2^64` (so also `MaxUint64`, where `offset + 1` wraps), every request epoch
(`0` = empty string), every `RecoveryMaxPublicationLimit` (`0` = unlimited), every filter predicate
and both values of the reject flag.  Publications buffered concurrently with the subscribe are
empty here (their merge is C39; `recovered_false_empty` holds for any buffer).
-/
namespace CentrifugeVerif.Recovery
open CentrifugeVerif.Merge

/-- the epoch of the request is acceptable: empty, or the stream's epoch -/
def epochOK (s : RStream) (ep : Nat) : Prop := ep = 0 ∨ ep = s.epoch

/-- the publications of the epoch after `off` that the filters let through, oldest first: what the
property calls "the channel's publications after that offset up to the current top (minus those the
subscription's filters withhold)" -/
def expectedPubs (s : RStream) (off : Nat) (pass : Pub → Bool) : List MPub :=
  ((s.log.filter (fun p => decide (off < p.offset))).filter pass).map toPlain

/-- **recovered_true_iff.**  `recovered = true` is reported exactly when the epoch is acceptable,
the requested offset is not beyond the top, every offset in `(offset, top]` is still retained, and
the recovery publication limit did not truncate the answer. -/
theorem recovered_true_iff (limit : Nat) (s : RStream) (hi : s.Inv) (req : Req) (hoff : req.offset < U64)
    (pass : Pub → Bool) :
    (streamSubscribe limit s req pass []).recovered = true ↔
      epochOK s req.epoch ∧ req.offset ≤ s.top ∧ gapRetained s req.offset ∧ ¬ truncated limit s req.offset := by
  rw [streamSubscribe_spec limit s hi req hoff pass]
  constructor
  · intro h
    by_cases hc : streamCond limit s req
    · exact ⟨hc.1, hc.2.1, (gap_iff s hi _ hc.2.1).mpr hc.2.2.1, hc.2.2.2⟩
    · rw [if_neg hc] at h
      cases hr : req.reject <;> simp [hr, Outcome.recovered] at h
  · rintro ⟨h1, h2, h3, h4⟩
    have hc : streamCond limit s req := ⟨h1, h2, (gap_iff s hi _ h2).mp h3, h4⟩
    rw [if_pos hc]
    rfl

/-- In particular `recovered = true` is never reported when a publication after the requested offset
is missing from history, when the epoch differs, or when the limit truncated the result. -/
theorem recovered_never_when (limit : Nat) (s : RStream) (hi : s.Inv) (req : Req) (hoff : req.offset < U64)
    (pass : Pub → Bool)
    (h : (∃ o, req.offset < o ∧ o ≤ s.top ∧ ∀ p ∈ s.items, p.offset ≠ o) ∨
         (req.epoch ≠ 0 ∧ req.epoch ≠ s.epoch) ∨ truncated limit s req.offset) :
    (streamSubscribe limit s req pass []).recovered = false := by
  cases hr : (streamSubscribe limit s req pass []).recovered with
  | false => rfl
  | true =>
    obtain ⟨h1, _, h3, h4⟩ := (recovered_true_iff limit s hi req hoff pass).mp hr
    rcases h with ⟨o, ho1, ho2, ho3⟩ | ⟨he1, he2⟩ | ht
    · obtain ⟨p, hp, hpo⟩ := h3 o ho1 ho2
      exact absurd hpo (ho3 p hp)
    · rcases h1 with h1 | h1
      · exact absurd h1 he1
      · exact absurd h1 he2
    · exact absurd ht h4

/-- **recovered_true_iff_buffered.**  With publications buffered concurrently (any list), the decision
is the same unless the merge detects a gap and the client is disconnected with insufficient state. -/
theorem recovered_true_iff_buffered (limit : Nat) (s : RStream) (hi : s.Inv) (req : Req) (hoff : req.offset < U64)
    (pass : Pub → Bool) (buffered : List MPub) :
    streamSubscribe limit s req pass buffered = .insufficient ∨
    ((streamSubscribe limit s req pass buffered).recovered = true ↔
      epochOK s req.epoch ∧ req.offset ≤ s.top ∧ gapRetained s req.offset ∧ ¬ truncated limit s req.offset) := by
  rw [streamSubscribe_shape limit s hi req hoff pass buffered]
  by_cases hc : streamCond limit s req
  · rw [if_pos hc]
    rcases finish_cases false false true ((s.log.drop req.offset).map (toM pass)) buffered s.top s.epoch
      req.offset true with h | h
    · exact Or.inl h
    · right
      rw [h]
      simp only [true_iff]
      exact ⟨hc.1, hc.2.1, (gap_iff s hi _ hc.2.1).mpr hc.2.2.1, hc.2.2.2⟩
  · rw [if_neg hc]
    have hrhs : ¬ (epochOK s req.epoch ∧ req.offset ≤ s.top ∧ gapRetained s req.offset ∧
        ¬ truncated limit s req.offset) := by
      rintro ⟨h1, h2, h3, h4⟩
      exact hc ⟨h1, h2, (gap_iff s hi _ h2).mp h3, h4⟩
    cases hr : req.reject
    · simp only [Bool.false_eq_true, if_false]
      rcases finish_cases false false false [] buffered s.top s.epoch req.offset true with h | h
      · exact Or.inl h
      · right; rw [h]; simp [hrhs]
    · right
      simp [Outcome.recovered, hrhs]

/-- **recovered_pubs_exact.**  When `recovered = true` the reply carries exactly the publications of
the epoch after the requested offset, in order, minus the filtered ones; the reply offset is the
requested one, the epoch the stream's, and the position the client is put at is the stream top. -/
theorem recovered_pubs_exact (limit : Nat) (s : RStream) (hi : s.Inv) (req : Req) (hoff : req.offset < U64)
    (pass : Pub → Bool) (h : (streamSubscribe limit s req pass []).recovered = true) :
    streamSubscribe limit s req pass [] =
      .reply true (expectedPubs s req.offset pass) req.offset s.epoch s.top true := by
  have hiff := (recovered_true_iff limit s hi req hoff pass).mp h
  have hc : streamCond limit s req := ⟨hiff.1, hiff.2.1, (gap_iff s hi _ hiff.2.1).mp hiff.2.2.1, hiff.2.2.2⟩
  rw [streamSubscribe_spec limit s hi req hoff pass, if_pos hc]
  rfl

/-- **recovered_pubs_exact_buffered.**  Exactness with traffic during the subscribe.  `news` are the
publications made after the history read (offsets `top+1, top+2, …`); the subscriber's buffer holds
copies (`toM`: placeholders for filtered ones) of publications of the epoch — the fresh ones, all of
them (`hnew`), and possibly late copies of older ones (`hbuf`).  Then the subscribe either ends with
insufficient state (the merge found a gap, e.g. a late copy far below the recovered range), or, when
the position is recoverable, reports `recovered = true` with **exactly** the epoch's publications after
the requested offset up to the *new* top, minus filtered ones, each once, in order — the stale copies
at or below the requested offset are not delivered again (`dropStale`). -/
theorem recovered_pubs_exact_buffered (limit : Nat) (s : RStream) (hi : s.Inv) (req : Req)
    (hoff : req.offset < U64) (pass : Pub → Bool) (news : List Pub) (buffered : List MPub)
    (hnews : offs news = List.range' (s.top + 1) news.length)
    (hbuf : ∀ b ∈ buffered, ∃ p ∈ s.log ++ news, b = toM pass p)
    (hnew : ∀ p ∈ news, toM pass p ∈ buffered)
    (hc : epochOK s req.epoch ∧ req.offset ≤ s.top ∧ gapRetained s req.offset ∧ ¬ truncated limit s req.offset) :
    streamSubscribe limit s req pass buffered = .insufficient ∨
    ((streamSubscribe limit s req pass buffered).recovered = true ∧
     (streamSubscribe limit s req pass buffered).pubs =
       (((s.log ++ news).filter (fun p => decide (req.offset < p.offset))).filter pass).map toPlain) := by
  have hcond : streamCond limit s req := ⟨hc.1, hc.2.1, (gap_iff s hi _ hc.2.1).mp hc.2.2.1, hc.2.2.2⟩
  rw [streamSubscribe_shape limit s hi req hoff pass buffered, if_pos hcond]
  -- offsets of the whole epoch log after the window
  have hall : offs (s.log ++ news) = List.range' 1 (s.top + news.length) := by
    simp only [offs, List.map_append] at hnews ⊢
    have h1 := hi.logOff
    simp only [offs] at h1
    rw [h1, hnews]
    have := List.range'_append (s := 1) (m := s.top) (n := news.length) (step := 1)
    simp only [Nat.one_mul] at this
    rw [Nat.add_comm 1 s.top] at this
    exact this
  have hpwAll := pairwise_of_offs hall
  have hdo : offs (s.log.drop req.offset) = List.range' (1 + req.offset) (s.top - req.offset) :=
    offs_drop hi.logOff req.offset
  unfold finish
  cases hm : merge ((s.log.drop req.offset).map (toM pass)) buffered with
  | none => exact Or.inl rfl
  | some lm =>
    obtain ⟨l, mx⟩ := lm
    right
    simp only [Outcome.recovered, Outcome.pubs, Bool.not_false, Bool.and_true, Bool.and_self, if_true, Bool.false_and,
      Bool.false_eq_true, if_false, true_and]
    have hsorted := merge_sorted_nodup _ _ l mx hm
    have hmemL := merge_no_placeholder _ _ l mx hm
    have hset := merge_set _ _ l mx hm
    -- every input entry is `toM pass p` for a publication of the epoch
    have hinput : ∀ y ∈ (s.log.drop req.offset).map (toM pass) ++ buffered, ∃ p ∈ s.log ++ news, y = toM pass p := by
      intro y hy
      rcases List.mem_append.mp hy with h1 | h1
      · obtain ⟨p, hp, rfl⟩ := List.mem_map.mp h1
        exact ⟨p, List.mem_append_left _ (List.mem_of_mem_drop hp), rfl⟩
      · exact hbuf y h1
    -- members of the reply
    have hmem : ∀ x, x ∈ dropStale req.offset buffered l ↔ x ∈ l ∧ req.offset < x.offset := by
      intro x
      unfold dropStale
      split
      · rename_i hbe
        have hb0 : buffered = [] := List.isEmpty_iff.mp hbe
        constructor
        · intro hx
          refine ⟨hx, ?_⟩
          obtain ⟨_, hxin⟩ := hmemL x hx
          rw [hb0, List.append_nil] at hxin
          obtain ⟨p, hp, rfl⟩ := List.mem_map.mp hxin
          have := (mem_offs hdo p.offset).mp ⟨p, hp, rfl⟩
          simp only [toM]; omega
        · intro hx; exact hx.1
      · simp [List.mem_filter]
    apply eq_of_sorted_mem_iff
    · unfold dropStale
      split
      · exact hsorted
      · exact hsorted.sublist List.filter_sublist
    · rw [List.pairwise_map]
      exact (hpwAll.sublist (List.filter_sublist.trans List.filter_sublist)).imp (fun h => h)
    · intro x
      rw [hmem]
      simp only [List.mem_map, List.mem_filter, decide_eq_true_eq]
      constructor
      · rintro ⟨hxl, hxo⟩
        obtain ⟨hnf, hxin⟩ := hmemL x hxl
        obtain ⟨p, hp, rfl⟩ := hinput x hxin
        have hpp := (toM_filtered pass p).mp hnf
        exact ⟨p, ⟨⟨hp, by simpa [toM] using hxo⟩, hpp⟩, (toM_pass hpp).symm⟩
      · rintro ⟨p, ⟨⟨hp, hpo⟩, hpp⟩, rfl⟩
        refine ⟨?_, by simpa [toPlain] using hpo⟩
        -- `toM pass p` is among the inputs
        have hin : toM pass p ∈ (s.log.drop req.offset).map (toM pass) ++ buffered := by
          rcases List.mem_append.mp hp with h1 | h1
          · apply List.mem_append_left
            apply List.mem_map_of_mem
            rw [log_after s hi]
            exact List.mem_filter.mpr ⟨h1, by simpa using hpo⟩
          · exact List.mem_append_right _ (hnew p h1)
        have hoffIn : p.offset ∈ l.map (·.offset) :=
          (hset p.offset).mpr ((mem_nfOffsets _ _).mpr ⟨toM pass p, hin, (toM_filtered pass p).mpr hpp, rfl⟩)
        obtain ⟨y, hy, hyo⟩ := List.mem_map.mp hoffIn
        obtain ⟨hynf, hyin⟩ := hmemL y hy
        obtain ⟨q, hq, rfl⟩ := hinput y hyin
        have hqp : q = p := pw_inj hpwAll hq hp (by simpa [toM] using hyo)
        subst hqp
        rw [← toM_pass hpp]
        exact hy

/-- every delivered publication is a retained one (nothing is invented) -/
theorem recovered_pubs_retained (limit : Nat) (s : RStream) (hi : s.Inv) (req : Req) (hoff : req.offset < U64)
    (pass : Pub → Bool) (h : (streamSubscribe limit s req pass []).recovered = true) :
    ∀ m ∈ (streamSubscribe limit s req pass []).pubs,
      ∃ p ∈ s.items, pass p = true ∧ req.offset < p.offset ∧ m = toPlain p := by
  have hiff := (recovered_true_iff limit s hi req hoff pass).mp h
  rw [recovered_pubs_exact limit s hi req hoff pass h]
  intro m hm
  simp only [Outcome.pubs, expectedPubs, List.mem_map, List.mem_filter, decide_eq_true_eq] at hm
  obtain ⟨p, ⟨⟨hpl, hgt⟩, hpass⟩, rfl⟩ := hm
  have hle : p.offset ≤ s.top := by
    have := (mem_offs hi.logOff p.offset).mp ⟨p, hpl, rfl⟩
    omega
  obtain ⟨q, hq, hqo⟩ := hiff.2.2.1 p.offset hgt hle
  -- the retained entry with that offset is the log entry itself (items ⊆ log, offsets distinct)
  have hqlog : q ∈ s.log := by
    have := hi.suffix
    rw [this] at hq
    exact List.mem_of_mem_drop hq
  have hpw := pairwise_of_offs hi.logOff
  have : q = p := pw_inj hpw hqlog hpl hqo
  subst this
  exact ⟨q, hq, hpass, hgt, rfl⟩

/-- **recovered_false_empty.**  Whenever `recovered = false` is reported (or the subscribe fails) no
recovered publication is delivered — for any buffered publications. -/
theorem recovered_false_empty (limit : Nat) (s : RStream) (req : Req) (pass : Pub → Bool)
    (buffered : List MPub) (h : (streamSubscribe limit s req pass buffered).recovered = false) :
    (streamSubscribe limit s req pass buffered).pubs = [] := by
  rcases streamSubscribe_cases limit s req pass buffered with h1 | ⟨r, rp, h1⟩
  · rw [h1]; rfl
  · rw [h1] at h ⊢
    exact finish_false_empty _ _ _ _ _ _ _ _ _ h

/-- **unrecoverable_iff.**  The subscribe fails with `ErrorUnrecoverablePosition` exactly when the
client demanded it (reject flag) and the position is not recoverable; otherwise a reply is sent. -/
theorem unrecoverable_iff (limit : Nat) (s : RStream) (hi : s.Inv) (req : Req) (hoff : req.offset < U64)
    (pass : Pub → Bool) :
    streamSubscribe limit s req pass [] = .unrecoverable ↔
      req.reject = true ∧
        ¬ (epochOK s req.epoch ∧ req.offset ≤ s.top ∧ gapRetained s req.offset ∧ ¬ truncated limit s req.offset) := by
  rw [← recovered_true_iff limit s hi req hoff pass, streamSubscribe_spec limit s hi req hoff pass]
  by_cases hc : streamCond limit s req
  · simp [hc, Outcome.recovered]
  · cases hr : req.reject <;> simp [hc, Outcome.recovered]

/-- without the reject flag the outcome is always a reply -/
theorem refused_reply (limit : Nat) (s : RStream) (hi : s.Inv) (req : Req) (hoff : req.offset < U64)
    (pass : Pub → Bool) (hr : req.reject = false)
    (h : (streamSubscribe limit s req pass []).recovered = false) :
    streamSubscribe limit s req pass [] = .reply false [] s.top s.epoch s.top true := by
  rw [streamSubscribe_spec limit s hi req hoff pass] at h ⊢
  by_cases hc : streamCond limit s req
  · simp [hc, Outcome.recovered] at h
  · simp [hc, hr]

/-- **stream_inv_reachable.**  The hypothesis `RStream.Inv` of the theorems above holds for the stream
read by a subscribe in *every reachable state* of the hub mini-model: any sequence of publish (any
history size / TTL), RemoveHistory, sweeper ticks (TTL expiry keeps top, meta expiry deletes the stream
so that the next access creates a fresh epoch with top 0) and subscribes (with cache-empty handler
publishes), provided fewer than 2^64 - 2 publications were made. -/
theorem stream_inv_reachable (ops : List HubOp) (now m l : Nat)
    (hb : (Hub.run { now := now, cfgMeta := m, cfgLimit := l } ops).nextId + 1 < U64) (mt : Nat) :
    ((Hub.run { now := now, cfgMeta := m, cfgLimit := l } ops).access mt).2.Inv :=
  reachable_read_inv ops now m l hb mt

/-- **hub_recovered_true_iff.**  `recovered_true_iff` at hub level: a client subscribe with `Recover`
in stream mode against any hub state satisfying the invariant (so: any reachable one). -/
theorem hub_recovered_true_iff (h : Hub) (hi : h.HInv) (sp : SubParams) (hm : sp.cacheMode = false)
    (hr : sp.recover = true) (hw : sp.window = []) (hoff : sp.req.offset < U64) :
    (h.subscribe sp).out.recovered = true ↔
      epochOK (h.access 0).2 sp.req.epoch ∧ sp.req.offset ≤ (h.access 0).2.top ∧
      gapRetained (h.access 0).2 sp.req.offset ∧ ¬ truncated h.cfgLimit (h.access 0).2 sp.req.offset := by
  have : (h.subscribe sp).out = streamSubscribe h.cfgLimit (h.access 0).2 sp.req sp.filt.pass [] := by
    unfold Hub.subscribe
    simp [hm, hr, hw, Hub.windowEvents]
  rw [this]
  exact recovered_true_iff _ _ (hinv_access hi 0).2.1 _ hoff _

/-- the same with arbitrary traffic (fresh publications, late copies) arriving while the subscribe
is in flight: the decision is unchanged unless the merge disconnects with insufficient state -/
theorem hub_recovered_true_iff_window (h : Hub) (hi : h.HInv) (sp : SubParams) (hm : sp.cacheMode = false)
    (hr : sp.recover = true) (hoff : sp.req.offset < U64) :
    (h.subscribe sp).out = .insufficient ∨
    ((h.subscribe sp).out.recovered = true ↔
      epochOK (h.access 0).2 sp.req.epoch ∧ sp.req.offset ≤ (h.access 0).2.top ∧
      gapRetained (h.access 0).2 sp.req.offset ∧ ¬ truncated h.cfgLimit (h.access 0).2 sp.req.offset) := by
  have : (h.subscribe sp).out = streamSubscribe h.cfgLimit (h.access 0).2 sp.req sp.filt.pass
      ((h.access 0).1.windowEvents (h.access 0).2 sp.filt.pass sp.window).2.1 := by
    unfold Hub.subscribe
    simp [hm, hr]
  rw [this]
  exact recovered_true_iff_buffered _ _ (hinv_access hi 0).2.1 _ hoff _ _

/-! ### Non-vacuity: concrete states satisfying `Inv`, exercising the branches -/

-- `recovered_pubs_exact_buffered` on a concrete instance: one fresh publication (offset 6) and a late
-- copy of offset 2 (= the requested offset) arrive while the subscribe recovers from 2
example : streamSubscribe 0 (((((((RStream.new 7).add 1 1 9).add 2 2 9).add 1 3 9).add 1 4 9).add 2 5 9))
    ⟨2, 7, false⟩ (fun _ => true) [⟨6, false, 6⟩, ⟨2, false, 2⟩] =
    .reply true [⟨3, false, 3⟩, ⟨4, false, 4⟩, ⟨5, false, 5⟩, ⟨6, false, 6⟩] 2 7 6 true := by decide
-- a late copy far below the recovered range makes the merge report a gap
example : streamSubscribe 0 (((((((RStream.new 7).add 1 1 9).add 2 2 9).add 1 3 9).add 1 4 9).add 2 5 9))
    ⟨3, 7, false⟩ (fun _ => true) [⟨1, false, 1⟩] = .insufficient := by decide

/-- five publications, history size 3: offsets 3,4,5 retained, top 5, epoch 7 -/
def exS : RStream :=
  (((((RStream.new 7).add 1 1 3).add 2 2 3).add 1 3 3).add 1 4 3).add 2 5 3

example : exS.Inv := by
  unfold exS
  have h0 := inv_new 7 (by decide)
  have b : ∀ n : Nat, n ≤ 10 → n + 2 < U64 := by intro n hn; unfold U64; omega
  have h1 := inv_add h0 (b _ (by decide)) 1 1 3
  have h2 := inv_add h1 (b _ (by decide)) 2 2 3
  have h3 := inv_add h2 (b _ (by decide)) 1 3 3
  have h4 := inv_add h3 (b _ (by decide)) 1 4 3
  exact inv_add h4 (b _ (by decide)) 2 5 3

-- recovered from a retained position, with a filter (tag = 1): offset 5 (tag 2) is withheld
example : streamSubscribe 0 exS ⟨2, 7, false⟩ (fun p => p.tag == 1) [] =
    .reply true [⟨3, false, 3⟩, ⟨4, false, 4⟩] 2 7 5 true := by decide
-- trimmed position (offset 2 is gone): refused, and with the reject flag an error
example : streamSubscribe 0 exS ⟨1, 7, false⟩ (fun _ => true) [] = .reply false [] 5 7 5 true := by decide
example : streamSubscribe 0 exS ⟨1, 7, true⟩ (fun _ => true) [] = .unrecoverable := by decide
-- limit 2 truncates a gap of 3
example : streamSubscribe 2 exS ⟨2, 7, false⟩ (fun _ => true) [] = .reply false [] 5 7 5 true := by decide
example : truncated 2 exS 2 := by decide
-- foreign epoch, empty epoch, offset = top, offset beyond top
example : streamSubscribe 0 exS ⟨2, 9, false⟩ (fun _ => true) [] = .reply false [] 5 7 5 true := by decide
example : (streamSubscribe 0 exS ⟨2, 0, false⟩ (fun _ => true) []).recovered = true := by decide
example : streamSubscribe 0 exS ⟨5, 7, false⟩ (fun _ => true) [] = .reply true [] 5 7 5 true := by decide
example : (streamSubscribe 0 exS ⟨6, 7, false⟩ (fun _ => true) []).recovered = false := by decide
-- expired / removed stream keeps top: only the client at top is recovered
example : (streamSubscribe 0 exS.clear ⟨5, 7, false⟩ (fun _ => true) []).recovered = true := by decide
example : (streamSubscribe 0 exS.clear ⟨4, 7, false⟩ (fun _ => true) []).recovered = false := by decide

end CentrifugeVerif.Recovery
