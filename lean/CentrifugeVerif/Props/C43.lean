import CentrifugeVerif.Proofs.Stream
import CentrifugeVerif.Model.HistoryCmd
/-!
# C43 — History and presence client commands honour their limits

All statements are for every broker state `b`, every request (any since / limit incl. negative /
direction), every configured limit and every time.
-/
namespace CentrifugeVerif.HistoryCmd
open CentrifugeVerif.MemStream CentrifugeVerif.HistoryHub

/-- the clamp: with a configured limit `m > 0` the effective limit is in `[0, m]` -/
theorem effFilter_limit_range (m : Int) (req : HistReq) (hm : 0 < m) :
    0 ≤ (effFilter m req).limit ∧ (effFilter m req).limit ≤ m := by
  unfold effFilter
  simp only
  split <;> omega

/-- the clamp changes nothing but the limit, and nothing at all when no limit is configured or the
request is within it -/
theorem effFilter_eq (m : Int) (req : HistReq) :
    (effFilter m req).since = req.since ∧ (effFilter m req).reverse = req.reverse ∧
      ((m ≤ 0 ∨ (0 ≤ req.limit ∧ req.limit ≤ m)) → (effFilter m req).limit = req.limit) := by
  refine ⟨rfl, rfl, ?_⟩
  intro h
  unfold effFilter
  simp only
  split
  · omega
  · rfl

/-- **history_cmd_eq_node**: with a handler installed and a non-empty channel the command's outcome
(reply or error, and the broker state afterwards) is exactly `Node.History` for the effective filter. -/
theorem history_cmd_eq_node (m : Int) (b : Broker) (req : HistReq) (now : Nat) (hc : req.channel ≠ "") :
    historyCmd true m b req now = nodeHistory b req.channel (effFilter m req) now := by
  simp [historyCmd, hc]

/-- the memory broker never returns more publications than a non-negative limit -/
theorem hub_get_length_le (h : Hub) (ch : String) (f : Filter) (mt nowS : Nat) (hl : 0 ≤ f.limit) :
    (h.get ch f mt nowS).2.1.length ≤ f.limit.toNat := by
  unfold Hub.get Hub.getCore
  simp only
  split
  · simp
  · split
    · split
      · simp
      · simpa using get_length_le_limit _ _ _ _ _ hl
    · split
      · simp
      · split
        · simp
        · simpa using get_length_le_limit _ _ _ _ _ hl

/-- node-level: a reply never has more publications than a non-negative limit -/
theorem nodeHistory_length_le (b : Broker) (ch : String) (f : Filter) (now : Nat) (hl : 0 ≤ f.limit)
    (r : HistResult) (b' : Broker) (h : nodeHistory b ch f now = (b', .ok r)) :
    r.1.length ≤ f.limit.toNat := by
  have key := hub_get_length_le b.hub ch f 0 (now / 1000) hl
  unfold nodeHistory at h
  split at h
  · split at h
    · cases h
    · simp only at h
      split at h
      · cases h; exact key
      · cases h
  · cases h; exact key

/-- **history_cmd_clamped**: with `HistoryMaxPublicationLimit = m > 0` a history reply never carries
more than `m` publications — whatever the requested limit (negative, zero, huge), since and direction. -/
theorem history_cmd_clamped (handler : Bool) (m : Int) (hm : 0 < m) (b b' : Broker) (req : HistReq)
    (now : Nat) (r : HistResult) (h : historyCmd handler m b req now = (b', .ok r)) :
    (r.1.length : Int) ≤ m := by
  unfold historyCmd at h
  split at h
  · cases h
  · split at h
    · cases h
    · have hr := effFilter_limit_range m req hm
      have := nodeHistory_length_le b req.channel (effFilter m req) now hr.1 r b' h
      omega

/-- **reverse_since0_bad**: a reverse request since offset zero is rejected as a bad request (107),
at node level and through the command, and the broker is not touched. -/
theorem reverse_since0_bad (b : Broker) (ch : String) (f : Filter) (now : Nat) (e : Nat)
    (hs : f.since = some ⟨0, e⟩) (hr : f.reverse = true) :
    nodeHistory b ch f now = (b, .error errBadRequest) := by
  simp [nodeHistory, hs, hr]

theorem reverse_since0_bad_cmd (m : Int) (b : Broker) (req : HistReq) (now : Nat) (e : Nat)
    (hc : req.channel ≠ "") (hs : req.since = some ⟨0, e⟩) (hr : req.reverse = true) :
    historyCmd true m b req now = (b, .error errBadRequest) := by
  rw [history_cmd_eq_node m b req now hc]
  exact reverse_since0_bad b req.channel (effFilter m req) now e hs hr

/-- other outcomes of the command: no handler ⇒ not available; empty channel ⇒ bad-request disconnect -/
theorem history_cmd_no_handler (m : Int) (b : Broker) (req : HistReq) (now : Nat) :
    historyCmd false m b req now = (b, .error errNotAvailable) := by
  simp [historyCmd]

theorem history_cmd_empty_channel (m : Int) (b : Broker) (req : HistReq) (now : Nat)
    (hc : req.channel = "") : historyCmd true m b req now = (b, .disconnect discBadRequest) := by
  simp [historyCmd, hc]

/-- **presence_cmd_eq_node**: the presence reply carries exactly the node-level entries -/
theorem presence_cmd_eq_node (p : Presence) (ch : String) (hc : ch ≠ "") :
    presenceCmd true p ch = .ok (nodePresence p ch) := by
  simp [presenceCmd, hc]

/-- **presence_stats_cmd_eq_node** (counts below 2^32; the reply fields are `uint32`) -/
theorem presence_stats_cmd_eq_node (p : Presence) (ch : String) (hc : ch ≠ "")
    (hn : (p ch).length < 4294967296) :
    presenceStatsCmd true p ch = .ok (nodePresenceStats p ch) := by
  have hu : (distinctUsers (p ch)).length ≤ (p ch).length := by
    generalize p ch = l
    induction l with
    | nil => simp [distinctUsers]
    | cons i rest ih =>
      unfold distinctUsers
      split <;> simp <;> omega
  simp only [presenceStatsCmd, hc, nodePresenceStats, Bool.not_true, Bool.false_eq_true, if_false]
  congr 2 <;> (apply Nat.mod_eq_of_lt; omega)

/-- **distinct effective filters ⇒ distinct single-flight keys**: two history calls share an
in-flight result only when channel, since, limit, direction and meta TTL all agree — so sharing
cannot hand a caller the result of another filter (in particular not of another limit). -/
theorem historyKey_injective (ch ch' : String) (f f' : Filter) (m m' : Nat)
    (h : historyKey ch f m = historyKey ch' f' m') : ch = ch' ∧ f = f' ∧ m = m' := by
  obtain ⟨s, l, r⟩ := f
  obtain ⟨s', l', r'⟩ := f'
  simp only [historyKey, HistoryKey.mk.injEq] at h
  obtain ⟨h1, h2, h3, h4, h5⟩ := h
  refine ⟨h1, ?_, h5⟩
  subst h3; subst h4
  have : s = s' := by
    cases s with
    | none => cases s' with
      | none => rfl
      | some p => simp at h2
    | some p => cases s' with
      | none => simp at h2
      | some p' =>
        obtain ⟨o, e⟩ := p; obtain ⟨o', e'⟩ := p'
        simp at h2; obtain ⟨ho, he⟩ := h2; subst ho; subst he; rfl
  subst this; rfl

example : historyKey "a" { limit := 0 } 0 ≠ historyKey "a" { limit := -1 } 0 := by decide

/-! Non-vacuity -/
example : (effFilter 2 { channel := "a", limit := -1 }).limit = 2 := by decide
example : (effFilter 2 { channel := "a", limit := 7 }).limit = 2 := by decide
example : (effFilter 2 { channel := "a", limit := 0 }).limit = 0 := by decide
example : (effFilter 0 { channel := "a", limit := -1 }).limit = -1 := by decide

/-- three publications, limit 2 configured, unlimited request ⇒ two publications -/
example :
    let b := run (Broker.init 1000) [
      .publish "a" "d1" { size := 5, ttl := 10000 } 500,
      .publish "a" "d2" { size := 5, ttl := 10000 } 600,
      .publish "a" "d3" { size := 5, ttl := 10000 } 700]
    (historyCmd true 2 b { channel := "a", limit := -1 } 800).2 =
      .ok ([⟨1, ⟨"d1", 0⟩⟩, ⟨2, ⟨"d2", 0⟩⟩], ⟨3, 1⟩) := by decide

end CentrifugeVerif.HistoryCmd
