import CentrifugeVerif.Proofs.DissolveSys
/-!
# C40 — Deferred jobs run until they succeed

Property theorems over `Model/Dissolve.lean` (ring-buffer lemmas in `Proofs/Dissolve.lean`, system
invariant in `Proofs/DissolveSys.lean`).

`Reach nW c s`: `s` is reachable from a fresh dissolver with `nW` workers and initial ring capacity
`c` by any finite label sequence — every interleaving of any number of `Submit` calls, the workers'
steps (`Wait` part 1, `Remove`, `Closed`, job start, job finish with *either* outcome, re-`Add`),
`Close` calls, and every choice of the goroutine woken by `cond.Signal`.  All theorems need only
`0 < c` (the repo uses `initialCapacity = 2`).

Reading of the statement (DESIGN.md §4 C40): "executed after the queue is closed" = *dequeued* after
`Close`; a job a worker already holds when `Close` returns may still run once.  "Until it succeeds"
is a liveness claim: proved here are its safety halves (nothing is lost, a failed job is back in the
queue, no wake-up is lost, FIFO position bound); that an enabled worker step is eventually taken is
the Go scheduler's fairness, assumed.
-/
namespace CentrifugeVerif.Dissolve

/-! ## the ring buffer -/

/-- the invariant that makes `resize` index-safe: an open queue's ring has `initCap·2^k` slots and is
more than half full unless it has its initial size -/
theorem queue_size_invariant {q : Queue} (h : QInv q) :
    Pow2Mul q.initCap q.nodes.length ∧ (q.nodes.length = q.initCap ∨ q.nodes.length / 2 < q.cnt) :=
  ⟨h.pow, h.size⟩

/-- **FIFO refinement, index safety**: every sequence of `Add`/`Remove` calls on an open queue runs
without a Go panic (no slice or index out of range, no division by zero — in particular inside
`resize`), keeps the invariant, and returns exactly what a FIFO list returns. -/
theorem queue_refines_fifo (ops : List QOp) : ∀ (q : Queue), QInv q →
    ∃ q' outs, implRun q ops = some (q', outs) ∧ QInv q' ∧ (abs q', outs) = specRun (abs q) ops := by
  induction ops with
  | nil => intro q hq; exact ⟨q, [], rfl, hq, rfl⟩
  | cons op ops ih =>
    intro q hq
    cases op with
    | add j =>
      obtain ⟨q1, h1, h2, h3, _⟩ := add_open hq j
      obtain ⟨q2, outs, r1, r2, r3⟩ := ih q1 h2
      refine ⟨q2, none :: outs, ?_, r2, ?_⟩
      · simp [implRun, implStep, h1, r1]
      · simp only [specRun, specStep, ← h3, ← r3]
    | rem =>
      cases habs : abs q with
      | nil =>
        have h0 : q.cnt = 0 := by have := abs_length hq; rw [habs] at this; simpa using this.symm
        obtain ⟨q2, outs, r1, r2, r3⟩ := ih q hq
        refine ⟨q2, none :: outs, ?_, r2, ?_⟩
        · simp [implRun, implStep, remove_empty q h0, r1]
        · rw [habs] at r3
          simp only [specRun, specStep, ← r3]
      | cons x xs =>
        obtain ⟨q1, h1, h2, h3, _⟩ := remove_spec q hq x xs habs
        obtain ⟨q2, outs, r1, r2, r3⟩ := ih q1 h2
        refine ⟨q2, some x :: outs, ?_, r2, ?_⟩
        · simp [implRun, implStep, h1, r1]
        · rw [h3] at r3
          simp only [specRun, specStep, ← r3]

example : QInv (newQueue 2) := inv_newQueue 2 (by decide)

/-! ## the system -/

/-- index safety under concurrency: no queue operation panics in any reachable state -/
theorem no_panic {nW c : Nat} (hc : 0 < c) {s : Sys} (h : Reach nW c s) : s.panicked = false :=
  (reach_inv hc h).noPanic

/-- **`no_loss`**: while the queue is open, every job whose `Submit` returned nil and that has not yet
returned success is in exactly one place: queued once, or owned by exactly one worker (dequeued and
about to run, running, or failed and about to be re-added). -/
theorem no_loss {nW c : Nat} (hc : 0 < c) {s : Sys} (h : Reach nW c s) (hopen : s.q.closed = false)
    (j : Job) (hacc : j ∈ s.accepted) (hns : j ∉ s.succeeded) : (inflight s).count j = 1 := by
  have hi := reach_inv hc h
  have h1 : (inflight s).count j = cntJ s j := by simp [inflight, cntJ, List.count_append]
  rcases hi.noLoss hopen j hacc with h' | h'
  · exact absurd h' hns
  · have := hi.uniq j; omega

/-- nothing else is ever in the machine: whatever is queued or owned by a worker was accepted, has not
succeeded, and is there once. -/
theorem inflight_sound {nW c : Nat} (hc : 0 < c) {s : Sys} (h : Reach nW c s) (j : Job)
    (hj : j ∈ inflight s) : j ∈ s.accepted ∧ j ∉ s.succeeded ∧ (inflight s).count j = 1 := by
  have hi := reach_inv hc h
  have h1 : (inflight s).count j = cntJ s j := by simp [inflight, cntJ, List.count_append]
  have hpos : 0 < cntJ s j := by rw [← h1]; exact List.count_pos_iff.mpr hj
  have := hi.own j hpos
  have hu := hi.uniq j
  exact ⟨this.2.1, this.2.2, by omega⟩

/-- **`no_run_after_success`** on the execution log (newest first): no entry of a job has an older
successful entry of the same job. -/
theorem no_run_after_success {nW c : Nat} (hc : 0 < c) {s : Sys} (h : Reach nW c s) : RunsOk s.runs :=
  (reach_inv hc h).runsOk

/-- the same at the step where a worker starts a job: that job has not succeeded before -/
theorem start_implies_not_succeeded {nW c : Nat} (hc : 0 < c) {s : Sys} (h : Reach nW c s) (w : Nat) (j : Job)
    (hw : s.ws[w]? = some (W.holding j)) : j ∉ s.succeeded ∧ j ∈ s.accepted := by
  have hi := reach_inv hc h
  have hpos : 0 < cntJ s j := by
    have h1 := heldJobs_set hw W.idle j
    simp only [wjob, jc] at h1
    simp only [cntJ]; simp at h1; omega
  have := hi.own j hpos
  exact ⟨this.2.2, this.2.1⟩

/-- **`no_dequeue_after_close`**: in no reachable state has a dequeue ever returned a job while the
queue was closed … -/
theorem no_dequeue_after_close {nW c : Nat} (hc : 0 < c) {s : Sys} (h : Reach nW c s) :
    s.deqAfterClose = false :=
  (reach_inv hc h).noDeqAfterClose

/-- … because once closed, `Remove` returns `(nil,false)` to every worker, and `Submit` is refused. -/
theorem closed_queue_gives_nothing {nW c : Nat} (hc : 0 < c) {s : Sys} (h : Reach nW c s)
    (hcl : s.q.closed = true) :
    abs s.q = [] ∧ remove s.q = some (s.q, none) ∧ ∀ j, add s.q j = some (s.q, false) := by
  have hi := reach_inv hc h
  obtain ⟨h0, ha⟩ := hi.qClosed hcl
  exact ⟨ha, remove_empty _ h0, fun j => add_closed _ j hcl⟩

/-- workers exit only after `Close` -/
theorem exit_only_after_close {nW c : Nat} (hc : 0 < c) {s : Sys} (h : Reach nW c s)
    (he : W.exited ∈ s.ws) : s.q.closed = true :=
  (reach_inv hc h).exitedClosed he

/-- **no lost wake-up**: while the queue is open and a job is queued, some worker is neither parked in
`cond.Wait()` nor exited (given there is any worker) … -/
theorem no_lost_wakeup {nW c : Nat} (hc : 0 < c) {s : Sys} (h : Reach nW c s) (hopen : s.q.closed = false)
    (hq : abs s.q ≠ []) (hws : s.ws ≠ []) : ∃ w ∈ s.ws, w ≠ W.parked ∧ w ≠ W.exited :=
  (reach_inv hc h).wakeup hopen hq hws

/-- … and such a worker always has an enabled step (so a queued job can always make progress; that the
step is eventually taken is scheduler fairness). -/
theorem active_worker_enabled (s : Sys) (i : Nat) (st : W) (hi : s.ws[i]? = some st)
    (h1 : st ≠ W.parked) (h2 : st ≠ W.exited) :
    ∃ l, (next s l).isSome = true ∧
      (l = .wait i ∨ l = .remove i ∨ l = .check i ∨ l = .start i ∨ (∃ ok, l = .finish i ok) ∨ ∃ p, l = .readd i p) := by
  cases st with
  | idle =>
    refine ⟨.wait i, ?_, Or.inl rfl⟩
    simp only [next, hi, if_true]
    split
    · rfl
    · split <;> rfl
  | parked => exact absurd rfl h1
  | removing =>
    refine ⟨.remove i, ?_, Or.inr (Or.inl rfl)⟩
    simp only [next, hi, if_true]
    split <;> rfl
  | check => exact ⟨.check i, by simp [next, hi], Or.inr (Or.inr (Or.inl rfl))⟩
  | holding j => exact ⟨.start i, by simp [next, hi], Or.inr (Or.inr (Or.inr (Or.inl rfl)))⟩
  | running j => exact ⟨.finish i true, by simp [next, hi], Or.inr (Or.inr (Or.inr (Or.inr (Or.inl ⟨true, rfl⟩))))⟩
  | retrying j =>
    -- pick a parked worker to signal if there is one
    have hpick : ∃ p, (wake (s.ws.set i W.idle) p).isSome = true := by
      by_cases hall : (s.ws.set i W.idle).all (fun x => x != W.parked) = true
      · refine ⟨0, ?_⟩
        simp only [wake]
        split
        · rfl
        · simp [hall]
      · obtain ⟨p, hp⟩ := exists_parked _ hall
        exact ⟨p, by simp [wake, hp]⟩
    obtain ⟨p, hp⟩ := hpick
    refine ⟨.readd i p, ?_, Or.inr (Or.inr (Or.inr (Or.inr (Or.inr ⟨p, rfl⟩))))⟩
    simp only [next, hi]
    split
    · rfl
    · rfl
    · cases hwk : wake (s.ws.set i W.idle) p with
      | none => rw [hwk] at hp; cases hp
      | some ws' => rfl
  | exited => exact absurd rfl h2

/-! ## FIFO progress -/

/-- **`fifo_progress`**: if job `j` is queued behind `pre` (so at position `|pre|`), then along *any*
run that leaves the queue open, after `k ≤ |pre|` further successful dequeues `j` is at position
`|pre| - k` (exactly the first `k` jobs of `pre` have been taken, nothing overtakes); otherwise more
than `|pre|` dequeues have happened, i.e. `j` itself has been dequeued — by the `(|pre|+1)`-th further
dequeue at the latest.  This is the fairness-free half of "until it succeeds": a job waits for at most
as many dequeues as there are jobs in front of it. -/
theorem fifo_progress (ls : List Label) : ∀ {s s' : Sys} (pre post : List Job) (j : Job), SInv s →
    run s ls = some s' → s'.q.closed = false → abs s.q = pre ++ j :: post →
    (s'.deqs - s.deqs ≤ pre.length ∧ ∃ post', abs s'.q = pre.drop (s'.deqs - s.deqs) ++ j :: post') ∨
    pre.length < s'.deqs - s.deqs := by
  induction ls with
  | nil =>
    intro s s' pre post j _ h _ habs
    simp [run] at h; subst h
    exact Or.inl ⟨by simp, post, by simp [habs]⟩
  | cons l ls ih =>
    intro s s' pre post j hi h ho habs
    simp only [run] at h
    split at h
    · cases h
    · rename_i s1 hs1
      have hi1 := inv_step hi hs1
      have ho1 := run_open ls h ho
      have hmono := run_deqs_le ls hi1 h ho
      rcases fifo_step hi hs1 ho1 with ⟨hd, added, ha⟩ | ⟨hd, x, hx⟩
      · have habs1 : abs s1.q = pre ++ j :: (post ++ added) := by rw [ha, habs]; simp
        have := ih pre (post ++ added) j hi1 h ho habs1
        rw [hd] at this; exact this
      · cases pre with
        | nil =>
          right; simp only [List.length_nil]; omega
        | cons p pre' =>
          have habs1 : abs s1.q = pre' ++ j :: post := by
            rw [habs] at hx; simp only [List.cons_append, List.cons.injEq] at hx; exact hx.2.symm
          rcases ih pre' post j hi1 h ho habs1 with ⟨hle, post', hp⟩ | hgt
          · left
            have hk : s'.deqs - s.deqs = (s'.deqs - s1.deqs) + 1 := by omega
            refine ⟨by simp only [List.length_cons]; omega, post', ?_⟩
            rw [hk, List.drop_succ_cons]; exact hp
          · right; simp only [List.length_cons]; omega

/-- reachable form of `fifo_progress` -/
theorem fifo_progress_reach {nW c : Nat} (hc : 0 < c) {s s' : Sys} (h : Reach nW c s) (ls : List Label)
    (pre post : List Job) (j : Job) (hr : run s ls = some s') (ho : s'.q.closed = false)
    (habs : abs s.q = pre ++ j :: post) :
    (s'.deqs - s.deqs ≤ pre.length ∧ ∃ post', abs s'.q = pre.drop (s'.deqs - s.deqs) ++ j :: post') ∨
    pre.length < s'.deqs - s.deqs :=
  fifo_progress ls pre post j (reach_inv hc h) hr ho habs

/-- a failed job goes back to the *end* of the open queue (retry by re-adding) -/
theorem retry_requeues {nW c : Nat} (hc : 0 < c) {s s' : Sys} (h : Reach nW c s) (w pick : Nat) (j : Job)
    (hw : s.ws[w]? = some (W.retrying j)) (hopen : s.q.closed = false)
    (hn : next s (.readd w pick) = some s') : abs s'.q = abs s.q ++ [j] := by
  have hq := (reach_inv hc h).qOpen hopen
  obtain ⟨q', ha, _, habs, _⟩ := add_open hq j
  simp only [next, hw, ha] at hn
  split at hn
  · cases hn
  · cases hn; exact habs

/-- the hypotheses are satisfiable by a non-trivial run: 2 workers, 5 jobs, the ring grows to 4 and
shrinks again, job 0 fails once and is re-queued behind job 4; `Close` arrives while job 4 runs and job 0
is still queued: job 4 finishes (it was dequeued before `Close`), job 0 is discarded with the queue
("Jobs will be lost after closing"), the late `Submit` (job 5) is refused, both workers exit. -/
example :
    ∃ s, run (init 2 2) exampleRun = some s ∧ Reach 2 2 s ∧
      s.runs = [(4, true), (3, true), (2, true), (1, true), (0, false)] ∧ s.rejected = [5] ∧
      s.ws = [W.exited, W.exited] ∧ s.deqs = 5 := by
  refine ⟨_, rfl, ?_, by decide⟩
  exact reach_run exampleRun Reach.init rfl

end CentrifugeVerif.Dissolve
