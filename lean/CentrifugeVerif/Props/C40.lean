import CentrifugeVerif.Model.Dissolve
/-!
# C40 — Deferred jobs run until they succeed (first obligations; extended below as proofs land)
-/
namespace CentrifugeVerif.Dissolve

/-- after `Close`, `Remove` never returns a job (it looks only at `cnt`, which `Close` zeroes) -/
theorem remove_after_close (q : Queue) : remove (close q) = some (close q, none) := by
  simp [remove, close]

end CentrifugeVerif.Dissolve
