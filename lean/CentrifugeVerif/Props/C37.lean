import CentrifugeVerif.Model.Limits
import CentrifugeVerif.Props.C12
/-!
# C37 — connection limits are enforced

* channel limit: `channel_limit_partial` (regular client subscribes, their completions/failures in any
  order, unsubscribes and server-side subscribes keep `|channels ∪ reservations| ≤ limit`),
  `limit_plus_one_rejected`, `server_side_at_limit_disconnects`; the *full* statement (including map
  subscribes whose `OnSubscribe` answer arrives later) is **false** for the code as written — see the
  `decide`d counter-witness `channel_limit_counterexample` (finding C37-1);
* channel name length: `channel_name_too_long_rejected`;
* slow consumer: `slow_iff_oversize` (shared with C12, stated in `Props/C12.lean`).
-/
namespace CentrifugeVerif.Limits

/-- a client subscribe request (regular or map) for a channel name longer than `ChannelMaxLength` is
rejected with `ErrorBadRequest` and changes nothing -/
theorem channel_name_too_long_rejected (s : LState) (ch len : Nat) (hm : 0 < s.maxLen) (hl : s.maxLen < len) :
    step s (.subReg ch len) = (s, .badRequest) ∧ step s (.subMapValidate ch len) = (s, .badRequest) := by
  simp [step, hm, hl]

example : step { limit := 2, maxLen := 6 } (.subReg 1 7) = ({ limit := 2, maxLen := 6 }, .badRequest) := by decide

theorem step_limit (s : LState) (e : Ev) : (step s e).1.limit = s.limit ∧ (step s e).1.maxLen = s.maxLen := by
  cases e <;> simp only [step] <;> (repeat' split) <;> simp

theorem filter_length_le {α : Type} (p : α → Bool) (l : List α) : (l.filter p).length ≤ l.length :=
  List.length_filter_le p l

/-- one step of the regular flow keeps "no map reservation, and at most `limit` entries" -/
theorem step_regular_inv (s : LState) (e : Ev) (he : e.regular = true) (hl : 0 < s.limit)
    (hm : s.mapSubscribing = []) (ht : s.total ≤ s.limit) :
    (step s e).1.mapSubscribing = [] ∧ (step s e).1.total ≤ s.limit := by
  cases e with
  | subReg ch len =>
    simp only [step]
    repeat' split
    all_goals simp_all [LState.total]
    omega
  | complete ch gen ok =>
    simp only [step]
    repeat' split
    all_goals simp_all [LState.total]
    exact Nat.le_trans (filter_length_le _ _) ht
  | unsub ch =>
    simp only [step, LState.total, hm, List.filter_nil, List.length_nil, Nat.add_zero, true_and]
    simp only [LState.total, hm, List.length_nil, Nat.add_zero] at ht
    exact Nat.le_trans (filter_length_le _ _) ht
  | serverSub ch =>
    simp only [step]
    repeat' split
    all_goals simp_all [LState.total]
    omega
  | subMapValidate ch len => simp [Ev.regular] at he
  | mapReserve ch => simp [Ev.regular] at he
  | mapCommit ch gen => simp [Ev.regular] at he

/-- **Channel limit, regular flow** (`_partial`: map subscribes excluded, see below).  Starting from a
fresh connection with a positive `ClientChannelLimit`, after *any* sequence of regular client subscribe
attempts, completions and failures of the in-flight ones in any order, unsubscribes and server-side
subscribes, the subscriptions plus in-flight reservations never exceed the limit — hence neither do
the client-side subscriptions.

Full statement (false for the code, finding C37-1): the same for every `List Ev`. -/
theorem channel_limit_partial (limit maxLen : Nat) (hl : 0 < limit) (es : List Ev)
    (hreg : ∀ e ∈ es, e.regular = true) :
    let s := run { limit := limit, maxLen := maxLen } es
    s.total ≤ limit ∧ s.clientSubs ≤ limit := by
  have key : ∀ (es : List Ev) (s : LState), (∀ e ∈ es, e.regular = true) → s.limit = limit →
      s.mapSubscribing = [] → s.total ≤ limit → (run s es).total ≤ limit := by
    intro es
    induction es with
    | nil => intro s _ _ _ h; exact h
    | cons e es ih =>
      intro s hr hlim hm ht
      have h1 := step_regular_inv s e (hr e (by simp)) (by omega) hm (by omega)
      simp only [run]
      exact ih _ (fun e' he' => hr e' (by simp [he'])) (by rw [(step_limit s e).1, hlim]) h1.1 (by omega)
  have ht := key es { limit := limit, maxLen := maxLen } hreg rfl rfl (by simp [LState.total])
  refine ⟨ht, Nat.le_trans ?_ ht⟩
  simp only [LState.clientSubs, LState.total]
  exact Nat.le_trans (filter_length_le _ _) (Nat.le_add_right _ _)

/-- non-vacuity: a regular run that reaches the limit, is refused, frees a slot and continues -/
example :
    (run { limit := 2, maxLen := 0 } [.subReg 1 2, .complete 1 1 true, .subReg 2 2, .subReg 3 2,
      .complete 2 2 false, .subReg 3 2, .complete 3 3 true]).clientSubs = 2 := by decide

/-- the `(limit+1)`-th attempt: with `limit` subscriptions/reservations held, a client subscribe to a
further channel is answered `ErrorLimitExceeded` (regular and map alike) and changes nothing -/
theorem limit_plus_one_rejected (s : LState) (ch len : Nat) (hl : 0 < s.limit) (hfull : s.limit ≤ s.total)
    (hlen : ¬ (0 < s.maxLen ∧ s.maxLen < len)) (hnew : s.inChannels ch = false ∧ s.inMap ch = false) :
    step s (.subReg ch len) = (s, .limitExceeded) ∧ step s (.subMapValidate ch len) = (s, .limitExceeded) := by
  simp [step, hlen, hnew.1, hnew.2, hl, hfull]

/-- a server-side subscribe on a connection that already has `limit` entries in `c.channels` closes the
connection with `DisconnectChannelLimit` -/
theorem server_side_at_limit_disconnects (s : LState) (ch : Nat) (hc : s.closed = false) (hl : 0 < s.limit)
    (hfull : s.limit ≤ s.channels.length) :
    (step s (.serverSub ch)).2 = .disconnectChannelLimit := by
  simp [step, hc, hl, hfull]

/-- **Finding C37-1** (the unchanged code violates the property): two map subscribes whose
`OnSubscribe` answers arrive after both were validated both pass the limit check (validation does not
reserve), so a connection with `ClientChannelLimit = 1` ends up with 2 client-side subscriptions. -/
theorem channel_limit_counterexample :
    (run { limit := 1, maxLen := 0 }
      [.subMapValidate 4 2, .subMapValidate 5 2, .mapReserve 4, .mapCommit 4 1, .mapReserve 5, .mapCommit 5 2]).clientSubs
      = 2 := by decide

/-- examined, not a finding: server-side `Client.Subscribe` compares `len(c.channels)` alone with the
limit, so a map subscription that is still loading (entry in `mapSubscribing`) is not counted and the
connection can end up with `limit + 1` entries — of which only `limit` are client-side, so the statement
("never more *client-side* subscriptions than the limit") still holds on this trace -/
example :
    let s := run { limit := 2, maxLen := 0 } [.subReg 1 2, .complete 1 1 true, .subMapValidate 2 2, .mapReserve 2,
      .serverSub 3, .mapCommit 2 2]
    s.total = 3 ∧ s.clientSubs = 2 := by decide

end CentrifugeVerif.Limits

namespace CentrifugeVerif.Writer

/-- **Slow consumer** (the third conjunct of C37; same statement as C12's `slow_iff_oversize`): an
enqueue on a connection is answered `DisconnectSlow` — and the client then closes the connection as slow
— exactly when `ClientQueueMaxSize > 0` and the pending outgoing bytes at the moment of the check
exceed it. -/
theorem slow_consumer_iff_over_queue_limit (c : Cfg) (hc : 0 < c.initCap) (w : W) (hr : Reachable c w)
    (xs : List Queue.Item) (res : Res) (queued : Nat) (hm : (xs, res, queued) ∈ w.results) :
    res = .slow ↔ (0 < c.maxQueueSize ∧ c.maxQueueSize < queued) :=
  slow_iff_oversize c hc w hr xs res queued hm

end CentrifugeVerif.Writer
