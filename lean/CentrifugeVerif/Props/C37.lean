import CentrifugeVerif.Model.Limits
import CentrifugeVerif.Props.C12
/-!
# C37 — connection limits are enforced

* channel limit: `channel_limit` (every sequence of events — regular and map client subscribes with
  their answers arriving in any order, failures, unsubscribes, server-side subscribes — keeps the
  client-side subscriptions plus in-flight reservations ≤ limit), `channel_limit_regular_total`
  (without map subscribes even the server-side entries are included in the bound),
  `limit_plus_one_rejected`, `server_side_at_limit_disconnects`.  Finding C37-1 (two deferred map
  subscribes both passing the limit check) was fixed in /repo by commit 516266d2; the model mirrors the
  re-check and the former counter-witness is now `channel_limit_former_counterexample_fixed`;
* channel name length: `channel_name_too_long_rejected`;
* slow consumer: `slow_iff_oversize` (shared with C12, stated in `Props/C12.lean`).
-/
namespace CentrifugeVerif.Limits

/-- a client subscribe request — regular, map or shared-poll (all three entry paths) — for a channel
name longer than `ChannelMaxLength` is rejected with `ErrorBadRequest` and changes nothing.  (The
shared-poll path lacked the check until /repo commit 931f86e2: finding C37-2.) -/
theorem channel_name_too_long_rejected (s : LState) (ch len : Nat) (hm : 0 < s.maxLen) (hl : s.maxLen < len) :
    step s (.subReg ch len) = (s, .badRequest) ∧ step s (.subMapValidate ch len) = (s, .badRequest) ∧
      step s (.subPoll ch len) = (s, .badRequest) := by
  simp [step, hm, hl]

example : step { limit := 2, maxLen := 6 } (.subReg 1 7) = ({ limit := 2, maxLen := 6 }, .badRequest) := by decide

theorem step_limit (s : LState) (e : Ev) : (step s e).1.limit = s.limit ∧ (step s e).1.maxLen = s.maxLen := by
  cases e <;> simp only [step] <;> (repeat' split) <;> simp

theorem filter_length_le {α : Type} (p : α → Bool) (l : List α) : (l.filter p).length ≤ l.length :=
  List.length_filter_le p l

/-- one step of the regular flow keeps "no map reservation, and at most `limit` entries" -/
theorem step_regular_inv (s : LState) (e : Ev) (he : e.regular = true) (hl : 0 < s.limit)
    (hm : s.mapSubscribing = []) (ht : s.total ≤ s.limit) :
    (step s e).1.mapSubscribing = [] ∧ (step s e).1.total ≤ s.limit := by
  cases e with
  | subReg ch len =>
    simp only [step]
    repeat' split
    all_goals simp_all [LState.total]
    omega
  | subPoll ch len =>
    simp only [step]
    repeat' split
    all_goals simp_all [LState.total]
    omega
  | complete ch gen ok =>
    simp only [step]
    repeat' split
    all_goals simp_all [LState.total]
    exact Nat.le_trans (filter_length_le _ _) ht
  | unsub ch =>
    simp only [step, LState.total, hm, List.filter_nil, List.length_nil, Nat.add_zero, true_and]
    simp only [LState.total, hm, List.length_nil, Nat.add_zero] at ht
    exact Nat.le_trans (filter_length_le _ _) ht
  | serverSub ch =>
    simp only [step]
    repeat' split
    all_goals simp_all [LState.total]
    omega
  | subMapValidate ch len => simp [Ev.regular] at he
  | mapReserve ch => simp [Ev.regular] at he
  | mapCommit ch gen => simp [Ev.regular] at he

/-- **Channel limit, regular flow, all entries.**  Without map subscribes, after *any* sequence of
regular client subscribe attempts, completions and failures of the in-flight ones in any order,
unsubscribes and server-side subscribes, *all* entries of `c.channels` (server-side ones included) plus
reservations never exceed the limit.  (With a map subscription still loading, a server-side subscribe is
not counted against it — see the `example` at the end — which is why the general theorem
`channel_limit` bounds the client-side entries.) -/
theorem channel_limit_regular_total (limit maxLen : Nat) (hl : 0 < limit) (es : List Ev)
    (hreg : ∀ e ∈ es, e.regular = true) :
    let s := run { limit := limit, maxLen := maxLen } es
    s.total ≤ limit ∧ s.clientSubs ≤ limit := by
  have key : ∀ (es : List Ev) (s : LState), (∀ e ∈ es, e.regular = true) → s.limit = limit →
      s.mapSubscribing = [] → s.total ≤ limit → (run s es).total ≤ limit := by
    intro es
    induction es with
    | nil => intro s _ _ _ h; exact h
    | cons e es ih =>
      intro s hr hlim hm ht
      have h1 := step_regular_inv s e (hr e (by simp)) (by omega) hm (by omega)
      simp only [run]
      exact ih _ (fun e' he' => hr e' (by simp [he'])) (by rw [(step_limit s e).1, hlim]) h1.1 (by omega)
  have ht := key es { limit := limit, maxLen := maxLen } hreg rfl rfl (by simp [LState.total])
  refine ⟨ht, Nat.le_trans ?_ ht⟩
  simp only [LState.clientSubs, LState.total]
  exact Nat.le_trans (filter_length_le _ _) (Nat.le_add_right _ _)

/-- non-vacuity: a regular run that reaches the limit, is refused, frees a slot and continues -/
example :
    (run { limit := 2, maxLen := 0 } [.subReg 1 2, .complete 1 1 true, .subReg 2 2, .subReg 3 2,
      .complete 2 2 false, .subReg 3 2, .complete 3 3 true]).clientSubs = 2 := by decide

/-- the `(limit+1)`-th attempt: with `limit` subscriptions/reservations held, a client subscribe to a
further channel is answered `ErrorLimitExceeded` (regular, map and shared-poll alike) and changes nothing -/
theorem limit_plus_one_rejected (s : LState) (ch len : Nat) (hl : 0 < s.limit) (hfull : s.limit ≤ s.total)
    (hlen : ¬ (0 < s.maxLen ∧ s.maxLen < len)) (hnew : s.inChannels ch = false ∧ s.inMap ch = false) :
    step s (.subReg ch len) = (s, .limitExceeded) ∧ step s (.subMapValidate ch len) = (s, .limitExceeded) ∧
      step s (.subPoll ch len) = (s, .limitExceeded) := by
  simp [step, hlen, hnew.1, hnew.2, hl, hfull]

/-- a server-side subscribe on a connection that already has `limit` entries in `c.channels` closes the
connection with `DisconnectChannelLimit` -/
theorem server_side_at_limit_disconnects (s : LState) (ch : Nat) (hc : s.closed = false) (hl : 0 < s.limit)
    (hfull : s.limit ≤ s.channels.length) :
    (step s (.serverSub ch)).2 = .disconnectChannelLimit := by
  simp [step, hc, hl, hfull]

/-! ### The full invariant (all events, including deferred map subscribes) -/

theorem clientEntries_le_total (s : LState) : s.clientEntries ≤ s.total := by
  simp only [LState.clientEntries, LState.total]
  exact Nat.add_le_add_right (filter_length_le _ _) _

theorem filter_filter_length_le {α : Type} (p q : α → Bool) (l : List α) :
    ((l.filter q).filter p).length ≤ (l.filter p).length :=
  ((List.filter_sublist (l := l) (p := q)).filter p).length_le

/-- removing every entry with key `ch` from a list that has one makes it strictly shorter -/
theorem filter_ne_length_lt (l : List (Nat × Nat)) (ch gen : Nat) (q : Nat × Nat → Bool)
    (hq : ∀ e, e.1 = ch → q e = false)
    (h : ∃ e ∈ l, e.1 = ch ∧ e.2 = gen) : (l.filter q).length + 1 ≤ l.length := by
  induction l with
  | nil => obtain ⟨e, he, _⟩ := h; cases he
  | cons a l ih =>
    obtain ⟨e, he, hech, _⟩ := h
    by_cases ha : a.1 = ch
    · rw [List.filter_cons, hq a ha]
      simp only [Bool.false_eq_true, if_false, List.length_cons]
      exact Nat.succ_le_succ (filter_length_le _ _)
    · have hel : e ∈ l := by
        rcases List.mem_cons.mp he with rfl | h
        · exact absurd hech ha
        · exact h
      have := ih ⟨e, hel, hech, ‹_›⟩
      rw [List.filter_cons]
      split
      · simp only [List.length_cons]; omega
      · simp only [List.length_cons]; omega

/-- completing a reservation keeps the number of client-side entries -/
theorem complete_map_clientCount (l : List Entry) (ch gen : Nat) :
    ((l.map (fun e => if e.ch = ch ∧ e.gen = gen ∧ e.st = .reserved then { e with st := ChSt.subscribed false } else e)).filter
      Entry.isClient).length = (l.filter Entry.isClient).length := by
  induction l with
  | nil => rfl
  | cons a l ih =>
    rw [List.map_cons, List.filter_cons, List.filter_cons]
    by_cases hc : a.ch = ch ∧ a.gen = gen ∧ a.st = .reserved
    · have h1 : Entry.isClient a = true := by simp [Entry.isClient, hc.2.2]
      rw [if_pos hc, h1]
      simp only [Entry.isClient, if_true, List.length_cons, ih]
    · rw [if_neg hc]
      split
      · simp only [List.length_cons, ih]
      · exact ih

/-- one step of *any* kind keeps the client-side entries within the limit -/
theorem step_client_inv (s : LState) (e : Ev) (hl : 0 < s.limit) (ht : s.clientEntries ≤ s.limit) :
    (step s e).1.clientEntries ≤ s.limit := by
  have hct := clientEntries_le_total s
  cases e with
  | subReg ch len =>
    simp only [step]
    split
    · exact ht
    · split
      · exact ht
      · split
        · exact ht
        · rename_i hfull
          have hlt : s.total < s.limit := by omega
          simp only [LState.clientEntries, List.filter_append, List.length_append, List.filter_cons,
            List.filter_nil, Entry.isClient, if_true, List.length_cons, List.length_nil] at ht hct ⊢
          omega
  | subPoll ch len =>
    simp only [step]
    split
    · exact ht
    · split
      · exact ht
      · split
        · exact ht
        · rename_i hfull
          have hlt : s.total < s.limit := by omega
          simp only [LState.clientEntries, List.filter_append, List.length_append, List.filter_cons,
            List.filter_nil, Entry.isClient, if_true, List.length_cons, List.length_nil] at ht hct ⊢
          omega
  | subMapValidate ch len =>
    simp only [step]
    repeat' split
    all_goals exact ht
  | mapReserve ch =>
    simp only [step]
    split
    · exact ht
    · split
      · exact ht
      · rename_i hfull
        have hlt : s.total < s.limit := by omega
        simp only [LState.clientEntries, List.length_append, List.length_cons, List.length_nil] at ht hct ⊢
        omega
  | mapCommit ch gen =>
    simp only [step]
    split
    · rename_i hany
      have hex : ∃ e ∈ s.mapSubscribing, e.1 = ch ∧ e.2 = gen := by
        simp only [List.any_eq_true, decide_eq_true_eq] at hany
        exact hany
      have h1 := filter_ne_length_lt s.mapSubscribing ch gen (fun e => decide (e.1 ≠ ch))
        (fun e he => by simp [he]) hex
      have h2 := filter_filter_length_le Entry.isClient (fun e : Entry => decide (e.ch ≠ ch)) s.channels
      simp only [LState.clientEntries, List.filter_append, List.length_append, List.filter_cons,
        List.filter_nil, Entry.isClient, if_true, List.length_cons, List.length_nil] at ht ⊢
      omega
    · exact ht
  | complete ch gen ok =>
    simp only [step]
    split
    · split
      · simp only [LState.clientEntries] at ht ⊢
        rw [complete_map_clientCount]; exact ht
      · have h2 := filter_filter_length_le Entry.isClient
          (fun e : Entry => decide (¬ (e.ch = ch ∧ e.gen = gen ∧ e.st = .reserved))) s.channels
        simp only [LState.clientEntries] at ht ⊢
        omega
    · exact ht
  | unsub ch =>
    have h2 := filter_filter_length_le Entry.isClient (fun e : Entry => decide (e.ch ≠ ch)) s.channels
    have h3 := filter_length_le (fun e : Nat × Nat => decide (e.1 ≠ ch)) s.mapSubscribing
    simp only [step, LState.clientEntries] at ht ⊢
    omega
  | serverSub ch =>
    simp only [step]
    split
    · exact ht
    · split
      · exact ht
      · split
        · exact ht
        · simp only [LState.clientEntries, List.filter_append, List.length_append, List.filter_cons,
            List.filter_nil, Entry.isClient, Bool.false_eq_true, if_false, List.length_nil] at ht ⊢
          omega

/-- **Channel limit** (full strength).  Starting from a fresh connection with a positive
`ClientChannelLimit`, after *any* sequence of events — regular and map client subscribe attempts, the
continuations of their `OnSubscribe` answers in any order (also long after other attempts were
validated), failures, unsubscribes, server-side subscribes — the client-side subscriptions plus in-flight
client reservations (placeholders in `c.channels`, loading entries in `c.mapSubscribing`) never exceed the
limit; in particular the connection never holds more than `limit` client-side subscriptions. -/
theorem channel_limit (limit maxLen : Nat) (hl : 0 < limit) (es : List Ev) :
    let s := run { limit := limit, maxLen := maxLen } es
    s.clientEntries ≤ limit ∧ s.clientSubs ≤ limit := by
  have key : ∀ (es : List Ev) (s : LState), s.limit = limit → s.clientEntries ≤ limit →
      (run s es).clientEntries ≤ limit := by
    intro es
    induction es with
    | nil => intro s _ h; exact h
    | cons e es ih =>
      intro s hlim ht
      simp only [run]
      exact ih _ (by rw [(step_limit s e).1, hlim]) (by have := step_client_inv s e (by omega) (by omega); omega)
  have ht := key es { limit := limit, maxLen := maxLen } rfl (by simp [LState.clientEntries])
  refine ⟨ht, Nat.le_trans ?_ ht⟩
  simp only [LState.clientSubs, LState.clientEntries]
  refine Nat.le_trans ?_ (Nat.le_add_right _ _)
  -- committed client-side subscriptions are among the client-side entries
  induction (run { limit := limit, maxLen := maxLen } es).channels with
  | nil => exact Nat.le_refl _
  | cons a l ih =>
    rw [List.filter_cons, List.filter_cons]
    by_cases h1 : a.st = .subscribed false
    · have : Entry.isClient a = true := by simp [Entry.isClient, h1]
      simp only [h1, decide_true, if_true, this, List.length_cons]; omega
    · have : decide (a.st = .subscribed false) = false := by simp [h1]
      rw [this]
      simp only [Bool.false_eq_true, if_false]
      split
      · simp only [List.length_cons]; omega
      · exact ih

/-- the former counter-witness of finding C37-1 (fixed by /repo commit 516266d2): two map subscribes
validated before either answer arrives — the second reservation is now refused with
`ErrorLimitExceeded` and the connection stays at its limit of 1 -/
theorem channel_limit_former_counterexample_fixed :
    let s1 := run { limit := 1, maxLen := 0 } [.subMapValidate 4 2, .subMapValidate 5 2, .mapReserve 4, .mapCommit 4 1]
    (step s1 (.mapReserve 5)).2 = .limitExceeded ∧
      (run s1 [.mapReserve 5, .mapCommit 5 2]).clientSubs = 1 := by decide

/-- non-vacuity for `channel_limit`: deferred map and regular subscribes interleaved up to the limit -/
example :
    (run { limit := 2, maxLen := 0 } [.subMapValidate 4 2, .subReg 1 2, .subMapValidate 5 2, .mapReserve 4,
      .mapReserve 5, .complete 1 1 true, .mapCommit 4 2]).clientSubs = 2 := by decide

/-- a shared-poll subscribe while a map subscription is still paginating and the connection is at its
limit is refused (the in-flight map reservation counts) -/
example :
    (step (run { limit := 1, maxLen := 0 } [.subMapValidate 1 2, .mapReserve 1]) (.subPoll 201 8)).2 = .limitExceeded := by
  decide

/-- examined, not a finding: server-side `Client.Subscribe` compares `len(c.channels)` alone with the
limit, so a map subscription that is still loading (entry in `mapSubscribing`) is not counted and the
connection can end up with `limit + 1` entries — of which only `limit` are client-side, so the statement
("never more *client-side* subscriptions than the limit", `channel_limit`) holds on this trace -/
example :
    let s := run { limit := 2, maxLen := 0 } [.subReg 1 2, .complete 1 1 true, .subMapValidate 2 2, .mapReserve 2,
      .serverSub 3, .mapCommit 2 2]
    s.total = 3 ∧ s.clientSubs = 2 := by decide

end CentrifugeVerif.Limits

namespace CentrifugeVerif.Writer

/-- **Slow consumer** (the third conjunct of C37; same statement as C12's `slow_iff_oversize`): an
enqueue on a connection is answered `DisconnectSlow` — and the client then closes the connection as slow
— exactly when `ClientQueueMaxSize > 0` and the pending outgoing bytes at the moment of the check
exceed it. -/
theorem slow_consumer_iff_over_queue_limit (c : Cfg) (hc : 0 < c.initCap) (w : W) (hr : Reachable c w)
    (xs : List Queue.Item) (res : Res) (queued : Nat) (hm : (xs, res, queued) ∈ w.results) :
    res = .slow ↔ (0 < c.maxQueueSize ∧ c.maxQueueSize < queued) :=
  slow_iff_oversize c hc w hr xs res queued hm

end CentrifugeVerif.Writer
