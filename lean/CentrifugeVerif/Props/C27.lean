import CentrifugeVerif.Proofs.ControlCodec
/-!
# C27 — server-side operations act the same from any node

The definitions these theorems talk about are **regenerated from the Go source on every check run**
(`props/C27/extract` → `props/C27/gen.py` → `Gen/ControlCodec.lean`):

* `GXOptions`          the option record of `Node.X` (fields some public `With*` option can set),
* `encodeX`            the control message `pubX` builds from the call arguments and the option record,
* `localX`             the hub call `Node.X` makes on its own node,
* `remoteX`            the hub call `Node.handleControl` makes on a node that receives that message,
* `XCall.view`         erases, inside the option record handed to the client, the unexported fields that
                       only `Node.X` itself reads (client / session / label filter / all-users targeting;
                       they are compared as explicit hub-call arguments instead).

Statement per operation: for **every** call argument and **every** option record the remote node makes
exactly the hub call the local node makes — same hub method (per-user or across users), same user,
channel, client id, session id, label filter, same custom unsubscribe / disconnect, same whitelist and
the same option record given to `Client.Subscribe` / `Client.Refresh`.

For `subscribe` the full statement

    theorem control_roundtrip_subscribe (u ch) (o : GSubscribeOptions) :
        (remoteSubscribe (encodeSubscribe u ch o)).view = (localSubscribe u ch o).view

is FALSE on the current source: `controlpb.Subscribe` has no field for `RecoveryMode`,
`AutoCacheRecover` and `HistoryMetaTTL`, so `WithRecoveryMode`, `WithAutoCacheRecover` and
`WithSubscribeHistoryMetaTTL` are silently lost on every node but the calling one (findings C27-1..3,
`props/C27/findings.json`).  What is proved is `control_roundtrip_subscribe_partial` (those three fields
at their zero value) together with one `decide`d counter-witness per lost option.
-/
namespace CentrifugeVerif.Gen.ControlCodec

/-- unsubscribe: every option (`WithUnsubscribeClient`, `…Session`, `WithCustomUnsubscribe`,
`…LabelFilter`, `…AllUsers`) reaches a remote node unchanged. -/
theorem control_roundtrip_unsubscribe (u ch : String) (o : GUnsubscribeOptions) :
    (remoteUnsubscribe (encodeUnsubscribe u ch o)).view = (localUnsubscribe u ch o).view :=
  unsubscribe_roundtrip u ch o

/-- disconnect: every option (`WithCustomDisconnect`, `…Client`, `…Session`, `…ClientWhitelist`,
`…LabelFilter`, `…AllUsers`) reaches a remote node unchanged. -/
theorem control_roundtrip_disconnect (u : String) (o : GDisconnectOptions) :
    (remoteDisconnect (encodeDisconnect u o)).view = (localDisconnect u o).view := by
  simp only [remoteDisconnect, encodeDisconnect, localDisconnect]
  cases o.Disconnect <;> by_cases h : (u = "" ∧ o.allUsers = true) <;> simp [h, filter_comp]

/-- refresh: every option (`WithRefreshClient`, `…Session`, `…Expired`, `…ExpireAt`, `…Info`,
`…LabelFilter`, `…AllUsers`) reaches a remote node unchanged. -/
theorem control_roundtrip_refresh (u : String) (o : GRefreshOptions) :
    (remoteRefresh (encodeRefresh u o)).view = (localRefresh u o).view := by
  simp only [remoteRefresh, encodeRefresh, localRefresh]
  by_cases h : (u = "" ∧ o.allUsers = true) <;> simp [h, filter_comp]

/-- subscribe, partial: every option record whose `RecoveryMode`, `AutoCacheRecover` and
`HistoryMetaTTL` are at their zero value reaches a remote node unchanged (all other options:
`WithExpireAt`, `WithChannelInfo`, `WithEmitPresence`, `WithEmitJoinLeave`, `WithPushJoinLeave`,
`WithPositioning`, `WithRecovery`, `WithSubscribeClient`, `…Session`, `…Data`, `WithRecoverSince`,
`WithSubscribeSource`, `…LabelFilter`, `…AllUsers`). -/
theorem control_roundtrip_subscribe_partial (u ch : String) (o : GSubscribeOptions)
    (h1 : o.RecoveryMode = 0) (h2 : o.AutoCacheRecover = false) (h3 : o.HistoryMetaTTL = 0) :
    (remoteSubscribe (encodeSubscribe u ch o)).view = (localSubscribe u ch o).view := by
  simp only [remoteSubscribe, encodeSubscribe, localSubscribe]
  by_cases h : (u = "" ∧ o.allUsers = true) <;> simp [h, filter_comp, h1, h2, h3] <;>
    (cases o.RecoverSince <;> simp)

/-- a non-trivial record satisfying the hypotheses of `control_roundtrip_subscribe_partial` -/
example :
    let o : GSubscribeOptions :=
      WithRecoverSince (some { Offset := 7, Epoch := "e" }) (WithSubscribeSource 200
        (WithSubscribeLabelFilter (some sampleFilter) (WithRecovery true (WithExpireAt 99 {}))))
    o.RecoveryMode = 0 ∧ o.AutoCacheRecover = false ∧ o.HistoryMetaTTL = 0 ∧
      roundtripSubscribe "" "ch" o = true := by decide

/-- `roundtripX` (the executable check used by the probes and the driver) decides the statement. -/
theorem roundtripSubscribe_iff (u ch : String) (o : GSubscribeOptions) :
    roundtripSubscribe u ch o = true ↔
      (remoteSubscribe (encodeSubscribe u ch o)).view = (localSubscribe u ch o).view := by
  simp [roundtripSubscribe]

/-! ### counter-witnesses: the three options the control message does not carry (findings C27-1..3) -/

/-- C27-1: `WithRecoveryMode(RecoveryModeCache)` is lost remotely. -/
theorem subscribe_drops_RecoveryMode :
    (remoteSubscribe (encodeSubscribe "u" "ch" (WithRecoveryMode 1 {}))).view ≠
      (localSubscribe "u" "ch" (WithRecoveryMode 1 {})).view := by decide

/-- C27-2: `WithAutoCacheRecover(true)` is lost remotely. -/
theorem subscribe_drops_AutoCacheRecover :
    (remoteSubscribe (encodeSubscribe "u" "ch" (WithAutoCacheRecover true {}))).view ≠
      (localSubscribe "u" "ch" (WithAutoCacheRecover true {})).view := by decide

/-- C27-3: `WithSubscribeHistoryMetaTTL(5s)` is lost remotely. -/
theorem subscribe_drops_HistoryMetaTTL :
    (remoteSubscribe (encodeSubscribe "u" "ch" (WithSubscribeHistoryMetaTTL 5000000000 {}))).view ≠
      (localSubscribe "u" "ch" (WithSubscribeHistoryMetaTTL 5000000000 {})).view := by decide

/-- the remote node sees exactly the zero value for the three lost fields, whatever was requested -/
theorem subscribe_remote_lost_fields (u ch : String) (o : GSubscribeOptions) :
    (remoteSubscribe (encodeSubscribe u ch o)).opts.RecoveryMode = 0 ∧
    (remoteSubscribe (encodeSubscribe u ch o)).opts.AutoCacheRecover = false ∧
    (remoteSubscribe (encodeSubscribe u ch o)).opts.HistoryMetaTTL = 0 := by
  simp only [remoteSubscribe, encodeSubscribe]
  by_cases h : (u = "" ∧ o.allUsers = true) <;> simp [h]

end CentrifugeVerif.Gen.ControlCodec
