import CentrifugeVerif.Proofs.WSReader
import CentrifugeVerif.Spec.WSSpec
/-!
# C29 — the WebSocket frame reader conforms to RFC 6455 and RFC 7692
-/
namespace CentrifugeVerif.WS
open Reader Spec

/-- Go's table of close codes accepted from the peer respects RFC 6455 §7.4: never accepts a code
that must not appear on the wire, accepts every code the RFC defines. -/
theorem goValidCloseCode_conforms : CodePolicy goValidCloseCode := by
  intro c
  simp only [mustRejectCode, mustAcceptCode, goValidCloseCode, Bool.or_eq_true, Bool.and_eq_true,
    decide_eq_true_eq, beq_iff_eq, Bool.or_eq_false_iff, Bool.and_eq_false_iff, decide_eq_false_iff_not,
    beq_eq_false_iff_ne]
  omega

/-! ## Frames written back, totality -/

/-- Whenever the reader reports a protocol error (any of the header, fragmentation, masking, close
code or close reason checks), the last frame it wrote to the peer is a Close frame with status
1002. For every configuration and every byte stream. -/
theorem protocol_error_sends_1002 (cfg : Cfg) (input : Bytes) (msg : String)
    (h : (runReader cfg input).result = some (.proto msg)) :
    LastClose 1002 (runReader cfg input) :=
  (run_good cfg _ none { input := input } rfl rfl).1 msg h

/-- Full statement (false, see the witnesses below):
`(runReader cfg input).result = some .readLimit → LastClose 1009 (runReader cfg input)`.
Proved: whenever the reader reports "read limit exceeded" and did not go through one of the two
int64-overflow exits (64-bit length with the top bit set; accumulated message length ≥ 2^63), the
last frame it wrote is a Close frame with status 1009 — for the wire-size limit as well as for the
inflated-size limit. -/
theorem too_big_sends_1009_partial (cfg : Cfg) (input : Bytes)
    (h : (runReader cfg input).result = some .readLimit)
    (h1 : Dev.len64Msb ∉ (runReader cfg input).devs)
    (h2 : Dev.lengthOverflow ∉ (runReader cfg input).devs) :
    LastClose 1009 (runReader cfg input) := by
  rcases (run_good cfg _ none { input := input } rfl rfl).2.1 h with h | h | h
  · exact h
  · exact absurd h h1
  · exact absurd h h2

/-- No slice or index operation of the reader can go out of range, and the read loop always ends
with an error value (totality; "never panics"), and the fuel of the model's loop is never the
reason it ends. -/
theorem reader_never_panics (cfg : Cfg) (input : Bytes) :
    (∀ w, (runReader cfg input).result ≠ some (.panic w)) ∧
    (runReader cfg input).result ≠ none ∧ (runReader cfg input).result ≠ some .fuel := by
  have h := run_good cfg (fuelFor input) none { input := input } rfl rfl
  refine ⟨h.2.2.1, h.2.2.2, ?_⟩
  exact run_fuel cfg (fuelFor input) none { input := input } rfl (by simp [fuelFor]; omega)

/-! Witnesses: the unrestricted `too_big_sends_1009` is false on the real reader (finding C29-4,
C29-5): "read limit exceeded" with nothing written at all. -/
def plainClient : Cfg := { server := false, deflate := false, readLimit := 0, inflatedLimit := 0, inflate := fun _ => none }

example : (runReader plainClient [0x82, 0x7f, 0x80, 0, 0, 0, 0, 0, 0, 0]).result = some .readLimit ∧
    (runReader plainClient [0x82, 0x7f, 0x80, 0, 0, 0, 0, 0, 0, 0]).written = [] := by decide
example : (runReader plainClient [0x01, 0x01, 0x61, 0x80, 0x7f, 0x7f, 0xff, 0xff, 0xff, 0xff, 0xff, 0xff, 0xff]).result
      = some .readLimit ∧
    (runReader plainClient [0x01, 0x01, 0x61, 0x80, 0x7f, 0x7f, 0xff, 0xff, 0xff, 0xff, 0xff, 0xff, 0xff]).written = [] := by
  decide
/-- non-vacuity of `too_big_sends_1009_partial` and `protocol_error_sends_1002` -/
example : (runReader { plainClient with readLimit := 3 } [0x82, 0x04, 1, 2, 3, 4]).result = some .readLimit ∧
    (runReader { plainClient with readLimit := 3 } [0x82, 0x04, 1, 2, 3, 4]).written = [⟨8, [3, 241]⟩] ∧
    (runReader { plainClient with readLimit := 3 } [0x82, 0x04, 1, 2, 3, 4]).devs = [] := by decide

example : ∃ m, (runReader plainClient [0x83, 0x00]).result = some (.proto m) := ⟨_, rfl⟩

end CentrifugeVerif.WS
