import CentrifugeVerif.Model.WS.Reader
import CentrifugeVerif.Spec.WSSpec
/-!
# C29 — the WebSocket frame reader conforms to RFC 6455 and RFC 7692
-/
namespace CentrifugeVerif.WS
open Reader Spec

/-- Go's table of close codes accepted from the peer respects RFC 6455 §7.4: never accepts a code
that must not appear on the wire, accepts every code the RFC defines. -/
theorem goValidCloseCode_conforms : CodePolicy goValidCloseCode := by
  intro c
  simp only [mustRejectCode, mustAcceptCode, goValidCloseCode, Bool.or_eq_true, Bool.and_eq_true,
    decide_eq_true_eq, beq_iff_eq, Bool.or_eq_false_iff, Bool.and_eq_false_iff, decide_eq_false_iff_not,
    beq_eq_false_iff_ne]
  omega

end CentrifugeVerif.WS
