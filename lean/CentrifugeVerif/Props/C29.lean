import CentrifugeVerif.Proofs.WSReader
import CentrifugeVerif.Proofs.WSEquiv
import CentrifugeVerif.Spec.WSSpec
/-!
# C29 — the WebSocket frame reader conforms to RFC 6455 and RFC 7692
-/
namespace CentrifugeVerif.WS
open Reader Spec

/-- Go's table of close codes accepted from the peer respects RFC 6455 §7.4: never accepts a code
that must not appear on the wire, accepts every code the RFC defines. -/
theorem goValidCloseCode_conforms : CodePolicy goValidCloseCode := by
  intro c
  simp only [mustRejectCode, mustAcceptCode, goValidCloseCode, Bool.or_eq_true, Bool.and_eq_true,
    decide_eq_true_eq, beq_iff_eq, Bool.or_eq_false_iff, Bool.and_eq_false_iff, decide_eq_false_iff_not,
    beq_eq_false_iff_ne]
  omega

/-! ## The reader against the receiver specification -/

/-- For every configuration (side, negotiated compression, limits, inflate function) and every byte
stream — hence every truncation of every stream — the events the Go reader reports (data messages
with type and bytes, pings, pongs, close with code and reason, protocol error, too big, incomplete,
bad compressed data) are exactly those of the RFC 6455 §5 / RFC 7692 receiver specification with the
one relaxation left in `Quirks.go`: a 64-bit length with the top bit set is reported as "too big". -/
theorem reader_eq_quirk_spec (cfg : Cfg) (input : Bytes) :
    (runReader cfg input).events = decodeWith Quirks.go cfg goValidCloseCode input := by
  have h := run_eq_decodeQ cfg (fuelFor input) none { input := input } ⟨rfl, rfl, rfl⟩
  simpa [runReader, decodeWith, fuelFor] using h

/-- Full statement `reader_eq_spec` (false, see the witness below):
`(runReader cfg input).events = decode cfg goValidCloseCode input` for all `cfg`, `input`.
Proved, for all `cfg` and `input`: the reader's events are those of the strict RFC decoder, or the
two lists differ only in their last element, which is "too big" for the reader where the RFC says
"protocol error" (finding C29-4: 64-bit length with the most significant bit set; the repo's
TestReadLimit pins ErrReadLimit for that input).  RSV1 on control/continuation frames and 1-byte
close bodies are rejected like the RFC says since a4ffe486 and 13f4dfc8. -/
theorem reader_eq_spec_partial (cfg : Cfg) (input : Bytes) :
    (runReader cfg input).events = decode cfg goValidCloseCode input ∨
    ∃ pre, (runReader cfg input).events = pre ++ [Event.tooBig] ∧
      decode cfg goValidCloseCode input = pre ++ [Event.protoError] := by
  rw [reader_eq_quirk_spec]
  exact decodeQ_go_vs_rfc cfg goValidCloseCode _ none input

/-- in particular: equality on every stream the RFC decoder does not reject as a protocol violation -/
theorem reader_eq_spec_of_no_violation (cfg : Cfg) (input : Bytes)
    (h : Event.protoError ∉ decode cfg goValidCloseCode input) :
    (runReader cfg input).events = decode cfg goValidCloseCode input := by
  rw [reader_eq_quirk_spec]
  exact decodeQ_go_eq_rfc cfg goValidCloseCode _ none input h

/-- and: every stream the RFC decoder rejects is rejected by the reader at the same place (with a
protocol error or, in the MSB case, with "too big"); everything before that is identical -/
theorem reader_rejects_what_rfc_rejects (cfg : Cfg) (input : Bytes) (pre : List Event)
    (h : decode cfg goValidCloseCode input = pre ++ [Event.protoError]) :
    (runReader cfg input).events = pre ++ [Event.protoError] ∨
    (runReader cfg input).events = pre ++ [Event.tooBig] := by
  rcases reader_eq_spec_partial cfg input with he | ⟨p, h1, h2⟩
  · left; rw [he, h]
  · right
    rw [h] at h2
    have := List.append_inj' h2 rfl
    rw [h1, this.1]

/-! Witness that the unrestricted `reader_eq_spec` is false on the real reader (finding C29-4,
replayed on the Go code by the check), and regression instances for the fixed findings. -/
def deflateClient : Cfg := { server := false, deflate := true, readLimit := 0, inflatedLimit := 0, inflate := fun _ => none }
def plainClient0 : Cfg := { server := false, deflate := false, readLimit := 0, inflatedLimit := 0, inflate := fun _ => none }

-- 64-bit length with the most significant bit set
example : (runReader plainClient0 [0x82, 0x7f, 0x80, 0, 0, 0, 0, 0, 0, 0]).events = [.tooBig] ∧
    decode plainClient0 goValidCloseCode [0x82, 0x7f, 0x80, 0, 0, 0, 0, 0, 0, 0] = [.protoError] := by decide
-- fixed (C29-1, C29-2, C29-3): RSV1 on a pong, RSV1 on a continuation, 1-byte close body are protocol errors
example : ∃ m, (runReader deflateClient [0xca, 0x01, 0x78]).result = some (.proto m) := ⟨_, rfl⟩
example : ∃ m, (runReader deflateClient [0x01, 0x01, 0x61, 0xc0, 0x01, 0x62]).result = some (.proto m) := ⟨_, rfl⟩
example : ∃ m, (runReader plainClient0 [0x88, 0x01, 0xff]).result = some (.proto m) := ⟨_, rfl⟩
/-- non-vacuity: a fragmented message with an interleaved ping, then close -/
example : Event.protoError ∉ decode plainClient0 goValidCloseCode
      [0x01, 0x01, 0x61, 0x89, 0x00, 0x80, 0x01, 0x62, 0x88, 0x02, 0x03, 0xe8] ∧
    decode plainClient0 goValidCloseCode [0x01, 0x01, 0x61, 0x89, 0x00, 0x80, 0x01, 0x62, 0x88, 0x02, 0x03, 0xe8]
      = [.ping [], .msg 1 [0x61, 0x62], .close 1000 []] := by decide

/-! ## Frames written back, totality -/

/-- Whenever the reader reports a protocol error (any of the header, fragmentation, masking, close
code or close reason checks), the last frame it wrote to the peer is a Close frame with status
1002. For every configuration and every byte stream. -/
theorem protocol_error_sends_1002 (cfg : Cfg) (input : Bytes) (msg : String)
    (h : (runReader cfg input).result = some (.proto msg)) :
    LastClose 1002 (runReader cfg input) :=
  (run_good cfg _ none { input := input } rfl rfl).1 msg h

/-- Full statement (false, see the witness below):
`(runReader cfg input).result = some .readLimit → LastClose 1009 (runReader cfg input)`.
Proved: whenever the reader reports "read limit exceeded" and did not take the one remaining
deviating exit (64-bit length with the top bit set, finding C29-4), the last frame it wrote is a
Close frame with status 1009 — for the wire-size limit, the int64 overflow of the accumulated
message length (fixed by 7b24129f) and the inflated-size limit. -/
theorem too_big_sends_1009_partial (cfg : Cfg) (input : Bytes)
    (h : (runReader cfg input).result = some .readLimit)
    (h1 : Dev.len64Msb ∉ (runReader cfg input).devs) :
    LastClose 1009 (runReader cfg input) := by
  rcases (run_good cfg _ none { input := input } rfl rfl).2.1 h with h | h
  · exact h
  · exact absurd h h1

/-- No slice or index operation of the reader can go out of range, and the read loop always ends
with an error value (totality; "never panics"), and the fuel of the model's loop is never the
reason it ends. -/
theorem reader_never_panics (cfg : Cfg) (input : Bytes) :
    (∀ w, (runReader cfg input).result ≠ some (.panic w)) ∧
    (runReader cfg input).result ≠ none ∧ (runReader cfg input).result ≠ some .fuel := by
  have h := run_good cfg (fuelFor input) none { input := input } rfl rfl
  refine ⟨h.2.2.1, h.2.2.2, ?_⟩
  exact run_fuel cfg (fuelFor input) none { input := input } rfl (by simp [fuelFor]; omega)

/-! Witness: the unrestricted `too_big_sends_1009` is false on the real reader (finding C29-4):
"read limit exceeded" with nothing written at all.  The length-overflow exit (former C29-5) now
writes the 1009 frame. -/
def plainClient : Cfg := { server := false, deflate := false, readLimit := 0, inflatedLimit := 0, inflate := fun _ => none }

example : (runReader plainClient [0x82, 0x7f, 0x80, 0, 0, 0, 0, 0, 0, 0]).result = some .readLimit ∧
    (runReader plainClient [0x82, 0x7f, 0x80, 0, 0, 0, 0, 0, 0, 0]).written = [] := by decide
example : (runReader plainClient [0x01, 0x01, 0x61, 0x80, 0x7f, 0x7f, 0xff, 0xff, 0xff, 0xff, 0xff, 0xff, 0xff]).result
      = some .readLimit ∧
    (runReader plainClient [0x01, 0x01, 0x61, 0x80, 0x7f, 0x7f, 0xff, 0xff, 0xff, 0xff, 0xff, 0xff, 0xff]).written
      = [⟨8, [3, 241]⟩] := by
  decide
/-- non-vacuity of `too_big_sends_1009_partial` and `protocol_error_sends_1002` -/
example : (runReader { plainClient with readLimit := 3 } [0x82, 0x04, 1, 2, 3, 4]).result = some .readLimit ∧
    (runReader { plainClient with readLimit := 3 } [0x82, 0x04, 1, 2, 3, 4]).written = [⟨8, [3, 241]⟩] ∧
    (runReader { plainClient with readLimit := 3 } [0x82, 0x04, 1, 2, 3, 4]).devs = [] := by decide

example : ∃ m, (runReader plainClient [0x83, 0x00]).result = some (.proto m) := ⟨_, rfl⟩

end CentrifugeVerif.WS
