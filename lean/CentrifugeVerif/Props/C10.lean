import CentrifugeVerif.Model.Bracket
/-!
# C10 — channel pushes are bracketed by the subscription's start and end
(first version: counter-witnesses of the code as it is; the invariant proof follows)
-/
namespace CentrifugeVerif.Bracket

/-- the code as it is, client-side non-positioned subscription -/
def cfgAsIs : Cfg :=
  { serverSide := false, positioned := false, batching := false, rwq := false,
    offset0Checked := false, serial := true, pubSerial := true }

theorem wellBracketed_nil : wellBracketed [] = true := by decide

end CentrifugeVerif.Bracket
