import CentrifugeVerif.Proofs.Bracket
/-!
# C10 — channel pushes are bracketed by the subscription's start and end

Model: `Model/Bracket.lean` (one connection × one channel; subscriber, unsubscriber, any number of
broadcasters, writer goroutine, per-channel batch timer as threads; every label one lock region or
external call of the Go code; the transport frame log `wire` is part of the state).

Full statement (DESIGN `bracket`): for EVERY configuration and every reachable state, `wire` is
well-bracketed.  That statement is FALSE of the code — the model, which mirrors the code, exhibits
counter-witnesses (below, each also replayed on the real code by the check):

* C10-1  offset-0 publication before the subscribe reply — FIXED in /repo by commit 9c975f8e
  (`offset0Checked = true` is now the code as it is; the witness is kept for the pre-fix mode
  `offset0Checked = false` and the check reports a regression as a violation),
* C10-2  server-side subscribe commits before it writes the subscribe push,
* C10-3  `ReplyWithoutQueue`: the unsubscribe reply overtakes queued pushes,
* C10-4  per-channel batching: `perChannelWriter.Add` after `delWriter`.

What is proved: `bracket_partial` — for the configurations `Good` (offset-0 publications checked =
the current code, client-side subscription, replies through the queue, no per-channel batching,
subscribe/unsubscribe calls for the channel not overlapping), for ALL interleavings of any number of
subscribe/unsubscribe cycles, broadcasts of all four kinds (the offset-0 path included, at full
strength), positioned or not, and writer steps, the frame log is well-bracketed in every reachable
state — also the frames still queued.
Missing for the full theorem: exactly the three open configurations/defects C10-2..4.
-/
namespace CentrifugeVerif.Bracket

/-- `bracket` for the current code (offset-0 path checked), restricted to the configurations where it holds. -/
theorem bracket_partial (cfg : Cfg) (hg : Good cfg) (s : State) (hr : Reachable cfg s) :
    wellBracketed s.wire = true := by
  obtain ⟨o, ho, _⟩ := (inv_reachable hg hr).ok
  have : (scanFrom false (s.wire ++ (s.inflight ++ s.queue))).isSome := by
    simp only [emitted, List.append_assoc] at ho
    rw [ho]; rfl
  exact scanFrom_prefix this

/-- … and nothing that is already queued can break it later: the whole emission order is bracketed. -/
theorem bracket_partial_emitted (cfg : Cfg) (hg : Good cfg) (s : State) (hr : Reachable cfg s) :
    wellBracketed (s.wire ++ s.inflight ++ s.queue) = true := by
  obtain ⟨o, ho, _⟩ := (inv_reachable hg hr).ok
  simp only [emitted] at ho
  unfold wellBracketed
  rw [ho]; rfl

/-- a push is only ever written while the subscription is committed or being torn down:
consequence used by the harness oracle (a committed subscription implies an open bracket). -/
theorem subscribed_open (cfg : Cfg) (hg : Good cfg) (s : State) (hr : Reachable cfg s) (g : Nat)
    (hc : s.chan = some (g, true)) : scanFrom false (s.wire ++ s.inflight ++ s.queue) = some true := by
  obtain ⟨o, ho, hopen⟩ := (inv_reachable hg hr).ok
  have := hopen (Or.inl ⟨g, hc⟩)
  subst this
  exact ho

/-! ### non-vacuity of the hypotheses -/

def cfgFixed (positioned : Bool) : Cfg :=
  { serverSide := false, positioned := positioned, batching := false, rwq := false,
    offset0Checked := true, serial := true, pubSerial := false }

example : Good (cfgFixed true) := ⟨rfl, rfl, rfl, rfl, rfl⟩
example : Good (cfgFixed false) := ⟨rfl, rfl, rfl, rfl, rfl⟩

/-- a full cycle in a `Good` configuration: subscribe, a join parked across the check, a checked
offset-0 publication, unsubscribe; the frame log is `S, P0, J, E`. -/
example :
    (run (cfgFixed false) State.init
      [.sSpawn, .sStep, .sStep, .bStart .pub0 1, .bCheck 0, .sStep, .sStep, .sStep, .sStep, .sStep, .sStep, .sStep,
       .bStart .pub0 2, .bStart .join 3, .bCheck 0, .bCheck 0, .bEnqueue 0, .bEnqueue 0,
       .uSpawn false, .uStep, .uStep, .uStep, .wGrab, .wWrite]).map (·.wire)
      = some [.subStart, .push .pub0 2, .push .join 3, .subEnd] := by decide

/-! ### counter-witnesses: the full statement does not hold -/

/-- the code as it is (since 9c975f8e) -/
def asIs (ss pos bat rwq : Bool) : Cfg :=
  { serverSide := ss, positioned := pos, batching := bat, rwq := rwq,
    offset0Checked := true, serial := true, pubSerial := true }

/-- the code before 9c975f8e -/
def preFix (ss pos bat rwq : Bool) : Cfg := { asIs ss pos bat rwq with offset0Checked := false }

/-- C10-1 (pre-fix mode only): a publication without offset lands between hub add and the subscribe
reply and is written first (client-side, non-positioned; the same path exists for positioned
subscriptions). -/
example :
    ∃ s, run (preFix false false false false) State.init
      [.sSpawn, .sStep, .sStep, .bStart .pub0 1, .bEnqueue 0, .wGrab, .wWrite] = some s ∧
      s.wire = [.push .pub0 1] ∧ wellBracketed s.wire = false := by decide

/-- … and in the current code the same labels are no longer a path: the publication is dropped at the
`flagSubscribed` check, there is nothing to enqueue. -/
example :
    run (asIs false false false false) State.init
      [.sSpawn, .sStep, .sStep, .bStart .pub0 1, .bCheck 0, .bEnqueue 0] = none := by decide

/-- C10-2: server-side subscribe, a join delivered between `commitSubscription` and the subscribe push. -/
example :
    ∃ s, run (asIs true false false false) State.init
      [.sSpawn, .sStep, .sStep, .sStep, .sStep, .sStep, .sStep, .bStart .join 1, .bCheck 0, .bEnqueue 0,
       .wGrab, .wWrite] = some s ∧
      s.wire = [.push .join 1] ∧ wellBracketed s.wire = false := by decide

/-- C10-3: `ReplyWithoutQueue`, a publication dequeued by the writer but not yet written is overtaken
by the directly written unsubscribe reply. -/
example :
    ∃ s, run (asIs false false false true) State.init
      [.sSpawn, .sStep, .sStep, .sStep, .sStep, .sStep, .sStep, .sStep, .sStep, .sStep,
       .bStart .pubPos 1, .bCheck 0, .bEnqueue 0, .wGrab,
       .uSpawn false, .uStep, .uStep, .uStep, .wWrite] = some s ∧
      s.wire = [.subStart, .subEnd, .push .pubPos 1] ∧ wellBracketed s.wire = false := by decide

/-- C10-4: per-channel batching, `Add` after `delWriter`, flushed by the delay timer after the
unsubscribe reply. -/
example :
    ∃ s, run (asIs false false true false) State.init
      [.sSpawn, .sStep, .sStep, .sStep, .sStep, .sStep, .sStep, .sStep, .sStep, .sStep, .wGrab, .wWrite,
       .bStart .pubPos 1, .bCheck 0, .uSpawn false, .uStep, .bEnqueue 0, .uStep, .uStep, .wGrab, .wWrite,
       .tFlush, .wGrab, .wWrite] = some s ∧
      s.wire = [.subStart, .subEnd, .push .pubPos 1] ∧ wellBracketed s.wire = false := by decide

/-- without the `serial` assumption untagged frames are ambiguous: a late unsubscribe push of the
previous subscription lands inside the next one (not claimed as a violation of the property text,
see the check's assumptions). -/
example :
    ∃ s, run { cfgFixed false with serial := false } State.init
      [.sSpawn, .sStep, .sStep, .sStep, .sStep, .sStep, .sStep, .sStep, .sStep, .sStep,
       .uSpawn true, .uStep, .uStep,
       .sSpawn, .sStep, .sStep, .sStep, .sStep, .sStep, .sStep, .sStep, .sStep, .sStep,
       .uStep, .bStart .join 1, .bCheck 0, .bEnqueue 0, .wGrab, .wWrite] = some s ∧
      s.wire = [.subStart, .subStart, .subEnd, .push .join 1] ∧ wellBracketed s.wire = false := by decide

end CentrifugeVerif.Bracket
