import CentrifugeVerif.Proofs.SubProtoNT7
/-!
# C04 — publication routing matches subscription state

Theorems over the labelled transition system of `Model/SubProto.lean`; `Reachable s` quantifies over
every finite sequence of labels from the connected initial state, i.e. over every number of
subscribe / unsubscribe / close operations, every interleaving of their atomic steps, every failure
outcome and every firing of the wait-gate timeout.

Proved here (all labels):
* `at_most_once_routing`, `gauge_counts_routing_entries` — the hub is a map: at most one routing
  entry per (channel, connection), and the subscriptions gauge counts exactly these entries;
* `closed_no_new_subscription` — once the connection is closed no step makes it report a channel it
  did not report before (the commit point checks the status under the same lock that close takes);
* `generations_nonzero` — every `c.channels` entry carries a real generation, so the "any generation"
  value 0 of `removeSub` is never what a generation-matched removal is called with.

Proved for executions in which the 5 s unsubscribe wait gate never times out (`ReachableNT`: every
label except `tmo`; still any number of operations, channels, interleavings and injected failures):
* `gen_consistency` — a hub entry `(ch, g)` exists only if `c.channels[ch]` carries `g`, or a live
  rollback / unsubscribe still owes the removal of exactly `g`;
* `settled_agreement` — when no operation is in flight, the routing entries are exactly the reported
  channels: every hub entry belongs to a subscribed `c.channels` entry of the same generation, every
  `c.channels` entry is subscribed and has its hub entry (with `at_most_once_routing`: exactly one).

With the timeout the agreement is not proved; `Props/C05.lean` has a checked execution in which the
timeout lets residue survive a close (model level; the gate-controlled harness cannot force it).
-/
namespace CentrifugeVerif.SubProto

/-- `at_most_once_routing`: the hub holds at most one routing entry per (channel, this client), so a
publication broadcast on a channel is enqueued to the connection at most once. -/
theorem at_most_once_routing (s : State) (h : Reachable s) : (s.hub.map (·.1)).Nodup :=
  (reachable_struct s h).hubNodup

/-- the subscriptions-inflight gauge is in lockstep with the routing table in every reachable state -/
theorem gauge_counts_routing_entries (s : State) (h : Reachable s) : s.subGauge = s.hub.length :=
  (reachable_struct s h).gauge

theorem generations_nonzero (s : State) (h : Reachable s) (ch : Chan) (e : Entry)
    (he : aget s.channels ch = some e) : e.gen ≠ 0 :=
  (reachable_ghost s h).entGen ch e he

/-- After `close()` marked the connection closed, no step of any operation makes the connection
report a channel as subscribed that it did not report before that step. -/
theorem closed_no_new_subscription (s s' : State) (l : Label) (hc : s.status = .closed)
    (hn : next s l = some s') (ch : Chan) (hr : reports s' ch = true) : reports s ch = true := by
  unfold reports at hr ⊢
  cases he : aget s'.channels ch with
  | none => simp [he] at hr
  | some e =>
    simp only [he] at hr
    obtain ⟨e0, h0, hs0⟩ := next_closed_reports s s' l hc hn ch e he hr
    simp [h0, hs0]

/-- `gen_consistency` (no wait-gate timeout): a hub entry `(ch, g)` exists only if `c.channels[ch]`
carries `g`, or some live thread still owes the removal of `g` (a subscribe attempt rolling back after it
deleted its entry, or an unsubscribe that deleted the entry and has not yet reached `removeSubscription`). -/
theorem gen_consistency (s : State) (h : ReachableNT s) (ch : Chan) (g : Gen) (hh : aget s.hub ch = some g) :
    (∃ e, aget s.channels ch = some e ∧ e.gen = g) ∨
    ∃ x t, aget s.threads x = some t ∧ t.ch = ch ∧ owesP t g :=
  (reachableNT_inv s h).l3.B ch g hh

/-- `settled_agreement` (no wait-gate timeout): once every operation has returned, routing table and
reported subscriptions agree, channel by channel and generation by generation. -/
theorem settled_agreement (s : State) (h : ReachableNT s) (hs : s.settled) (ch : Chan) :
    (∀ g, aget s.hub ch = some g → ∃ e, aget s.channels ch = some e ∧ e.subscribed = true ∧ e.gen = g) ∧
    (∀ e, aget s.channels ch = some e → e.subscribed = true ∧ aget s.hub ch = some e.gen) :=
  ⟨fun g hh => settled_hub s (reachableNT_inv s h) hs ch g hh,
   fun e he => settled_entries s (reachableNT_inv s h) hs ch e he⟩

/-- the same in terms of what the connection reports: it reports `ch` iff the hub routes `ch` to it -/
theorem settled_reports_iff_routed (s : State) (h : ReachableNT s) (hs : s.settled) (ch : Chan) :
    reports s ch = true ↔ (aget s.hub ch).isSome = true := by
  obtain ⟨h1, h2⟩ := settled_agreement s h hs ch
  unfold reports
  constructor
  · intro hr
    cases he : aget s.channels ch with
    | none => simp [he] at hr
    | some e => rw [(h2 e he).2]; rfl
  · intro hr
    cases hh : aget s.hub ch with
    | none => simp [hh] at hr
    | some g =>
      obtain ⟨e, he, hsb, _⟩ := h1 g hh
      simp [he, hsb]

/-! Non-vacuity: a reachable settled state with one reported channel and its routing entry. -/
example : (run State.init [.spawn .csub 0 ⟨true, true⟩, .step 0 .ok, .step 0 .ok, .step 0 .ok, .step 0 .ok,
    .step 0 .ok, .step 0 .ok, .step 0 .ok, .step 0 .ok, .step 0 .ok, .step 0 .ok, .step 0 .ok]).map
    (fun s => (settledB s, reports s 0, aget s.hub 0, c04Ok s)) = some (true, true, some 1, true) := by decide

/-- the hypotheses of `settled_agreement` are satisfiable: the run above has no timeout label -/
example : ReachableNT ((run State.init [.spawn .csub 0 ⟨true, true⟩, .step 0 .ok, .step 0 .ok]).getD State.init) :=
  ⟨[.spawn .csub 0 ⟨true, true⟩, .step 0 .ok, .step 0 .ok], by decide, by decide⟩

end CentrifugeVerif.SubProto
