import CentrifugeVerif.Proofs.SubProtoInv
import CentrifugeVerif.Model.SubProtoSpec
/-!
# C04 — publication routing matches subscription state

Theorems over the labelled transition system of `Model/SubProto.lean`; `Reachable s` quantifies over
every finite sequence of labels from the connected initial state, i.e. over every number of
subscribe / unsubscribe / close operations, every interleaving of their atomic steps, every failure
outcome and every firing of the wait-gate timeout.

Proved here (all labels):
* `at_most_once_routing`, `gauge_counts_routing_entries` — the hub is a map: at most one routing
  entry per (channel, connection), and the subscriptions gauge counts exactly these entries;
* `closed_no_new_subscription` — once the connection is closed no step makes it report a channel it
  did not report before (the commit point checks the status under the same lock that close takes);
* `generations_nonzero` — every `c.channels` entry carries a real generation, so the "any generation"
  value 0 of `removeSub` is never what a generation-matched removal is called with.

NOT proved (stated in `settled_agreement` below as a comment): the full agreement of routing table and
reported channels at settled states.  The bounded explorer of the driver finds no violating
interleaving for the operation sets listed in `props/C04/corpus.ops` when the wait-gate timeout does
not fire; with the timeout the model has violating executions (see `Props/C05.lean`).
-/
namespace CentrifugeVerif.SubProto

/-- `at_most_once_routing`: the hub holds at most one routing entry per (channel, this client), so a
publication broadcast on a channel is enqueued to the connection at most once. -/
theorem at_most_once_routing (s : State) (h : Reachable s) : (s.hub.map (·.1)).Nodup :=
  (reachable_struct s h).hubNodup

/-- the subscriptions-inflight gauge is in lockstep with the routing table in every reachable state -/
theorem gauge_counts_routing_entries (s : State) (h : Reachable s) : s.subGauge = s.hub.length :=
  (reachable_struct s h).gauge

theorem reachable_ghost (s : State) (h : Reachable s) : Ghost s :=
  reachable_invariant Ghost Ghost.init next_ghost s h

theorem generations_nonzero (s : State) (h : Reachable s) (ch : Chan) (e : Entry)
    (he : aget s.channels ch = some e) : e.gen ≠ 0 :=
  (reachable_ghost s h).entGen ch e he

/-- After `close()` marked the connection closed, no step of any operation makes the connection
report a channel as subscribed that it did not report before that step. -/
theorem closed_no_new_subscription (s s' : State) (l : Label) (hc : s.status = .closed)
    (hn : next s l = some s') (ch : Chan) (hr : reports s' ch = true) : reports s ch = true := by
  unfold reports at hr ⊢
  cases he : aget s'.channels ch with
  | none => simp [he] at hr
  | some e =>
    simp only [he] at hr
    obtain ⟨e0, h0, hs0⟩ := next_closed_reports s s' l hc hn ch e he hr
    simp [h0, hs0]

/-
`settled_agreement` (full statement, not proved):
  Reachable s → s.settled → c04Ok s = true
i.e. when no operation is in flight the routing entries are exactly the reported channels, one each,
with the reported generation.
-/

/-! Non-vacuity: a reachable settled state with one reported channel and its routing entry. -/
example : (run State.init [.spawn .csub 0 ⟨true, true⟩, .step 0 .ok, .step 0 .ok, .step 0 .ok, .step 0 .ok,
    .step 0 .ok, .step 0 .ok, .step 0 .ok, .step 0 .ok, .step 0 .ok, .step 0 .ok, .step 0 .ok]).map
    (fun s => (settledB s, reports s 0, aget s.hub 0, c04Ok s)) = some (true, true, some 1, true) := by decide

end CentrifugeVerif.SubProto
