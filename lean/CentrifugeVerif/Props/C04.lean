import CentrifugeVerif.Proofs.SubProto
/-!
# C04 — publication routing matches subscription state

Theorems over the labelled transition system of `Model/SubProto.lean`; `Reachable s` quantifies over
every finite sequence of labels from the connected initial state, i.e. over every number of
subscribe / unsubscribe / close operations, every interleaving of their atomic steps, every failure
outcome and every firing of the wait-gate timeout.
-/
namespace CentrifugeVerif.SubProto

/-- `at_most_once_routing`: the hub holds at most one routing entry per (channel, this client), so a
publication broadcast on a channel is enqueued to the connection at most once. -/
theorem at_most_once_routing (s : State) (h : Reachable s) : (s.hub.map (·.1)).Nodup :=
  (reachable_struct s h).hubNodup

/-- the subscriptions-inflight gauge is in lockstep with the routing table in every reachable state -/
theorem gauge_counts_routing_entries (s : State) (h : Reachable s) : s.subGauge = s.hub.length :=
  (reachable_struct s h).gauge

end CentrifugeVerif.SubProto
