import CentrifugeVerif.Proofs.Stream
/-!
# C17 — Memory stream broker implements bounded-stream history semantics
(first cut: stream level; the hub-level theorems follow)
-/
namespace CentrifugeVerif.MemStream

variable {α : Type}

/-- `Add` keeps the contiguity invariant, assigns `top + 1`, keeps `min size (len+1)` items, same epoch. -/
theorem c17_stream_add_inv (s : MStream α) (h : s.Inv) (v : α) (size ver : Nat) (ve : String) :
    (s.add v size ver ve).1.Inv ∧ (s.add v size ver ve).2 = s.top + 1 ∧
      (s.add v size ver ve).1.top = s.top + 1 ∧
      (s.add v size ver ve).1.items.length = min size (s.items.length + 1) ∧
      (s.add v size ver ve).1.epoch = s.epoch := stream_add_inv s h v size ver ve

/-- `Get` is the filter `getSpec` of the retained items, for all arguments. -/
theorem c17_get_spec (s : MStream α) (h : s.Inv) (offset : Nat) (useOffset : Bool) (limit : Int)
    (reverse : Bool) :
    s.get offset useOffset limit reverse = s.getSpec offset useOffset limit reverse :=
  get_spec s h offset useOffset limit reverse

end CentrifugeVerif.MemStream
