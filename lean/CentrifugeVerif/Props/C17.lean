import CentrifugeVerif.Proofs.HistoryHubBroker
import CentrifugeVerif.Proofs.HistoryHubSweep
/-!
# C17 — Memory stream broker implements bounded-stream history semantics

Statement: for any sequence of publish / history / remove-history calls (and sweeper wake-ups at
arbitrary times), the in-memory broker behaves like a bounded append-only stream: offsets start
at 1 and increase by one per stored publication, history returns the retained suffix filtered by
since, limit and direction, the epoch changes only when the stream's metadata is discarded, and a
removed or expired stream keeps its top offset and epoch.

Model: `Model/Stream.lean` (memstream), `Model/HistoryHub.lean` (historyHub + MemoryBroker);
specification: `Spec/AbsStream.lean`.  Everything below holds for **all** operation sequences and
all clock values (no monotonicity assumption is needed for these statements).
-/
namespace CentrifugeVerif.HistoryHub
open CentrifugeVerif.MemStream CentrifugeVerif.AbsStream

/-! ## stream level (`internal/memstream`) -/

/-- `Add` keeps the contiguity invariant (retained offsets = `(top − len, top]`), assigns `top + 1`,
keeps `min size (len + 1)` items and the epoch. -/
theorem stream_add_inv (s : MStream Pub) (h : s.Inv) (v : Pub) (size ver : Nat) (ve : String) :
    (s.add v size ver ve).1.Inv ∧ (s.add v size ver ve).2 = s.top + 1 ∧
      (s.add v size ver ve).1.top = s.top + 1 ∧
      (s.add v size ver ve).1.items.length = min size (s.items.length + 1) ∧
      (s.add v size ver ve).1.epoch = s.epoch := MemStream.stream_add_inv s h v size ver ve

/-- `Get` is the filter `getSpec` of the retained items — all useOffset × reverse × limit-sign
combinations, index-miss fallbacks included. -/
theorem get_spec (s : MStream Pub) (h : s.Inv) (offset : Nat) (useOffset : Bool) (limit : Int)
    (reverse : Bool) :
    s.get offset useOffset limit reverse = s.getSpec offset useOffset limit reverse :=
  MemStream.get_spec s h offset useOffset limit reverse

/-! ## every reachable broker state is well-formed -/

/-- for every operation sequence (any ops, any times): every stream satisfies the contiguity
invariant, logs are never longer than `top`, epochs are pairwise distinct and were handed out -/
theorem run_inv (metaTTL : Nat) (ops : List Op) : (run (Broker.init metaTTL) ops).hub.Inv :=
  run_inv_from _ (init_inv metaTTL) ops

/-! ## refinement to the bounded-log specification -/

/-- how one broker operation and its output must relate two abstract states -/
def Refines (a : Abs Pub) : Op → Out → Abs Pub → Prop
  | .publish ch data o _, .pub po, a' =>
    (po.suppress = .none ∧ o.history ∧ a' = (a.append ch ⟨data, o.version⟩ o.size).1 ∧
        po.pos = (a.append ch ⟨data, o.version⟩ o.size).2) ∨
      ((po.suppress ≠ .none ∨ ¬ o.history) ∧ a' = a)
  | .history ch f _ _, .hist pubs pos, a' =>
    a' = (a.read ch f).1 ∧ pos = (a.read ch f).2.2 ∧
      (FilterOK (a.ensure ch).2.top f → pubs = (a.read ch f).2.1)
  | .remove ch, .ok, a' => a' = a.clear ch
  | .tick _, .ok, a' => Abs.Tick a a'
  | _, _, _ => False

theorem read_empty (c : AbsChan Pub) (f : Filter) (h : c.log = []) : c.read f = [] := by
  unfold AbsChan.read AbsChan.entries
  rw [h]
  cases f.since <;> simp <;> (try split) <;> simp [takeLim_nil]

/-- **historyHub_refines_absStream**: every operation of the memory broker, from every well-formed
state, is a step of the bounded-log specification with the same output: a stored publish is an
`append` returning the specification's position, any other publish changes nothing; a history call
is a `read` (creating a missing channel with a fresh epoch) returning the specification's position
and — on the `FilterOK` domain — exactly the specification's publications; remove is `clear`;
a sweeper wake-up keeps, clears or drops each channel. -/
theorem historyHub_refines_absStream (b : Broker) (hi : b.hub.Inv) (op : Op) :
    Refines b.hub.abs op (step b op).2 (step b op).1.hub.abs := by
  cases op with
  | publish ch data o now =>
    simp only [step, Refines]
    rcases publish_cases b ch data o now with ⟨p, h⟩ | ⟨hm, hh, hs⟩ | ⟨hm, hh, hs⟩ | ⟨hm, hh⟩
    · rw [publish_hit b ch data o now p h]; right; simp
    · rw [publish_skip b ch data o now hm hh hs]; right
      exact ⟨by simp, (add_skip_spec _ ch _ o _ hs).2.1⟩
    · rw [publish_store b ch data o now hm hh hs]; left
      obtain ⟨h1, h2⟩ := add_store_spec _ ch _ o _ hs
      exact ⟨rfl, hh, by simpa using h1, h2⟩
    · rw [publish_nohistory b ch data o now hm hh]; right; simp [hh]
  | history ch f m now =>
    simp only [step, Refines, Broker.history]
    obtain ⟨h1, h2⟩ := get_abs b.hub ch f m (now / 1000)
    refine ⟨h1, h2, ?_⟩
    intro hf
    cases hst : (b.hub.chans ch).stream with
    | some s =>
      have hc : b.hub.abs.chans ch = some (absS s) := by simp [Hub.abs, hst]
      have he : b.hub.abs.ensure ch = (b.hub.abs, absS s) := by unfold Abs.ensure; simp [hc]
      rw [he] at hf
      rw [get_pubs b.hub ch f m _ s hst (hi.1 _ _ hst) hf]
      unfold Abs.read; rw [he]
    | none =>
      have hc : b.hub.abs.chans ch = none := by simp [Hub.abs, hst]
      have : (b.hub.get ch f m (now / 1000)).2.1 = [] := by
        unfold Hub.get Hub.getCore
        simp [touchMeta_stream, hst]
      rw [this]
      unfold Abs.read
      simp only
      rw [read_empty]
      rw [((ensure_spec _ hi.2 ch).2.2.2.2.1 hc)]
  | remove ch => simp only [step, Refines, Broker.removeHistory]; exact remove_abs _ _
  | tick n =>
    simp only [step, Refines, Broker.tick, Broker.sweepCache]
    exact tick_abs _ _

/-! ## the statement's clauses, in concrete terms -/

/-- **offsets start at 1 and increase by one per stored publication**: a stored publish returns
`top + 1` in the stream's epoch, or offset 1 in a fresh epoch when the channel has no stream. -/
theorem stored_publish_offset (b : Broker) (ch data : String) (o : PubOpts) (now : Nat)
    (hs : (b.publish ch data o now).2.suppress = .none) (hh : o.history) :
    (b.publish ch data o now).2.pos =
      match (b.hub.chans ch).stream with
      | some s => ⟨s.top + 1, s.epoch⟩
      | none => ⟨1, b.hub.nextEpoch⟩ := by
  rcases publish_cases b ch data o now with ⟨p, h⟩ | ⟨hm, hh', hsk⟩ | ⟨hm, hh', hsk⟩ | ⟨hm, hh'⟩
  · rw [publish_hit b ch data o now p h] at hs; cases hs
  · rw [publish_skip b ch data o now hm hh' hsk] at hs; cases hs
  · rw [publish_store b ch data o now hm hh' hsk]
    simp only
    rcases add_cases b.hub ch ⟨data, o.version⟩ o (now / 1000) with
      ⟨s, hst, hv, he⟩ | ⟨s, hst, hv, he, _⟩ | ⟨hst, he, _⟩
    · rw [he] at hsk; cases hsk
    · rw [he, hst]
    · rw [he, hst]
  · exact absurd hh hh'

/-- **history = the retained suffix filtered by since, limit and direction** on the `FilterOK`
domain: all forward reads and reads without `since` (offsets being `uint64` values is the only
hypothesis there — see `history_forward_eq_spec`), and reverse reads since a position up to
`top + 1`.  Partial only in the reverse direction: a reverse read since an offset beyond `top + 1`
returns nothing (recorded quirk, counter-witness below).
(Before /repo commit fbc783cb the forward read since 2^64−1 was a second exception: finding C17-1.) -/
theorem history_eq_spec_partial (b : Broker) (hi : b.hub.Inv) (ch : String) (f : Filter) (m now : Nat)
    (s : MStream Pub) (hst : (b.hub.chans ch).stream = some s) (hf : FilterOK s.top f) :
    (b.history ch f m now).2 = ((absS s).read f, ⟨s.top, s.epoch⟩) ∧ (absS s).entries = s.items := by
  refine ⟨?_, entries_absS s (hi.1 _ _ hst)⟩
  have h1 := get_pubs b.hub ch f m (now / 1000) s hst (hi.1 _ _ hst) hf
  have h2 := (get_abs b.hub ch f m (now / 1000)).2
  have hc : b.hub.abs.chans ch = some (absS s) := by simp [Hub.abs, hst]
  have he : b.hub.abs.ensure ch = (b.hub.abs, absS s) := by unfold Abs.ensure; simp [hc]
  rw [he] at h2
  unfold Broker.history
  exact Prod.ext h1 h2

/-- forward reads and reads without `since` are the specification's read for **every** request
(the hypotheses only say that offsets are `uint64` values) -/
theorem history_forward_eq_spec (b : Broker) (hi : b.hub.Inv) (ch : String) (f : Filter) (m now : Nat)
    (s : MStream Pub) (hst : (b.hub.chans ch).stream = some s) (hrev : f.reverse = false)
    (htop : s.top + 1 < u64) (hsince : ∀ p, f.since = some p → p.offset < u64) :
    (b.history ch f m now).2 = ((absS s).read f, ⟨s.top, s.epoch⟩) := by
  apply (history_eq_spec_partial b hi ch f m now s hst _).1
  unfold FilterOK
  cases hs : f.since with
  | none => trivial
  | some p => simp only [hrev, Bool.false_eq_true, if_false]; exact ⟨hsince p hs, htop⟩

/-- the same for a channel without stream: nothing is returned, at offset 0 of a fresh epoch -/
theorem history_no_stream (b : Broker) (ch : String) (f : Filter) (m now : Nat)
    (hst : (b.hub.chans ch).stream = none) :
    (b.history ch f m now).2 = ([], ⟨0, b.hub.nextEpoch⟩) := by
  unfold Broker.history Hub.get Hub.getCore
  simp [touchMeta_stream, hst, MStream.new]

/-- **a removed stream keeps its top offset and epoch** (and its version pair) -/
theorem remove_keeps_top_epoch (b : Broker) (ch : String) (s : MStream Pub)
    (hst : (b.hub.chans ch).stream = some s) :
    ((b.removeHistory ch).hub.chans ch).stream = some { s with items := [] } := by
  unfold Broker.removeHistory Hub.remove
  simp [hst, MStream.clear]

/-- **an expired stream keeps its top offset and epoch; the stream (hence the epoch) disappears
only when the metadata deadline has passed**: at a sweeper wake-up every channel's stream is
unchanged, or cleared, or dropped — the latter only with a meta deadline `r ≤ now`. -/
theorem tick_keeps_top_epoch (b : Broker) (n : Nat) (x : String) :
    ((b.tick n).hub.chans x).stream = (b.hub.chans x).stream ∨
    ((b.tick n).hub.chans x).stream = (b.hub.chans x).stream.map (fun s => { s with items := [] }) ∨
    (((b.tick n).hub.chans x).stream = none ∧ ∃ r, (b.hub.chans x).removes = some r ∧ r ≤ n) := by
  exact tick_stream b.hub n x

/-- abstract-level consequence of a refinement step for one channel that exists before it -/
theorem refines_channel (a a' : Abs Pub) (hi : a.Inv) (op : Op) (out : Out) (hr : Refines a op out a')
    (x : String) (c : AbsChan Pub) (hc : a.chans x = some c) :
    (∀ c', a'.chans x = some c' → c'.epoch = c.epoch ∧ c.top ≤ c'.top) ∧
    (a'.chans x = none → ∃ n, op = .tick n) := by
  cases op with
  | publish ch data o now =>
    cases out with
    | pub po =>
      simp only [Refines] at hr
      rcases hr with ⟨_, _, ha, _⟩ | ⟨_, ha⟩
      · subst ha
        obtain ⟨_, h2, h3, _, _, h6⟩ := ensure_spec a hi ch
        unfold Abs.append
        by_cases hx : x = ch
        · subst hx
          rw [h6 c hc]
          simp only [setChan_same]
          exact ⟨by intro c' h; cases h; simp [AbsChan.append], by intro h; cases h⟩
        · rw [setChan_other _ _ _ _ hx, h3 x hx, hc]
          exact ⟨by intro c' h; cases h; simp, by intro h; cases h⟩
      · subst ha; rw [hc]
        exact ⟨by intro c' h; cases h; simp, by intro h; cases h⟩
    | hist _ _ => simp [Refines] at hr
    | ok => simp [Refines] at hr
  | history ch f m now =>
    cases out with
    | hist pubs pos =>
      simp only [Refines] at hr
      obtain ⟨ha, _, _⟩ := hr
      subst ha
      obtain ⟨_, h2, h3, _, _, h6⟩ := ensure_spec a hi ch
      unfold Abs.read
      by_cases hx : x = ch
      · subst hx; rw [h6 c hc, hc]
        exact ⟨by intro c' h; cases h; simp, by intro h; cases h⟩
      · simp only; rw [h3 x hx, hc]
        exact ⟨by intro c' h; cases h; simp, by intro h; cases h⟩
    | pub _ => simp [Refines] at hr
    | ok => simp [Refines] at hr
  | remove ch =>
    cases out with
    | ok =>
      simp only [Refines] at hr
      subst hr
      unfold Abs.clear
      by_cases hx : x = ch
      · subst hx; rw [setChan_same, hc]
        exact ⟨by intro c' h; cases h; simp [AbsChan.clear], by intro h; cases h⟩
      · rw [setChan_other _ _ _ _ hx, hc]
        exact ⟨by intro c' h; cases h; simp, by intro h; cases h⟩
    | pub _ => simp [Refines] at hr
    | hist _ _ => simp [Refines] at hr
  | tick n =>
    cases out with
    | ok =>
      simp only [Refines] at hr
      obtain ⟨_, h⟩ := hr
      refine ⟨?_, fun _ => ⟨n, rfl⟩⟩
      intro c' hc'
      rcases h x with e | e | e
      · rw [e, hc] at hc'; cases hc'; simp
      · rw [e, hc] at hc'; cases hc'; simp [AbsChan.clear]
      · rw [e] at hc'; cases hc'
    | pub _ => simp [Refines] at hr
    | hist _ _ => simp [Refines] at hr

/-- **the epoch changes only when the stream's metadata is discarded**: across any operation a
channel that has a stream keeps its epoch and never loses offsets (`top` does not decrease); the
stream can only vanish at a sweeper wake-up (and then, by `tick_keeps_top_epoch`, only after its
meta deadline).  A stream created later gets a fresh epoch (`stored_publish_offset`,
`history_no_stream`: the epoch counter's current value, larger than every epoch in use by `run_inv`). -/
theorem epoch_changes_only_at_meta_expiry (b : Broker) (hi : b.hub.Inv) (op : Op) (x : String)
    (s : MStream Pub) (hst : (b.hub.chans x).stream = some s) :
    (∀ s', ((step b op).1.hub.chans x).stream = some s' → s'.epoch = s.epoch ∧ s.top ≤ s'.top) ∧
    (((step b op).1.hub.chans x).stream = none → ∃ n, op = .tick n) := by
  have hr := historyHub_refines_absStream b hi op
  have hc : b.hub.abs.chans x = some (absS s) := by simp [Hub.abs, hst]
  obtain ⟨h1, h2⟩ := refines_channel _ _ hi.2 op _ hr x (absS s) hc
  constructor
  · intro s' hs'
    have : (step b op).1.hub.abs.chans x = some (absS s') := by simp [Hub.abs, hs']
    simpa [absS] using h1 _ this
  · intro hn
    apply h2
    simp [Hub.abs, hn]

/-- epochs in use are below the counter, so a freshly created stream never reuses one -/
theorem epochs_below_counter (metaTTL : Nat) (ops : List Op) (x : String) (s : MStream Pub)
    (hst : ((run (Broker.init metaTTL) ops).hub.chans x).stream = some s) :
    1 ≤ s.epoch ∧ s.epoch < (run (Broker.init metaTTL) ops).hub.nextEpoch := by
  have hi := run_inv metaTTL ops
  have := hi.2.1 x (absS s) (by simp [Hub.abs, hst])
  exact ⟨this.2.1, this.2.2⟩

/-! ## the sweepers -/

/-- the two sweeper goroutines wake up at the same instants and take the hub lock in an unspecified
order: the resulting hub state is the same either way (so the model's fixed order loses nothing) -/
theorem sweeper_order_irrelevant (h : Hub) (n : Nat) :
    (h.sweepExpire n).sweepRemove n = (h.sweepRemove n).sweepExpire n := sweeps_commute h n

/-- per channel, a wake-up at second `n'` subsumes any earlier wake-up at `n ≤ n'` -/
theorem sweep_coalesce (n n' : Nat) (hn : n ≤ n') (c : ChanState) :
    sweepExpChan n' (sweepExpChan n c) = sweepExpChan n' c ∧
      sweepRemChan n' (sweepRemChan n c) = sweepRemChan n' c :=
  ⟨sweepExpChan_coalesce n n' hn c, sweepRemChan_coalesce n n' hn c⟩

/-! ## non-vacuity and counter-witnesses -/

def demo : Broker := run (Broker.init 60000) [
  .publish "a" "d1" { size := 2, ttl := 10000 } 500,
  .publish "a" "d2" { size := 2, ttl := 10000 } 600,
  .publish "a" "d3" { size := 2, ttl := 10000 } 700]

/-- offsets 1, 2, 3; bounded to the last two -/
example : ((demo.hub.chans "a").stream.map fun s => (s.top, s.epoch, s.items.map (·.offset))) =
    some (3, 1, [2, 3]) := by decide
example : (demo.history "a" { since := some ⟨2, 1⟩, limit := -1 } 0 800).2 =
    ([⟨3, ⟨"d3", 0⟩⟩], ⟨3, 1⟩) := by decide
example : (demo.history "a" { since := some ⟨4, 1⟩, limit := 1, reverse := true } 0 800).2 =
    ([⟨3, ⟨"d3", 0⟩⟩], ⟨3, 1⟩) := by decide
example : FilterOK 3 { since := some ⟨4, 1⟩, limit := 1, reverse := true } := by
  simp [FilterOK, u64]
example : FilterOK 3 { since := some ⟨u64 - 1, 1⟩, limit := -1 } := by
  simp [FilterOK, u64]
/-- data expiry at second 10 keeps top and epoch; meta expiry at second 60 drops the stream; the
next publication starts at offset 1 in epoch 2 -/
example : (((demo.tick 10).hub.chans "a").stream.map fun s => (s.top, s.epoch, s.items.length)) =
    some (3, 1, 0) := by decide
example : (((demo.tick 10).tick 60).hub.chans "a").stream = none := by decide
example : ((((demo.tick 10).tick 60).publish "a" "d4" { size := 2, ttl := 10000 } 61500).2.pos) = ⟨1, 2⟩ := by
  decide

/-- fixed finding C17-1: a forward read since offset 2^64−1 returns nothing, as the specification says.
(Before /repo commit fbc783cb `since.Offset + 1` wrapped to 0, the index missed and the walk started
at the front: the result was `[2/d2, 3/d3]`; the replay stays in props/C17/corpus.ops.) -/
example : (demo.history "a" { since := some ⟨u64 - 1, 1⟩, limit := -1 } 0 800).2.1 = [] := by decide
example : (absS ((demo.hub.chans "a").stream.get (by decide))).read { since := some ⟨u64 - 1, 1⟩, limit := -1 } = [] := by
  decide
/-- counter-witness (recorded quirk): a reverse read since an offset beyond `top + 1` returns
nothing, although every retained offset is smaller -/
example : (demo.history "a" { since := some ⟨9, 1⟩, limit := -1, reverse := true } 0 800).2.1 = [] := by decide
example : (absS ((demo.hub.chans "a").stream.get (by decide))).read { since := some ⟨9, 1⟩, limit := -1, reverse := true } =
    [⟨3, ⟨"d3", 0⟩⟩, ⟨2, ⟨"d2", 0⟩⟩] := by decide

end CentrifugeVerif.HistoryHub
