import CentrifugeVerif.Proofs.Filter
/-!
# C15 — Tags filter evaluation matches its specification

Model: `Model/Filter.lean` (`Match`, `Validate`, the input of `Hash`) and `Model/Decimal.lean`
(`udecimal.Parse`, `Cmp`).  Specification: `Proofs/FilterSpec.lean` (`WellFormed`, `sem`) and
`Proofs/Decimal.lean` (`exactLt`, `exactLe`).  All statements are for every tree (any depth and
width, any byte strings) and every tag map.

History (finding C15-1, fixed in /repo by "fix: tags filter in/nin treat a missing key as having no
value"): the code before the fix (`matchN false`) violated the property text on `in`/`nin` — an
absent key was read as `""`, which may be a member of the value set
(see the `example` after `witnessNin`).
* `match_eq_sem`          — **the full statement for `filter.Match` as it is now**, no side condition;
* `match_eq_sem_fixed`    — the same for `matchN true` explicitly;
* `match_eq_sem_current`  — for whichever variant `Model.Filter.fixApplied` selects (hypothesis
  trivially true now); the old counter-witness is kept as a checked `example`.
-/
namespace CentrifugeVerif.Filter
open CentrifugeVerif.Decimal

/-! ## Validation accepts exactly the well-formed trees -/

/-- `Validate` returns nil (no error, no panic) iff the tree is well-formed. -/
theorem validate_iff_wellFormed (n : Node) : validate n = .ok ↔ WellFormed n := validate_ok_iff n

/-- … and the same for a slice of children. -/
theorem validateAll_iff_allWF (ns : Nodes) : validateAll ns = .ok ↔ AllWF ns := validateAll_ok_iff ns

/-! ## Matching a validated tree never errors (nor panics) -/

/-- for both variants, hence for the code as it is, with no side condition -/
theorem match_total_on_valid (fix : Bool) (t : Tags) (n : Node) (h : validate n = .ok) :
    ∃ b, matchN fix t n = .val b :=
  (MRes.isVal_iff _).mp (matchN_total fix t n ((validate_iff_wellFormed n).mp h))

theorem Match_total_on_valid (t : Tags) (n : Node) (h : validate n = .ok) : ∃ b, Match t n = .val b :=
  match_total_on_valid fixApplied t n h

/-! ## Matching returns the denotation -/

/-- Full statement, for `Match` with `in`/`nin` honouring key presence. -/
theorem match_eq_sem_fixed (t : Tags) (n : Node) (h : WellFormed n) :
    matchN true t n = .val (sem t n) :=
  matchN_sem true t n h (Or.inl rfl)

/- Before the fix of C15-1 only a partial statement held (`matchN false`, trees without `""` inside
`in`/`nin` sets): it is the instance `matchN_sem false t n h (Or.inr hne)` of the lemma in
`Proofs/Filter.lean`; see the counter-witness below. -/

/-- `filter.Match` as currently modelled (`fixApplied`). -/
theorem match_eq_sem_current (t : Tags) (n : Node) (h : WellFormed n)
    (hs : fixApplied = true ∨ NoEmptyInSets n) : Match t n = .val (sem t n) :=
  matchN_sem fixApplied t n h hs

/-- **`match_eq_sem`** — for every well-formed tree and every tag map, `filter.Match` (the code as
it is in /repo) returns the value the filter language defines, without error. -/
theorem match_eq_sem (t : Tags) (n : Node) (h : WellFormed n) : Match t n = .val (sem t n) :=
  match_eq_sem_current t n h (Or.inl rfl)

/-- … stated from `Validate`'s verdict. -/
theorem match_eq_sem_of_validated (t : Tags) (n : Node) (h : validate n = .ok) :
    Match t n = .val (sem t n) :=
  match_eq_sem t n ((validate_iff_wellFormed n).mp h)

/-- `In("k", ["", "a"])` and `Nin("k", [""])` -/
def witnessIn : Node := .mk [] [107] cIn [] [[], [97]] .nil
def witnessNin : Node := .mk [] [107] cNin [] [[]] .nil

/- Counter-witness for the code *before* the fix (kept as checked `example`, not an obligation):
both trees are accepted by `Validate`; on a tag map without the key, the old `in` matched and the
old `nin` did not, while the key "is in no set". -/
example :
    validate witnessIn = .ok ∧ matchN false [] witnessIn = .val true ∧ sem [] witnessIn = false ∧
    validate witnessNin = .ok ∧ matchN false [] witnessNin = .val false ∧ sem [] witnessNin = true := by
  decide

/-- … and the code as it is gets both right. -/
example : Match [] witnessIn = .val false ∧ Match [] witnessNin = .val true := by decide

/-! ## what `sem` says (reading the specification back) -/

/-- a missing key: exactly `neq`, `nin`, `nex` hold — it equals no value and is in no set -/
theorem sem_missing_key (t : Tags) (key cmp val : Str) (vals : List Str) (nodes : Nodes)
    (h : t.lookup key = none) :
    sem t (.mk [] key cmp val vals nodes) = decide (cmp = cNeq ∨ cmp = cNin ∨ cmp = cNex) := by
  rw [sem.eq_def]; simp [semLeaf, h]

theorem sem_in (t : Tags) (key val : Str) (vals : List Str) (nodes : Nodes) :
    sem t (.mk [] key cIn val vals nodes) = true ↔ ∃ v, t.lookup key = some v ∧ v ∈ vals := by
  rw [sem.eq_def]
  cases h : t.lookup key <;> simp (config := {decide := true}) [semLeaf, h]

theorem sem_nin (t : Tags) (key val : Str) (vals : List Str) (nodes : Nodes) :
    sem t (.mk [] key cNin val vals nodes) = true ↔ ¬ ∃ v, t.lookup key = some v ∧ v ∈ vals := by
  rw [sem.eq_def]
  cases h : t.lookup key <;> simp (config := {decide := true}) [semLeaf, h]

/-- numeric leaves: true iff the key is present, the engine accepts both numerals, and the two
rational numbers are in the stated order (shown for `lt`; `gt/gte/lte` are the other three
branches of `semNum`). -/
theorem sem_lt (t : Tags) (key val : Str) (vals : List Str) (nodes : Nodes) :
    sem t (.mk [] key cLt val vals nodes) = true ↔
      ∃ v a b, t.lookup key = some v ∧ Decimal.parse v = some a ∧ Decimal.parse val = some b ∧ exactLt a b := by
  rw [sem.eq_def]
  cases h : t.lookup key with
  | none => simp (config := {decide := true}) [semLeaf, h]
  | some v =>
    cases hp : Decimal.parse v <;> cases hq : Decimal.parse val <;>
      simp (config := {decide := true}) [semLeaf, h, hp, hq, semNum]

/-- `and`, `or`, `not` are the Boolean connectives -/
theorem sem_and (t : Tags) (key cmp val : Str) (vals : List Str) (c : Node) (rest : Nodes) :
    sem t (.mk sAnd key cmp val vals (.cons c rest)) = (sem t c && sem t (.mk sAnd key cmp val vals rest)) := by
  rw [sem.eq_def, sem.eq_def t (.mk sAnd key cmp val vals rest)]
  simp (config := {decide := true}) [semAll]

theorem sem_or (t : Tags) (key cmp val : Str) (vals : List Str) (c : Node) (rest : Nodes) :
    sem t (.mk sOr key cmp val vals (.cons c rest)) = (sem t c || sem t (.mk sOr key cmp val vals rest)) := by
  rw [sem.eq_def, sem.eq_def t (.mk sOr key cmp val vals rest)]
  simp (config := {decide := true}) [semAny]

theorem sem_not (t : Tags) (key cmp val : Str) (vals : List Str) (c : Node) :
    sem t (.mk sNot key cmp val vals (.cons c .nil)) = !sem t c := by
  rw [sem.eq_def]
  simp (config := {decide := true}) [semAll]

/-! ## numerals: `Cmp` agrees with exact decimal comparison -/

/-- for everything `Parse` accepts (parsed values are normalised: no negative zero) the sign of
`Cmp` is the order of the two rational numbers `±coef/10^prec` -/
theorem numeric_cmp_exact (s₁ s₂ : Str) (a b : Dec)
    (h₁ : Decimal.parse s₁ = some a) (h₂ : Decimal.parse s₂ = some b) :
    (Decimal.cmp a b < 0 ↔ exactLt a b) ∧ (Decimal.cmp a b ≤ 0 ↔ exactLe a b) ∧
    (Decimal.cmp a b > 0 ↔ exactLt b a) ∧ (Decimal.cmp a b ≥ 0 ↔ exactLe b a) :=
  cmp_exact a b (parse_norm h₁) (parse_norm h₂)

/-- numerals of the everyday shape are accepted and get the value they denote: optional sign and
1–19 digits … -/
theorem numeral_int_accepted (sign : Str) (neg : Bool) (ds : Str) (hsign : SignOf sign neg)
    (hd : AllDigits ds) (hne : ds ≠ []) (hl : ds.length ≤ 19) :
    Decimal.parse (sign ++ ds) = some (mkDec neg (natVal ds) 0) :=
  parse_short_int sign neg ds hsign hd hne hl

/-- … or optional sign, digits, a dot and 1+ digits (≤ 19 bytes after the sign): the value is
`±(digits without the dot) / 10^(number of fractional digits)`.
(Longer numerals — the u128 and big.Int paths, up to 200 bytes — and the rejected shapes are pinned
by the differential `dec` stream only.) -/
theorem numeral_frac_accepted (sign : Str) (neg : Bool) (ds fs : Str) (hsign : SignOf sign neg)
    (hd : AllDigits ds) (hf : AllDigits fs) (hne : ds ≠ []) (hfne : fs ≠ [])
    (hl : (ds ++ cDot :: fs).length ≤ 19) :
    Decimal.parse (sign ++ (ds ++ cDot :: fs)) = some (mkDec neg (natVal (ds ++ fs)) fs.length) :=
  parse_short_frac sign neg ds fs hsign hd hf hne hfne hl

example : Decimal.parse [45, 49, 46, 53, 48] = some ⟨true, 150, 2⟩ :=
  numeral_frac_accepted [cMinus] true [49] [53, 48] (Or.inr (Or.inr ⟨rfl, rfl⟩)) (by decide) (by decide)
    (by decide) (by decide) (by decide)

/-- conversely, a string of at most 19 bytes that the engine accepts has that shape: one optional
sign, at least one digit, optionally a dot followed by 1–19 digits, ASCII digits only (so `""`,
`"1."`, `".5"`, `"1e3"`, `"+-1"`, non-ASCII digits are rejected). -/
theorem numeral_short_shape (s : Str) (d : Dec) (hl : s.length ≤ 19) (h : Decimal.parse s = some d) :
    NumeralShape s :=
  parse_short_sound s d hl h

/-! ## hash -/

/-- structurally equal trees give the same hash input (the encoding is a function of the tree
alone: no map iteration, no pointer identity, no dependence on nil-vs-empty slices) -/
theorem hash_congr (n₁ n₂ : Node) (h : n₁ = n₂) : hashInput n₁ = hashInput n₂ := by rw [h]

/-- `MarshalToSizedBufferVT` writes exactly `SizeVT()` bytes, so the `n` bytes `Hash` reads from the
front of the pooled buffer are the encoding (and not stale pool content). -/
theorem marshal_length_eq_size (n : Node) : (hashInput n).length = sizeVT n := marshal_length n

/-! ## non-vacuity -/

/-- `and(sw(k,"ab"), not(nex(k)), gte(p,"1.50"))` -/
def sampleTree : Node :=
  .mk sAnd [] [] [] [] (.cons (.mk [] [107] cSw [97, 98] [] .nil)
    (.cons (.mk sNot [] [] [] [] (.cons (.mk [] [107] cNex [] [] .nil) .nil))
      (.cons (.mk [] [112] cGte [49, 46, 53, 48] [] .nil) .nil)))

example : validate sampleTree = .ok := by decide
example : WellFormed sampleTree := (validate_iff_wellFormed _).mp (by decide)
example : NoEmptyInSets sampleTree := by
  simp (config := {decide := true}) [sampleTree, NoEmptyInSets, NoEmptyInSetsAll]
example : Match [([107], [97, 98, 99]), ([112], [48, 49, 46, 53])] sampleTree = .val true := by decide
example : Match [([107], [97, 98, 99]), ([112], [49, 46, 52, 57, 57])] sampleTree = .val false := by decide
example : Decimal.parse [45, 48] = some ⟨false, 0, 0⟩ ∧ Decimal.parse [49, 46] = none ∧
    Decimal.parse [49, 101, 51] = none ∧ Decimal.parse [43, 49] = some ⟨false, 1, 0⟩ := by decide
example : validate (.mk sNot [] [] [] [] (.null .nil)) = .panic ∧
    validate (.mk sAnd [] [] [] [] .nil) = .err .emptyChildren ∧
    matchN false [] (.mk [120] [] [] [] [] .nil) = .err .badOp := by decide
example : hashInput witnessIn = [0x12, 1, 107, 0x1a, 2, 105, 110, 0x2a, 0, 0x2a, 1, 97] := by decide

end CentrifugeVerif.Filter
