import CentrifugeVerif.Model.Filter
namespace CentrifugeVerif.Filter
open CentrifugeVerif.Decimal

/-- `In("k", ["", "a"])` -/
def witnessIn : Node := .mk [] [107] cIn [] [[], [97]] .nil

theorem match_unfixed_witness : matchN false [] witnessIn = .val true := by decide

end CentrifugeVerif.Filter
