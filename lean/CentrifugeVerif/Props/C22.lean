import CentrifugeVerif.Proofs.MapSub
/-!
# C22 — map subscriptions converge to the broker state

Model: `Model/MapSub.lean`.  The broker keeps the complete change log of the epoch as ghost state (offsets
are log positions), the stream is the window `(lo, top]`; trimming (`trimTo`), stream expiry
(`expireStream`), key expiry (`remove`) and `clear` are explicit operations, so every statement below is
about an arbitrary reachable log / window, i.e. about every interleaving of broker operations with the
protocol's reads (the reads are the only points where the protocol observes the broker; operations and reads
are atomic under the hub lock).

Proved for all logs, windows, positions, limits:
* `stream_read_exact`          without a gap `Node.MapStreamRead` returns exactly the next changes after the
                               client's position, contiguously, up to the limit;
* `stream_read_gap_detected`   every gap (changes after the position were trimmed / expired) is answered with
                               unrecoverable-position (full strength since fix 5b9907a0);
* `never_false_recovered`      a successful recovery read that stayed below the transition limit delivered
                               *every* change after the client's position;
* `page_entry_sound`, `page_entry_complete`  an entry a later state page shows with offset ≤ frozen offset is
                               the entry of the frozen snapshot and its key was not changed since; a key not
                               changed since the frozen offset is still shown with its frozen entry;
* `map_converges_partial`      if the client's map agrees with the frozen snapshot on every key not changed
                               after the frozen offset (what the state phase establishes, given pagination
                               coverage = C21, and the offset filter = `page_entry_sound`), then applying the
                               changes after the frozen offset in order (stream pages, live reply, pushes)
                               yields exactly the broker's current state - for every suffix, i.e. every
                               interleaving of publishes / removes / expirations with the page requests.
Former findings C22-1 … C22-4 (stream TTL expiry with an empty read; position 0 with a trimmed stream) were fixed in
/repo by 5b9907a0; `c22_expired_now_detected` and `c22_since_zero_now_detected` show the fixed behaviour.
Not proved: the composition of `handle` over whole sessions (control flow of the three phase handlers) is
tied by trace validation only; pagination coverage is C21's theorem; ordered channels are not modelled.
-/
namespace CentrifugeVerif.MapSub

theorem take_head_off (l : List Pub) (n : Nat) (p : Pub) (r : List Pub) (h : l.take n = p :: r) :
    ∃ r', l = p :: r' := by
  cases l with
  | nil => simp at h
  | cons a t =>
    cases n with
    | zero => simp at h
    | succ m => simp only [List.take_succ_cons, List.cons.injEq] at h; exact ⟨t, by rw [h.1]⟩

/-- **No gap ⇒ the read is exact.** -/
theorem stream_read_exact (b : Broker) (since : Pos) (lim : Option Nat)
    (hep : since.ep = 0 ∨ since.ep = b.epoch) (hlo : b.lo ≤ since.off) :
    nodeStreamRead b since lim = some (takeOpt lim (after b since.off), b.pos) := by
  have hcond : ¬ (since.ep ≠ 0 ∧ since.ep ≠ b.epoch) := by
    rcases hep with h | h <;> simp [h]
  unfold nodeStreamRead readStream
  simp only [hcond, if_false]
  by_cases htop : b.top = since.off
  · simp only [htop, if_true]
    have : after b since.off = [] := after_nil_of_ge b since.off (by omega)
    have hpos : ¬ since.off < b.pos.off := by simp [Broker.pos, htop]
    have ht : takeOpt lim ([] : List Pub) = [] := by cases lim <;> simp [takeOpt]
    rw [this, ht]
    by_cases hl0 : lim = some 0
    · simp [hl0]
    · simp [hl0, hpos]
  · simp only [htop, if_false]
    have hmax : max since.off b.lo = since.off := Nat.max_eq_left hlo
    have hf : b.pubs.filter (fun p => decide (p.off > max since.off b.lo)) = after b since.off := by
      rw [hmax]
      unfold Broker.pubs after
      have := filter_pubsFrom 0 since.off b.log (Nat.zero_le _)
      simpa using this
    rw [hf]
    by_cases hl0 : lim = some 0
    · simp [hl0]
    · simp only [hl0, if_false]
      cases hl : takeOpt lim (after b since.off) with
      | nil =>
        simp only
        -- an empty page with limit ≠ 0 means there is nothing after the position
        have hge : b.top ≤ since.off := by
          rcases Nat.lt_or_ge since.off b.top with hlt | hge
          · obtain ⟨c, r0, ha⟩ := after_head b since.off hlt
            rw [ha] at hl
            cases lim with
            | none => simp [takeOpt] at hl
            | some n =>
              cases n with
              | zero => exact absurd rfl hl0
              | succ m => simp [takeOpt] at hl
          · exact hge
        have : ¬ since.off < b.pos.off := by simp [Broker.pos]; omega
        simp [this]
      | cons p r =>
        simp only
        have hp : p.off = since.off + 1 := by
          by_cases hlt : since.off < b.top
          · obtain ⟨c, r0, ha⟩ := after_head b since.off hlt
            cases lim with
            | none => simp only [takeOpt] at hl; rw [ha] at hl; cases hl; rfl
            | some n =>
              simp only [takeOpt] at hl
              obtain ⟨r', hr'⟩ := take_head_off _ _ _ _ hl
              rw [ha] at hr'; cases hr'; rfl
          · have : after b since.off = [] := after_nil_of_ge b since.off (by omega)
            rw [this] at hl; cases lim <;> simp [takeOpt] at hl
        have : ¬ (p.off > since.off + 1) := by omega
        simp [this]

/-- **Every gap is detected** (full strength since fix 5b9907a0): if changes after the client's position
were trimmed or expired, the read answers unrecoverable-position - also when the stream is empty and when
the position is 0. -/
theorem stream_read_gap_detected (b : Broker) (since : Pos) (lim : Option Nat)
    (hgap : since.off < b.lo) (hinv : b.lo ≤ b.top) (hlim : lim ≠ some 0) :
    nodeStreamRead b since lim = none := by
  unfold nodeStreamRead readStream
  by_cases hcond : since.ep ≠ 0 ∧ since.ep ≠ b.epoch
  · simp [hcond]
  · simp only [hcond, if_false]
    have htop : ¬ b.top = since.off := by omega
    simp only [htop, if_false, hlim]
    have hmax : max since.off b.lo = b.lo := Nat.max_eq_right (Nat.le_of_lt hgap)
    have hf : b.pubs.filter (fun p => decide (p.off > max since.off b.lo)) = after b b.lo := by
      rw [hmax]
      unfold Broker.pubs after
      simpa using filter_pubsFrom 0 b.lo b.log (Nat.zero_le _)
    rw [hf]
    rcases Nat.lt_or_ge b.lo b.top with hlt | hge
    · obtain ⟨c, r0, ha⟩ := after_head b b.lo hlt
      rw [ha]
      cases lim with
      | none =>
        simp only [takeOpt]
        have : b.lo + 1 > since.off + 1 := by omega
        simp [this]
      | some n =>
        cases n with
        | zero => exact absurd rfl hlim
        | succ m =>
          simp only [takeOpt, List.take_succ_cons]
          have : b.lo + 1 > since.off + 1 := by omega
          simp [this]
    · have : after b b.lo = [] := after_nil_of_ge b b.lo hge
      rw [this]
      have ht : takeOpt lim ([] : List Pub) = [] := by cases lim <;> simp [takeOpt]
      rw [ht]
      have : since.off < b.pos.off := by simp [Broker.pos]; omega
      simp [this]

/-- **never_false_recovered.**  The recovery transition reads the stream since the client's position with
limit `L+1` and answers success (`Recovered = true`) only if at most `L` publications came back.  Then the
publications it returned are *all* changes after the client's position - for every log and every stream
window, i.e. every interleaving of publishes, removes, key expirations, trimming and stream expiry. -/
theorem never_false_recovered (b : Broker) (since : Pos) (L : Nat) (pubs : List Pub) (pos : Pos)
    (hep : since.ep = 0 ∨ since.ep = b.epoch) (hinv : b.lo ≤ b.top)
    (hread : nodeStreamRead b since (some (L + 1)) = some (pubs, pos)) (hlen : pubs.length ≤ L) :
    pubs = after b since.off ∧ pos = b.pos := by
  by_cases hgap : since.off < b.lo
  · rw [stream_read_gap_detected b since _ hgap hinv (by simp)] at hread
    cases hread
  · rw [stream_read_exact b since _ hep (Nat.le_of_not_lt hgap)] at hread
    simp only [takeOpt, Option.some.injEq, Prod.mk.injEq] at hread
    obtain ⟨h1, h2⟩ := hread
    refine ⟨?_, h2.symm⟩
    rw [← h1]
    apply List.take_of_length_le
    by_cases hl : (after b since.off).length ≤ L + 1
    · exact hl
    · have : ((after b since.off).take (L + 1)).length = L + 1 := by
        rw [List.length_take]; omega
      rw [h1] at this; omega

example : nodeStreamRead { log := [⟨"a", some 1⟩, ⟨"b", some 2⟩], lo := 0, st := [] } ⟨1, 1⟩ (some 3)
    = some ([⟨2, "b", some 2⟩], ⟨2, 1⟩) := by decide

/-! ### state pages against the frozen snapshot -/

def snapshot (log : List Change) : KVO := semL (fun _ => none) 0 log

/-- an entry shown by a state read after `l2' ` more changes, whose offset is ≤ the frozen offset `|l1|`, is
the frozen snapshot's entry, and its key was not changed since. -/
theorem page_entry_sound (l1 l2' : List Change) (k : String) (v o : Nat)
    (h : snapshot (l1 ++ l2') k = some (v, o)) (ho : o ≤ l1.length) :
    snapshot l1 k = some (v, o) ∧ ¬ touched k l2' := by
  unfold snapshot at *
  rw [semL_append] at h
  simp only [Nat.zero_add] at h
  exact semL_old_entry _ _ _ _ _ _ h ho

/-- a key not changed since the frozen offset is still shown with its frozen entry. -/
theorem page_entry_complete (l1 l2' : List Change) (k : String) (h : ¬ touched k l2') :
    snapshot (l1 ++ l2') k = snapshot l1 k := by
  unfold snapshot
  rw [semL_append]
  exact semL_untouched _ _ _ _ h

def vals (m : KVO) : KV := fun k => (m k).map (·.1)

/-- **map_converges (partial).**  `l1` = the log when the first state page was read (frozen offset
`|l1|`), `l2` = everything that happened afterwards (any interleaving of publishes, removes, key
expirations).  If the client's map agrees with the frozen snapshot on the keys `l2` does not touch, then after
applying `l2` in order the client holds exactly the broker's state. -/
theorem map_converges_partial (l1 l2 : List Change) (M : KV)
    (hagree : ∀ k, ¬ touched k l2 → M k = vals (snapshot l1) k) :
    applyAll M l2 = vals (snapshot (l1 ++ l2)) := by
  have h1 : vals (snapshot (l1 ++ l2)) = applyAll (vals (snapshot l1)) l2 := by
    unfold snapshot vals
    rw [semL_append]
    exact semL_vals _ _ _
  rw [h1]
  exact applyAll_agree M _ l2 hagree

example : ∀ k, ¬ touched k [⟨"b", none⟩] →
    (fun k => if k = "a" then some 1 else none : KV) k = vals (snapshot [⟨"a", some 1⟩, ⟨"b", some 2⟩]) k := by
  intro k hk
  have hb : k ≠ "b" := fun e => hk ⟨_, List.mem_cons_self, e.symm⟩
  by_cases ha : k = "a"
  · subst ha; decide
  · simp [vals, snapshot, semL, updO, ha, hb]

/-! ### the two former holes of the trim detection (findings C22-1..4, fixed by 5b9907a0) -/

def expiredBroker : Broker :=
  ((({} : Broker).apply (.publish "a" 1)).apply (.publish "b" 2) |>.apply (.publish "c" 3)).apply .expireStream

/-- formerly C22-1/C22-2: after stream TTL expiry a recovery from offset 2 (< top = 3) read nothing without
error and the transition answered `Recovered = true`; now the read is unrecoverable-position (error 112). -/
theorem c22_expired_now_detected :
    nodeStreamRead expiredBroker ⟨2, 1⟩ (some 1001) = none ∧
    after expiredBroker 2 = [⟨3, "c", some 3⟩] ∧
    transition {} ⟨2, 1⟩ true true [] (nodeStreamRead expiredBroker ⟨2, 1⟩ (some 1001)) [] =
      .reply (.err 112) none none := by
  decide

def trimmedBroker : Broker :=
  (((({} : Broker).apply (.publish "a" 1)).apply (.publish "b" 2)).apply (.publish "c" 3)).apply (.trimTo 1)

/-- formerly C22-3/C22-4: with position 0 the detection was skipped; now detected. -/
theorem c22_since_zero_now_detected :
    nodeStreamRead trimmedBroker ⟨0, 1⟩ (some 1001) = none ∧ (after trimmedBroker 0).length = 3 := by
  decide

end CentrifugeVerif.MapSub
