/-! placeholder, replaced by the encoder LTS theorems -/
namespace CentrifugeVerif.C11Stub
theorem stub : True := trivial
end CentrifugeVerif.C11Stub
