import CentrifugeVerif.Model.ConnProtoEncoder
/-!
# C11 — the connect reply is the first server message; dictionary encoder discipline

Model: `Model/ConnProtoEncoder.lean`.  Statements quantify over all label sequences (all
interleavings of the connect thread with pushes routed through the hub; of the queue writer,
direct `ReplyWithoutQueue` writes and `close`).

The full statement "no push precedes the connect reply" is **false** for the code and for the
model (`push_can_precede_connect_reply`, finding C11-1); what holds is stated in
`connect_reply_first_partial`.  Likewise "the encoder is never closed concurrently with an Encode"
holds only without `ReplyWithoutQueue` (`encoder_discipline_partial`, counter-witness
`rwq_close_overlaps_encode`, finding C11-2).
-/
namespace CentrifugeVerif.ConnProtoEncoder

/-! ## (a) connect reply first -/

def Frame.encoded : Frame → Bool
  | .connectReply e => e
  | .push e => e

/-- shape of the frame log: nothing before `addClient`; with a dictionary the first frame is raw
and promotes the encoder, every later frame is encoded; without one everything is raw. -/
def CInv (s : CSt) : Prop :=
  (s.inHub = false → s.frames = [] ∧ s.replyWritten = false) ∧
  (s.frames = [] → s.promoted = false) ∧
  (s.dict = false → s.promoted = false ∧ ∀ f ∈ s.frames, f.encoded = false) ∧
  (s.dict = true → ∀ f t, s.frames = f :: t → s.promoted = true ∧ f.encoded = false ∧ ∀ g ∈ t, g.encoded = true) ∧
  (s.replyWritten = false → ∀ e, Frame.connectReply e ∉ s.frames)

theorem write_inv (s : CSt) (mk : Bool → Frame) (hmk : ∀ b, (mk b).encoded = b)
    (h : CInv s) (hin : s.inHub = true) (hnr : ∀ e, mk true ≠ Frame.connectReply e ∨ s.replyWritten = false) :
    let s' := write s mk
    (s'.frames = [] → s'.promoted = false) ∧
    (s'.dict = false → s'.promoted = false ∧ ∀ f ∈ s'.frames, f.encoded = false) ∧
    (s'.dict = true → ∀ f t, s'.frames = f :: t → s'.promoted = true ∧ f.encoded = false ∧ ∀ g ∈ t, g.encoded = true) := by
  obtain ⟨_, h2, h3, h4, _⟩ := h
  unfold write
  by_cases hp : s.promoted = true
  · simp only [hp, if_true]
    refine ⟨by simp, ?_, ?_⟩
    · intro hd; have := (h3 hd).1; simp [hp] at this
    · intro hd f t hft
      cases hfr : s.frames with
      | nil => have := h2 hfr; simp [hp] at this
      | cons a l =>
        obtain ⟨_, ha, hl⟩ := h4 hd a l hfr
        simp [hfr] at hft
        obtain ⟨rfl, rfl⟩ := hft
        refine ⟨by first | trivial | exact hp, ha, ?_⟩
        intro g hg
        simp at hg
        rcases hg with hg | hg
        · exact hl g hg
        · subst hg; exact hmk true
  · simp only [hp]
    refine ⟨by simp, ?_, ?_⟩
    · intro hd
      simp at hd
      refine ⟨by simp [hd], ?_⟩
      intro f hf
      simp at hf
      rcases hf with hf | hf
      · exact (h3 hd).2 f hf
      · subst hf; exact hmk false
    · intro hd f t hft
      simp at hd
      cases hfr : s.frames with
      | nil =>
        simp [hfr] at hft
        obtain ⟨rfl, rfl⟩ := hft
        exact ⟨by simp [hd], hmk false, by simp⟩
      | cons a l =>
        have := (h4 hd a l hfr).1
        exact absurd this hp

theorem cstep_inv (s s' : CSt) (l : CLabel) (h : CInv s) (hs : cstep s l = some s') : CInv s' := by
  cases l with
  | addClient =>
    simp only [cstep] at hs
    split at hs
    · cases hs
    · cases hs
      obtain ⟨h1, h2, h3, h4, h5⟩ := h
      rename_i hin
      simp at hin
      exact ⟨by simp, h2, h3, h4, h5⟩
  | writeReply =>
    simp only [cstep] at hs
    split at hs
    · rename_i hc
      simp at hc
      cases hs
      have hw := write_inv s .connectReply (by intro b; rfl) h hc.1 (by intro e; right; exact hc.2)
      have hdict : (write s .connectReply).dict = s.dict := by unfold write; split <;> rfl
      have hhub : (write s .connectReply).inHub = s.inHub := by unfold write; split <;> rfl
      refine ⟨by simp [hhub, hc.1], hw.1, ?_, ?_, by simp⟩
      · simpa [hdict] using hw.2.1
      · simpa [hdict] using hw.2.2
    · cases hs
  | push =>
    simp only [cstep] at hs
    split at hs
    · rename_i hc
      cases hs
      have hw := write_inv s .push (by intro b; rfl) h hc (by intro e; left; simp)
      have hrw : (write s .push).replyWritten = s.replyWritten := by unfold write; split <;> rfl
      have hhub : (write s .push).inHub = s.inHub := by unfold write; split <;> rfl
      refine ⟨by simp [hhub, hc], hw.1, hw.2.1, hw.2.2, ?_⟩
      intro hr e
      rw [hrw] at hr
      have := h.2.2.2.2 hr e
      unfold write
      split <;> simp [this]
    · cases hs

theorem crun_inv : ∀ (ls : List CLabel) (s s' : CSt), CInv s → crun s ls = some s' → CInv s'
  | [], s, s', h, hr => by simp [crun] at hr; subst hr; exact h
  | l :: ls, s, s', h, hr => by
    simp only [crun] at hr
    split at hr
    · rename_i s1 h1; exact crun_inv ls s1 s' (cstep_inv s s1 l h h1) hr
    · cases hr

theorem cinv_init (d : Bool) : CInv { dict := d } := by
  refine ⟨by simp, by simp, by simp, by simp, by simp⟩

/-- nothing reaches the transport before `addClient`: a client that is not registered in the hub
has an empty frame log, whatever the other threads do. -/
theorem no_frame_before_addClient (d : Bool) (ls : List CLabel) (s : CSt)
    (hr : crun { dict := d } ls = some s) (hh : s.inHub = false) : s.frames = [] :=
  ((crun_inv ls _ s (cinv_init d) hr).1 hh).1

/-- `connect_reply_first_partial`: in every interleaving, the connect reply is the first frame
**provided no push is routed to the client between `addClient` and the reply write** (i.e. the
reply write is the first step after `addClient`); then it goes out unencoded and, when a
dictionary was negotiated, every later frame is encoded.
(The unconditional statement is false: `push_can_precede_connect_reply`.) -/
theorem connect_reply_first_partial (d : Bool) (rest : List CLabel) (s : CSt)
    (hr : crun { dict := d } (.addClient :: .writeReply :: rest) = some s) :
    ∃ t, s.frames = Frame.connectReply false :: t ∧ (d = true → ∀ g ∈ t, g.encoded = true) ∧
      (d = false → ∀ g ∈ t, g.encoded = false) := by
  -- after the two steps the log is exactly [connectReply false]
  have h2 : crun { dict := d } [.addClient, .writeReply] =
      some { dict := d, inHub := true, replyWritten := true, promoted := d, frames := [.connectReply false] } := by
    cases d <;> rfl
  have hsplit : crun { dict := d } (.addClient :: .writeReply :: rest) =
      crun { dict := d, inHub := true, replyWritten := true, promoted := d, frames := [.connectReply false] } rest := by
    cases d <;> rfl
  rw [hsplit] at hr
  -- frames only grow by appending; use the shape invariant on the final state
  have hpre : ∀ (ls : List CLabel) (a b : CSt), crun a ls = some b → ∃ t, b.frames = a.frames ++ t ∧ b.dict = a.dict := by
    intro ls
    induction ls with
    | nil => intro a b h; simp [crun] at h; subst h; exact ⟨[], by simp, rfl⟩
    | cons l ls ih =>
      intro a b h
      simp only [crun] at h
      split at h
      · rename_i a1 h1
        obtain ⟨t, ht, hd⟩ := ih a1 b h
        have : ∃ u, a1.frames = a.frames ++ u ∧ a1.dict = a.dict := by
          cases l <;> simp only [cstep] at h1 <;> split at h1 <;> cases h1
          · exact ⟨[], by simp, rfl⟩
          · unfold write; split <;> exact ⟨_, rfl, rfl⟩
          · unfold write; split <;> exact ⟨_, rfl, rfl⟩
        obtain ⟨u, hu, hd1⟩ := this
        exact ⟨u ++ t, by rw [ht, hu, List.append_assoc], by rw [hd, hd1]⟩
      · cases h
  obtain ⟨t, ht, hd⟩ := hpre rest _ s hr
  have hinv := crun_inv rest _ s (by
    refine ⟨by simp, by simp, ?_, ?_, by simp⟩
    · intro hd'; simp at hd'; subst hd'; simp [Frame.encoded]
    · intro hd' f t hft; simp at hd' hft; subst hd'; obtain ⟨rfl, rfl⟩ := hft; simp [Frame.encoded]) hr
  simp at ht hd
  refine ⟨t, ht, ?_, ?_⟩
  · intro hdt
    have := hinv.2.2.2.1 (by rw [hd]; exact hdt) _ _ ht
    exact this.2.2
  · intro hdf
    have := (hinv.2.2.1 (by rw [hd]; exact hdf)).2
    intro g hg
    exact this g (by rw [ht]; simp [hg])

/-- in every reachable state with a negotiated dictionary, the connect reply is unencoded exactly
when it is the first frame on the wire -/
theorem connect_reply_raw_iff_first (ls : List CLabel) (s : CSt)
    (hr : crun { dict := true } ls = some s) (hm : ∃ e, Frame.connectReply e ∈ s.frames) :
    (Frame.connectReply false ∈ s.frames ↔ s.frames.head? = some (Frame.connectReply false)) := by
  have hinv := crun_inv ls _ s (cinv_init true) hr
  have hpre : s.dict = true := by
    have : ∀ (ls : List CLabel) (a b : CSt), crun a ls = some b → b.dict = a.dict := by
      intro ls
      induction ls with
      | nil => intro a b h; simp [crun] at h; subst h; rfl
      | cons l ls ih =>
        intro a b h
        simp only [crun] at h
        split at h
        · rename_i a1 h1
          rw [ih a1 b h]
          cases l <;> simp only [cstep] at h1 <;> split at h1 <;> cases h1
          · rfl
          · unfold write; split <;> rfl
          · unfold write; split <;> rfl
        · cases h
    exact this ls _ s hr
  cases hfr : s.frames with
  | nil => obtain ⟨e, he⟩ := hm; simp [hfr] at he
  | cons f t =>
    obtain ⟨_, hf, ht⟩ := hinv.2.2.2.1 hpre f t hfr
    constructor
    · intro hmem
      simp at hmem
      rcases hmem with h | h
      · simp [h]
      · have := ht _ h; simp [Frame.encoded] at this
    · intro hh; simp at hh; simp [hh]

/-- counter-witness (finding C11-1): a push routed through the hub after `addClient` precedes the
connect reply, and with a dictionary the reply is then the frame that gets encoded -/
theorem push_can_precede_connect_reply :
    crun { dict := true } [.addClient, .push, .writeReply] =
      some { dict := true, inHub := true, replyWritten := true, promoted := true,
             frames := [.push false, .connectReply true] } := by decide

/-! ## (b) encoder discipline -/

/-- the encoder is closed at most once, whatever the interleaving and the write mode -/
def EInv1 (s : ESt) : Prop :=
  s.closes = (if s.closer = .encoderClosed ∨ s.closer = .done then 1 else 0) ∧
  (s.installed = true ↔ (s.closer = .idle ∨ s.closer = .writerClosed))

theorem estep_inv1 (s s' : ESt) (l : ELabel) (h : EInv1 s) (hs : estep s l = some s') : EInv1 s' := by
  obtain ⟨h1, h2⟩ := h
  cases l <;> simp only [estep] at hs <;> split at hs <;> cases hs <;> simp_all [EInv1]

theorem erun_inv1 : ∀ (ls : List ELabel) (s s' : ESt), EInv1 s → erun s ls = some s' → EInv1 s'
  | [], s, s', h, hr => by simp [erun] at hr; subst hr; exact h
  | l :: ls, s, s', h, hr => by
    simp only [erun] at hr
    split at hr
    · rename_i s1 h1; exact erun_inv1 ls s1 s' (estep_inv1 s s1 l h h1) hr
    · cases hr

theorem encoder_closed_at_most_once (rwq : Bool) (ls : List ELabel) (s : ESt)
    (hr : erun { rwq := rwq } ls = some s) :
    s.closes ≤ 1 ∧ (s.closer = .done → s.closes = 1) := by
  have h := erun_inv1 ls _ s (by simp [EInv1]) hr
  constructor
  · rw [h.1]; split <;> omega
  · intro hd; rw [h.1]; simp [hd]

/-- without `ReplyWithoutQueue`: all writes go through the queue writer, which holds `w.mu`
while it writes; `close` takes `w.mu` before it closes the encoder -/
def EInvQ (s : ESt) : Prop :=
  s.rwq = false ∧ s.dw = .idle ∧ s.violated = false ∧
  s.inFlight = (if s.qw = .encoding then 1 else 0) ∧
  (s.closer ≠ .idle → s.qw = .idle ∧ s.writerClosed = true) ∧
  (s.closes > 0 → s.closer = .encoderClosed ∨ s.closer = .done) ∧
  (s.installed = true ↔ (s.closer = .idle ∨ s.closer = .writerClosed))

theorem estep_invQ (s s' : ESt) (l : ELabel) (h : EInvQ s) (hs : estep s l = some s') : EInvQ s' := by
  obtain ⟨h1, h2, h3, h4, h5, h6, h7⟩ := h
  cases l <;> simp only [estep] at hs <;> split at hs <;> cases hs
  all_goals (rename_i hc; try simp at hc)
  · -- qLock
    refine ⟨h1, h2, h3, ?_, ?_, h6, h7⟩
    · simp [hc.1] at h4; simpa using h4
    · intro hne; have := h5 hne; simp [this.2] at hc
  · -- qBegin
    have hidle : s.closer = .idle := by
      by_cases hci : s.closer = .idle
      · exact hci
      · have := (h5 hci).1; simp [this] at hc
    have hq : s.qw = .locked := hc.1.1
    have hnc : ¬ s.closes > 0 := by intro hp; rcases h6 hp with h | h <;> simp [hidle] at h
    have h4' : s.inFlight = 0 := by simp [hq] at h4; exact h4
    refine ⟨h1, h2, ?_, ?_, ?_, ?_, h7⟩
    · have : s.closes = 0 := by omega
      simp [h3, this]
    · simp [h4']
    · intro hne; exact absurd hidle hne
    · intro hp; exact absurd hp hnc
  · -- qEnd
    refine ⟨h1, h2, h3, ?_, ?_, h6, h7⟩
    · simp [hc] at h4; simp [h4]
    · intro hne; have := (h5 hne).1; simp [this] at hc
  · -- dLoad: impossible without rwq
    simp [h1] at hc
  · -- dBegin: no direct write is in progress
    simp [h2] at hc
  · -- dEnd
    simp [h2] at hc
  · -- closeWriter
    refine ⟨h1, h2, h3, ?_, ?_, ?_, ?_⟩
    · simpa using h4
    · intro _; exact ⟨hc.2, rfl⟩
    · intro hp; have := h6 hp; simp [hc.1] at this
    · simp; simpa [hc.1] using h7
  · -- closeEncoder
    have hq := (h5 (by simp [hc])).1
    refine ⟨h1, h2, ?_, ?_, ?_, ?_, ?_⟩
    · simp [hq] at h4; simp [h3, h4]
    · simpa using h4
    · intro _; exact h5 (by simp [hc])
    · intro _; left; rfl
    · simp
  · -- closeTransport
    refine ⟨h1, h2, h3, ?_, ?_, ?_, ?_⟩
    · simpa using h4
    · intro _; exact h5 (by simp [hc])
    · intro _; right; rfl
    · simp; have := h7; simp [hc] at this; exact this

theorem erun_invQ : ∀ (ls : List ELabel) (s s' : ESt), EInvQ s → erun s ls = some s' → EInvQ s'
  | [], s, s', h, hr => by simp [erun] at hr; subst hr; exact h
  | l :: ls, s, s', h, hr => by
    simp only [erun] at hr
    split at hr
    · rename_i s1 h1; exact erun_invQ ls s1 s' (estep_invQ s s1 l h h1) hr
    · cases hr

/-- `encoder_discipline_partial` (hypothesis: the connection does not use `ReplyWithoutQueue`):
in every interleaving of the queue writer and `close`, no `Encode` begins after the encoder's
`Close` and `Close` never runs while an `Encode` is in flight; after `Close` no `Encode` is in
flight.  (Without the hypothesis the statement is false: `rwq_close_overlaps_encode`.) -/
theorem encoder_discipline_partial (ls : List ELabel) (s : ESt)
    (hr : erun { rwq := false } ls = some s) :
    s.violated = false ∧ (s.closes > 0 → s.inFlight = 0) := by
  have h := erun_invQ ls _ s (by simp [EInvQ]) hr
  obtain ⟨_, _, h3, h4, h5, h6, _⟩ := h
  refine ⟨h3, ?_⟩
  intro hp
  have hne : s.closer ≠ .idle := by rcases h6 hp with h | h <;> simp [h]
  simp [(h5 hne).1] at h4
  exact h4

/-- counter-witness (finding C11-2): with `ReplyWithoutQueue` a direct write is inside `Encode`
when `close` closes the writer (no `w.mu` is held by the direct write) and then the encoder -/
theorem rwq_close_overlaps_encode :
    ∃ s, erun { rwq := true } [.dLoad, .dBegin, .closeWriter, .closeEncoder] = some s ∧
      s.violated = true ∧ s.inFlight = 1 ∧ s.closes = 1 := by
  exact ⟨_, rfl, by decide, by decide, by decide⟩

/-- second counter-witness (finding C11-2b): the direct write loaded the encoder before `close`
swapped it out and calls `Encode` after the encoder's `Close` -/
theorem rwq_encode_after_close :
    ∃ s, erun { rwq := true } [.dLoad, .closeWriter, .closeEncoder, .dBegin] = some s ∧
      s.violated = true ∧ s.closes = 1 ∧ s.encodes = 1 := ⟨_, rfl, by decide, by decide, by decide⟩

/-! non-vacuity: a complete good run without ReplyWithoutQueue -/
example : ∃ s, erun { rwq := false } [.qLock, .qBegin, .qEnd, .closeWriter, .closeEncoder, .closeTransport] = some s ∧
    s.encodes = 1 ∧ s.closes = 1 ∧ s.violated = false := ⟨_, rfl, by decide, by decide, by decide⟩
example : crun { dict := true } [.addClient, .writeReply, .push, .push] =
    some { dict := true, inHub := true, replyWritten := true, promoted := true,
           frames := [.connectReply false, .push true, .push true] } := by decide

end CentrifugeVerif.ConnProtoEncoder
