import CentrifugeVerif.Gen.SubscribeOrder
import CentrifugeVerif.Model.Sync
/-!
# C01 — tie of the `Sync` transition system's program order to the current source

`Gen/SubscribeOrder.lean` is regenerated from `/repo/client.go` on every run.  The theorems below
are the hand-written expectation: they stop checking as soon as a synchronisation-relevant call in
`subscribeCmd` / `Client.Subscribe` is added, removed or moved.
-/
namespace CentrifugeVerif.C01Order
open CentrifugeVerif.Gen

/-- the subscriber's program order in `Model/Sync.lean`, in source vocabulary -/
def modelOrder : List String :=
  ["StartBuffering", "addSubscription", "history", "LockBuffer", "Merge", "writeReply", "commit", "StopBuffering"]

/-- success path of `subscribeCmd`: first occurrence of every call, the history reads collapsed,
error-path `StopBuffering`s dropped, the final `StopBuffering` kept -/
def successPath (l : List String) : List String :=
  let l1 := l.map fun t => if t == "recoverCache" || t == "recoverHistory" || t == "streamTop" then "history" else t
  let body := (l1.filter fun t => t != "StopBuffering" && t != "addPresence").eraseDups
  if l1.getLast? == some "StopBuffering" then body ++ ["StopBuffering"] else body

/-- the calls appear in the source exactly as when the model was written -/
theorem subscribeCmd_calls_pinned :
    SubscribeOrder.subscribeCmd =
      ["StartBuffering", "StopBuffering", "addSubscription", "StopBuffering", "StopBuffering", "addPresence",
       "StopBuffering", "StopBuffering", "recoverCache", "recoverCache", "recoverHistory", "StopBuffering",
       "StopBuffering", "streamTop", "LockBuffer", "Merge", "StopBuffering", "StopBuffering", "writeReply",
       "commit", "StopBuffering", "StopBuffering"] := by decide

/-- … and their success-path order is the program order of the `Sync` transition system:
buffering starts before the hub add, the history read precedes the buffer lock, the reply is
written before the commit, and buffering stops only after the commit. -/
theorem subscribe_order_matches_model : successPath SubscribeOrder.subscribeCmd = modelOrder := by decide

/-- server-side `Client.Subscribe`: `StopBuffering` is deferred to the function's return, i.e.
after the commit and after the subscribe push has been queued. -/
theorem clientSubscribe_calls_pinned :
    SubscribeOrder.clientSubscribe =
      ["subscribeCmd", "deferStopBuffering", "commit", "subscribePush", "writePush", "joinAndPresence"] := by
  decide

end CentrifugeVerif.C01Order
