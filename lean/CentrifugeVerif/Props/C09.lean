import CentrifugeVerif.Proofs.ConnProto
/-!
# C09 — commands are gated by authentication and answered exactly once; pong without ping

Model: `Model/ConnProto.lean` (`HandleCommand`, `dispatchCommand`, the `handle*` functions and their
callbacks, `close`, `sendPing`).  All trace theorems quantify over every configuration `cfg`
(which handlers are registered, what `OnConnecting` answers, …) and every finite sequence of ops
(frames of any commands with any scripted application answers — synchronous or parked —, callback
firings in any order, server pings, transport EOF), with the only hypothesis that no command is a
map subscription (`Cmd.modelled`, outside the model).
-/
namespace CentrifugeVerif.ConnProto

/-- `unauth_gate`: on an open, usable, not yet authenticated connection every command other than
connect is refused: `close(BadRequest)` is spawned, reading stops, no application handler is
invoked, nothing is written and no callback is parked. -/
theorem unauth_gate (cfg : Cfg) (st : St) (c : Cmd)
    (hopen : st.core.status ≠ .closed) (husable : st.core.unusable = false)
    (hauth : st.core.authenticated = false) (hc : c.connect = false) :
    let r := handleCommand cfg st c
    r.spawns = [bad] ∧ r.proceed = false ∧ r.st.handlerLog = st.handlerLog ∧
      r.st.frameLog = st.frameLog ∧ r.st.pending = st.pending := by
  simp [handleCommand, hopen, husable, dispatch, hauth, hc, disconnect, commit, pushFrames]

/-- … and after the spawned close ran, the transport has been closed with BadRequest exactly
once by this frame, whatever follows the command in the frame. -/
theorem unauth_gate_frame (cfg : Cfg) (st : St) (c : Cmd) (cs : List Cmd) (t : Tail)
    (hopen : st.core.status ≠ .closed) (husable : st.core.unusable = false)
    (hauth : st.core.authenticated = false) (hc : c.connect = false) :
    let r := step cfg st (.frame (c :: cs) t)
    r.st.closeLog = st.closeLog ++ [bad] ∧ r.st.core.status = .closed ∧ r.proceed = some false ∧
      r.st.pending = st.pending ∧
      r.st.frameLog = st.frameLog ++ [.discPush bad] := by
  obtain ⟨h1, h2, h3, h4, h5⟩ := unauth_gate cfg st c hopen husable hauth hc
  have hcore : (handleCommand cfg st c).st.core = st.core := by
    simp [handleCommand, hopen, husable, dispatch, hauth, hc, disconnect, commit, pushFrames]
  have hcl : (handleCommand cfg st c).st.closeLog = st.closeLog := by
    simp [handleCommand, hopen, husable, dispatch, hauth, hc, disconnect, commit, pushFrames]
  simp only [step, handleFrame, h2, Bool.not_false, Bool.true_or, if_true, h1, List.nil_append, spawnClose]
  simp [closeWith, hcore, hopen, hcl, h4, h5, bad]

/-- `pong_without_ping_disconnects` (command level, both directions): on an open, usable,
authenticated connection a pong (`Id == 0 && Send == nil`, whatever other fields it carries) is
accepted iff `lastPing > 0`; otherwise `close(BadRequest)` is spawned, reading stops and no handler
is invoked.  An accepted pong flips the sign, so a second pong is refused. -/
theorem pong_cmd (cfg : Cfg) (st : St) (c : Cmd)
    (hopen : st.core.status ≠ .closed) (husable : st.core.unusable = false)
    (hauth : st.core.authenticated = true) (hp : isPong c = true) :
    let r := handleCommand cfg st c
    (st.lastPing = .pinged → r.spawns = [] ∧ r.proceed = true ∧ r.st.lastPing = .ponged ∧
        r.st.frameLog = st.frameLog ∧ r.st.handlerLog = st.handlerLog) ∧
    (st.lastPing ≠ .pinged → r.spawns = [bad] ∧ r.proceed = false ∧
        r.st.frameLog = st.frameLog ∧ r.st.handlerLog = st.handlerLog) := by
  constructor
  · intro hl
    simp [handleCommand, hopen, husable, dispatch, hauth, hp, hl, commit, pushFrames]
  · intro hl
    simp [handleCommand, hopen, husable, dispatch, hauth, hp, hl, disconnect, commit, pushFrames]

/-- `pong_without_ping_disconnects` (state machine): in every reachable state `lastPing > 0`
holds exactly when the last ping-related event of the connection is a server ping (no pong
accepted since), and `lastPing = 0` exactly when no server ping was ever sent.  Together with
`pong_cmd`: a pong is accepted iff a server ping precedes it that no earlier pong has answered. -/
theorem pong_state_machine (cfg : Cfg) (ops : List Op) :
    let st := run cfg {} ops
    (st.lastPing = .pinged ↔ st.pingLog.getLast? = some .ping) ∧
    (st.lastPing = .none ↔ st.pingLog = []) := by
  have h := run_pinginv cfg ops {} ⟨by simp, by simp⟩
  exact ⟨h.pinged, h.none⟩

/-- `pong_without_ping_disconnects` (trace form): whatever happened before, a pong that arrives
on an open, usable, authenticated connection whose last ping-related event is not a server ping
(none sent yet, or the last one already answered) closes the connection with BadRequest. -/
theorem pong_without_ping_disconnects (cfg : Cfg) (ops : List Op) (c : Cmd) (cs : List Cmd) (t : Tail)
    (hp : isPong c = true) :
    let st := run cfg {} ops
    st.core.status ≠ .closed → st.core.unusable = false → st.core.authenticated = true →
    st.pingLog.getLast? ≠ some .ping →
    let r := step cfg st (.frame (c :: cs) t)
    r.st.closeLog = st.closeLog ++ [bad] ∧ r.st.handlerLog.take st.handlerLog.length = st.handlerLog ∧
      r.proceed = some false := by
  intro st hopen husable hauth hlast
  have hinv := (pong_state_machine cfg ops).1
  have hl : st.lastPing ≠ .pinged := fun h => hlast (hinv.mp h)
  obtain ⟨_, h2⟩ := pong_cmd cfg st c hopen husable hauth hp
  obtain ⟨h2a, h2b, h2c, h2d⟩ := h2 hl
  have hcore : (handleCommand cfg st c).st.core = st.core := by
    simp [handleCommand, hopen, husable, dispatch, hauth, hp, hl, disconnect, commit, pushFrames]
  have hcl : (handleCommand cfg st c).st.closeLog = st.closeLog := by
    simp [handleCommand, hopen, husable, dispatch, hauth, hp, hl, disconnect, commit, pushFrames]
  simp only [step, handleFrame, h2b, Bool.not_false, Bool.true_or, if_true, h2a, List.nil_append, spawnClose]
  simp [closeWith, hcore, hopen, hcl, h2d, bad]

/-- number of reply frames (success or error) on the transport that answer the command with
ghost tag `k` -/
def repliesFor (st : St) (k : Nat) : Nat := rc k st
/-- the application has not invoked the callback of command `k` yet -/
def parked (st : St) (k : Nat) : Prop := 0 < pc k st

/-- `reply_exactly_once`: after any sequence of ops, for every dispatched command that is owed a
reply (it carries an id and is not a one-way `send`): never more than one reply is written for
it, and exactly one is — unless its callback is still parked (the application did not call it
yet) or the connection is closed. -/
theorem reply_exactly_once (cfg : Cfg) (ops : List Op) (hm : ops.all Op.modelled = true)
    (k id : Nat) :
    let st := run cfg {} ops
    (k, id) ∈ st.owed →
    repliesFor st k ≤ 1 ∧ (repliesFor st k = 1 ∨ parked st k ∨ st.core.status = .closed) := by
  have hacc := run_acc cfg ops {} hm acc_init
  have hexc := run_excinv cfg ops {} hm (by intro h; simp at h)
  intro st hk
  generalize hst : run cfg {} ops = s at hacc hexc
  have hs' : st = s := hst
  rw [hs'] at hk ⊢
  clear hs' hst st
  have hoc : oc k s = 1 := by
    have h1 := hacc.once k
    have h2 : 0 < oc k s := by
      unfold oc
      apply List.length_pos_of_mem (a := (k, id))
      simp [List.mem_filter, hk]
    omega
  have hb := hacc.bal k
  unfold repliesFor parked
  refine ⟨by omega, ?_⟩
  by_cases hp : 0 < pc k s
  · exact Or.inr (Or.inl hp)
  · by_cases hx : xc k s = 0
    · left; omega
    · right; right
      apply hexc
      intro hnil
      simp [xc, hnil] at hx

/-- the id on a reply is the id of the command (`rep.Id = cmd.Id` is stamped where the reply is
written): every reply frame written by `commit` for a command carries that command's id. -/
theorem reply_carries_command_id (st : St) (e : Eff) (id : Nat) (tag : Option Nat) :
    ∀ f ∈ (commit st e id tag).frameLog, f ∈ st.frameLog ∨ f = .pubPush ∨
      (f.tag = tag ∧ (f = .reply id (match e.reply with | some (.ok k) => k | _ => "") tag ∨
                      ∃ c, f = .error id c tag)) := by
  intro f hf
  simp only [commit, List.mem_append] at hf
  rcases hf with (hf | hf) | hf
  · exact Or.inl hf
  · right; left
    unfold pushFrames at hf
    split at hf <;> simp at hf
    exact hf
  · right; right
    split at hf
    · simp at hf
    · cases hr : e.reply with
      | none => simp [hr] at hf
      | some b =>
        cases b with
        | ok k => simp [hr, RBody.frame] at hf; subst hf; simp [Frame.tag]
        | err c => simp [hr, RBody.frame] at hf; subst hf; simp [Frame.tag]

/-- `send` is one-way: a command for which the `send` handler is selected never produces a reply
frame, with or without an id (recorded reading of the statement, DESIGN.md §4 C09). -/
theorem send_never_replies (cfg : Cfg) (st : St) (c : Cmd) (hs : c.sendSelected = true) :
    (handleCommand cfg st c).st.frameLog = st.frameLog := by
  simp [Cmd.sendSelected] at hs
  have hsend := hs.1
  unfold handleCommand
  split
  · rfl
  split
  · rfl
  simp only [commit, dispatch, pushFrames]
  split
  · simp_all [disconnect]
  split
  · rename_i hp; simp [isPong, hsend] at hp
  split
  · simp_all [disconnect]
  · simp [handlerChain, hs]
    split <;> simp_all [disconnect]

/-! Non-vacuity: concrete scenarios (all hypotheses above are satisfied by them). -/

def exCfg : Cfg := { hRpc := true, hSub := true, hUnsub := true, hMsg := true }
def exConnect : Cmd := { id := 1, connect := true }
def exRpcAsync : Cmd := { id := 2, rpc := true, async := true }
def exRpcDup : Cmd := { id := 2, rpc := true, res := .err 103 }
def exPong : Cmd := {}

-- a command before connect is refused
example : (step exCfg {} (.frame [exRpcDup] .none)).st.closeLog = [3501] := by decide
-- duplicate ids: two commands with id 2, one parked; each gets its own single reply
example :
    let st := run exCfg {} [.frame [exConnect] .none, .frame [exRpcAsync, exRpcDup] .none, .fire [0]]
    st.owed = [(0, 1), (1, 2), (2, 2)] ∧ repliesFor st 1 = 1 ∧ repliesFor st 2 = 1 ∧
      st.core.status = .connected := by decide
-- pong: refused without ping, accepted once after a ping, refused the second time
example : (run exCfg {} [.frame [exConnect] .none, .frame [exPong] .none]).closeLog = [3501] := by decide
example : (run exCfg {} [.frame [exConnect] .none, .ping, .frame [exPong] .none]).closeLog = [] := by decide
example : (run exCfg {} [.frame [exConnect] .none, .ping, .frame [exPong] .none,
    .frame [exPong] .none]).closeLog = [3501] := by decide
-- a callback that answers with a disconnect: the command is excused, the connection closed
example :
    let st := run exCfg {} [.frame [exConnect] .none, .frame [{ id := 9, rpc := true, res := .disc 3005 }] .none]
    repliesFor st 1 = 0 ∧ st.core.status = .closed ∧ st.closeLog = [3005] := by decide
example : [Op.frame [exConnect, exRpcAsync] .none, .fire [0], .ping, .eof].all Op.modelled = true := by decide

end CentrifugeVerif.ConnProto
