import CentrifugeVerif.Proofs.Medium
import CentrifugeVerif.Proofs.Dissolve
/-!
# C38 — channel medium preserves delivery guarantees

Statement (properties.jsonl): with the channel medium enabled (latest-publication retention, shared
position sync, queueing, broadcast delay) subscribers still receive each channel's publications in
order, positioned subscribers are never moved past a lost publication silently, and a detected
position loss ends the affected positioned subscriptions.

Model: `Model/Medium.lean` (routing, bounded queue that DROPS on overflow, writer pass that
coalesces under `broadcastDelay`, `MaxUint64` sentinel) in front of `Model/Live.lean`
(`liveStep` = `writePublicationUpdatePosition`).  All theorems quantify over EVERY option
combination `o`, EVERY sequence of producer/writer events `evs` (arrivals of publications and
insufficient-state markers interleaved arbitrarily with writer passes that coalesce any number `k`
of queued items) and every subscriber state.  What the medium broadcast is `(runEvs o [] evs).2`.
-/
namespace CentrifugeVerif.C38
open CentrifugeVerif.Live CentrifugeVerif.Medium

/-- what the medium handed to `Node.handlePublication`, in order -/
def broadcasts (o : Opts) (evs : List Ev) : List Item := (runEvs o [] evs).2
/-- what is still queued -/
def queued (o : Opts) (evs : List Ev) : List Item := (runEvs o [] evs).1

theorem qinv_nil (o : Opts) : QInv o [] := fun _ => rfl

/-- **medium_order** (a): whatever the options and the schedule, the medium broadcasts an in-order
subsequence of what the channel's PUB/SUB handed to it (it may drop on overflow and coalesce under
broadcastDelay, it never reorders, duplicates or invents). -/
theorem medium_order (o : Opts) (evs : List Ev) :
    (broadcasts o evs).Sublist (arrivals evs) := by
  have h := runEvs_sublist o [] evs (qinv_nil o)
  simp only [List.nil_append] at h
  exact (List.sublist_append_left _ _).trans h

/-- **medium_order** (b): a positioned subscriber is pushed an in-order subsequence of the channel's
publication offsets. -/
theorem medium_order_positioned (o : Opts) (evs : List Ev) (s : Sub) :
    (delivered (positioned s (broadcasts o evs)).2).Sublist
      ((arrivals evs).map (fun it => (toInc it).offset)) := by
  have h1 := run_delivered_sublist s ((broadcasts o evs).map toInc)
  have h2 : ((broadcasts o evs).map toInc).map (·.offset) =
      (broadcasts o evs).map (fun it => (toInc it).offset) := by simp [List.map_map, Function.comp_def]
  unfold positioned
  rw [h2] at h1
  exact h1.trans ((medium_order o evs).map _)

/-- **medium_order** (c): a non-positioned subscriber is pushed an in-order subsequence of the
channel's publications (the sentinel is a no-op for it). -/
theorem medium_order_nonpositioned (o : Opts) (evs : List Ev) :
    ((broadcasts o evs).filterMap npPush).Sublist ((arrivals evs).filterMap npPush) :=
  (medium_order o evs).filterMap _

/-- **no_silent_skip**: behind any medium behaviour, the offsets a positioned subscriber's position
moves over are exactly `pos+1, pos+2, …, final` — no jump — and if no insufficient-state decision was
taken, the final position is at or above every offset the medium broadcast: a publication the medium
dropped or coalesced away is either not yet passed (position unchanged) or reported as insufficient
state by the next broadcast, never skipped silently. -/
theorem no_silent_skip (o : Opts) (evs : List Ev) (s : Sub) :
    let r := positioned s (broadcasts o evs)
    consumed r.2 = List.range' (s.pos + 1) (r.1.pos - s.pos) ∧
    ((∀ a ∈ r.2, isInsufficient a = false) →
      ∀ it ∈ broadcasts o evs, (toInc it).offset ≤ r.1.pos) := by
  intro r
  refine ⟨(run_contiguous s _).2, ?_⟩
  intro h it hit
  exact run_no_insuff_ge s _ h (toInc it) (List.mem_map_of_mem hit)

/-- single step form: one broadcast item moves a positioned subscriber's position by 0 or by exactly 1
(and then the item IS offset `pos+1`). -/
theorem no_silent_skip_step (s : Sub) (it : Item) :
    (liveStep s (toInc it)).1.pos = s.pos ∨
    ((liveStep s (toInc it)).1.pos = s.pos + 1 ∧ (toInc it).offset = s.pos + 1) := by
  rcases liveStep_pos s (toInc it) with ⟨h, _⟩ | ⟨h, ho, _⟩
  · exact Or.inl h
  · exact Or.inr ⟨h, ho⟩

/-- insufficient-state markers are never dropped by the queue bound nor coalesced away: every marker
handed to the medium has been broadcast or is still queued. -/
theorem sentinel_never_lost (o : Opts) (evs : List Ev) :
    nInsuff (broadcasts o evs) + nInsuff (queued o evs) = nInsuff (arrivals evs) := by
  have := runEvs_nInsuff o [] evs (qinv_nil o)
  simpa [nInsuff, broadcasts, queued] using this

/-- **position_loss_ends**: once `broadcastInsufficientState` was called and the queue has drained,
every positioned subscriber of the channel (below the sentinel: position and offsets < 2^64-2) takes
an insufficient-state decision (→ unsubscribe / disconnect). -/
theorem position_loss_ends (o : Opts) (evs : List Ev) (s : Sub)
    (hcalled : Item.insuff ∈ arrivals evs) (hdrained : queued o evs = [])
    (hs : Below s) (hb : ∀ it ∈ arrivals evs, ItemBelow it) :
    ∃ a ∈ (positioned s (broadcasts o evs)).2, isInsufficient a = true := by
  have hn := sentinel_never_lost o evs
  rw [hdrained] at hn
  have hpos : 0 < nInsuff (broadcasts o evs) := by
    have := mem_nInsuff_pos _ hcalled
    simp [nInsuff] at hn
    omega
  have hm := nInsuff_pos_mem _ hpos
  have hb' : ∀ it ∈ broadcasts o evs, ItemBelow it := fun it hit => hb it ((medium_order o evs).subset hit)
  exact positioned_sentinel s _ hs hb' hm

/-- … and non-positioned subscribers are untouched by it: the sentinel is a no-op for them. -/
theorem position_loss_nonpositioned_untouched (a b : List Item) :
    (a ++ [Item.insuff] ++ b).filterMap npPush = (a ++ b).filterMap npPush := by
  have h : ∀ l : List Item, List.filterMap npPush (Item.insuff :: l) = List.filterMap npPush l := by
    intro l; rw [List.filterMap_cons]; rfl
  simp [List.filterMap_append, h]

/-! ### concrete instances (hypotheses are satisfiable, behaviours are the intended ones) -/

-- queue max 25 bytes, delay on: 5 publications of 10 bytes arrive, the 4th and 5th are dropped,
-- the writer pass coalesces 11,12,13 into 13; a subscriber positioned at 10 reports insufficient state
example :
    broadcasts { queue := true, qmax := 25, delay := 50 }
      [.arrive (.pub ⟨11, 10, 1⟩), .arrive (.pub ⟨12, 10, 1⟩), .arrive (.pub ⟨13, 10, 1⟩),
       .arrive (.pub ⟨14, 10, 1⟩), .arrive (.pub ⟨15, 10, 1⟩), .writer 2] = [.pub ⟨13, 10, 1⟩] := by decide

example :
    (positioned ⟨10, 1⟩ [.pub ⟨13, 10, 1⟩]).2 = [.insufficient .offset] := by decide

-- overflow without delay: 12 is dropped while 11 is still queued; the subscriber gets 11, then 13 is a
-- detected gap
example :
    (positioned ⟨10, 1⟩ (broadcasts { queue := true, qmax := 5 }
      [.arrive (.pub ⟨11, 10, 1⟩), .arrive (.pub ⟨12, 10, 1⟩), .writer 0, .arrive (.pub ⟨13, 10, 1⟩), .writer 0])).2
      = [.deliver 11, .insufficient .offset] := by decide

-- the hypotheses of `position_loss_ends` on a concrete run
example : Item.insuff ∈ arrivals [.arrive (.pub ⟨11, 1, 1⟩), .arrive .insuff, .writer 0, .writer 0] := by decide
example : queued { queue := true } [.arrive (.pub ⟨11, 1, 1⟩), .arrive .insuff, .writer 0, .writer 0] = [] := by decide
example : Below ⟨10, 1⟩ := by decide

-- the sentinel for a subscriber whose epoch is still empty is an offset gap, otherwise an epoch mismatch
example : (liveStep ⟨10, 0⟩ (toInc .insuff)).2 = .insufficient .offset := by decide
example : (liveStep ⟨10, 1⟩ (toInc .insuff)).2 = .insufficient .epoch := by decide

-- the bound in `position_loss_ends` is needed: at position 2^64-2 the sentinel would be taken for the
-- next publication (outside the model's assumption, and unreachable for real streams)
example : (liveStep ⟨maxU64 - 1, 0⟩ (toInc .insuff)).2 = .deliver maxU64 := by decide

/-! ### the medium's queue is a FIFO at the level of its ring buffer

`publicationQueue` (channel_medium.go) is, field by field, the ring buffer of `internal/dissolve`
(`nodes/head/tail/cnt/initCap`, `resize` with the two-segment copy, doubling in `Add`, halving in `Remove`),
plus a `size` counter.  `Model/Dissolve.lean` models that ring line by line (every Go panic is an explicit
`none`); the C38 check runs the real `publicationQueue` against it on random Add/Remove walks.  Here the
ring is shown to refine the FIFO list `Model/Medium.lean` uses for the queue: for EVERY sequence of
Add / Remove operations from an empty queue of any positive initial capacity, no operation panics and
`Remove` returns exactly what a list-based FIFO returns. -/

inductive QOp
  | add (j : Nat)
  | remove
deriving Repr, DecidableEq

/-- the ring: `none` = a Go run-time panic; outputs: `Remove` results in order -/
def ringRun : Dissolve.Queue → List QOp → Option (Dissolve.Queue × List (Option Nat))
  | q, [] => some (q, [])
  | q, .add j :: rest =>
    match Dissolve.add q j with
    | none => none
    | some (q', _) => ringRun q' rest
  | q, .remove :: rest =>
    match Dissolve.remove q with
    | none => none
    | some (q', r) =>
      match ringRun q' rest with
      | none => none
      | some (q'', outs) => some (q'', r :: outs)

/-- the FIFO list specification -/
def fifoRun : List Nat → List QOp → List Nat × List (Option Nat)
  | l, [] => (l, [])
  | l, .add j :: rest => fifoRun (l ++ [j]) rest
  | [], .remove :: rest => let r := fifoRun [] rest; (r.1, none :: r.2)
  | j :: l, .remove :: rest => let r := fifoRun l rest; (r.1, some j :: r.2)

theorem ring_refines_fifo (q : Dissolve.Queue) (hi : Dissolve.QInv q) (ops : List QOp) :
    ∃ q', ringRun q ops = some (q', (fifoRun (Dissolve.abs q) ops).2) ∧ Dissolve.QInv q' ∧
      Dissolve.abs q' = (fifoRun (Dissolve.abs q) ops).1 := by
  induction ops generalizing q with
  | nil => exact ⟨q, rfl, hi, rfl⟩
  | cons op rest ih =>
    cases op with
    | add j =>
      obtain ⟨q1, hadd, hi1, habs, _⟩ := Dissolve.add_spec q j hi
      have habs1 : Dissolve.abs q1 = Dissolve.abs q ++ [j] := by
        have h1 : Dissolve.absO q1 = (Dissolve.abs q ++ [j]).map some := by
          rw [habs, hi.somes]; simp
        exact (Dissolve.abs_of_absO h1).1
      obtain ⟨q', hrun, hi', habs'⟩ := ih q1 hi1
      refine ⟨q', ?_, hi', ?_⟩
      · simp only [ringRun, hadd, fifoRun]; rw [habs1] at hrun; exact hrun
      · simp only [fifoRun]; rw [habs1] at habs'; exact habs'
    | remove =>
      cases hl : Dissolve.abs q with
      | nil =>
        have hcnt : q.cnt = 0 := by
          have h1 := Dissolve.absO_length q hi.cnt_le (Nat.le_of_lt hi.head_lt)
          rw [hi.somes, hl] at h1; simpa using h1.symm
        have hrem := Dissolve.remove_empty q hcnt
        obtain ⟨q', hrun, hi', habs'⟩ := ih q hi
        rw [hl] at hrun habs'
        refine ⟨q', ?_, hi', ?_⟩
        · simp only [ringRun, hrem, hrun, fifoRun]
        · simp only [fifoRun]; exact habs'
      | cons j l =>
        obtain ⟨q1, hrem, hi1, habs1, _⟩ := Dissolve.remove_spec q hi j l hl
        obtain ⟨q', hrun, hi', habs'⟩ := ih q1 hi1
        rw [habs1] at hrun habs'
        refine ⟨q', ?_, hi', ?_⟩
        · simp only [ringRun, hrem, hrun, fifoRun]
        · simp only [fifoRun]; exact habs'

/-- **pubqueue_fifo**: from `newPublicationQueue(c)` (`c > 0`; the code uses 2), every Add/Remove sequence
runs without panic and returns the FIFO answers — whatever the ring's wrap, growth and shrink history. -/
theorem pubqueue_fifo (c : Nat) (hc : 0 < c) (ops : List QOp) :
    ∃ q', ringRun (Dissolve.newQueue c) ops = some (q', (fifoRun [] ops).2) ∧
      Dissolve.abs q' = (fifoRun [] ops).1 := by
  obtain ⟨q', h1, _, h2⟩ := ring_refines_fifo (Dissolve.newQueue c) (Dissolve.inv_newQueue c hc) ops
  rw [Dissolve.abs_newQueue] at h1 h2
  exact ⟨q', h1, h2⟩

-- the walk on which the seeded `resize` change (second segment copied to `nodes[tail:]`) first differs:
-- grow 2→4, one Remove (head = 1), two Adds wrap and force a grow with the head off-centre
example : (ringRun (Dissolve.newQueue 2) [.add 1, .add 2, .add 3, .add 4, .remove, .add 5, .add 6, .remove, .remove]).map (·.2)
    = some [some 1, some 2, some 3] := by decide

end CentrifugeVerif.C38
