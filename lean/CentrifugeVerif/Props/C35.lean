import CentrifugeVerif.Gen.PartitionSizes
import CentrifugeVerif.Proofs.PartitionFacts16
import CentrifugeVerif.Proofs.PartitionFacts32
import CentrifugeVerif.Proofs.PartitionFacts64
import CentrifugeVerif.Proofs.PartitionFacts128
import CentrifugeVerif.Proofs.PartitionFacts256
import CentrifugeVerif.Proofs.PartitionFacts512
import CentrifugeVerif.Proofs.PartitionFacts1024
import CentrifugeVerif.Proofs.PartitionFacts2048
import CentrifugeVerif.Proofs.PartitionFacts4096
/-!
# C35 — Sharded PUB/SUB partition tags are balanced and Redis-compatible

Tables: `Gen/PartitionTags<n>.lean`, regenerated from `internal/redispartition/precomputed.go` on
every run.  Slots are computed by the **specification** (`Spec/RedisSlot.lean`: CRC-16/XMODEM bit
by bit + hash-tag rule on the key `{tag}`), not by the package's code; the package's `TagSlot` is
proved equal to it on every well-formed tag (`tagSlot_eq_redis`).

* `tags_distinct_slots`, `tags_redis_compatible`: all nine bundled sizes (16 … 4096), kernel checked.
* `tags_balanced_partial`: for sizes 16 … 512 and **every** cluster size `1 ≤ k ≤ n`, per-node counts
  under the contiguous slot assignment (`SlotToNode`) differ by at most one — kernel evaluation of
  the proved-sound one-pass checker `checkK` (`balanced_of_check`).
  FULL STATEMENT (`tags_balanced`): the same for sizes 1024, 2048, 4096.  Not kernel-checked here:
  one `decide +kernel` pass over all `k` costs ≈ 4× per doubling (≈ 20 s at 128, ≈ 5 min at 512,
  hours at 4096) and `native_decide` is not allowed; for those sizes the compiled driver runs the
  same proved-sound checker on every `k` and the differential run compares with the Go functions
  (see `props/C35/check.py`) — evidence, not proof.
-/
namespace CentrifugeVerif.Partition
open CentrifugeVerif.Gen.PartitionTags
open CentrifugeVerif.Spec

def tagsFor : Nat → List Bytes
  | 16 => tags16 | 32 => tags32 | 64 => tags64 | 128 => tags128 | 256 => tags256
  | 512 => tags512 | 1024 => tags1024 | 2048 => tags2048 | 4096 => tags4096
  | _ => []

/-- the sizes bundled in `precomputed.go` are exactly the ones treated below -/
theorem sizes_eq : sizes = [16, 32, 64, 128, 256, 512, 1024, 2048, 4096] := by decide

/-- `checkK` is sound: if the one-pass checker accepts, per-node counts differ by at most one
(for any slot list and cluster size). -/
theorem balanced_of_check (slots : List Nat) (k : Nat) (h : checkK slots k = true) : Balanced slots k :=
  checkK_sound slots k h

/-- strictly increasing ⇒ pairwise distinct -/
theorem distinct_of_sorted (l : List Nat) (h : strictlyIncreasing l = true) : l.Nodup :=
  strictlyIncreasing_nodup l h

private theorem facts (n : Nat) (tags : List Bytes) (slots : List Nat) (hl : tags.length = n)
    (he : slotsOf tags = slots) (hs : strictlyIncreasing slots = true) :
    tags.length = n ∧ (slotsOf tags).length = n ∧ (slotsOf tags).Nodup ∧ (slotsOf tags).Pairwise (· < ·) := by
  refine ⟨hl, by simp [slotsOf, hl], ?_, ?_⟩
  · rw [he]; exact strictlyIncreasing_nodup _ hs
  · rw [he]; exact strictlyIncreasing_pairwise _ hs

/-- **Distinct slots**: for every bundled size `n`, the table has `n` tags and they map to `n`
pairwise distinct Redis hash slots (in strictly increasing order). -/
theorem tags_distinct_slots (n : Nat) (hn : n ∈ sizes) :
    (tagsFor n).length = n ∧ (slotsOf (tagsFor n)).length = n ∧ (slotsOf (tagsFor n)).Nodup ∧
      (slotsOf (tagsFor n)).Pairwise (· < ·) := by
  rw [sizes_eq] at hn
  simp only [List.mem_cons, List.not_mem_nil, or_false] at hn
  rcases hn with rfl | rfl | rfl | rfl | rfl | rfl | rfl | rfl | rfl
  · exact facts 16 _ _ len16 slotsEq16 sorted16
  · exact facts 32 _ _ len32 slotsEq32 sorted32
  · exact facts 64 _ _ len64 slotsEq64 sorted64
  · exact facts 128 _ _ len128 slotsEq128 sorted128
  · exact facts 256 _ _ len256 slotsEq256 sorted256
  · exact facts 512 _ _ len512 slotsEq512 sorted512
  · exact facts 1024 _ _ len1024 slotsEq1024 sorted1024
  · exact facts 2048 _ _ len2048 slotsEq2048 sorted2048
  · exact facts 4096 _ _ len4096 slotsEq4096 sorted4096

private theorem compat (tags : List Bytes) (h : tags.all tagWF = true) (t : Bytes) (ht : t ∈ tags) :
    tagWF t = true ∧ RedisSlot.hashTag (tagKey t) = t ∧ tagSlot t = RedisSlot.slot (tagKey t) ∧
      RedisSlot.slot (tagKey t) < 16384 := by
  have hw := List.all_eq_true.1 h t ht
  refine ⟨hw, hashTag_tagKey t hw, tagSlot_eq_redis t hw, ?_⟩
  unfold RedisSlot.slot RedisSlot.totalSlots
  exact Nat.mod_lt _ (by decide)

/-- **Redis compatibility**: every bundled tag is non-empty and consists of `0-9a-z` only, so as a
hash tag `{tag}` Redis hashes exactly the tag bytes; the package's own `TagSlot` returns the slot
Redis computes; the slot is a valid slot number. -/
theorem tags_redis_compatible (n : Nat) (hn : n ∈ sizes) (t : Bytes) (ht : t ∈ tagsFor n) :
    tagWF t = true ∧ RedisSlot.hashTag (tagKey t) = t ∧ tagSlot t = RedisSlot.slot (tagKey t) ∧
      RedisSlot.slot (tagKey t) < 16384 := by
  rw [sizes_eq] at hn
  simp only [List.mem_cons, List.not_mem_nil, or_false] at hn
  rcases hn with rfl | rfl | rfl | rfl | rfl | rfl | rfl | rfl | rfl
  · exact compat _ wf16 t ht
  · exact compat _ wf32 t ht
  · exact compat _ wf64 t ht
  · exact compat _ wf128 t ht
  · exact compat _ wf256 t ht
  · exact compat _ wf512 t ht
  · exact compat _ wf1024 t ht
  · exact compat _ wf2048 t ht
  · exact compat _ wf4096 t ht

/-- **Balance** (partial: sizes ≤ 512; see the header for the full statement): for every cluster
size `1 ≤ k ≤ n` the partitions spread over the `k` nodes with per-node counts differing by at
most one. -/
theorem tags_balanced_partial (n : Nat) (hn : n ∈ [16, 32, 64, 128, 256, 512]) (k : Nat) (h1 : 1 ≤ k) (h2 : k ≤ n) :
    Balanced (slotsOf (tagsFor n)) k := by
  simp only [List.mem_cons, List.not_mem_nil, or_false] at hn
  rcases hn with rfl | rfl | rfl | rfl | rfl | rfl
  · exact balanced16 k h1 h2
  · exact balanced32 k h1 h2
  · exact balanced64 k h1 h2
  · exact balanced128 k h1 h2
  · exact balanced256 k h1 h2
  · exact balanced512 k h1 h2

/-- a concrete instance: 16 partitions on 3 nodes → counts 5, 6, 5 -/
example : countOn (slotsOf tags16) 3 0 = 5 ∧ countOn (slotsOf tags16) 3 1 = 6 ∧ countOn (slotsOf tags16) 3 2 = 5 := by
  rw [slotsEq16]; decide +kernel

/-- the checker really rejects an unbalanced placement (two slots on the same node of two) -/
example : checkK [0, 1] 2 = false := by decide

end CentrifugeVerif.Partition
