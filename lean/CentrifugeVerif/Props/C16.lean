import CentrifugeVerif.Model.FilterPaths
/-!
# C16 — tags filters are enforced on every delivery path

One theorem per delivery path, all of the shape "every delivered publication passes BOTH the server
tags filter and the client tags filter" (for live pushes: when the subscription does not use
delta — the code deliberately delivers filtered publications to delta subscribers to keep the delta
chain intact), for every filter predicate `pass` (C15's `Match` is a parameter), every filter pair
(`none` = not configured) and every publication list.  Plus `server_filter_change_invalidates_map`.
The tie of these functions to the source is Props/C16Paths.lean (regenerated call sites) and the
differential run of props/C16.
-/
namespace CentrifugeVerif.C16
open CentrifugeVerif.FilterPaths

variable {F T : Type}

/-- the property's predicate: not excluded by either filter -/
def Passes (pass : F → T → Bool) (sf cf : Option F) (p : Pub T) : Prop :=
  ok pass sf p.tags = true ∧ ok pass cf p.tags = true

theorem not_wasFiltered_iff (pass : F → T → Bool) (sf cf : Option F) (t : T) :
    wasFiltered pass sf cf t = false ↔ (ok pass sf t = true ∧ ok pass cf t = true) := by
  unfold wasFiltered
  cases ok pass sf t <;> cases ok pass cf t <;> simp

/-- hub decision: a subscription without delta gets a push only for publications passing both
filters; a withheld publication is exactly one that some filter excludes -/
theorem hub_push_iff (pass : F → T → Bool) (sf cf : Option F) (p : Pub T) :
    hubDecision pass sf cf false p = .push ↔ Passes pass sf cf p := by
  unfold hubDecision Passes
  rw [← not_wasFiltered_iff]
  cases wasFiltered pass sf cf p.tags <;> simp

theorem live_filtered (pass : F → T → Bool) (sf cf : Option F) (ps : List (Pub T)) :
    ∀ p ∈ live pass sf cf false ps, Passes pass sf cf p := by
  intro p hp
  simp only [live, List.mem_filter, decide_eq_true_eq] at hp
  exact (hub_push_iff pass sf cf p).1 hp.2

/-- … and nothing that passes is withheld (the filtered marker is only for excluded ones) -/
theorem live_complete (pass : F → T → Bool) (sf cf : Option F) (ps : List (Pub T)) (p : Pub T)
    (hp : p ∈ ps) (hpass : Passes pass sf cf p) : p ∈ live pass sf cf false ps := by
  simp only [live, List.mem_filter, decide_eq_true_eq]
  exact ⟨hp, (hub_push_iff pass sf cf p).2 hpass⟩

/-- delta subscribers get everything (why the property is stated for subscriptions without delta) -/
theorem live_delta_unfiltered (pass : F → T → Bool) (sf cf : Option F) (ps : List (Pub T)) :
    live pass sf cf true ps = ps := by
  simp [live, hubDecision]

theorem stream_recovery_filtered (pass : F → T → Bool) (sf cf : Option F) (hist buffered : List (Pub T)) :
    ∀ p ∈ streamRecovery pass sf cf hist buffered, Passes pass sf cf p := by
  intro p hp
  simp only [streamRecovery, List.mem_append, List.mem_filter] at hp
  rcases hp with ⟨_, h⟩ | ⟨_, h⟩
  · unfold Passes
    cases h1 : ok pass sf p.tags <;> cases h2 : ok pass cf p.tags <;> simp [h1, h2] at h ⊢
  · have : wasFiltered pass sf cf p.tags = false := by simpa using h
    exact (not_wasFiltered_iff pass sf cf p.tags).1 this

theorem cache_recovery_filtered (pass : F → T → Bool) (sf cf : Option F) (rev : List (Pub T)) (p : Pub T)
    (h : cacheRecovery pass sf cf rev = some p) : Passes pass sf cf p := by
  unfold cacheRecovery at h
  have key : ∀ (sf cf : Option F), (rev.find? fun p => !(!(ok pass sf p.tags) || !(ok pass cf p.tags))) = some p →
      Passes pass sf cf p := by
    intro sf cf h
    have := List.find?_some h
    unfold Passes
    cases h1 : ok pass sf p.tags <;> cases h2 : ok pass cf p.tags <;> simp [h1, h2] at this ⊢
  cases sf with
  | none =>
    cases cf with
    | none => simp [Passes, ok]
    | some c => exact key none (some c) h
  | some s => exact key (some s) cf h

/-- the cache-mode subscribe reply (recovered publication merged with the window, last one only) -/
theorem cache_reply_filtered (pass : F → T → Bool) (sf cf : Option F) (rev buffered : List (Pub T)) :
    ∀ p ∈ cacheReply pass sf cf rev buffered, Passes pass sf cf p := by
  intro p hp
  unfold cacheReply at hp
  generalize hl : (cacheRecovery pass sf cf rev).toList ++ buffered.filter (fun p => !(wasFiltered pass sf cf p.tags)) = l at hp
  cases hlast : l.getLast? with
  | none => simp [hlast] at hp
  | some q =>
    simp only [hlast, List.mem_singleton] at hp
    subst hp
    have hmem : p ∈ l := List.mem_of_getLast? hlast
    rw [← hl, List.mem_append] at hmem
    rcases hmem with h | h
    · have : cacheRecovery pass sf cf rev = some p := by
        cases hc : cacheRecovery pass sf cf rev with
        | none => simp [hc] at h
        | some r => simp [hc] at h; rw [h]
      exact cache_recovery_filtered pass sf cf rev p this
    · simp only [List.mem_filter] at h
      have : wasFiltered pass sf cf p.tags = false := by simpa using h.2
      exact (not_wasFiltered_iff pass sf cf p.tags).1 this

theorem mapPage_filtered (pass : F → T → Bool) (sf cf : Option F) (ps : List (Pub T)) :
    ∀ p ∈ mapPage pass sf cf ps, Passes pass sf cf p ∧ p ∈ ps := by
  intro p hp
  simp only [mapPage, List.mem_filter] at hp
  exact ⟨⟨hp.1.2, hp.2⟩, hp.1.1⟩

theorem map_state_page_filtered (pass : F → T → Bool) (sf cf : Option F) (ps : List (Pub T)) :
    ∀ p ∈ mapPage pass sf cf ps, Passes pass sf cf p := fun p hp => (mapPage_filtered pass sf cf ps p hp).1

/-- stream pages use the same two loops (`handleMapStreamPhase`) -/
theorem map_stream_page_filtered (pass : F → T → Bool) (sf cf : Option F) (ps : List (Pub T)) :
    ∀ p ∈ mapPage pass sf cf ps, Passes pass sf cf p := map_state_page_filtered pass sf cf ps

theorem map_live_transition_filtered (pass : F → T → Bool) (sf cf : Option F) (state stream buffered : List (Pub T)) :
    (∀ p ∈ (mapTransition pass sf cf state stream buffered).1, Passes pass sf cf p) ∧
    (∀ p ∈ (mapTransition pass sf cf state stream buffered).2, Passes pass sf cf p) := by
  constructor
  · exact map_state_page_filtered pass sf cf state
  · exact map_state_page_filtered pass sf cf _

theorem streamless_buffered_filtered (pass : F → T → Bool) (sf cf : Option F) (buffered : List (Pub T)) :
    ∀ p ∈ streamlessBuffered pass sf cf buffered, Passes pass sf cf p :=
  map_state_page_filtered pass sf cf _

/-- completeness of the page loops: nothing that passes both filters is dropped -/
theorem mapPage_complete (pass : F → T → Bool) (sf cf : Option F) (ps : List (Pub T)) (p : Pub T)
    (hp : p ∈ ps) (hpass : Passes pass sf cf p) : p ∈ mapPage pass sf cf ps := by
  simp only [mapPage, List.mem_filter]
  exact ⟨⟨hp, hpass.1⟩, hpass.2⟩

/-- **server_filter_change_invalidates_map**: a sub-refresh that carries a server tags filter whose
hash differs from the one in the hub (or when there was none) unsubscribes a map subscription with
state-invalidated; an equal hash, or a stream subscription, gets the normal reply, and the hub entry
holds the new filter afterwards in every case where one was supplied. -/
theorem server_filter_change_invalidates_map {H : Type} [DecidableEq H] (cur : Option H) (new : H) :
    ((subRefresh true cur (some new)).2 = .unsubscribedInvalidated ↔ cur ≠ some new) ∧
    (subRefresh false cur (some new)).2 = .replied ∧
    (subRefresh true cur (some new)).1 = some new ∧ (subRefresh false cur (some new)).1 = some new := by
  cases cur with
  | none => simp [subRefresh, updateServerFilter]
  | some h =>
    by_cases hh : h = new
    · subst hh; simp [subRefresh, updateServerFilter]
    · simp [subRefresh, updateServerFilter, hh]

/-- quirk kept by the model: a refresh reply WITHOUT a server filter never clears an existing one -/
theorem refresh_without_filter_keeps {H : Type} [DecidableEq H] (isMap : Bool) (cur : Option H) :
    subRefresh isMap cur (none : Option H) = (cur, .replied) := rfl

/-- non-trivial instance: tags = (a, b), filters = required value of a / of b -/
example : (live (fun (f : Nat × Nat) (t : Nat × Nat) => if f.1 = 0 then t.1 == f.2 else t.2 == f.2)
    (some (0, 1)) (some (1, 2)) false
    [{ id := 0, tags := (1, 2) }, { id := 1, tags := (1, 3) }, { id := 2, tags := (0, 2) }]).map (·.id) = [0] := by decide

end CentrifugeVerif.C16
