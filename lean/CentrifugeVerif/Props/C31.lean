import CentrifugeVerif.Model.CloseCode
import CentrifugeVerif.Proofs.HandshakeTokens
import CentrifugeVerif.Proofs.HandshakeKeyShape
/-!
# C31 — WebSocket close codes and handshake follow the RFC

Property theorems over `Model/Handshake.lean` and `Model/CloseCode.lean`.
-/
namespace CentrifugeVerif.C31
open CentrifugeVerif.Sha1 (Bytes ascii be sha1)
open CentrifugeVerif.Base64
open CentrifugeVerif.Handshake CentrifugeVerif.CloseCode

/-! ## Close codes -/

/-- `isValidReceivedCloseCode` accepts exactly 1000–1003, 1007–1013 and 3000–4999, for every
integer (in particular every 16-bit code).  RFC 6455 §7.4.1 defines 1000–1003 and 1007–1011 and
reserves 3000–4999 for libraries/applications; 1012 and 1013 are IANA registered.  (1014, also
registered at IANA but not defined by the RFC, is rejected — the RFC does not require it.) -/
theorem valid_close_code_iff (code : Nat) :
    isValidReceivedCloseCode code = true ↔
      (1000 ≤ code ∧ code ≤ 1003) ∨ (1007 ≤ code ∧ code ≤ 1013) ∨ (3000 ≤ code ∧ code ≤ 4999) := by
  unfold isValidReceivedCloseCode tableLookup
  split <;> simp <;> (try simp only [imp_false] at *) <;> omega

/-- the codes RFC 6455 §7.4 forbids in a close frame on the wire (0–999, 1004, 1005, 1006, 1015,
the unassigned 1016–2999 and everything above 4999) are rejected. -/
theorem forbidden_close_codes_rejected (code : Nat)
    (h : code < 1000 ∨ code = 1004 ∨ code = 1005 ∨ code = 1006 ∨ (1015 ≤ code ∧ code ≤ 2999) ∨ 5000 ≤ code) :
    isValidReceivedCloseCode code = false := by
  have := valid_close_code_iff code
  cases hv : isValidReceivedCloseCode code with
  | false => rfl
  | true => rw [hv] at this; have := this.mp rfl; omega

/-- every code defined by RFC 6455 for use in close frames is accepted. -/
theorem rfc_close_codes_accepted (code : Nat)
    (h : (1000 ≤ code ∧ code ≤ 1003) ∨ (1007 ≤ code ∧ code ≤ 1011) ∨ (3000 ≤ code ∧ code ≤ 4999)) :
    isValidReceivedCloseCode code = true := by
  rw [valid_close_code_iff]; omega

/-! ## Received close frames -/

/-- A received close frame is *accepted* (answered with a close echo and reported as
`CloseError`) exactly when its body is empty (no status) or has at least two bytes carrying an
allowed code and a UTF-8 reason; otherwise — one-byte body (commit 13f4dfc8), forbidden code,
invalid UTF-8 — it is rejected with a protocol error. -/
theorem recv_close_accepted_iff (c : Conn) (payload : Bytes) :
    (∃ code text, (recvClose c payload).2.1 = .closeError code text) ↔
      payload.length = 0 ∨
        (payload.length ≥ 2 ∧ isValidReceivedCloseCode (u16 payload) = true ∧ utf8Valid (payload.drop 2) = true) := by
  unfold recvClose
  by_cases h1 : payload.length = 1
  · simp [h1]
  · by_cases h2 : payload.length ≥ 2
    · by_cases hv : isValidReceivedCloseCode (u16 payload) = true
      · by_cases hu : utf8Valid (payload.drop 2) = true
        · simp [h1, h2, hv, hu]
        · have hne : payload ≠ [] := by intro h; subst h; simp at h2
          simp [h1, h2, hv, hu, hne]
      · have hne : payload ≠ [] := by intro h; subst h; simp at h2
        simp [h1, h2, hv, hne]
    · have h0 : payload.length = 0 := by omega
      simp [h0]

/-- …and then code and reason are reported unchanged (an empty body is reported as 1005, "no
status received", with an empty reason). -/
theorem recv_close_reports (c : Conn) (payload : Bytes) (h2 : payload.length ≥ 2)
    (hv : isValidReceivedCloseCode (u16 payload) = true) (hu : utf8Valid (payload.drop 2) = true) :
    (recvClose c payload).2.1 = .closeError (u16 payload) (payload.drop 2) := by
  have h1 : ¬ payload.length = 1 := by omega
  simp [recvClose, h1, h2, hv, hu]

theorem recv_close_empty (c : Conn) : (recvClose c []).2.1 = .closeError 1005 [] := by
  simp [recvClose, closeNoStatusReceived]

/-- a rejected close frame is answered with a close frame carrying 1002 (protocol error) when no
close frame was sent before. -/
theorem recv_close_rejected_sends_1002 (c : Conn) (payload : Bytes) (hs : c.closeSent = false)
    (hbad : payload.length = 1 ∨ (payload.length ≥ 2 ∧
      (isValidReceivedCloseCode (u16 payload) = false ∨ utf8Valid (payload.drop 2) = false))) :
    ∃ len msg, (recvClose c payload).2.2 = .wrote ([0x88, len, 0x03, 0xEA] ++ msg) := by
  unfold recvClose handleProtocolError
  rcases hbad with h1 | ⟨h2, hbad⟩
  · simp [h1, writeClose, hs, formatCloseMessage, closeProtocolError, closeNoStatusReceived, be,
      maxControlFramePayloadSize, ascii]
  · have h1 : ¬ payload.length = 1 := by omega
    by_cases hv : isValidReceivedCloseCode (u16 payload) = true
    · have hu : utf8Valid (payload.drop 2) = false := by
        rcases hbad with h | h
        · rw [h] at hv; cases hv
        · exact h
      simp [h1, h2, hv, hu, writeClose, hs, formatCloseMessage, closeProtocolError, closeNoStatusReceived, be,
        maxControlFramePayloadSize, ascii]
    · have hv' : isValidReceivedCloseCode (u16 payload) = false := by
        cases h : isValidReceivedCloseCode (u16 payload) <;> simp_all
      simp [h1, h2, hv', writeClose, hs, formatCloseMessage, closeProtocolError, closeNoStatusReceived, be,
        maxControlFramePayloadSize]
      split
      · omega
      · exact ⟨_, _, rfl⟩

/-! ## First close wins -/

/-- a close-code observation that `recordCloseCode` does not ignore -/
def recordable (e : Nat × Bool) : Bool := decide (0 < e.1) && decide (e.1 ≤ 0xFFFF)

def recordAll (st : Recorded) (evs : List (Nat × Bool)) : Recorded :=
  evs.foldl (fun s e => record s e.1 e.2) st

theorem record_some (v : Nat × Bool) (code : Nat) (inc : Bool) : record (some v) code inc = some v := by
  unfold record; split <;> rfl

theorem recordAll_some (v : Nat × Bool) (evs : List (Nat × Bool)) : recordAll (some v) evs = some v := by
  induction evs with
  | nil => rfl
  | cons e es ih => simp [recordAll, List.foldl, record_some] at *; exact ih

/-- **first close wins**: after any sequence of observed close frames (sent or received, in the
order of their atomic compare-and-swap), the recorded close code and direction are those of the
first observation with a code in 1…65535; nothing is recorded if there is none. -/
theorem first_close_wins (evs : List (Nat × Bool)) : recordAll none evs = evs.find? recordable := by
  induction evs with
  | nil => rfl
  | cons e es ih =>
    simp only [recordAll, List.foldl, List.find?]
    by_cases h : recordable e = true
    · have hr : record none e.1 e.2 = some e := by
        unfold recordable at h
        simp at h
        unfold record
        have : ¬ (e.1 = 0 ∨ e.1 > 0xFFFF) := by omega
        simp [this]
      rw [hr, h]
      exact recordAll_some e es
    · have hr : record none e.1 e.2 = none := by
        unfold recordable at h
        simp at h
        unfold record
        have : (e.1 = 0 ∨ e.1 > 0xFFFF) := by omega
        simp [this]
      rw [hr]
      simp only [Bool.not_eq_true] at h
      rw [h]
      exact ih

/-- the connection operations never overwrite a recorded close code … -/
theorem writeClose_keeps (c : Conn) (data : Bytes) (v : Nat × Bool) (h : c.recorded = some v) :
    (writeClose c data).1.recorded = some v := by
  unfold writeClose
  split
  · exact h
  · simp only [h, record_some]; split <;> rfl

theorem recvClose_keeps (c : Conn) (payload : Bytes) (v : Nat × Bool) (h : c.recorded = some v) :
    (recvClose c payload).1.recorded = some v := by
  unfold recvClose handleProtocolError
  by_cases h1 : payload.length = 1
  · simp [h1]
    exact writeClose_keeps _ _ _ h
  · by_cases h2 : payload.length ≥ 2
    · by_cases hv : isValidReceivedCloseCode (u16 payload) = true
      · by_cases hu : utf8Valid (payload.drop 2) = true
        · simp [h1, h2, hv, hu]
          exact writeClose_keeps _ _ _ (by simp [h, record_some])
        · simp [h1, h2, hv, hu]
          exact writeClose_keeps _ _ _ h
      · simp [h1, h2, hv]
        exact writeClose_keeps _ _ _ h
    · simp [h1, h2]
      exact writeClose_keeps _ _ _ (by simp [h, record_some])

/-- … and the packed `int32` representation (`code | incoming<<16`, 0 = unset) is lossless. -/
theorem unpack_pack (code : Nat) (inc : Bool) (h0 : 0 < code) (h1 : code ≤ 0xFFFF) :
    unpack (pack code inc) = (code, inc) := by
  have hne : code ≠ 0 := by omega
  have hm : code % 65536 = code := Nat.mod_eq_of_lt (by omega)
  have hd : code / 65536 = 0 := Nat.div_eq_of_lt (by omega)
  cases inc <;> simp [unpack, pack, hne, hm, hd] <;> omega

/-! ## Close frame on disconnect -/

theorem be2_length (v : Nat) : (be 2 v).length = 2 := by simp [be]

/-- **close frame when it fits**: `websocketTransport.Close(Disconnect{code, reason})` on a
connection that has not sent a close frame yet, for a code that fits the 2-byte status field and
is neither `DisconnectConnectionClosed` (3000: the peer is gone, nothing is sent) nor 1005 (which
must not appear on the wire): a close frame carrying exactly the code and the reason is written
iff `2 + len(reason) ≤ 125`; otherwise nothing is written at all. -/
theorem close_frame_when_fits (code : Nat) (reason : Bytes)
    (h3000 : code ≠ 3000) (h1005 : code ≠ 1005) (h16 : code ≤ 0xFFFF) :
    (2 + reason.length ≤ 125 →
      (transportClose {} code reason).2 = [[0x88, UInt8.ofNat (2 + reason.length)] ++ be 2 code ++ reason]) ∧
    (¬ 2 + reason.length ≤ 125 → (transportClose {} code reason).2 = []) := by
  have hm : code % 65536 = code := Nat.mod_eq_of_lt (by omega)
  constructor
  · intro hfit
    have hlt : ¬ (125 < 2 + reason.length) := by omega
    simp [transportClose, disconnectConnectionClosedCode, h3000, writeClose, formatCloseMessage,
      closeNoStatusReceived, h1005, maxControlFramePayloadSize, be2_length, hm, framesOf, hlt]
  · intro hfit
    have hlt : 125 < 2 + reason.length := by omega
    simp [transportClose, disconnectConnectionClosedCode, h3000, writeClose, formatCloseMessage,
      closeNoStatusReceived, h1005, maxControlFramePayloadSize, be2_length, hm, framesOf, hlt]

/-- and the code recorded for the metrics label is the disconnect code, direction outgoing. -/
theorem close_frame_records (code : Nat) (reason : Bytes)
    (h3000 : code ≠ 3000) (h1005 : code ≠ 1005) (h0 : 0 < code) (h16 : code ≤ 0xFFFF)
    (hfit : 2 + reason.length ≤ 125) :
    (transportClose {} code reason).1.recorded = some (code, false) := by
  have hm : code % 65536 = code := Nat.mod_eq_of_lt (by omega)
  have hu : u16 (be 2 code ++ reason) = code := by
    simp [be, u16, Nat.shiftRight_eq_div_pow]
    omega
  have hlt : ¬ (125 < 2 + reason.length) := by omega
  have hrec : ¬ (code = 0 ∨ code > 0xFFFF) := by omega
  simp [transportClose, disconnectConnectionClosedCode, h3000, writeClose, formatCloseMessage,
    closeNoStatusReceived, h1005, maxControlFramePayloadSize, be2_length, hm, hu, record, hlt]
  omega

example : (transportClose {} 3001 (ascii "shutdown")).2 =
    [[0x88, 10, 0x0B, 0xB9] ++ ascii "shutdown"] := by decide


/-! ## Opening handshake -/

/-- what `Upgrade` demands of an HTTP/1.1 request (besides the origin check) -/
def H1Conditions (cfg : Config) (r : Request) : Prop :=
  cfg.disableHTTP1Upgrade = false ∧
  tokenListContains (r.values "Connection") (ascii "upgrade") = true ∧
  tokenListContains (r.values "Upgrade") (ascii "websocket") = true ∧
  r.method = ascii "GET" ∧
  tokenListContains (r.values "Sec-Websocket-Version") (ascii "13") = true ∧
  isValidChallengeKey (r.get "Sec-Websocket-Key") = .valid

theorem upgrade_accept_h1_iff (cfg : Config) (r : Request) (h1 : r.protoMajor = 1) :
    (∃ k s c, upgrade cfg r = .acceptH1 k s c) ↔ H1Conditions cfg r ∧ originOK cfg r = true := by
  unfold H1Conditions upgrade
  simp only [h1, if_true]
  by_cases hd : cfg.disableHTTP1Upgrade = true
  · simp [hd]
  · by_cases hc : tokenListContains (r.values "Connection") (ascii "upgrade") = true
    · by_cases hu : tokenListContains (r.values "Upgrade") (ascii "websocket") = true
      · by_cases hm : r.method = ascii "GET"
        · by_cases hv : tokenListContains (r.values "Sec-Websocket-Version") (ascii "13") = true
          · cases hk : isValidChallengeKey (r.get "Sec-Websocket-Key") with
            | valid =>
              by_cases ho : originOK cfg r = true
              · simp [hd, hc, hu, hm, hv, ho]
              · simp [hd, hc, hu, hm, hv, ho]
            | invalid => simp [hd, hc, hu, hm, hv]
            | panic => simp [hd, hc, hu, hm, hv]
          · simp [hd, hc, hu, hm, hv]
        · simp [hd, hc, hu, hm]
      · simp [hd, hc, hu]
    · simp [hd, hc]

def H2Conditions (r : Request) : Prop :=
  r.get ":protocol" = ascii "websocket" ∧ r.method = ascii "CONNECT" ∧
  tokenListContains (r.values "Sec-Websocket-Version") (ascii "13") = true

theorem upgrade_accept_h2_iff (cfg : Config) (r : Request) (h2 : r.protoMajor = 2) :
    (∃ s c, upgrade cfg r = .acceptH2 s c) ↔ H2Conditions r ∧ originOK cfg r = true := by
  unfold H2Conditions upgrade
  simp only [h2, if_true]
  by_cases hp : r.get ":protocol" = ascii "websocket"
  · by_cases hm : r.method = ascii "CONNECT"
    · by_cases hv : tokenListContains (r.values "Sec-Websocket-Version") (ascii "13") = true
      · by_cases ho : originOK cfg r = true
        · simp [hp, hm, hv, ho]
        · simp [hp, hm, hv, ho]
      · simp [hp, hm, hv]
    · simp [hp, hm]
  · simp [hp]

theorem upgrade_other_proto_rejected (cfg : Config) (r : Request) (h1 : r.protoMajor ≠ 1) (h2 : r.protoMajor ≠ 2) :
    upgrade cfg r = .reject 400 .badProto := by
  simp [upgrade, h1, h2]

/-- what an accepted HTTP/1.1 upgrade answers with -/
theorem upgrade_h1_result (cfg : Config) (r : Request) (k s : Bytes) (c : Bool)
    (h : upgrade cfg r = .acceptH1 k s c) :
    k = computeAcceptKey (r.get "Sec-Websocket-Key") ∧ s = selectSubprotocol cfg r ∧
      c = negotiateCompression cfg r := by
  unfold upgrade at h
  repeat' (split at h)
  all_goals (try (cases hk : isValidChallengeKey (r.get "Sec-Websocket-Key") <;> simp_all))

/-- the selected subprotocol is one of the server's and one the client listed (an element of the
comma separated first `Sec-WebSocket-Protocol` header line, surrounding white space ignored) -/
theorem subprotocol_offered (cfg : Config) (r : Request) (hs : selectSubprotocol cfg r ≠ []) :
    ∃ server, cfg.subprotocols = some server ∧ selectSubprotocol cfg r ∈ server ∧
      ∃ e ∈ splitComma (r.get "Sec-Websocket-Protocol"), trimSpace e = selectSubprotocol cfg r := by
  unfold selectSubprotocol at hs ⊢
  cases hsub : cfg.subprotocols with
  | none => simp [hsub] at hs
  | some server =>
    simp only [hsub] at hs ⊢
    refine ⟨server, rfl, ?_⟩
    by_cases he : (r.get "Sec-Websocket-Protocol").isEmpty = true
    · simp [he] at hs
    · simp only [he, Bool.false_eq_true, if_false] at hs ⊢
      generalize hel : (if ((splitComma (r.get "Sec-Websocket-Protocol")).getLast?.getD []).isEmpty = true
        then (splitComma (r.get "Sec-Websocket-Protocol")).dropLast
        else splitComma (r.get "Sec-Websocket-Protocol")) = elems at hs ⊢
      have hsubset : ∀ e ∈ elems, e ∈ splitComma (r.get "Sec-Websocket-Protocol") := by
        intro e hmem
        rw [← hel] at hmem
        split at hmem
        · exact List.dropLast_subset _ hmem
        · exact hmem
      cases hf : (elems.map trimSpace).find? (fun p => server.contains p) with
      | none => rw [hf] at hs; exact absurd rfl hs
      | some p =>
        simp only []
        have hp := List.find?_some hf
        have hm := List.mem_of_find?_eq_some hf
        rw [List.mem_map] at hm
        obtain ⟨e, he1, he2⟩ := hm
        refine ⟨by simpa using hp, e, hsubset e he1, he2⟩

/-- permessage-deflate is negotiated only when enabled and offered by the client -/
theorem compression_offered (cfg : Config) (r : Request) (h : negotiateCompression cfg r = true) :
    cfg.enableCompression = true ∧
      ∃ e ∈ parseExtensions (r.values "Sec-Websocket-Extensions"), e.name = ascii "permessage-deflate" := by
  unfold negotiateCompression at h
  simp only [Bool.and_eq_true, List.any_eq_true, beq_iff_eq] at h
  exact h

/-- **accept key**: an accepted HTTP/1.1 upgrade answers with
`Sec-WebSocket-Accept = base64(sha1(Sec-WebSocket-Key ++ "258EAFA5-E914-47DA-95CA-C5AB0DC85B11"))`
(RFC 6455 §4.2.2 step 5.4), `sha1` and `base64` being the Lean implementations of FIPS 180-4 /
RFC 4648 in `Model/Sha1.lean`, `Model/Base64.lean`. -/
theorem accept_key_rfc (cfg : Config) (r : Request) (k s : Bytes) (c : Bool)
    (h : upgrade cfg r = .acceptH1 k s c) :
    k = encode (sha1 (r.get "Sec-Websocket-Key" ++ ascii "258EAFA5-E914-47DA-95CA-C5AB0DC85B11")) :=
  (upgrade_h1_result cfg r k s c h).1

/-- … and the negotiated subprotocol / compression of an accepted upgrade were offered -/
theorem accepted_negotiation_offered (cfg : Config) (r : Request) (k s : Bytes) (c : Bool)
    (h : upgrade cfg r = .acceptH1 k s c) :
    (s ≠ [] → ∃ server, cfg.subprotocols = some server ∧ s ∈ server ∧
        ∃ e ∈ splitComma (r.get "Sec-Websocket-Protocol"), trimSpace e = s) ∧
    (c = true → cfg.enableCompression = true ∧
        ∃ e ∈ parseExtensions (r.values "Sec-Websocket-Extensions"), e.name = ascii "permessage-deflate") := by
  obtain ⟨_, hs, hc⟩ := upgrade_h1_result cfg r k s c h
  subst hs hc
  exact ⟨subprotocol_offered cfg r, compression_offered cfg r⟩

/-! ### against the declarative RFC reading of the header fields (`Spec/Upgrade.lean`) -/
open CentrifugeVerif.UpgradeSpec

/-- soundness for *all* header values: if `tokenListContainsValue` says yes, some line has the
token as a well-formed comma separated element. -/
theorem token_list_sound (lines : List Bytes) (v : Bytes) (h : tokenListContains lines v = true) :
    HeaderHas lines v := by
  unfold tokenListContains at h
  rw [List.any_eq_true] at h
  obtain ⟨l, hl, h⟩ := h
  exact ⟨l, hl, lineContains_sound v _ l h⟩

/-- on well-formed `1#token` field values the scanner decides RFC 7230 list membership exactly
(values with empty or malformed elements are not valid `1#token` lists; there the scanner accepts
only when every element before the hit is well-formed). -/
theorem token_list_spec (lines : List Bytes) (v : Bytes) (hwf : ∀ l ∈ lines, WellFormedList l) :
    tokenListContains lines v = true ↔ HeaderHas lines v := by
  constructor
  · exact token_list_sound lines v
  · rintro ⟨l, hl, hhas⟩
    unfold tokenListContains
    rw [List.any_eq_true]
    exact ⟨l, hl, lineContains_complete v _ l (by omega) (hwf l hl) hhas⟩

/-- RFC 6455 §4.2.1 items 1, 3, 4, 5, 6 for an HTTP/1.1 request (item 2, `Host`, is enforced by
`net/http`; the key item is `isValidChallengeKey`, i.e. 24 characters that base64-decode to 16
bytes). -/
def ValidUpgradeH1 (r : Request) : Prop :=
  r.method = ascii "GET" ∧
  HeaderHas (r.values "Connection") (ascii "upgrade") ∧
  HeaderHas (r.values "Upgrade") (ascii "websocket") ∧
  HeaderHas (r.values "Sec-Websocket-Version") (ascii "13") ∧
  isValidChallengeKey (r.get "Sec-Websocket-Key") = .valid

/-- **key validity**: `isValidChallengeKey` accepts exactly the strings consisting of 22 base64
alphabet characters followed by `==`, i.e. the base64 texts of 16-byte values (RFC 6455 §4.1:
"a base64-encoded value that, when decoded, is 16 bytes in length"); the low four bits of the 22nd
character are not checked, which RFC 4648 §3.5 leaves to the decoder.  In particular `\r`/`\n`, which
Go's decoder skips, cannot occur in an accepted 24-character key. -/
theorem key_valid_iff (s : Bytes) :
    isValidChallengeKey s = .valid ↔
      s.length = 24 ∧ (∀ c ∈ s.take 22, isAlpha c = true) ∧ s.drop 22 = [61, 61] := valid_key_iff s

/-- every key a conforming client sends (base64 of a 16-byte nonce) is accepted -/
theorem key_of_nonce_valid (nonce : Bytes) (h : nonce.length = 16) :
    isValidChallengeKey (encode nonce) = .valid := encoded_nonce_valid nonce h

example : isValidChallengeKey (ascii "dGhlIHNhbXBsZSBub25jZQ==") = .valid := by decide
example : isValidChallengeKey (ascii "dGhlIHNhbXBsZSBub25jZQ=\n") = .invalid := by decide

/-- the `Connection`, `Upgrade` and `Sec-WebSocket-Version` values are well-formed token lists -/
def WellFormedHeaders (r : Request) : Prop :=
  (∀ l ∈ r.values "Connection", WellFormedList l) ∧ (∀ l ∈ r.values "Upgrade", WellFormedList l) ∧
  (∀ l ∈ r.values "Sec-Websocket-Version", WellFormedList l)

/-- **accepts exactly the valid upgrades**: for an HTTP/1.1 request with well-formed header lists
(and HTTP/1.1 upgrades enabled), `Upgrade` accepts iff the request is a valid WebSocket upgrade and
passes the origin check. -/
theorem upgrade_accept_iff (cfg : Config) (r : Request) (h1 : r.protoMajor = 1)
    (hen : cfg.disableHTTP1Upgrade = false) (hwf : WellFormedHeaders r) :
    (∃ k s c, upgrade cfg r = .acceptH1 k s c) ↔ ValidUpgradeH1 r ∧ originOK cfg r = true := by
  rw [upgrade_accept_h1_iff cfg r h1]
  unfold H1Conditions ValidUpgradeH1
  rw [token_list_spec _ _ hwf.1, token_list_spec _ _ hwf.2.1, token_list_spec _ _ hwf.2.2]
  constructor
  · rintro ⟨⟨_, hc, hu, hm, hv, hk⟩, ho⟩; exact ⟨⟨hm, hc, hu, hv, hk⟩, ho⟩
  · rintro ⟨⟨hm, hc, hu, hv, hk⟩, ho⟩; exact ⟨⟨hen, hc, hu, hm, hv, hk⟩, ho⟩

/-- without the well-formedness assumption one direction still holds: every accepted request is a
valid upgrade that passed the origin check (nothing invalid is ever accepted). -/
theorem upgrade_accept_sound (cfg : Config) (r : Request) (h1 : r.protoMajor = 1)
    (h : ∃ k s c, upgrade cfg r = .acceptH1 k s c) : ValidUpgradeH1 r ∧ originOK cfg r = true := by
  obtain ⟨⟨_, hc, hu, hm, hv, hk⟩, ho⟩ := (upgrade_accept_h1_iff cfg r h1).mp h
  exact ⟨⟨hm, token_list_sound _ _ hc, token_list_sound _ _ hu, token_list_sound _ _ hv, hk⟩, ho⟩

/-- the default origin check is "no Origin header, or its host equals `Host` ignoring ASCII case" -/
theorem default_origin_check (cfg : Config) (r : Request) (hco : cfg.checkOrigin = none) :
    originOK cfg r = true ↔
      r.values "Origin" = [] ∨ ∃ h, r.originHost = some h ∧ h.map lower = r.host.map lower := by
  unfold originOK checkSameOrigin
  rw [hco]
  cases hv : r.values "Origin" with
  | nil => simp
  | cons o os =>
    cases ho : r.originHost with
    | none => simp
    | some h => simp [foldEq_iff]

/-- centrifuge's own default (`checkSameHost` in `handler_websocket.go`, installed by
`NewWebsocketHandler`): an absent or empty first `Origin` value passes, otherwise the origin must
parse and its host equal `Host` ignoring ASCII case. -/
theorem centrifuge_origin_check (r : Request) :
    checkSameHost r = true ↔
      r.get "Origin" = [] ∨ ∃ h, r.originHost = some h ∧ r.host.map lower = h.map lower := by
  unfold checkSameHost
  cases hg : r.get "Origin" with
  | nil => simp
  | cons o os =>
    cases ho : r.originHost with
    | none => simp
    | some h => simp [foldEq_iff]

/-! ### `Upgrade` never panics (finding C31-1, fixed upstream by commit 9d680c6d)

Before the fix `isValidChallengeKey` decoded into a 16-byte buffer and the model had
`upgrade centrifugeCfg (h1Request "AAAAAAAAAAAAAAAAAAAAAAAA") = .panic` (decided witness) with only a
`…_partial` no-panic theorem (keys with ≤ 22 alphabet characters).  With the `DecodedLen`-sized
buffer the statement holds for every request. -/

theorem upgrade_panic_only_key (cfg : Config) (r : Request) (h : upgrade cfg r = .panic) :
    isValidChallengeKey (r.get "Sec-Websocket-Key") = .panic := by
  unfold upgrade at h
  repeat' (split at h)
  all_goals (try (cases hk : isValidChallengeKey (r.get "Sec-Websocket-Key") <;> simp_all))

/-- **every request gets an answer**: `Upgrade` accepts or rejects with an HTTP status, it never
panics — for all configurations and all requests. -/
theorem upgrade_no_panic (cfg : Config) (r : Request) : upgrade cfg r ≠ .panic :=
  fun h => key_no_panic _ (upgrade_panic_only_key cfg r h)

/-! ### witnesses / non-vacuity -/

def h1Request (key : Bytes) : Request :=
  { protoMajor := 1, method := ascii "GET", host := ascii "example.com",
    headers := [(ascii "Connection", ascii "keep-alive, Upgrade"), (ascii "Upgrade", ascii "WebSocket"),
      (ascii "Sec-Websocket-Version", ascii "13"), (ascii "Sec-Websocket-Key", key),
      (ascii "Sec-Websocket-Protocol", ascii "chat, centrifuge-protobuf")],
    originHost := none }

def centrifugeCfg : Config :=
  { subprotocols := some [ascii "centrifuge-json", ascii "centrifuge-protobuf"], enableCompression := true,
    disableHTTP1Upgrade := false, checkOrigin := none }

/-- the key that used to panic (24 alphabet characters, decodes to 18 bytes) is now rejected -/
theorem former_panic_key_rejected :
    upgrade centrifugeCfg (h1Request (ascii "AAAAAAAAAAAAAAAAAAAAAAAA")) = .reject 400 .badKey := by decide

theorem rfc6455_example_accept :
    computeAcceptKey (ascii "dGhlIHNhbXBsZSBub25jZQ==") = ascii "s3pPLMBiTxaQ9kYGzzhZRbK+xOo=" := by decide +kernel

example : upgrade centrifugeCfg (h1Request (ascii "dGhlIHNhbXBsZSBub25jZQ==")) =
    .acceptH1 (ascii "s3pPLMBiTxaQ9kYGzzhZRbK+xOo=") (ascii "centrifuge-protobuf") false := by decide +kernel

theorem sha1_abc : sha1 (ascii "abc") =
    [0xA9, 0x99, 0x3E, 0x36, 0x47, 0x06, 0x81, 0x6A, 0xBA, 0x3E, 0x25, 0x71, 0x78, 0x50, 0xC2, 0x6C, 0x9C, 0xD0, 0xD8, 0x9D] := by
  decide +kernel

/-- the hypotheses of `upgrade_accept_iff` hold for an ordinary browser-style request -/
example : WellFormedList (ascii "keep-alive, Upgrade") := by
  intro e he
  have hs : splitComma (ascii "keep-alive, Upgrade") = [ascii "keep-alive", ascii " Upgrade"] := by decide
  rw [hs] at he
  simp only [List.mem_cons, List.not_mem_nil, or_false] at he
  rcases he with rfl | rfl
  · exact ⟨ascii "keep-alive", [], [], (by decide), (by intro c hc; cases hc), (by intro c hc; cases hc),
      (by unfold IsToken; decide)⟩
  · exact ⟨ascii "Upgrade", [32], [], (by decide), (by unfold IsOWS; decide), (by intro c hc; cases hc),
      (by unfold IsToken; decide)⟩

example : ListHas (ascii "keep-alive, Upgrade") (ascii "upgrade") :=
  ⟨ascii " Upgrade", by decide, ascii "Upgrade",
    ⟨[32], [], (by decide), (by unfold IsOWS; decide), (by intro c hc; cases hc), (by unfold IsToken; decide)⟩,
    (by decide)⟩

end CentrifugeVerif.C31
