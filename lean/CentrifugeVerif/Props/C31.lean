import CentrifugeVerif.Model.Handshake
import CentrifugeVerif.Model.CloseCode
/-!
# C31 — WebSocket close codes and handshake follow the RFC

Property theorems over `Model/Handshake.lean` and `Model/CloseCode.lean`.
-/
namespace CentrifugeVerif.C31
open CentrifugeVerif.Sha1 (Bytes ascii be sha1)
open CentrifugeVerif.Base64
open CentrifugeVerif.Handshake CentrifugeVerif.CloseCode

/-! ## Close codes -/

/-- `isValidReceivedCloseCode` accepts exactly 1000–1003, 1007–1013 and 3000–4999, for every
integer (in particular every 16-bit code).  RFC 6455 §7.4.1 defines 1000–1003 and 1007–1011 and
reserves 3000–4999 for libraries/applications; 1012 and 1013 are IANA registered.  (1014, also
registered at IANA but not defined by the RFC, is rejected — the RFC does not require it.) -/
theorem valid_close_code_iff (code : Nat) :
    isValidReceivedCloseCode code = true ↔
      (1000 ≤ code ∧ code ≤ 1003) ∨ (1007 ≤ code ∧ code ≤ 1013) ∨ (3000 ≤ code ∧ code ≤ 4999) := by
  unfold isValidReceivedCloseCode tableLookup
  split <;> simp <;> (try simp only [imp_false] at *) <;> omega

/-- the codes RFC 6455 §7.4 forbids in a close frame on the wire (0–999, 1004, 1005, 1006, 1015,
the unassigned 1016–2999 and everything above 4999) are rejected. -/
theorem forbidden_close_codes_rejected (code : Nat)
    (h : code < 1000 ∨ code = 1004 ∨ code = 1005 ∨ code = 1006 ∨ (1015 ≤ code ∧ code ≤ 2999) ∨ 5000 ≤ code) :
    isValidReceivedCloseCode code = false := by
  have := valid_close_code_iff code
  cases hv : isValidReceivedCloseCode code with
  | false => rfl
  | true => rw [hv] at this; have := this.mp rfl; omega

/-- every code defined by RFC 6455 for use in close frames is accepted. -/
theorem rfc_close_codes_accepted (code : Nat)
    (h : (1000 ≤ code ∧ code ≤ 1003) ∨ (1007 ≤ code ∧ code ≤ 1011) ∨ (3000 ≤ code ∧ code ≤ 4999)) :
    isValidReceivedCloseCode code = true := by
  rw [valid_close_code_iff]; omega

/-! ## Received close frames -/

/-- A received close frame is *accepted* (answered with a close echo and reported as
`CloseError`) exactly when it has no status code (fewer than two payload bytes) or carries an
allowed code and a UTF-8 reason; otherwise it is rejected with a protocol error. -/
theorem recv_close_accepted_iff (c : Conn) (payload : Bytes) :
    (∃ code text, (recvClose c payload).2.1 = .closeError code text) ↔
      payload.length < 2 ∨
        (isValidReceivedCloseCode (u16 payload) = true ∧ utf8Valid (payload.drop 2) = true) := by
  unfold recvClose
  by_cases h2 : payload.length ≥ 2
  · by_cases hv : isValidReceivedCloseCode (u16 payload) = true
    · by_cases hu : utf8Valid (payload.drop 2) = true
      · simp [h2, hv, hu]
      · simp [h2, hv, hu] <;> omega
    · simp [h2, hv] <;> omega
  · simp [h2] <;> omega

/-- …and then code and reason are reported unchanged. -/
theorem recv_close_reports (c : Conn) (payload : Bytes) (h2 : payload.length ≥ 2)
    (hv : isValidReceivedCloseCode (u16 payload) = true) (hu : utf8Valid (payload.drop 2) = true) :
    (recvClose c payload).2.1 = .closeError (u16 payload) (payload.drop 2) := by
  simp [recvClose, h2, hv, hu]

/-- a rejected close frame is answered with a close frame carrying 1002 (protocol error) when no
close frame was sent before. -/
theorem recv_close_rejected_sends_1002 (c : Conn) (payload : Bytes) (hs : c.closeSent = false)
    (h2 : payload.length ≥ 2)
    (hbad : isValidReceivedCloseCode (u16 payload) = false ∨ utf8Valid (payload.drop 2) = false) :
    ∃ len msg, (recvClose c payload).2.2 = .wrote ([0x88, len, 0x03, 0xEA] ++ msg) := by
  unfold recvClose handleProtocolError
  by_cases hv : isValidReceivedCloseCode (u16 payload) = true
  · have hu : utf8Valid (payload.drop 2) = false := by
      rcases hbad with h | h
      · rw [h] at hv; cases hv
      · exact h
    simp [h2, hv, hu, writeClose, hs, formatCloseMessage, closeProtocolError, closeNoStatusReceived, be,
      maxControlFramePayloadSize, ascii]
  · have hv' : isValidReceivedCloseCode (u16 payload) = false := by
      cases h : isValidReceivedCloseCode (u16 payload) <;> simp_all
    simp [h2, hv', writeClose, hs, formatCloseMessage, closeProtocolError, closeNoStatusReceived, be,
      maxControlFramePayloadSize]
    split
    · omega
    · exact ⟨_, _, rfl⟩

/-! ## First close wins -/

/-- a close-code observation that `recordCloseCode` does not ignore -/
def recordable (e : Nat × Bool) : Bool := decide (0 < e.1) && decide (e.1 ≤ 0xFFFF)

def recordAll (st : Recorded) (evs : List (Nat × Bool)) : Recorded :=
  evs.foldl (fun s e => record s e.1 e.2) st

theorem record_some (v : Nat × Bool) (code : Nat) (inc : Bool) : record (some v) code inc = some v := by
  unfold record; split <;> rfl

theorem recordAll_some (v : Nat × Bool) (evs : List (Nat × Bool)) : recordAll (some v) evs = some v := by
  induction evs with
  | nil => rfl
  | cons e es ih => simp [recordAll, List.foldl, record_some] at *; exact ih

/-- **first close wins**: after any sequence of observed close frames (sent or received, in the
order of their atomic compare-and-swap), the recorded close code and direction are those of the
first observation with a code in 1…65535; nothing is recorded if there is none. -/
theorem first_close_wins (evs : List (Nat × Bool)) : recordAll none evs = evs.find? recordable := by
  induction evs with
  | nil => rfl
  | cons e es ih =>
    simp only [recordAll, List.foldl, List.find?]
    by_cases h : recordable e = true
    · have hr : record none e.1 e.2 = some e := by
        unfold recordable at h
        simp at h
        unfold record
        have : ¬ (e.1 = 0 ∨ e.1 > 0xFFFF) := by omega
        simp [this]
      rw [hr, h]
      exact recordAll_some e es
    · have hr : record none e.1 e.2 = none := by
        unfold recordable at h
        simp at h
        unfold record
        have : (e.1 = 0 ∨ e.1 > 0xFFFF) := by omega
        simp [this]
      rw [hr]
      simp only [Bool.not_eq_true] at h
      rw [h]
      exact ih

/-- the connection operations never overwrite a recorded close code … -/
theorem writeClose_keeps (c : Conn) (data : Bytes) (v : Nat × Bool) (h : c.recorded = some v) :
    (writeClose c data).1.recorded = some v := by
  unfold writeClose
  split
  · exact h
  · simp only [h, record_some]; split <;> rfl

theorem recvClose_keeps (c : Conn) (payload : Bytes) (v : Nat × Bool) (h : c.recorded = some v) :
    (recvClose c payload).1.recorded = some v := by
  unfold recvClose handleProtocolError
  by_cases h2 : payload.length ≥ 2
  · by_cases hv : isValidReceivedCloseCode (u16 payload) = true
    · by_cases hu : utf8Valid (payload.drop 2) = true
      · simp [h2, hv, hu]
        exact writeClose_keeps _ _ _ (by simp [h, record_some])
      · simp [h2, hv, hu]
        exact writeClose_keeps _ _ _ h
    · simp [h2, hv]
      exact writeClose_keeps _ _ _ h
  · simp [h2]
    exact writeClose_keeps _ _ _ (by simp [h, record_some])

/-- … and the packed `int32` representation (`code | incoming<<16`, 0 = unset) is lossless. -/
theorem unpack_pack (code : Nat) (inc : Bool) (h0 : 0 < code) (h1 : code ≤ 0xFFFF) :
    unpack (pack code inc) = (code, inc) := by
  have hne : code ≠ 0 := by omega
  have hm : code % 65536 = code := Nat.mod_eq_of_lt (by omega)
  have hd : code / 65536 = 0 := Nat.div_eq_of_lt (by omega)
  cases inc <;> simp [unpack, pack, hne, hm, hd] <;> omega

/-! ## Close frame on disconnect -/

theorem be2_length (v : Nat) : (be 2 v).length = 2 := by simp [be]

/-- **close frame when it fits**: `websocketTransport.Close(Disconnect{code, reason})` on a
connection that has not sent a close frame yet, for a code that fits the 2-byte status field and
is neither `DisconnectConnectionClosed` (3000: the peer is gone, nothing is sent) nor 1005 (which
must not appear on the wire): a close frame carrying exactly the code and the reason is written
iff `2 + len(reason) ≤ 125`; otherwise nothing is written at all. -/
theorem close_frame_when_fits (code : Nat) (reason : Bytes)
    (h3000 : code ≠ 3000) (h1005 : code ≠ 1005) (h16 : code ≤ 0xFFFF) :
    (2 + reason.length ≤ 125 →
      (transportClose {} code reason).2 = [[0x88, UInt8.ofNat (2 + reason.length)] ++ be 2 code ++ reason]) ∧
    (¬ 2 + reason.length ≤ 125 → (transportClose {} code reason).2 = []) := by
  have hm : code % 65536 = code := Nat.mod_eq_of_lt (by omega)
  constructor
  · intro hfit
    have hlt : ¬ (125 < 2 + reason.length) := by omega
    simp [transportClose, disconnectConnectionClosedCode, h3000, writeClose, formatCloseMessage,
      closeNoStatusReceived, h1005, maxControlFramePayloadSize, be2_length, hm, framesOf, hlt]
  · intro hfit
    have hlt : 125 < 2 + reason.length := by omega
    simp [transportClose, disconnectConnectionClosedCode, h3000, writeClose, formatCloseMessage,
      closeNoStatusReceived, h1005, maxControlFramePayloadSize, be2_length, hm, framesOf, hlt]

/-- and the code recorded for the metrics label is the disconnect code, direction outgoing. -/
theorem close_frame_records (code : Nat) (reason : Bytes)
    (h3000 : code ≠ 3000) (h1005 : code ≠ 1005) (h0 : 0 < code) (h16 : code ≤ 0xFFFF)
    (hfit : 2 + reason.length ≤ 125) :
    (transportClose {} code reason).1.recorded = some (code, false) := by
  have hm : code % 65536 = code := Nat.mod_eq_of_lt (by omega)
  have hu : u16 (be 2 code ++ reason) = code := by
    simp [be, u16, Nat.shiftRight_eq_div_pow]
    omega
  have hlt : ¬ (125 < 2 + reason.length) := by omega
  have hrec : ¬ (code = 0 ∨ code > 0xFFFF) := by omega
  simp [transportClose, disconnectConnectionClosedCode, h3000, writeClose, formatCloseMessage,
    closeNoStatusReceived, h1005, maxControlFramePayloadSize, be2_length, hm, hu, record, hlt]
  omega

example : (transportClose {} 3001 (ascii "shutdown")).2 =
    [[0x88, 10, 0x0B, 0xB9] ++ ascii "shutdown"] := by decide

end CentrifugeVerif.C31
