import CentrifugeVerif.Proofs.Live
import CentrifugeVerif.Proofs.SubReply
import CentrifugeVerif.Proofs.Sync
/-!
# C01 — positioned stream delivery is gap-free, duplicate-free and ordered

Part (a): the live path (`writePublicationUpdatePosition`), for EVERY sequence of incoming
deliveries (any offsets, epochs, lag flags — i.e. every drop / duplicate / reorder / delay fault
sequence of the PUB/SUB layer).
Part (b): the subscribe reply (history read + publications buffered during the subscribe).
Part (c): the interleaving of the subscribe sequence with the channel's broadcaster
(`PubSubSync`), as invariants of the transition system `Model/Sync.lean` — every reachable state of
every interleaving, for arbitrary deliveries arriving at arbitrary moments.
-/
namespace CentrifugeVerif.C01
open CentrifugeVerif.Live CentrifugeVerif.SubReply CentrifugeVerif.Merge

/-! ## (a) live path -/

/-- The offsets the position moves over (pushed, or withheld by the tags filter) are exactly
`pos+1, pos+2, …` in order, with no gap and no repetition, and the final position is the last of
them — whatever arrives from the broker, in whatever order. -/
theorem live_contiguous (s : Sub) (incs : List Inc) :
    consumed (run s incs).2 = List.range' (s.pos + 1) (consumed (run s incs).2).length ∧
    (run s incs).1.pos = s.pos + (consumed (run s incs).2).length := by
  induction incs generalizing s with
  | nil => simp [run, consumed]
  | cons i is ih =>
    simp only [run]
    have hc := liveStep_cases s i
    have ih' := ih (liveStep s i).1
    rw [consumed_cons]
    rcases hc with ⟨hp, hcons⟩ | ⟨hp, hcons⟩
    · rw [hcons]
      rw [hp] at ih'
      simpa using ih'
    · rw [hcons]
      rw [hp] at ih'
      refine ⟨?_, ?_⟩
      · simp only [List.singleton_append, List.length_cons]
        rw [List.range'_succ]
        congr 1
        exact ih'.1
      · simp only [List.singleton_append, List.length_cons]
        omega

/-- Pushed offsets strictly increase (no duplicate, no reordering reaches the client). -/
theorem live_delivered_increasing (s : Sub) (incs : List Inc) :
    (delivered (run s incs).2).Pairwise (· < ·) := by
  have h := (live_contiguous s incs).1
  have hs := delivered_sublist_consumed (run s incs).2
  rw [h] at hs
  exact List.Pairwise.sublist hs (List.pairwise_lt_range')

/-- Every pushed offset lies above the position the subscription started from. -/
theorem live_delivered_above (s : Sub) (incs : List Inc) :
    ∀ o ∈ delivered (run s incs).2, s.pos < o := by
  intro o ho
  have hs := (delivered_sublist_consumed (run s incs).2).subset ho
  rw [(live_contiguous s incs).1] at hs
  have := List.mem_range'_1.mp hs
  omega

/-- A delivery is pushed only if it is exactly the next offset, not lagging, in the
subscription's epoch (or the subscription had no epoch yet) and not withheld by the filter. -/
theorem live_deliver_only_next (s : Sub) (i : Inc) (o : Nat)
    (h : (liveStep s i).2 = .deliver o) :
    o = s.pos + 1 ∧ i.offset = o ∧ i.lag = false ∧ (i.epoch = s.epoch ∨ s.epoch = 0) ∧ i.filtered = false := by
  unfold liveStep at h
  by_cases h1 : i.lag = true
  · simp [h1] at h
  · by_cases h2 : i.epoch ≠ s.epoch ∧ s.epoch ≠ 0
    · simp [h1, h2] at h
    · simp only [h1, h2, if_false, Bool.false_eq_true] at h
      by_cases h3 : i.offset > s.pos + 1
      · simp [h3] at h
      · by_cases h4 : i.offset < s.pos + 1
        · simp [h3, h4] at h
        · simp only [h3, h4, if_false] at h
          by_cases h5 : i.filtered = true
          · simp [h5] at h
          · simp only [h5, Bool.false_eq_true, if_false, Action.deliver.injEq] at h
            refine ⟨by omega, h, by simpa using h1, ?_, by simpa using h5⟩
            by_cases he : i.epoch = s.epoch
            · exact Or.inl he
            · right
              by_cases h0 : s.epoch = 0
              · exact h0
              · exact absurd ⟨he, h0⟩ h2

/-- Excessive PUB/SUB lag ends in insufficient state; nothing is consumed. -/
theorem live_lag_insufficient (s : Sub) (i : Inc) (h : i.lag = true) :
    liveStep s i = (s, .insufficient .lag) := by
  simp [liveStep, h]

/-- An epoch change ends in insufficient state; nothing is consumed. -/
theorem live_epoch_change_insufficient (s : Sub) (i : Inc) (hl : i.lag = false)
    (he : i.epoch ≠ s.epoch) (h0 : s.epoch ≠ 0) :
    liveStep s i = (s, .insufficient .epoch) := by
  simp [liveStep, hl, he, h0]

/-- A gap (offset beyond the next expected one) ends in insufficient state instead of being
delivered; the position does not move past the gap. -/
theorem live_gap_insufficient (s : Sub) (i : Inc) (hl : i.lag = false)
    (he : i.epoch = s.epoch) (hg : i.offset > s.pos + 1) :
    (liveStep s i).2 = .insufficient .offset ∧ (liveStep s i).1.pos = s.pos := by
  simp [liveStep, hl, he, hg]

/-! non-vacuity / sanity -/
example : (run ⟨5, 1⟩ [⟨6, 1, false, false⟩, ⟨6, 1, false, false⟩, ⟨7, 1, false, true⟩, ⟨9, 1, false, false⟩,
    ⟨8, 1, false, false⟩]).2 =
    [.deliver 6, .skipOld, .advanceFiltered 7, .insufficient .offset, .deliver 8] := by decide

/-! ## (b) subscribe reply -/

/-- What a correct stream broker returns for `since`: a run of consecutive offsets (possibly
trimmed or limited — `isStreamRecovered` then refuses). This is C17's stream invariant. -/
def BrokerContig (h : Hist) : Prop :=
  ∃ a, h.pubs.map (·.offset) = List.range' a h.pubs.length

/-- Fault-freeness of the PUB/SUB deliveries that land inside the subscribe window: no hole
above the history top.  (Stale deliveries — offsets at or below the requested one — are allowed:
since fix c43e0c0e "recovery does not deliver again a publication the client already has" they are
dropped from the reply, see `dropStale`.) -/
structure WindowOK (req : Req) (h : Hist) (buffered : List MPub) : Prop where
  gapFree : ∀ b ∈ buffered, ∀ o, h.top < o → o < b.offset → o ∈ buffered.map (·.offset)

/-- Without recovery (or when recovery is refused) the reply carries no publications and the
client is positioned at the committed stream position. -/
theorem reply_not_recovered_empty (req : Req) (h : Hist) (buffered pubs : List MPub) (off pos e : Nat)
    (hs : subscribe req h buffered = .reply false pubs off pos e) : pubs = [] ∧ off = pos := by
  unfold subscribe at hs
  split at hs
  · cases hs
  · unfold finish at hs
    split at hs
    · cases hs
    · split at hs
      · simp at hs
      · simp only [Outcome.reply.injEq, true_and] at hs
        exact ⟨hs.1.symm, by omega⟩

/-- FULL STATEMENT (not provable for the current code, see the counter-witnesses below): for
every buffered list, a recovered reply covers `(req.offset, pos]` exactly once, in order.
PROVED PART: the same under `WindowOK` (no missing in-window delivery above the history top);
stale and duplicated in-window deliveries are covered. -/
theorem reply_contiguous_partial (req : Req) (h : Hist) (buffered pubs : List MPub) (off pos e : Nat)
    (hb : BrokerContig h) (hw : WindowOK req h buffered)
    (hs : subscribe req h buffered = .reply true pubs off pos e) :
    off = req.offset ∧
    pubs.Pairwise (fun x y => x.offset < y.offset) ∧
    (∀ p ∈ pubs, p.filtered = false ∧ req.offset < p.offset ∧ p.offset ≤ pos) ∧
    (∀ o, req.offset < o → o ≤ pos →
      o ∈ pubs.map (·.offset) ∨ o ∈ fOffsets (toMPubs 0 h.pubs ++ buffered)) := by
  unfold subscribe at hs
  split at hs
  · cases hs
  · rename_i r hr
    unfold finish at hs
    split at hs
    · cases hs
    · rename_i merged maxSeen hm
      split at hs
      case isFalse => simp at hs
      case isTrue hrec =>
      simp only [Outcome.reply.injEq, true_and] at hs
      obtain ⟨hpubs, hoff, hpos, _⟩ := hs
      cases r with
      | none => simp at hrec
      | some l =>
      obtain ⟨hl, hok⟩ := recDecision_recovered hr
      subst hl
      simp only [Option.getD_some] at hm
      -- facts about the history offsets
      obtain ⟨a, ha⟩ := hb
      have hhist : ∀ o, o ∈ h.pubs.map (·.offset) ↔ req.offset < o ∧ o ≤ h.top := by
        intro o
        unfold recoveredOK at hok
        cases hp : h.pubs with
        | nil =>
          rw [hp] at hok
          simp only [beq_iff_eq] at hok
          simp; omega
        | cons p ps =>
          rw [hp] at hok ha
          simp only [Bool.and_eq_true, beq_iff_eq] at hok
          have hlen : (p :: ps).length = ps.length + 1 := rfl
          rw [hlen] at ha
          have ha0 : p.offset = a := by
            have := congrArg List.head? ha
            simpa [List.range'_succ] using this
          have hlast : ((p :: ps).map (·.offset)).getLast? = some h.top := by
            rw [List.getLast?_map]; exact hok.2
          rw [ha] at hlast
          have := range'_last a (ps.length + 1) h.top (by omega) hlast
          rw [ha, List.mem_range'_1]
          omega
      have hsorted := merge_sorted_nodup _ _ _ _ hm
      have hnp := merge_no_placeholder _ _ _ _ hm
      have hset := merge_set _ _ _ _ hm
      have hmax := merge_max_seen _ _ _ _ hm
      -- the delivered list: merged minus stale buffered copies
      have hmemP : ∀ p, p ∈ pubs ↔ p ∈ merged ∧ (buffered = [] ∨ req.offset < p.offset) := by
        intro p
        rw [← hpubs]
        unfold dropStale
        cases hbe : buffered with
        | nil => simp
        | cons b bs => simp [List.mem_filter]
      have hsub : pubs.Sublist merged := by
        rw [← hpubs]; unfold dropStale; split
        · exact List.Sublist.refl _
        · exact List.filter_sublist
      have hposeq : pos = max h.top maxSeen := by
        rw [← hpos]
        exact latestOf_eq_max (fun p hp => hmax.1 p (hnp p (hsub.subset (by rw [← hpubs]; exact hp))).2)
      -- history entries are above req.offset
      have habove_hist : ∀ p ∈ toMPubs 0 h.pubs, req.offset < p.offset := by
        intro p hp
        obtain ⟨q, hq, h1, _⟩ := mem_toMPubs hp
        have := (hhist q.offset).mp (List.mem_map_of_mem hq)
        omega
      have hle_max : ∀ p ∈ toMPubs 0 h.pubs ++ buffered, p.offset ≤ pos := by
        intro p hp
        have := hmax.1 p hp
        omega
      refine ⟨hoff.symm, hsorted.sublist hsub, ?_, ?_⟩
      · intro p hp
        have hpm := (hmemP p).mp hp
        have := hnp p hpm.1
        refine ⟨this.1, ?_, hle_max p this.2⟩
        rcases hpm.2 with hbe | hgt
        · subst hbe
          rcases List.mem_append.mp this.2 with h1 | h1
          · exact habove_hist p h1
          · cases h1
        · exact hgt
      · intro o ho1 ho2
        -- o is an offset of some input entry
        have hin : ∃ p ∈ toMPubs 0 h.pubs ++ buffered, p.offset = o := by
          by_cases hot : o ≤ h.top
          · have := (hhist o).mpr ⟨ho1, hot⟩
            obtain ⟨q, hq, hqo⟩ := List.mem_map.mp this
            obtain ⟨m, hm', h1, _⟩ := toMPubs_mem (s := 0) hq
            exact ⟨m, List.mem_append_left _ hm', by omega⟩
          · -- above the history top: pos = maxSeen is attained by a buffered entry
            rcases hmax.2 with h0 | ⟨p, hp, hpm⟩
            · exfalso; omega
            · by_cases hop : o = p.offset
              · exact ⟨p, hp, hop.symm⟩
              · rcases List.mem_append.mp hp with hp' | hp'
                · exfalso
                  obtain ⟨q, hq, h1, _⟩ := mem_toMPubs hp'
                  have := (hhist q.offset).mp (List.mem_map_of_mem hq)
                  omega
                · have := hw.gapFree p hp' o (by omega) (by omega)
                  obtain ⟨b, hb', hbo⟩ := List.mem_map.mp this
                  exact ⟨b, List.mem_append_right _ hb', hbo⟩
        obtain ⟨p, hp, hpo⟩ := hin
        by_cases hf : p.filtered = true
        · right
          simp only [fOffsets, List.mem_map, List.mem_filter]
          exact ⟨p, ⟨hp, hf⟩, hpo⟩
        · left
          have hmo : o ∈ merged.map (·.offset) := by
            apply (hset o).mpr
            rw [mem_nfOffsets]
            exact ⟨p, hp, by simpa using hf, hpo⟩
          obtain ⟨q, hq, hqo⟩ := List.mem_map.mp hmo
          exact List.mem_map.mpr ⟨q, (hmemP q).mpr ⟨hq, Or.inr (by omega)⟩, hqo⟩

/-! ### Counter-witnesses: why the full statement fails for the current code
(each is replayed on the real `subscribeCmd` by the check; see known findings C01-1a/b/c). -/

/-- C01-1 (leading hole): client at 10, history top 10, an in-window delivery of offset 13 —
the reply says recovered and carries only 13; 11 and 12 are silently skipped. -/
example : subscribe ⟨true, false, 10, 1⟩ ⟨[], 10, 1⟩ [⟨13, false, 0⟩] =
    .reply true [⟨13, false, 0⟩] 10 13 1 := by decide

/-- C01-1 (trailing hole): recovered 6..10, in-window delivery 12 withheld by the filter —
position jumps to 12 although 11 was never seen. -/
example : subscribe ⟨true, false, 9, 1⟩ ⟨[⟨10, false⟩], 10, 1⟩ [⟨12, true, 1⟩] =
    .reply true [⟨10, false, 0⟩] 9 12 1 := by decide

/-- C01-2, FIXED in the repository ("fix: recovery does not deliver again a publication the
client already has"): the client holds 10; the lagging PUB/SUB copy of 10 that lands inside the
subscribe window is no longer delivered again (before the fix the reply carried `[10]`). -/
example : subscribe ⟨true, false, 10, 1⟩ ⟨[], 10, 1⟩ [⟨10, false, 0⟩] =
    .reply true [] 10 10 1 := by decide

/-- non-vacuity of `reply_contiguous_partial`: a recovered reply with overlap, a filtered
history entry and in-window continuation satisfies the hypotheses. -/
example : BrokerContig ⟨[⟨6, false⟩, ⟨7, true⟩, ⟨8, false⟩], 8, 1⟩ := ⟨6, by decide⟩
example : WindowOK ⟨true, false, 5, 1⟩ ⟨[⟨6, false⟩, ⟨7, true⟩, ⟨8, false⟩], 8, 1⟩
    [⟨8, false, 3⟩, ⟨9, false, 4⟩] :=
  ⟨by
    intro b hb o h1 h2
    simp only [List.mem_cons, List.not_mem_nil, or_false] at hb
    rcases hb with rfl | rfl <;> simp at h1 h2 ⊢ <;> omega⟩
example : subscribe ⟨true, false, 5, 1⟩ ⟨[⟨6, false⟩, ⟨7, true⟩, ⟨8, false⟩], 8, 1⟩
    [⟨8, false, 3⟩, ⟨9, false, 4⟩] =
    .reply true [⟨6, false, 0⟩, ⟨8, false, 2⟩, ⟨9, false, 4⟩] 5 9 1 := by decide

/-! ## (a)+(b): reply followed by live pushes -/

/-- End to end: after a recovered reply, the live phase continues exactly at `pos+1`; together
with `reply_contiguous_partial` every offset in `(req.offset, last]` is delivered or withheld. -/
theorem reply_then_live_contiguous (req : Req) (h : Hist) (buffered pubs : List MPub) (off pos e : Nat)
    (_hs : subscribe req h buffered = .reply true pubs off pos e) (incs : List Inc) :
    consumed (run ⟨pos, e⟩ incs).2 = List.range' (pos + 1) (consumed (run ⟨pos, e⟩ incs).2).length :=
  (live_contiguous ⟨pos, e⟩ incs).1

/-! ## (c) interleavings of subscribe and broadcast (`PubSubSync`) -/
open CentrifugeVerif.Sync in
/-- The subscribe reply is the first thing the client sees for the channel; everything after it
is a publication push or the insufficient-state signal. -/
theorem sync_reply_first (req : Req) (hist : Hist) (s : St) (h : Reachable req hist s) :
    s.log = [] ∨ ∃ r pubs off rest, s.log = .reply r pubs off :: rest ∧
      ∀ ev ∈ rest, (∃ o, ev = .push o) ∨ ev = .insufficient := by
  have hi := (inv_reachable req hist s h).1
  cases hspc : s.spc <;> simp only [InvS, hspc] at hi
  case s5 | s6 | s7 =>
    obtain ⟨r, pubs, off, pos, e, rest, _, h2, h3, _⟩ := hi.2.2.2.2
    exact Or.inr ⟨r, pubs, off, rest, h2, h3⟩
  all_goals exact Or.inl hi.2.2.2.2.2

open CentrifugeVerif.Sync in
/-- In every reachable state of every interleaving the live pushes are a sublist of
`pos+1, …, pos+n`, where `pos` is the position committed with the reply and `pos+n` the current
position: strictly increasing, above the reply's position, and the position never moved over an
offset that was not consumed. -/
theorem sync_pushes_contiguous (req : Req) (hist : Hist) (s : St) (h : Reachable req hist s)
    (r : Bool) (pubs : List MPub) (off pos e : Nat)
    (hr : subscribe req hist s.taken = .reply r pubs off pos e) :
    ∃ n, (pushes s.log).Sublist (List.range' (pos + 1) n) ∧
      (s.sub = none ∨ ∃ ep, s.sub = some ⟨pos + n, ep⟩) := by
  have hi := (inv_reachable req hist s h).1
  cases hspc : s.spc <;> simp only [InvS, hspc] at hi
  case s6 | s7 =>
    obtain ⟨r', pubs', off', pos', e', rest, h1, h2, _, h4⟩ := hi.2.2.2.2
    rw [hr] at h1
    simp only [Outcome.reply.injEq] at h1
    obtain ⟨_, _, _, hp, _⟩ := h1
    subst hp
    simp only [if_true] at h4
    obtain ⟨n, ep, hs, hsl⟩ := h4
    exact ⟨n, by simpa [h2, pushes] using hsl, Or.inr ⟨ep, hs⟩⟩
  case s5 =>
    obtain ⟨r', pubs', off', pos', e', rest, h1, h2, _, h4⟩ := hi.2.2.2.2
    simp only [Bool.false_eq_true, if_false] at h4
    exact ⟨0, by simp [h2, h4.2.1, pushes], Or.inl h4.1⟩
  all_goals exact ⟨0, by simp [hi.2.2.2.2.2, pushes], Or.inl hi.2.2.2.2.1⟩

open CentrifugeVerif.Sync in
/-- No publication is pushed before the subscription is committed (hence none before the reply). -/
theorem sync_no_push_before_commit (req : Req) (hist : Hist) (s : St) (h : Reachable req hist s)
    (hn : s.sub = none) : pushes s.log = [] := by
  have hi := (inv_reachable req hist s h).1
  cases hspc : s.spc <;> simp only [InvS, hspc] at hi
  case s6 | s7 =>
    obtain ⟨_, _, _, _, _, _, _, _, _, h4⟩ := hi.2.2.2.2
    simp only [if_true] at h4
    obtain ⟨n, ep, hs, _⟩ := h4
    rw [hn] at hs; cases hs
  case s5 =>
    obtain ⟨_, _, _, _, _, rest, _, h2, _, h4⟩ := hi.2.2.2.2
    simp only [Bool.false_eq_true, if_false] at h4
    simp [h2, h4.2.1, pushes]
  all_goals simp [hi.2.2.2.2.2, pushes]

open CentrifugeVerif.Sync in
/-- The subscribe window loses nothing: unless the subscribe itself failed, a delivery routed to
the client after the hub add is never dropped for "not subscribed yet" — it is buffered (and merged
into the reply) or applied against the committed position. -/
theorem sync_no_window_drop (req : Req) (hist : Hist) (s : St) (h : Reachable req hist s)
    (hf : s.spc ≠ .failed) : s.dropped = [] :=
  (inv_reachable req hist s h).2.2 hf

open CentrifugeVerif.Sync in
/-- A broadcaster reaches the live path only after `StopBuffering` (or after a failed subscribe):
while the subscribe is in flight every routed delivery is parked or buffered. -/
theorem sync_live_only_after_stop (req : Req) (hist : Hist) (s : St) (h : Reachable req hist s)
    (d : Inc) (hb : s.bpc = .live d) : s.spc = .s7 ∨ s.spc = .failed := by
  have hi := (inv_reachable req hist s h).2.1
  rw [hb] at hi
  exact hi

open CentrifugeVerif.Sync in
/-- END TO END, every interleaving: whatever the broadcaster delivers and whenever, what the client
has seen for the channel is the subscribe reply — covering `(req.offset, pos]` exactly once, in
order, up to offsets withheld by the tags filter — followed by live pushes that form a sublist of
`pos+1, pos+2, …` (no duplicate, no reordering, nothing before the reply), with the subscription's
position never ahead of what was consumed.  (`WindowOK`: no PUB/SUB loss inside the subscribe
window above the history top; without it the reply part fails, see the counter-witnesses.) -/
theorem sync_client_view_contiguous (req : Req) (hist : Hist) (s : St) (h : Reachable req hist s)
    (pubs : List MPub) (off pos e : Nat)
    (hr : subscribe req hist s.taken = .reply true pubs off pos e)
    (hb : BrokerContig hist) (hw : WindowOK req hist s.taken) :
    (s.log = [] ∨ ∃ rest, s.log = .reply true pubs off :: rest) ∧
    off = req.offset ∧
    pubs.Pairwise (fun x y => x.offset < y.offset) ∧
    (∀ p ∈ pubs, p.filtered = false ∧ req.offset < p.offset ∧ p.offset ≤ pos) ∧
    (∀ o, req.offset < o → o ≤ pos →
      o ∈ pubs.map (·.offset) ∨ o ∈ fOffsets (toMPubs 0 hist.pubs ++ s.taken)) ∧
    (∃ n, (pushes s.log).Sublist (List.range' (pos + 1) n) ∧
      (s.sub = none ∨ ∃ ep, s.sub = some ⟨pos + n, ep⟩)) := by
  obtain ⟨h1, h2, h3, h4⟩ := reply_contiguous_partial req hist s.taken pubs off pos e hb hw hr
  refine ⟨?_, h1, h2, h3, h4, sync_pushes_contiguous req hist s h true pubs off pos e hr⟩
  have hi := (inv_reachable req hist s h).1
  cases hspc : s.spc <;> simp only [InvS, hspc] at hi
  case s5 | s6 | s7 =>
    obtain ⟨r', pubs', off', pos', e', rest, h1', h2', _, _⟩ := hi.2.2.2.2
    rw [hr] at h1'
    simp only [Outcome.reply.injEq] at h1'
    obtain ⟨hr1, hp1, ho1, _, _⟩ := h1'
    subst hr1; subst hp1; subst ho1
    exact Or.inr ⟨rest, h2'⟩
  all_goals exact Or.inl hi.2.2.2.2.2

/-! non-vacuity: a concrete interleaving with one buffered and one parked delivery reaches the
settled state, delivers the buffered publication in the reply and the parked one live. -/
open CentrifugeVerif.Sync in
example :
    (runLabels ⟨true, false, 5, 1⟩ ⟨[⟨6, false⟩], 6, 1⟩ {}
      [.sStart, .sHubAdd, .bStart ⟨7, 1, false, false⟩, .bCheck, .bLock, .sHist, .sLock,
       .bStart ⟨8, 1, false, false⟩, .bCheck, .sReply, .sCommit, .sStop, .bLock, .bLive]).map
      (fun s => (s.log, s.sub, s.dropped)) =
    some ([.reply true [⟨6, false, 0⟩, ⟨7, false, 0⟩] 5, .push 8], some ⟨8, 1⟩, []) := by decide

end CentrifugeVerif.C01
