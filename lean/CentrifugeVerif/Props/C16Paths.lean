import CentrifugeVerif.Gen.FilterCalls
/-!
# C16 — tie of the filter-path model (Model/FilterPaths.lean) to the current source

`Gen/FilterCalls.lean` is regenerated from `/repo` on every run (props/C16/extract_filters.py): per
delivery-path function, the applications of a tags filter in textual order.  The theorems below are
the hand-written expectation the model was written against; they stop checking when a filter
application is dropped, duplicated, re-targeted to another filter, or when the write path loses one
of its "withhold unless delta" tests.
-/
namespace CentrifugeVerif.C16Paths
open CentrifugeVerif.Gen

/-- a path applies BOTH filters: one application names a server filter, one a client filter -/
def appliesBoth (l : List String) (server client : String) : Bool :=
  l.contains server && l.contains client

/-- hub: server filter, then the client filter only when the server filter passed (`wasFiltered`) -/
theorem hub_pinned : FilterCalls.broadcastPublication =
    ["match:sub.serverTagsFilter.filter", "onlyIfNotServerFiltered:!wasFiltered && sub.tagsFilter != nil",
     "match:sub.tagsFilter.filter"] := by decide

/-- write path: every one of the three write branches (no offset / non-positioned / positioned)
withholds a filtered publication unless the subscription uses delta, and the subscribe window gets
the filtered marker -/
theorem write_path_pinned :
    FilterCalls.writePublicationUpdatePosition =
      ["withhold:prep.wasFiltered && !prep.deltaSub", "withhold:prep.wasFiltered && !prep.deltaSub"] ∧
    FilterCalls.writePublication =
      ["withhold:prep.wasFiltered && !prep.deltaSub", "marker:syncPub = prep.filteredPub"] := by decide

theorem stream_recovery_pinned :
    FilterCalls.isStreamRecovered = ["filtered:serverTf", "filtered:tf"] := by decide

theorem cache_recovery_pinned :
    FilterCalls.recoverCache = ["filtered:serverTf", "filtered:tf"] := by decide

/-- `subscribeCmd` hands the subscription's client filter and server filter (in the parameter
order of the callee: `tf`, `serverTf`) to both recovery functions -/
theorem subscribeCmd_passes_both_filters :
    FilterCalls.subscribeCmd =
      ["recoverCache:sub.tagsFilter:sub.serverTagsFilter", "recoverCache:sub.tagsFilter:sub.serverTagsFilter",
       "isStreamRecovered:sub.tagsFilter:sub.serverTagsFilter"] := by decide

theorem map_state_page_pinned :
    FilterCalls.handleMapStatePhase = ["match:state.serverTagsFilter.filter", "match:state.tagsFilter.filter"] := by decide

theorem map_stream_page_pinned :
    FilterCalls.handleMapStreamPhase = ["match:state.serverTagsFilter.filter", "match:state.tagsFilter.filter"] := by decide

/-- live transition: both loops in the positioned branch and both loops in the streamless branch -/
theorem map_transition_pinned :
    FilterCalls.handleMapTransitionToLive =
      ["match:sub.serverTagsFilter.filter", "match:sub.tagsFilter.filter",
       "match:sub.serverTagsFilter.filter", "match:sub.tagsFilter.filter"] := by decide

theorem sub_refresh_pinned :
    FilterCalls.handleSubRefresh =
      ["update:updateServerTagsFilter", "changedAndMap:changed && isMapSub", "invalidate:UnsubscribeCodeStateInvalidated"] ∧
    FilterCalls.updateServerTagsFilter = ["hashEq:sub.serverTagsFilter.hash == tf.hash"] := by decide

/-- summary used by the report: every delivery path names both filters -/
theorem every_path_applies_both_filters :
    appliesBoth FilterCalls.broadcastPublication "match:sub.serverTagsFilter.filter" "match:sub.tagsFilter.filter" = true ∧
    appliesBoth FilterCalls.isStreamRecovered "filtered:serverTf" "filtered:tf" = true ∧
    appliesBoth FilterCalls.recoverCache "filtered:serverTf" "filtered:tf" = true ∧
    appliesBoth FilterCalls.handleMapStatePhase "match:state.serverTagsFilter.filter" "match:state.tagsFilter.filter" = true ∧
    appliesBoth FilterCalls.handleMapStreamPhase "match:state.serverTagsFilter.filter" "match:state.tagsFilter.filter" = true ∧
    appliesBoth FilterCalls.handleMapTransitionToLive "match:sub.serverTagsFilter.filter" "match:sub.tagsFilter.filter" = true := by
  decide

end CentrifugeVerif.C16Paths
