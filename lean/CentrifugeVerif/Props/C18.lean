import CentrifugeVerif.Model.RedisGlue
/-! C18 — Redis and Memory stream brokers agree (theorems; under construction). -/
namespace CentrifugeVerif.C18
open CentrifugeVerif.Lua

/-- Lua formats integer-valued numbers below 10^14 exactly (`"%.14g"`). -/
theorem fmtG14_exact (n : Nat) (h : n < 100000000000000) : fmtG14 (n : Int) = toString n := by
  simp [fmtG14, h]

end CentrifugeVerif.C18
