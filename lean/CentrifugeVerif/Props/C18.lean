import CentrifugeVerif.Proofs.RedisAddStream
import CentrifugeVerif.Model.RedisGlue
/-!
# C18 — Redis and Memory stream brokers agree (Redis half: theorems about the translated scripts)

Level: **partial**.  What is proved here, for *all* keys, argument strings and Redis states (of the
trusted Redis/Lua model), about the translated `broker_history_add_stream.lua`:

* `redis_idempotent_hit` — a publish whose result key still holds `e` returns the stored offset and epoch
  with the from-cache flag and leaves the Redis state **unchanged** (no XADD, no HINCRBY, no PUBLISH,
  no TTL refresh);
* `redis_idempotent_miss_reaches_epoch_step`, `redis_epoch_kept`, `redis_epoch_created` — without a hit
  the script continues with the stored epoch, creating it (field `e := new_epoch_if_empty`) only when
  the meta hash has none: an existing epoch is never replaced;
* `redis_version_suppressed` — with version `≠ "0"`, a stored version `v`, matching (or empty) version
  epoch and `tonumber v ≥ tonumber version` the reply is `{offset, epoch, "0", "1"}` and the state is
  **unchanged**;
* `redis_store_offset_increments`, `redis_first_publish_creates_epoch` — a stored (unversioned) publication
  is answered with the old offset + 1 and the kept / newly created epoch, whatever the size, TTLs,
  payload, channel and delta flag (for every run that does not abort with a Lua/Redis error);
* `redis_unversioned_skips_version_step` — `version = "0"` never reads or writes `v`/`ve`
  (the memory broker used to overwrite its top version with 0: finding C18-5, fixed in /repo by a5ec69f4).

The agreement with the memory broker itself ("same offsets, publications, suppression outcomes and
stream positions") is **not** proved in Lean: it is checked by the differential run of `props/C18/check.py`
(translated scripts + Redis model + Go-glue model vs. the real `MemoryBroker`).  The full statement
would be
`theorem redis_stream_sim_memory : ∀ ops, Agree (runRedis ops) (HistoryHub.runOut mem ops)`
for op sequences outside the listed differences; what is missing is the *state* after the store path
(`XADD MAXLEN` trimming = memory trimming, TTLs) as a closed form, the versioned store path, the history
script, and the simulation relation itself.

The decided examples at the end are the Lean halves of the findings (the differences are real
under the property text; each is replayed on the real memory broker by the check).
-/
namespace CentrifugeVerif.C18
open CentrifugeVerif CentrifugeVerif.Redis CentrifugeVerif.Lua CentrifugeVerif.LuaRedis CentrifugeVerif.Gen.Lua
open CentrifugeVerif.AddStream

/-- Idempotency within the result TTL: original position, from-cache flag, nothing stored. -/
theorem redis_idempotent_hit (sk mk rk : String) (a : AddArgs) (s : Redis) (h : List (String × String))
    (ep : String) (hrexp : a.rexp ≠ "") (hk : HashAt s rk h) (he : hlookup h "e" = some ep) :
    run (broker_history_add_stream (keysT sk mk rk) a.argv) s
      = (.ok (.tbl [respToLua (optBulk (hlookup h "s")), .str ep, .str "1", .str "0"]), s) := by
  rw [script_eq_p1]; exact p1_hit sk mk rk a s h ep hrexp hk he

/-- Without a cached result (no idempotency key, or the result key expired / holds no `e`) the script
goes on to the epoch step with the state untouched. -/
theorem redis_idempotent_miss_reaches_epoch_step (sk mk rk : String) (a : AddArgs) (s : Redis)
    (h : List (String × String)) (hk : HashAt s rk h) (hmiss : a.rexp = "" ∨ hlookup h "e" = none) :
    run (broker_history_add_stream (keysT sk mk rk) a.argv) s = run (P2 sk mk rk a) s := by
  rw [script_eq_p1]; exact p1_miss sk mk rk a s h hk hmiss

/-- An existing epoch is kept (and nothing is written by the epoch step). -/
theorem redis_epoch_kept (sk mk rk : String) (a : AddArgs) (s : Redis) (hm : List (String × String)) (e : String)
    (hk : HashAt s mk hm) (he : hlookup hm "e" = some e) :
    run (P2 sk mk rk a) s = run (P4 sk mk rk a (.str e)) s :=
  p2_epoch_present sk mk rk a s hm e hk he

/-- The epoch is created exactly when the meta hash has none, from `new_epoch_if_empty`. -/
theorem redis_epoch_created (sk mk rk : String) (a : AddArgs) (s : Redis) (hm : List (String × String))
    (hk : HashAt s mk hm) (he : hlookup hm "e" = none) :
    run (P2 sk mk rk a) s = run (P4 sk mk rk a (.str a.fresh)) (putHash s mk (hset1 hm "e" a.fresh)) :=
  p2_epoch_absent sk mk rk a s hm hk he

/-- Version suppression rule, and "a suppressed publish changes nothing" on the Redis side. -/
theorem redis_version_suppressed (sk mk rk : String) (a : AddArgs) (s : Redis)
    (hr hm : List (String × String)) (ep pv : String) (x y n : Int)
    (hrk : HashAt s rk hr) (hmiss : a.rexp = "" ∨ hlookup hr "e" = none)
    (hmk : HashAt s mk hm) (he : hlookup hm "e" = some ep)
    (hver : a.ver ≠ "0") (hv : hlookup hm "v" = some pv)
    (hep : a.vep = "" ∨ hlookup hm "ve" = some a.vep)
    (hx : tonumber (.str pv) = .ok (.num x)) (hy : tonumber (.str a.ver) = .ok (.num y)) (hle : y ≤ x)
    (hoff : suppressedOffset hm = .ok (.num n)) :
    run (broker_history_add_stream (keysT sk mk rk) a.argv) s
      = (.ok (.tbl [.num n, .str ep, .str "0", .str "1"]), s) := by
  rw [redis_idempotent_miss_reaches_epoch_step sk mk rk a s hr hrk hmiss,
    redis_epoch_kept sk mk rk a s hm ep hmk he]
  exact p4_suppressed sk mk rk a s hm ep pv x y n hmk hver hv hep hx hy hle hoff

/-- An unversioned publish does not touch the stored version. -/
theorem redis_unversioned_skips_version_step (sk mk rk : String) (a : AddArgs) (s : Redis) (ep : LVal)
    (hver : a.ver = "0") : run (P4 sk mk rk a ep) s = run (P5 sk mk rk a ep) s :=
  p4_unversioned sk mk rk a s ep hver

/-- **Offsets increase by one per stored publication** (existing epoch, unversioned publish, no cached
result): whenever the script finishes without a Lua/Redis error, the reply is
`{old offset + 1, stored epoch, "0", "0"}`, where the old offset is the meta hash's `s` (0 when absent).
Holds for every stream size, TTL, channel, publish command, payload and delta flag. -/
theorem redis_store_offset_increments (sk mk rk : String) (a : AddArgs) (s : Redis)
    (hr hm : List (String × String)) (e : String) (c : Int)
    (hrk : HashAt s rk hr) (hmiss : a.rexp = "" ∨ hlookup hr "e" = none)
    (hmk : HashAt s mk hm) (he : hlookup hm "e" = some e) (hver : a.ver = "0")
    (hc : curOffset hm = some c) (hsmall : (c + 1).natAbs < 2 ^ 53)
    (r : LVal) (s' : Redis)
    (hrun : run (broker_history_add_stream (keysT sk mk rk) a.argv) s = (.ok r, s')) :
    r = storedReply (.num (c + 1)) (.str e) := by
  rw [redis_idempotent_miss_reaches_epoch_step sk mk rk a s hr hrk hmiss,
    redis_epoch_kept sk mk rk a s hm e hmk he, p4_unversioned sk mk rk a s (.str e) hver] at hrun
  exact p5_ok sk mk rk a s hm e c hmk hc hsmall r s' hrun

/-- **The epoch is created once**: on a channel without epoch the first stored publication is answered with
`new_epoch_if_empty` and offset `old + 1` (1 on a fresh channel). -/
theorem redis_first_publish_creates_epoch (sk mk rk : String) (a : AddArgs) (s : Redis)
    (hr hm : List (String × String)) (c : Int)
    (hrk : HashAt s rk hr) (hmiss : a.rexp = "" ∨ hlookup hr "e" = none)
    (hmk : HashAt s mk hm) (he : hlookup hm "e" = none) (hver : a.ver = "0")
    (hc : curOffset hm = some c) (hsmall : (c + 1).natAbs < 2 ^ 53)
    (r : LVal) (s' : Redis)
    (hrun : run (broker_history_add_stream (keysT sk mk rk) a.argv) s = (.ok r, s')) :
    r = storedReply (.num (c + 1)) (.str a.fresh) := by
  rw [redis_idempotent_miss_reaches_epoch_step sk mk rk a s hr hrk hmiss,
    redis_epoch_created sk mk rk a s hm hmk he, p4_unversioned sk mk rk a _ (.str a.fresh) hver] at hrun
  have hk1 : HashAt (putHash s mk (hset1 hm "e" a.fresh)) mk (hset1 hm "e" a.fresh) :=
    getHash_putHash s mk _ (hset1_ne_nil hm "e" a.fresh)
  have hc1 : curOffset (hset1 hm "e" a.fresh) = some c := by
    unfold curOffset at hc ⊢
    rw [hlookup_hset1_ne hm "e" "s" a.fresh (by decide)]
    exact hc
  exact p5_ok sk mk rk a _ _ a.fresh c hk1 hc1 hsmall r s' hrun

example : curOffset [("e", "E1"), ("v", "5"), ("ve", ""), ("s", "1")] = some 1 := by decide
example : curOffset [] = some 0 := by decide

/-! ### the hypotheses are satisfiable: a concrete state and call -/

/-- a Redis state after one stored publication with version 5 and idempotency key result -/
def demo : Redis :=
  { db := fun k =>
      if k = "m" then some ⟨.hash [("e", "E1"), ("v", "5"), ("ve", ""), ("s", "1")], none⟩
      else if k = "r" then some ⟨.hash [("e", "E1"), ("s", "1")], some 300000⟩
      else if k = "s" then some ⟨.stream [⟨1, 0, ["d", "p1"]⟩] 1 0, some 10000⟩
      else none,
    now := 1000 }

def demoArgs (rexp ver : String) : AddArgs :=
  ⟨"p2", "3", "10", "chan", "0", "E9", "publish", rexp, "", ver, ""⟩

example : HashAt demo "r" [("e", "E1"), ("s", "1")] ∧ hlookup [("e", "E1"), ("s", "1")] "e" = some "E1" :=
  ⟨rfl, rfl⟩
example : HashAt demo "m" [("e", "E1"), ("v", "5"), ("ve", ""), ("s", "1")] := rfl
example : tonumber (.str "5") = .ok (.num 5) ∧ tonumber (.str "3") = .ok (.num 3) ∧
    suppressedOffset [("e", "E1"), ("v", "5"), ("ve", ""), ("s", "1")] = .ok (.num 1) := ⟨rfl, rfl, rfl⟩

/-! ### general facts about the number model the findings rest on -/

/-- Lua formats integer-valued numbers below 10^14 exactly (`"%.14g"`). -/
theorem fmtG14_exact (n : Nat) (h : n < 100000000000000) : fmtG14 (n : Int) = toString n := by
  simp [fmtG14, h]

/-- … and not beyond: offsets from 10^15 on would be written in exponent notation into the PUB/SUB
and list payloads (`"__p1:" .. top_offset`). -/
example : fmtG14 1000000000000000 = "1e+15" := by decide

/-! ### Lean halves of the findings (decided on the witnesses) -/

/-- C18-3: versions are compared as doubles: 2^53 and 2^53+1 are the same number for the script. -/
theorem version_collision_above_2_53 :
    tonumber (.str "9007199254740993") = tonumber (.str "9007199254740992") := by rfl

/-- C18-4: `strconv.Itoa(int(v))` turns 2^63 into a negative numeral. -/
theorem version_int_wrap : RedisGlue.itoaU64 9223372036854775808 = "-9223372036854775808" := by decide

section witnesses
open RedisGlue
set_option maxRecDepth 100000

def pubOut (x : Except GoErr PubRes × Redis) : Option (Nat × String × Suppress) :=
  match x.1 with
  | .ok p => some (p.pos.offset, p.pos.epoch, p.suppress)
  | .error _ => none

def opts (ver : Nat) : POpts := { size := 3, ttl := 600000, version := ver }

/-- C18-3 on the translated script: after version 2^53, version 2^53+1 is suppressed. -/
example :
    let r1 := (publish {} "a" "d1" (opts 9007199254740992) "E1" 1000 {}).2
    pubOut (publish {} "a" "d2" (opts 9007199254740993) "E2" 1001 r1) = some (1, "E1", .version) := by decide

/-- C18-5 (Redis half): an unversioned publish keeps `v`; version 3 after 5, 0 is suppressed. -/
example :
    let r1 := (publish {} "a" "d1" (opts 5) "E1" 1000 {}).2
    let r2 := (publish {} "a" "d2" (opts 0) "E2" 1001 r1).2
    pubOut (publish {} "a" "d3" (opts 3) "E3" 1002 r2) = some (2, "E1", .version) := by decide

/-- C18-2: list storage has no version suppression at all. -/
example :
    let c : Cfg := { useLists := true }
    let r1 := (publish c "a" "d1" (opts 5) "E1" 1000 {}).2
    pubOut (publish c "a" "d2" (opts 3) "E2" 1001 r1) = some (2, "E1", .none) := by decide

/-- C18-7: idempotency key first used without history, then with history: the Go side fails. -/
example :
    let o0 : POpts := { idemKey := "k" }
    let r1 := (publish {} "a" "d1" o0 "E1" 1000 {}).2
    (publish {} "a" "d2" { size := 3, ttl := 600000, idemKey := "k" } "E2" 1001 r1).1
      = .error (.wrongReply "offset") := by rfl

def histOut (x : Except GoErr (List RPub × RPos) × Redis) : Option (List Nat × Nat × String) :=
  match x.1 with
  | .ok (pubs, pos) => some (pubs.map (·.offset), pos.offset, pos.epoch)
  | .error _ => none

/-- C18-8: reverse read with `since` beyond the top returns the stream on Redis. -/
example :
    let r1 := (publish {} "a" "d1" (opts 0) "E1" 1000 {}).2
    histOut (history {} "a" { since := some ⟨4, "E1"⟩, limit := -1, reverse := true } 0 "E2" 1001 r1)
      = some ([1], 1, "E1") := by decide

/-- C18-1: list storage ignores `Reverse`. -/
example :
    let c : Cfg := { useLists := true }
    let r1 := (publish c "a" "d1" (opts 0) "E1" 1000 {}).2
    let r2 := (publish c "a" "d2" (opts 0) "E2" 1001 r1).2
    histOut (history c "a" { limit := -1, reverse := true } 0 "E3" 1002 r2) = some ([1, 2], 2, "E1") := by decide

/-- C18-11: meta TTL 3 s < history TTL 10 s: after 4 s a read returns the old entry under a new epoch
with top offset 0. -/
example :
    let o : POpts := { size := 3, ttl := 10000, metaTTL := 3000 }
    let r1 := (publish {} "a" "d1" o "E1" 1000 {}).2
    histOut (history {} "a" { limit := -1 } 3000 "E2" 5000 r1) = some ([1], 0, "E2") := by decide

end witnesses

end CentrifugeVerif.C18
