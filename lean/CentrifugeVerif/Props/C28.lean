import CentrifugeVerif.Proofs.ControlUnsub
/-!
# C28 — unsubscribe with an empty channel removes all subscriptions

`Node.Unsubscribe` is documented as: "If a channel is empty string then user will be unsubscribed from all
channels."  Model: `Model/ControlUnsub.lean` (cluster of nodes × connections × their subscriptions × the targeting
options; the hub calls are the regenerated `Gen/ControlCodec.lean` ones, so the remote path is the real codec).
`Mode.fixed` is the code as it is (since /repo commit 770c28ff, the fix for finding C28-1); `Mode.preFix` the code before.

* `node_unsubscribe_empty_all` — **the property, at full strength, for the current code**: for every well-formed
  cluster (any number of nodes and connections), calling node, user, option record and every label-filter semantics,
  after `Node.Unsubscribe(user, "")` every addressed connection — on the calling node and on every other node
  alike — has no subscription left, every other connection is untouched, and the effects are exactly the
  per-channel unsubscribe effects (presence removal when the subscription emitted presence, leave when it emitted
  join/leave, `OnUnsubscribe` callback, unsubscribe push naming that channel) of every subscription the addressed
  connections had.  `node_unsubscribe_empty_state / _effects / _only` restate this pointwise.
* History (pre-fix code, `Mode.preFix`): `prefix_unsubscribe_empty_noop` proves that before the fix the call removed
  nothing for any well-formed cluster and only sent unsubscribe pushes with an empty channel name;
  `prefix_counter_witness` is the decided one-connection instance that was finding C28-1.
* `fixed_eq_prefix_of_ne` : for a non-empty channel the two modes coincide (the fix changed nothing else).
-/
namespace CentrifugeVerif.ControlUnsub
open CentrifugeVerif.Gen.ControlCodec

/-- all connections of a cluster are well formed (`ConnWF`: channel names of a connection are distinct and none is
empty — both are guaranteed by `Client.Subscribe` / the subscribe command and the map type of `c.channels`). -/
def ClusterWF (cluster : List (List Conn)) : Prop := ∀ n ∈ cluster, ∀ c ∈ n, ConnWF c

/-- **Main theorem**: the documented behaviour holds for the code as it is (`Mode.fixed`). -/
theorem node_unsubscribe_empty_all (fm : FilterMatch) (valid : GFilterNode → Bool) (cluster : List (List Conn))
    (i : Nat) (user : String) (o : GUnsubscribeOptions) (hwf : ClusterWF cluster)
    (hvalid : ∀ f, o.labelFilter = some f → valid f = true) :
    nodeUnsubscribe .fixed fm valid cluster i user "" o =
      (cluster.map (specConns fm (localUnsubscribe user "" o)),
       cluster.flatMap (specEvents fm (localUnsubscribe user "" o))) := by
  have key : clusterUnsubscribe .fixed fm i user "" o 0 cluster =
      (cluster.map (specConns fm (localUnsubscribe user "" o)),
       cluster.flatMap (specEvents fm (localUnsubscribe user "" o))) := by
    rw [clusterUnsubscribe_eq]
    have h : ∀ n ∈ cluster, hubUnsubscribe .fixed fm (localUnsubscribe user "" o) n =
        (specConns fm (localUnsubscribe user "" o) n, specEvents fm (localUnsubscribe user "" o) n) :=
      fun n hn => hubUnsubscribe_fixed_empty fm _ (local_ch user "" o) n (hwf n hn)
    congr 1
    · exact List.map_congr_left fun n hn => by rw [h n hn]
    · exact flatMap_congr' fun n hn => by rw [h n hn]
  unfold nodeUnsubscribe
  split
  · rename_i f hf
    simp [hvalid f hf, key]
  · exact key

/-- (1) afterwards every addressed connection has no subscriptions; connections that are not addressed are unchanged. -/
theorem node_unsubscribe_empty_state (fm : FilterMatch) (valid : GFilterNode → Bool) (cluster : List (List Conn))
    (i : Nat) (user : String) (o : GUnsubscribeOptions) (hwf : ClusterWF cluster)
    (hvalid : ∀ f, o.labelFilter = some f → valid f = true) :
    ∀ n' ∈ (nodeUnsubscribe .fixed fm valid cluster i user "" o).1, ∀ c' ∈ n',
      ∃ n ∈ cluster, ∃ c ∈ n, c'.id = c.id ∧ c'.user = c.user ∧ c'.session = c.session ∧ c'.labels = c.labels ∧
        (addressed fm (localUnsubscribe user "" o) c = true → c'.subs = []) ∧
        (addressed fm (localUnsubscribe user "" o) c = false → c' = c) := by
  rw [node_unsubscribe_empty_all fm valid cluster i user o hwf hvalid]
  intro n' hn' c' hc'
  obtain ⟨n, hn, rfl⟩ := List.mem_map.mp hn'
  obtain ⟨c, hc, rfl⟩ := List.mem_map.mp hc'
  refine ⟨n, hn, c, hc, ?_⟩
  by_cases ha : addressed fm (localUnsubscribe user "" o) c = true <;> simp [ha]

/-- (2) every subscription an addressed connection had got the usual per-channel effects. -/
theorem node_unsubscribe_empty_effects (fm : FilterMatch) (valid : GFilterNode → Bool) (cluster : List (List Conn))
    (i : Nat) (user : String) (o : GUnsubscribeOptions) (hwf : ClusterWF cluster)
    (hvalid : ∀ f, o.labelFilter = some f → valid f = true)
    (n : List Conn) (hn : n ∈ cluster) (c : Conn) (hc : c ∈ n)
    (ha : addressed fm (localUnsubscribe user "" o) c = true) (s : Sub) (hs : s ∈ c.subs) :
    let evs := (nodeUnsubscribe .fixed fm valid cluster i user "" o).2
    let u := (localUnsubscribe user "" o).unsubscribe
    Ev.callback c.id s.ch u.Code u.Reason ∈ evs ∧ Ev.push c.id s.ch u.Code u.Reason ∈ evs ∧
      (s.emitPresence = true → Ev.presenceRemove c.id s.ch ∈ evs) ∧
      (s.emitJoinLeave = true → Ev.leave c.id s.ch ∈ evs) := by
  intro evs u
  have hin : ∀ e ∈ effects c.id u s, e ∈ evs := by
    intro e he
    show e ∈ (nodeUnsubscribe .fixed fm valid cluster i user "" o).2
    rw [node_unsubscribe_empty_all fm valid cluster i user o hwf hvalid]
    simp only [List.mem_flatMap, specEvents]
    exact ⟨n, hn, c, hc, by simpa [ha] using ⟨s, hs, he⟩⟩
  refine ⟨hin _ (by simp [effects]), hin _ (by simp [effects]), fun hp => hin _ (by simp [effects, hp]),
    fun hj => hin _ (by simp [effects, hj])⟩

/-- (3) nothing else happens: every effect belongs to a subscription of an addressed connection. -/
theorem node_unsubscribe_empty_only (fm : FilterMatch) (valid : GFilterNode → Bool) (cluster : List (List Conn))
    (i : Nat) (user : String) (o : GUnsubscribeOptions) (hwf : ClusterWF cluster)
    (hvalid : ∀ f, o.labelFilter = some f → valid f = true) :
    ∀ e ∈ (nodeUnsubscribe .fixed fm valid cluster i user "" o).2,
      ∃ n ∈ cluster, ∃ c ∈ n, addressed fm (localUnsubscribe user "" o) c = true ∧
        ∃ s ∈ c.subs, e ∈ effects c.id (localUnsubscribe user "" o).unsubscribe s := by
  rw [node_unsubscribe_empty_all fm valid cluster i user o hwf hvalid]
  intro e he
  simp only [List.mem_flatMap, specEvents] at he
  obtain ⟨n, hn, c, hc, he⟩ := he
  by_cases ha : addressed fm (localUnsubscribe user "" o) c = true
  · simp only [ha, if_true, List.mem_flatMap] at he
    exact ⟨n, hn, c, hc, ha, he⟩
  · simp [ha] at he

/-- **The code before the fix** (`Mode.preFix`): with an empty channel nothing was removed anywhere; every addressed
connection only received an unsubscribe push with an empty channel name. -/
theorem prefix_unsubscribe_empty_noop (fm : FilterMatch) (valid : GFilterNode → Bool) (cluster : List (List Conn))
    (i : Nat) (user : String) (o : GUnsubscribeOptions) (hwf : ClusterWF cluster) :
    (nodeUnsubscribe .preFix fm valid cluster i user "" o).1 = cluster ∧
    ∀ e ∈ (nodeUnsubscribe .preFix fm valid cluster i user "" o).2, ∃ cid code reason, e = Ev.push cid "" code reason := by
  have key : clusterUnsubscribe .preFix fm i user "" o 0 cluster =
      (cluster, cluster.flatMap fun n => n.flatMap fun c =>
        if addressed fm (localUnsubscribe user "" o) c then
          [Ev.push c.id "" (localUnsubscribe user "" o).unsubscribe.Code (localUnsubscribe user "" o).unsubscribe.Reason]
        else []) := by
    rw [clusterUnsubscribe_eq]
    have h : ∀ n ∈ cluster, hubUnsubscribe .preFix fm (localUnsubscribe user "" o) n = (n, _) :=
      fun n hn => hubUnsubscribe_preFix_empty fm _ (local_ch user "" o) n (hwf n hn)
    congr 1
    · conv => rhs; rw [← List.map_id cluster]
      exact List.map_congr_left fun n hn => by rw [h n hn]; rfl
    · exact flatMap_congr' fun n hn => by rw [h n hn]
  have hev : ∀ e ∈ (clusterUnsubscribe .preFix fm i user "" o 0 cluster).2,
      ∃ cid code reason, e = Ev.push cid "" code reason := by
    rw [key]
    intro e he
    simp only [List.mem_flatMap] at he
    obtain ⟨n, _, c, _, he⟩ := he
    split at he
    · simp only [List.mem_singleton] at he
      exact ⟨_, _, _, he⟩
    · simp at he
  unfold nodeUnsubscribe
  split
  · split
    · exact ⟨by rw [key], hev⟩
    · exact ⟨rfl, by simp⟩
  · exact ⟨by rw [key], hev⟩

/-- one user, one connection on the calling node subscribed to `ch` with presence and join/leave -/
def witnessCluster : List (List Conn) :=
  [[{ id := "c1", user := "u", session := "", labels := [],
      subs := [{ ch := "ch", emitPresence := true, emitJoinLeave := true }] }]]

/-- the witness satisfies the hypotheses of the theorems above -/
example : ClusterWF witnessCluster := by
  intro n hn c hc
  simp only [witnessCluster, List.mem_singleton] at hn
  subst hn
  simp only [List.mem_singleton] at hc
  subst hc
  exact ⟨by decide, by decide⟩

/-- **Pre-fix counter-witness (finding C28-1, fixed by 770c28ff)**: before the fix `Node.Unsubscribe("u", "")` left
the connection subscribed to `ch` and produced a single unsubscribe push with an empty channel name. -/
theorem prefix_counter_witness :
    nodeUnsubscribe .preFix (fun _ _ => true) (fun _ => true) witnessCluster 0 "u" "" {} =
      (witnessCluster, [Ev.push "c1" "" 2000 "server unsubscribe"]) := by decide

/-- the current code on the same witness -/
example :
    nodeUnsubscribe .fixed (fun _ _ => true) (fun _ => true) witnessCluster 0 "u" "" {} =
      ([[{ id := "c1", user := "u", session := "", labels := [], subs := [] }]],
       [Ev.presenceRemove "c1" "ch", Ev.leave "c1" "ch", Ev.callback "c1" "ch" 2000 "server unsubscribe",
        Ev.push "c1" "ch" 2000 "server unsubscribe"]) := by decide

/-- the fix changed nothing for a non-empty channel -/
theorem fixed_eq_prefix_of_ne (fm : FilterMatch) (valid : GFilterNode → Bool) (cluster : List (List Conn)) (i : Nat)
    (user ch : String) (o : GUnsubscribeOptions) (hch : ch ≠ "") :
    nodeUnsubscribe .fixed fm valid cluster i user ch o = nodeUnsubscribe .preFix fm valid cluster i user ch o := by
  have hc : ∀ (c : Conn) (ch' : String) (u : GUnsubscribe), ch' ≠ "" →
      clientUnsubscribe .fixed c ch' u = clientUnsubscribe .preFix c ch' u := by
    intro c ch' u h
    simp [clientUnsubscribe, h]
  have hh : ∀ (call : UnsubscribeCall), call.ch ≠ "" → ∀ conns,
      hubUnsubscribe .fixed fm call conns = hubUnsubscribe .preFix fm call conns := by
    intro call h conns
    induction conns with
    | nil => rfl
    | cons c cs ih => simp [hubUnsubscribe, ih, hc c call.ch call.unsubscribe h]
  have hcl : clusterUnsubscribe .fixed fm i user ch o 0 cluster = clusterUnsubscribe .preFix fm i user ch o 0 cluster := by
    rw [clusterUnsubscribe_eq, clusterUnsubscribe_eq]
    have : ∀ n, hubUnsubscribe .fixed fm (localUnsubscribe user ch o) n = hubUnsubscribe .preFix fm (localUnsubscribe user ch o) n :=
      fun n => hh _ (by rw [local_ch]; exact hch) n
    simp [this]
  unfold nodeUnsubscribe
  split
  · split
    · exact hcl
    · rfl
  · exact hcl

end CentrifugeVerif.ControlUnsub
