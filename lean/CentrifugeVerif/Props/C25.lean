import CentrifugeVerif.Proofs.Keyed
/-!
# C25 — shared-poll keyed delivery is monotonic and delta-consistent

Model: `Model/Keyed.lean` (sequential `applyRefreshResponse`, `SharedPollPublish`, track / untrack /
revoke / unsubscribe, `keyedWritePublication` with the ghost "bytes the SDK holds").

Proved here, for every state / operation / response:
* `keyed_versions_increase`   every push carries a version strictly above the connection's key version,
                               and the key version becomes the pushed one (per connection and key the
                               pushed versions therefore strictly increase while the key stays tracked);
* `keyed_delta_base_ok`       a delta is pushed only if the channel negotiated delta, the key is
                               deltaReady and its version equals the patch's base version;
* `keyed_delta_applies_partial` if additionally the connection holds the patch's base bytes, it holds the
                               pushed payload afterwards (codec hypothesis built into the model);
* `keyed_no_push_after_untrack`, `keyed_no_push_after_unsubscribe` (unsubscribe, close, epoch-flip unsubscribe)
* `resp_pairs_provided`       applyRefreshResponse emits only (version, data) pairs provided together;
* `resp_version_max`          versioned: the stored version after an item is max(stored, provided);
* `epoch_flip_unsubscribes_all`;
* `stale_track_rejected`      a track whose asynchronous verdict arrives after the subscription ended (or was
                               replaced) changes nothing and is answered with permission denied;
* the `rel` case of `keyed_versions_increase`: a delivery that stalled between the optimistic check and the
  re-check under the lock is dropped unless its version is still above the connection's key version.
Finding C25-1 (decided witness `c25_1_witness`): without KeepLatestData a backend `PrevData` patch is
labelled with the entry's *current* version as base; after a SharedPollPublish raced the poll, that is not
the version `PrevData` belongs to, and the connection that received the publish gets a patch it cannot
apply.  Hence the full delta-consistency statement is false for the model (and the code); the proved
version is `keyed_delta_applies_partial`.
Not proved: eventual delivery under fairness (liveness).
-/
namespace CentrifugeVerif.Keyed

def PushOK : Ev → Prop
  | .push _ _ v prev _ _ => prev < v
  | _ => True

theorem writePub_pushOK (cid : ConnId) (c : Conn) (k : Key) (v : Nat) (d : Data) (prep : Prep) :
    ∀ e ∈ (writePub cid c k v d prep).2, PushOK e := by
  obtain ⟨h1, h2, h3⟩ := writePub_spec cid c k v d prep
  cases hl : alookup k c.keys with
  | none => rw [h2 hl]; simp
  | some ks =>
    by_cases hv : v ≤ ks.version
    · rw [h1 ks hl hv]; simp
    · obtain ⟨delta, res, ks', he, _⟩ := h3 ks hl (Nat.not_le.mp hv)
      rw [he]
      intro e hm
      simp at hm
      subst hm
      exact Nat.not_le.mp hv

/-- generic: a left fold that only appends events satisfying `P` keeps `P`. -/
theorem foldl_events {α σ : Type} (P : Ev → Prop) (f : σ × List Ev → α → σ × List Ev) (l : List α)
    (hf : ∀ acc a, (∀ e ∈ acc.2, P e) → ∀ e ∈ (f acc a).2, P e) :
    ∀ acc, (∀ e ∈ acc.2, P e) → ∀ e ∈ (l.foldl f acc).2, P e := by
  induction l with
  | nil => intro acc h; simpa using h
  | cons a t ih => intro acc h; simp only [List.foldl]; exact ih _ (hf acc a h)

theorem broadcast_pushOK (s : St) (k : Key) (v : Nat) (d : Data) (prep : Prep) :
    ∀ e ∈ (broadcast s k v d prep).2, PushOK e := by
  unfold broadcast
  apply foldl_events PushOK
  · intro acc cid hacc e he
    cases hc : alookup cid acc.1.conns with
    | none => simp [hc] at he; exact hacc e he
    | some c =>
      simp [hc] at he
      rcases he with he | he
      · exact hacc e he
      · exact writePub_pushOK cid c k v d prep e he
  · simp

theorem flipEpoch_pushOK (s : St) (ep : String) : ∀ e ∈ (flipEpoch s ep).2, PushOK e := by
  unfold flipEpoch
  split
  · simp
  · apply foldl_events PushOK
    · intro acc cid hacc e he
      simp at he
      rcases he with he | he
      · exact hacc e he
      · subst he; trivial
    · simp

theorem removeKey_pushOK (s : St) (k : Key) : ∀ e ∈ (removeKey s k).2, PushOK e := by
  unfold removeKey
  simp only
  apply foldl_events PushOK
  · intro acc cid hacc e he
    cases hc : alookup cid acc.1.conns with
    | none => simp [hc] at he; exact hacc e he
    | some c =>
      cases hk : alookup k c.keys with
      | none =>
        simp [hc, hk] at he
        rcases he with he | he
        · exact hacc e he
        · subst he; trivial
      | some ks =>
        simp [hc, hk] at he
        rcases he with he | he
        · exact hacc e he
        · subst he; trivial
  · simp

theorem applyResp_pushOK (s : St) (ep : String) (items : List Item) :
    ∀ e ∈ (applyResp s ep items).2, PushOK e := by
  unfold applyResp
  simp only
  intro e he
  simp only [List.mem_append] at he
  rcases he with (he | he) | he
  · split at he
    · simp at he
    · exact flipEpoch_pushOK _ _ e he
  · revert e
    apply foldl_events PushOK
    · intro acc u hacc e he
      simp at he
      rcases he with he | he
      · exact hacc e he
      · exact broadcast_pushOK _ _ _ _ _ e he
    · simp
  · revert e
    apply foldl_events PushOK
    · intro acc k hacc e he
      simp at he
      rcases he with he | he
      · exact hacc e he
      · exact removeKey_pushOK _ _ e he
    · simp

theorem track_pushOK (s : St) (c : ConnId) (k : Key) (v : Nat) : ∀ e ∈ (track s c k v).2, PushOK e := by
  simp only [track]
  intro e he
  split at he
  · simp at he
  · split at he
    · simp at he
    · simp only at he
      split at he
      · simp at he; subst he; trivial
      · simp at he

theorem writePub3_pushOK (c : Conn) (w : Stalled) : ∀ e ∈ (writePub3 c w).2, PushOK e := by
  unfold writePub3
  split
  · simp
  · rename_i ks _
    by_cases hv : w.version ≤ ks.version
    · simp [hv]
    · simp only [hv, if_false]
      have hlt : ks.version < w.version := Nat.not_le.mp hv
      split
      · split <;> (intro e he; simp at he; subst he; exact hlt)
      · intro e he; simp at he; subst he; exact hlt

/-- **Monotonicity.**  Every push emitted by any operation carries a version strictly greater than the
version the connection held for the key immediately before that push (ghost `prev`). -/
theorem keyed_versions_increase (s : St) (op : Op) : ∀ e ∈ (step s op).2, PushOK e := by
  cases op with
  | sub c d => simp [step]
  | trk c k v => exact track_pushOK s c k v
  | utk c k => simp [step]
  | unsub c => simp [step]
  | close c => simp [step, PushOK]
  | resp ep items => exact applyResp_pushOK s ep items
  | pub k v ep d =>
    simp only [step]
    split
    · simp
    · unfold publish
      split
      · simp
      · simp only
        split
        · exact flipEpoch_pushOK _ _
        · split
          · exact flipEpoch_pushOK _ _
          · intro e he
            simp only [List.mem_append] at he
            rcases he with he | he
            · exact flipEpoch_pushOK _ _ e he
            · exact broadcast_pushOK _ _ _ _ _ e he
  | rvk k =>
    simp only [step, revoke]
    split
    · simp
    · exact removeKey_pushOK s k
  | bgpub k v ep d =>
    simp only [step]
    split
    · simp
    · unfold publishStall
      split
      · simp
      · simp only
        split
        · exact flipEpoch_pushOK _ _
        · split
          · exact flipEpoch_pushOK _ _
          · split
            · split
              · exact flipEpoch_pushOK _ _
              · split
                · exact flipEpoch_pushOK _ _
                · split <;> exact flipEpoch_pushOK _ _
            · exact flipEpoch_pushOK _ _
  | rel =>
    simp only [step, release]
    split
    · simp
    · split
      · simp
      · exact writePub3_pushOK _ _
  | trkd c k v =>
    simp only [step]
    split
    · split
      · simp
      · simp [PushOK]
    · simp
  | tcb =>
    simp only [step, trackCallback]
    split
    · simp
    · split
      · simp
      · split
        · exact track_pushOK _ _ _ _
        · simp [PushOK]

/-- over whole operation sequences -/
theorem keyed_versions_increase_run (s : St) (ops : List Op) : ∀ e ∈ (run s ops).2, PushOK e := by
  induction ops generalizing s with
  | nil => simp [run]
  | cons op rest ih =>
    simp only [run]
    intro e he
    simp only [List.mem_append] at he
    rcases he with he | he
    · exact keyed_versions_increase s op e he
    · exact ih _ e he

/-- the pushed version becomes the connection's key version (so the next push must exceed it) -/
theorem keyed_push_sets_version (cid : ConnId) (c : Conn) (k : Key) (v : Nat) (d : Data) (prep : Prep)
    (ks : KeySt) (h : alookup k c.keys = some ks) (hv : ks.version < v) :
    ∃ ks', alookup k (writePub cid c k v d prep).1.keys = some ks' ∧ ks'.version = v := by
  obtain ⟨_, _, h3⟩ := writePub_spec cid c k v d prep
  obtain ⟨_, _, ks', _, hc, hver, _⟩ := h3 ks h hv
  exact ⟨ks', by rw [hc]; exact alookup_aset_self _ _ _, hver⟩

/-- **Delta base.**  A delta push happens only on a delta channel, for a deltaReady key whose version equals
the version the patch was computed against. -/
theorem keyed_delta_base_ok (cid : ConnId) (c : Conn) (k : Key) (v prev : Nat) (d : Data) (prep : Prep)
    (res : Option Data) (h : Ev.push cid k v prev true res ∈ (writePub cid c k v d prep).2) :
    ∃ ks, alookup k c.keys = some ks ∧ c.delta = true ∧ ks.deltaReady = true ∧
      ks.version = prep.prevVersion ∧ prep.deltaSub = true ∧ prep.prevData.isSome := by
  obtain ⟨h1, h2, h3⟩ := writePub_spec cid c k v d prep
  cases hl : alookup k c.keys with
  | none => rw [h2 hl] at h; simp at h
  | some ks =>
    by_cases hv : v ≤ ks.version
    · rw [h1 ks hl hv] at h; simp at h
    · obtain ⟨delta, res', ks', he, _, _, hd, _⟩ := h3 ks hl (Nat.not_le.mp hv)
      rw [he] at h
      simp at h
      obtain ⟨_, hdel, _⟩ := h
      obtain ⟨a, b, c', base, hb, hs, _⟩ := hd hdel
      exact ⟨ks, rfl, a, b, c', hs, by simp [hb]⟩

/-- **Delta consistency (partial).**  Full statement: "a delta push always applies to the data the
connection currently holds".  Proved under the hypothesis that the connection holds the patch's base
bytes whenever its key version equals the patch's base version (true with KeepLatestData, where base
bytes and base version are read together from the entry; false in general, see `c25_1_witness`). -/
theorem keyed_delta_applies_partial (cid : ConnId) (c : Conn) (k : Key) (v : Nat) (d : Data) (prep : Prep)
    (ks : KeySt) (h : alookup k c.keys = some ks) (hv : ks.version < v)
    (hbase : ks.version = prep.prevVersion → ks.held = prep.prevData) :
    ∃ prev delta ks', (writePub cid c k v d prep).2 = [Ev.push cid k v prev delta (some d)] ∧
      alookup k (writePub cid c k v d prep).1.keys = some ks' ∧ ks'.held = some d ∧ ks'.version = v := by
  obtain ⟨_, _, h3⟩ := writePub_spec cid c k v d prep
  obtain ⟨delta, res, ks', he, hc, hver, hd, hf⟩ := h3 ks h hv
  have hk : alookup k (writePub cid c k v d prep).1.keys = some ks' := by
    rw [hc]; exact alookup_aset_self _ _ _
  cases delta with
  | false =>
    obtain ⟨hr, hh⟩ := hf rfl
    exact ⟨ks.version, false, ks', by rw [he, hr], hk, hh, hver⟩
  | true =>
    obtain ⟨_, _, hpv, base, hb, _, happ⟩ := hd rfl
    obtain ⟨hr, hh⟩ := happ (by rw [hbase hpv, hb])
    exact ⟨ks.version, true, ks', by rw [he, hr], hk, hh, hver⟩

example : (alookup "a" ({ delta := true, keys := [("a", { version := 1, deltaReady := true, held := some "a1" })] } : Conn).keys
    = some { version := 1, deltaReady := true, held := some "a1" }) := by decide

/-- **No push after untrack.** -/
theorem keyed_no_push_after_untrack (s : St) (cid : ConnId) (k : Key) (c' : Conn)
    (h : alookup cid (untrack s cid k).conns = some c') (v : Nat) (d : Data) (prep : Prep) :
    writePub cid c' k v d prep = (c', []) := by
  have hnone : alookup k c'.keys = none := by
    unfold untrack at h
    cases hc : alookup cid s.conns with
    | none => simp [hc] at h
    | some c =>
      cases hk : alookup k c.keys with
      | none =>
        simp [hc, hk] at h
        subst h; exact hk
      | some ks =>
        simp only [hc, hk] at h
        have hms : ∀ st : St, (maybeShutdown st).conns = st.conns := by
          intro st; unfold maybeShutdown; split <;> rfl
        have hcon : ∀ st : St, (hubRemove st k cid).conns = st.conns := by
          intro st; unfold hubRemove; simp only; split
          · rw [hms]
          · rfl
        rw [hcon] at h
        simp only at h
        rw [alookup_aset_self] at h
        cases h
        exact alookup_aerase_self _ _
  exact (writePub_spec cid c' k v d prep).2.1 hnone

theorem maybeShutdown_conns (st : St) : (maybeShutdown st).conns = st.conns := by
  unfold maybeShutdown; split <;> rfl

theorem hubRemove_conns (st : St) (k : Key) (cid : ConnId) : (hubRemove st k cid).conns = st.conns := by
  unfold hubRemove; simp only; split
  · rw [maybeShutdown_conns]
  · rfl

theorem foldl_hubRemove_conns (cid : ConnId) (l : List (Key × KeySt)) (st : St) :
    (l.foldl (fun acc kv => hubRemove acc kv.1 cid) st).conns = st.conns := by
  induction l generalizing st with
  | nil => rfl
  | cons a t ih => simp only [List.foldl]; rw [ih, hubRemove_conns]

/-- **No push after unsubscribe / close / epoch-flip unsubscribe** (`cleanupKeyed`). -/
theorem keyed_no_push_after_unsubscribe (s : St) (cid : ConnId) (c' : Conn)
    (hex : (alookup cid s.conns).isSome)
    (h : alookup cid (cleanupConn s cid).conns = some c') (k : Key) (v : Nat) (d : Data) (prep : Prep) :
    writePub cid c' k v d prep = (c', []) := by
  have hnone : alookup k c'.keys = none := by
    unfold cleanupConn at h
    cases hc : alookup cid s.conns with
    | none => simp [hc] at hex
    | some c =>
      simp only [hc] at h
      rw [alookup_aset_self] at h
      cases h
      rfl
  exact (writePub_spec cid c' k v d prep).2.1 hnone

/-- **Pairs provided together.**  Every update produced for a response item carries the item's data
together with either the item's version, the fresh synthetic version (versionless), or the stored version
in a branch where the stored payload equals the item's payload (unchanged content); or, with
KeepLatestData, the stored (version, data) pair itself. -/
theorem resp_pairs_provided (cfg : Cfg) (cnt : Nat) (entry : Entry) (e : Item) (u : Update)
    (h : (respItem cfg cnt entry e).2.2 = some u) :
    (u.data = e.data ∧ (u.version = e.version ∨ (cfg.versionless = true ∧ u.version = cnt + 1) ∨
        (cfg.versionless = true ∧ u.version = entry.version ∧
          (entry.data = some e.data ∨ entry.hash = some e.data)))) ∨
    (cfg.keep = true ∧ u.version = entry.version ∧ u.data = entry.data.getD "") := by
  unfold respItem unchangedVL changedVL at h
  obtain ⟨uk, uv, ud, upd, upv⟩ := u
  by_cases h1 : cfg.versionless = true <;>
  by_cases h0 : e.version = 0 <;>
  by_cases h2 : entry.version > 0 <;>
  by_cases h3 : cfg.keep = true <;>
  by_cases h4 : entry.data = some e.data <;>
  by_cases h5 : entry.hash = some e.data <;>
  by_cases h6 : entry.needsBroadcast = true <;>
  by_cases h7 : e.version ≤ entry.version <;>
  by_cases h8 : e.version = entry.version <;>
  simp [h0, h1, h2, h3, h4, h5, h6, h7, h8] at h <;> simp_all

/-- **Newest version wins (versioned).**  After an item is processed the stored version is the maximum
of the stored and the provided version. -/
theorem resp_version_max (cfg : Cfg) (cnt : Nat) (entry : Entry) (e : Item)
    (hv : (cfg.versionless && e.version == 0) = false) :
    (respItem cfg cnt entry e).2.1.version = max entry.version e.version := by
  unfold respItem
  simp only [hv]
  by_cases hle : e.version ≤ entry.version
  · have : max entry.version e.version = entry.version := Nat.max_eq_left hle
    rw [this]
    by_cases h3 : cfg.keep = true <;> by_cases h6 : entry.needsBroadcast = true <;>
    by_cases h2 : entry.version > 0 <;> by_cases h8 : e.version = entry.version <;>
    simp [hle, h3, h6, h2, h8]
  · have : max entry.version e.version = e.version := Nat.max_eq_right (Nat.le_of_lt (Nat.not_le.mp hle))
    simp [hle, this]

/-- **Epoch flip.**  A publisher epoch different from the stored one unsubscribes (insufficient state,
code 2500) every client currently present in the keyed hub. -/
theorem epoch_flip_unsubscribes_all (s : St) (ep : String) (hne : s.epoch ≠ ep) (c : ConnId)
    (hc : c ∈ hubClients { s with epoch := ep, entries := s.entries.map fun kv => (kv.1, ({} : Entry)) }) :
    Ev.unsub c 2500 ∈ (flipEpoch s ep).2 := by
  unfold flipEpoch
  simp only [hne, if_false]
  generalize hubClients _ = cl at hc ⊢
  generalize ({ s with epoch := ep, entries := _ } : St) = s1
  suffices H : ∀ (l : List ConnId) (acc : St × List Ev), (c ∈ l ∨ Ev.unsub c 2500 ∈ acc.2) →
      Ev.unsub c 2500 ∈ (l.foldl (fun acc cid => (cleanupConn acc.1 cid, acc.2 ++ [Ev.unsub cid 2500])) acc).2 by
    exact H cl (s1, []) (Or.inl hc)
  intro l
  induction l with
  | nil =>
    intro acc h
    rcases h with h | h
    · cases h
    · simpa using h
  | cons a t ih =>
    intro acc h
    simp only [List.foldl]
    apply ih
    rcases h with h | h
    · rcases List.mem_cons.mp h with h | h
      · right; subst h; simp
      · left; exact h
    · right; simp [h]

/-- **A track request never commits onto another subscription.**  When the OnTrack verdict arrives after the
subscription the request was issued on ended (unsubscribed, or unsubscribed and subscribed again: the
generation differs), nothing is tracked: per-connection state and hub are unchanged and the request is
answered with permission denied. -/
theorem stale_track_rejected (s : St) (p : PendingTrack) (rest : List PendingTrack) (c : Conn)
    (h : s.ptracks = p :: rest) (hc : alookup p.cid s.conns = some c)
    (hg : ¬ (c.subscribed = true ∧ c.gen = p.gen)) :
    (trackCallback s).2 = [Ev.err p.cid 103] ∧ (trackCallback s).1.conns = s.conns ∧
      ((trackCallback s).1.hub = s.hub ∨ (trackCallback s).1.hub = []) ∧
      (trackCallback s).1.entries = s.entries := by
  unfold trackCallback
  simp only [h, hc]
  have : (c.subscribed && c.gen == p.gen) = false := by
    cases hs : c.subscribed <;> simp_all
  simp only [this, Bool.false_eq_true, if_false]
  refine ⟨trivial, maybeShutdown_conns _, ?_, ?_⟩
  · unfold maybeShutdown; split
    · right; rfl
    · left; rfl
  · unfold maybeShutdown; split <;> rfl

/-! ## Finding C25-1: a PrevData patch after a racing publish does not apply -/

def c25_1_ops : List Op :=
  [ .sub "c1" true, .trk "c1" "a" 0,
    .resp "" [{ key := "a", version := 1, data := "a1" }],
    .pub "a" 2 "" "b2",
    .resp "" [{ key := "a", version := 3, data := "a3", prev := some "a1" }] ]

/-- the last response pushes version 3 as a delta against base version 2, but the patch was built from the
payload of version 1: the connection (holding "b2") cannot apply it (`res = none`). -/
theorem c25_1_witness :
    (run { cfg := { versionless := false, keep := false } } c25_1_ops).2 =
      [ Ev.push "c1" "a" 1 0 false (some "a1"), Ev.push "c1" "a" 2 1 false (some "b2"),
        Ev.push "c1" "a" 3 2 true none ] := by
  decide

end CentrifugeVerif.Keyed
