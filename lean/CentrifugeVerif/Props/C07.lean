import CentrifugeVerif.Proofs.SubProto
/-!
# C07 — join and leave events are paired and ordered
-/
namespace CentrifugeVerif.SubProto

theorem applyEff_log_prefix (s : State) (e : Eff) : s.log <+: (applyEff s e).log := by
  cases e <;> simp only [applyEff] <;> (try split) <;> (try split) <;> simp

theorem applyEffs_log_prefix (es : List Eff) (s : State) : s.log <+: (applyEffs s es).log := by
  induction es generalizing s with
  | nil => exact List.prefix_refl _
  | cons e r ih => exact List.IsPrefix.trans (applyEff_log_prefix s e) (ih _)

/-- the broker call log only grows: an emitted join or leave is never retracted or reordered -/
theorem log_only_grows (s s' : State) (l : Label) (hn : next s l = some s') : s.log <+: s'.log := by
  cases l with
  | spawn k ch o =>
    simp only [next, Option.some.injEq] at hn
    subst hn; exact List.prefix_refl _
  | step tid o =>
    simp only [next] at hn
    split at hn
    · cases hn
    · split at hn
      · cases hn
      · simp only [Option.some.injEq] at hn
        subst hn
        exact applyEffs_log_prefix _ { s with threads := setThread s.threads tid _ }

end CentrifugeVerif.SubProto
