import CentrifugeVerif.Proofs.SubProtoNT11
import CentrifugeVerif.Model.SubProtoWitness
/-!
# C07 — join and leave events are paired and ordered

Proved for every reachable state (all labels, all interleavings, failures, timeouts):
* `log_only_grows` — an emitted join or leave is never retracted or reordered;
* `join_leave_only_after_commit` — every join and every leave in the broker call log is preceded by the
  commit (`commitSubscription` installing the context, a ghost event of the model) of the very
  generation it is emitted for.  Hence no join and no leave is emitted for a subscribe attempt that
  failed or was rolled back (such an attempt never commits).

Proved for executions in which the 5 s unsubscribe wait gate never times out (`ReachableNT`):
* `join_at_most_once`, `leave_at_most_once` — for every generation (= every subscription attempt that
  reserved the channel) at most one join and at most one leave is ever published.

The "exactly one, join first" half of the property is FALSE for the code as modelled; the three checked
executions below are replayed on the implementation by the check (findings C07-1, C07-2, C07-3a):
* `leave_can_precede_join` — [leave, join] for one subscription;
* `leave_without_join` — a leave although no join was published;
* `two_joins_one_subscription` — (needs the wait-gate timeout) two joins for one generation.
-/
namespace CentrifugeVerif.SubProto

/-- the broker call log only grows: an emitted join or leave is never retracted or reordered -/
theorem log_only_grows (s s' : State) (l : Label) (hn : next s l = some s') : s.log <+: s'.log := by
  cases l with
  | spawn k ch o =>
    simp only [next, Option.some.injEq] at hn
    subst hn; exact List.prefix_refl _
  | step tid o =>
    obtain ⟨t, effs, t', _, _, rfl⟩ := next_step_some hn
    exact applyEffs_log_prefix _ { s with threads := setThread s.threads tid t' }

/-- Every join and every leave in the log comes after the commit of its generation: nothing is
emitted for an attempt that failed or was rolled back. -/
theorem join_leave_only_after_commit (s : State) (h : Reachable s) (pre suf : List Ev) (ev : Ev)
    (hl : s.log = pre ++ ev :: suf) (ch : Chan) (g : Gen) (hev : ev = .join ch g ∨ ev = .leave ch g) :
    Ev.commit ch g ∈ pre :=
  (reachable_invariant Ghost Ghost.init next_ghost s h).logOk pre ev suf hl ch g hev

/-- a concrete instance of the hypotheses: after a complete client-side subscribe with join/leave
emission the log is [commit, join] -/
example : (run State.init [.spawn .csub 0 ⟨false, true⟩, .step 0 .ok, .step 0 .ok, .step 0 .ok, .step 0 .ok,
    .step 0 .ok, .step 0 .ok, .step 0 .ok, .step 0 .ok, .step 0 .ok, .step 0 .ok]).map (·.log) =
    some [.replyOk 0, .commit 0 1, .join 0 1] := by decide

/-- (no wait-gate timeout) at most one join is ever published for a generation -/
theorem join_at_most_once (s : State) (h : ReachableNT s) (ch : Chan) (g : Gen) :
    List.count (Ev.join ch g) s.log ≤ 1 :=
  (reachableNT_invAll s h).l6.J2 ch g

/-- (no wait-gate timeout) at most one leave is ever published for a generation -/
theorem leave_at_most_once (s : State) (h : ReachableNT s) (ch : Chan) (g : Gen) :
    List.count (Ev.leave ch g) s.log ≤ 1 :=
  (reachableNT_invAll s h).l6.L2 ch g

/-
`join_leave_paired` (full statement, false on the model and on the implementation):
  Reachable s → s.settled → c07Ok s = true
-/

theorem leave_can_precede_join :
    (run State.init wLeaveBeforeJoin).map (fun s => (settledB s, s.log.filter (fun e => e matches .join .. | .leave ..), c07Ok s)) =
      some (true, [.leave 0 1, .join 0 1], false) := by decide

theorem leave_without_join :
    (run State.init wLeaveWithoutJoin).map (fun s => (settledB s, s.log.filter (fun e => e matches .join .. | .leave ..), c07CountOk s)) =
      some (true, [.leave 0 1], false) := by decide

theorem two_joins_one_subscription :
    (run State.init wTwoJoins).map (fun s => (settledB s, s.log.filter (fun e => e matches .join .. | .leave ..), c07Ok s)) =
      some (true, [.join 0 2, .join 0 2, .leave 0 2], false) := by decide

end CentrifugeVerif.SubProto
