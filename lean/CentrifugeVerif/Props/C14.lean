import CentrifugeVerif.Model.Delta
import CentrifugeVerif.Model.DeltaTok
import CentrifugeVerif.Proofs.Delta
/-!
# C14 — delta-encoded publications reconstruct the published data

All theorems are parametric in the codec (`create`, `apply`, `len`, `escape`, `unescape`) with the
hypotheses `RoundTrip` (`apply b (create b t) = some t`, sampled on every run against the real
`fdelta`) and `EscOK` (`unescape (escape x) = x`).  They hold for every payload sequence, every
`UseDelta` pattern and every outcome of the "patch not smaller ⇒ send full" test.

What is NOT true of the current code (decided counter-witnesses at the end, known findings):
* C14-1  `EscOK` fails for the JSON protocol on patches that are not valid UTF-8;
* C14-2  after a recovery whose newest publication was withheld by a tags filter the first live
         publication is a delta against the withheld publication;
* C14-3  a recovery with nothing to recover sets `flagDeltaAllowed` although the client may never
         have received the publication at its position;
* C14-4  a map subscription with a tags filter gets live deltas against state values it never got.
So the end-to-end statements carry the hypothesis that the client holds the base (`Chained`,
`MapChained`), and `stream_delta_reconstructs` derives it from C01's contiguity for unfiltered
positioned subscriptions.
-/
namespace CentrifugeVerif.C14
open CentrifugeVerif.Delta

variable {B : Type}

/-! ## stream subscriptions -/

/-- the recovered list of `makeRecoveredPubsDeltaFossil` is reconstructed from ANY client state
(first publication full, every further one against its predecessor in the list) -/
theorem recovered_tail_reconstructs (c : Codec B) (hc : c.RoundTrip) (he : c.EscOK) (prev : B) (ps : List (Pub B)) :
    Client.recvAll c { held := some prev } (recoveredTail c prev ps) = some (ps.map (·.data)) := by
  induction ps generalizing prev with
  | nil => rfl
  | cons p ps ih =>
    simp only [recoveredTail, Client.recvAll, List.map_cons]
    rw [recv_encodeAgainst c hc he (some prev) (some prev) p (fun b h => h)]
    simp [ih p.data]

theorem recovered_reconstructs (c : Codec B) (hc : c.RoundTrip) (he : c.EscOK) (held : Option B) (ps : List (Pub B)) :
    Client.recvAll c { held := held } (makeRecovered c ps) = some (ps.map (·.data)) := by
  cases ps with
  | nil => rfl
  | cons p ps =>
    simp only [makeRecovered, Client.recvAll, List.map_cons]
    rw [recv_encodeFull c he held p]
    simp [recovered_tail_reconstructs c hc he p.data ps]

/-- the base condition of a run of live publications: whenever the subscription is allowed to
receive a delta and the broker (or the channel medium) reported a previous publication, the client
holds exactly that payload.  With `flag = false` the first publication needs no base. -/
def Chained : Bool → Option B → List (Option B × Pub B) → Prop
  | _, _, [] => True
  | flag, held, (prev, p) :: rest =>
    (flag = true → ∀ b, prev = some b → held = some b) ∧ Chained true (some p.data) rest

/-- live pushes under the first-full rule: every push is reconstructed -/
theorem live_reconstructs (c : Codec B) (hc : c.RoundTrip) (he : c.EscOK) (flag : Bool) (held : Option B)
    (ls : List (Option B × Pub B)) (hch : Chained flag held ls) :
    Client.recvAll c { held := held } (liveRun c flag ls) = some (ls.map (·.2.data)) := by
  induction ls generalizing flag held with
  | nil => rfl
  | cons e rest ih =>
    obtain ⟨prev, p⟩ := e
    obtain ⟨h1, h2⟩ := hch
    simp only [liveRun, Client.recvAll, List.map_cons]
    have hr : Client.recv c { held := held } (liveStep c flag prev p).1 = some p.data := by
      cases flag with
      | false => simp [liveStep, recv_encodeFull c he held p]
      | true => simp [liveStep, recv_encodeAgainst c hc he held prev p (h1 rfl)]
    rw [hr]
    simp [ih true (some p.data) h2]

/-- subscribe reply with a recovered list followed by live pushes (`flagDeltaAllowed` set by the
successful recovery) -/
theorem recovered_then_live_reconstructs (c : Codec B) (hc : c.RoundTrip) (he : c.EscOK) (held : Option B)
    (rec : List (Pub B)) (ls : List (Option B × Pub B))
    (hch : Chained true (lastOr held (rec.map (·.data))) ls) :
    Client.recvAll c { held := held } (makeRecovered c rec ++ liveRun c true ls)
      = some (rec.map (·.data) ++ ls.map (·.2.data)) := by
  rw [recvAll_append c _ _ held _ (recovered_reconstructs c hc he held rec)]
  rw [live_reconstructs c hc he true _ ls hch]
  rfl

/-- publications `a+1 … a+n` of a stream whose payload at offset `o` is `s o` -/
def streamPubs (s : Nat → B) : Nat → Nat → List (Pub B)
  | _, 0 => []
  | a, n + 1 => { off := a + 1, data := s (a + 1) } :: streamPubs s (a + 1) n

/-- live deliveries `a+1 … a+m` as a broker with contiguous offsets reports them: `prevPub` is the
publication at the previous offset, or absent (`UseDelta` off, history trimmed/expired) -/
def streamLives (s : Nat → B) (u : Nat → Bool) : Nat → Nat → List (Option B × Pub B)
  | _, 0 => []
  | a, m + 1 => (if u (a + 1) then some (s a) else none, { off := a + 1, data := s (a + 1) }) :: streamLives s u (a + 1) m

theorem chained_streamLives (s : Nat → B) (u : Nat → Bool) (a m : Nat) :
    Chained true (some (s a)) (streamLives s u a m) := by
  induction m generalizing a with
  | zero => trivial
  | succ m ih =>
    refine ⟨?_, ih (a + 1)⟩
    intro _ b hb
    by_cases hu : u (a + 1) <;> simp [hu] at hb
    rw [hb]

theorem lastOr_streamPubs (s : Nat → B) (a n : Nat) :
    lastOr (some (s a)) ((streamPubs s a n).map (·.data)) = some (s (a + n)) := by
  induction n generalizing a with
  | zero => rfl
  | succ n ih =>
    simp only [streamPubs, List.map_cons, lastOr]
    rw [ih (a + 1)]
    congr 2
    omega

/-- **stream_delta_reconstructs** — positioned subscription without tags filter, C01's contiguity:
the client saved position `a`, the reply recovers offsets `a+1 … a+n`, then offsets
`a+n+1 … a+n+m` arrive live, each with `prevPub` = the publication one offset below (or none).
If the client holds the payload of its saved position whenever nothing is recovered (`n = 0`),
it reconstructs exactly the published payload of every offset, in order. -/
theorem stream_delta_reconstructs (c : Codec B) (hc : c.RoundTrip) (he : c.EscOK)
    (s : Nat → B) (u : Nat → Bool) (a n m : Nat) (held : Option B)
    (hheld : n = 0 → held = some (s a)) :
    Client.recvAll c { held := held } (makeRecovered c (streamPubs s a n) ++ liveRun c true (streamLives s u (a + n) m))
      = some ((streamPubs s a n).map (·.data) ++ (streamLives s u (a + n) m).map (·.2.data)) := by
  apply recovered_then_live_reconstructs c hc he
  cases n with
  | zero =>
    rw [hheld rfl]
    exact chained_streamLives s u a m
  | succ n =>
    have : lastOr held ((streamPubs s a (n + 1)).map (·.data)) = some (s (a + (n + 1))) := by
      simp only [streamPubs, List.map_cons, lastOr]
      rw [lastOr_streamPubs s (a + 1) n]
      congr 2
      omega
    rw [this]
    exact chained_streamLives s u (a + (n + 1)) m

/-- fresh (not recovered) subscription: `flagDeltaAllowed` is unset, the first live publication is
sent in full whatever the client holds, the rest chains -/
theorem fresh_stream_reconstructs (c : Codec B) (hc : c.RoundTrip) (he : c.EscOK)
    (s : Nat → B) (u : Nat → Bool) (a m : Nat) (held : Option B) :
    Client.recvAll c { held := held } (liveRun c false (streamLives s u a m))
      = some ((streamLives s u a m).map (·.2.data)) := by
  apply live_reconstructs c hc he
  cases m with
  | zero => trivial
  | succ m => exact ⟨fun h => Bool.noConfusion h, chained_streamLives s u (a + 1) m⟩

/-- non-positioned subscription behind a channel medium with `KeepLatestPublication`: the delta base
is the medium's `latestPublication` (the previous broadcast on this node) when the publication was
published with `UseDelta`, else none -/
def mediumLives : Option B → List (Bool × Pub B) → List (Option B × Pub B)
  | _, [] => []
  | latest, (u, p) :: rest => (if u then latest else none, p) :: mediumLives (some p.data) rest

theorem chained_mediumLives (b : B) (ps : List (Bool × Pub B)) :
    Chained true (some b) (mediumLives (some b) ps) := by
  induction ps generalizing b with
  | nil => trivial
  | cons e rest ih =>
    obtain ⟨u, p⟩ := e
    refine ⟨?_, ih p.data⟩
    intro _ b' hb
    cases u <;> simp at hb
    rw [hb]

/-- a subscriber that joins at any moment (whatever the medium's latest publication and whatever the
client holds) and then receives every broadcast reconstructs every publication: first one full,
then deltas against the previous broadcast -/
theorem medium_stream_reconstructs (c : Codec B) (hc : c.RoundTrip) (he : c.EscOK)
    (latest held : Option B) (ps : List (Bool × Pub B)) :
    Client.recvAll c { held := held } (liveRun c false (mediumLives latest ps)) = some (ps.map (·.2.data)) := by
  have : (mediumLives latest ps).map (·.2.data) = ps.map (·.2.data) := by
    induction ps generalizing latest with
    | nil => rfl
    | cons e rest ih => obtain ⟨u, p⟩ := e; simp [mediumLives, ih]
  rw [← this]
  apply live_reconstructs c hc he
  cases ps with
  | nil => trivial
  | cons e rest =>
    obtain ⟨u, p⟩ := e
    exact ⟨fun h => Bool.noConfusion h, chained_mediumLives p.data rest⟩

/-- the hypotheses of `stream_delta_reconstructs` are satisfiable by a codec that really patches:
`create b t = []` when `t = b`, else `0 :: t`. -/
def exCodec : Codec (List Nat) where
  create := fun b t => if b = t then [] else 0 :: t
  apply := fun b d => match d with | [] => some b | _ :: t => some t
  len := List.length
  escape := id
  unescape := id

theorem exCodec_ok : exCodec.RoundTrip ∧ exCodec.EscOK := by
  refine ⟨?_, fun _ => rfl⟩
  intro b t
  by_cases h : b = t <;> simp [exCodec, h]

example : (makeRecovered exCodec (streamPubs (fun o => [o / 2]) 0 3)).map (·.delta) = [false, false, true] := by decide

/-! ## full payload whenever there is no base -/

theorem full_when_flag_unset (c : Codec B) (prev : Option B) (p : Pub B) :
    (liveStep c false prev p).1.delta = false ∧ (liveStep c false prev p).1.data = c.escape p.data := by
  simp [liveStep, encodeFull, encodeAgainst]

theorem full_when_no_prev (c : Codec B) (flag : Bool) (p : Pub B) :
    (liveStep c flag none p).1.delta = false ∧ (liveStep c flag none p).1.data = c.escape p.data := by
  cases flag <;> simp [liveStep, encodeFull, encodeAgainst]

theorem full_first_recovered (c : Codec B) (p : Pub B) (ps : List (Pub B)) :
    ((makeRecovered c (p :: ps)).head?.map (·.delta)) = some false := by
  simp [makeRecovered, encodeFull, encodeAgainst]

theorem full_when_patch_not_smaller (c : Codec B) (b : B) (p : Pub B)
    (h : c.len (c.create b p.data) ≥ c.len p.data) :
    (encodeAgainst c (some b) p).delta = false ∧ (encodeAgainst c (some b) p).data = c.escape p.data := by
  simp [encodeAgainst, h]

/-- **full_when_no_base**: a delta is put on the wire only by `encodeAgainst` with a base, i.e.
never with `flagDeltaAllowed` unset, never without a reported previous publication, never as the
first publication of a recovered list. -/
theorem full_when_no_base (c : Codec B) (flag : Bool) (prev : Option B) (p : Pub B)
    (hd : (liveStep c flag prev p).1.delta = true) :
    flag = true ∧ ∃ b, prev = some b ∧ c.len (c.create b p.data) < c.len p.data := by
  cases flag with
  | false => simp [liveStep, encodeFull, encodeAgainst] at hd
  | true =>
    cases prev with
    | none => simp [liveStep, encodeAgainst] at hd
    | some b =>
      refine ⟨rfl, b, rfl, ?_⟩
      by_cases hlen : c.len (c.create b p.data) ≥ c.len p.data
      · simp [liveStep, encodeAgainst, hlen] at hd
      · omega

/-! ## map subscriptions: one base per key -/

/-- server-side `prevByKey` is contained in what the client holds -/
def Sub (srv cl : List (Nat × B)) : Prop := ∀ k b, lookup srv k = some b → lookup cl k = some b

theorem sub_insert (srv cl : List (Nat × B)) (k : Nat) (v : B) (h : Sub srv cl) :
    Sub (insert srv k v) (insert cl k v) := by
  intro k' b hb
  by_cases hk : k' = k
  · subst hk
    rw [lookup_insert_same] at hb ⊢
    exact hb
  · rw [lookup_insert_ne _ _ _ _ hk] at hb ⊢
    exact h k' b hb

theorem sub_erase (srv cl : List (Nat × B)) (k : Nat) (h : Sub srv cl) : Sub (erase srv k) (erase cl k) := by
  intro k' b hb
  by_cases hk : k' = k
  · subst hk
    rw [lookup_erase_same] at hb
    cases hb
  · rw [lookup_erase_ne _ _ _ hk] at hb ⊢
    exact h k' b hb

theorem mapRecv_encodeAgainst (c : Codec B) (hc : c.RoundTrip) (he : c.EscOK)
    (cl : MapClient B) (prev : Option B) (p : Pub B) (hrm : p.removed = false)
    (hbase : ∀ b, prev = some b → lookup cl.vals p.key = some b) :
    MapClient.recv c cl (encodeAgainst c prev p) = some ({ vals := insert cl.vals p.key p.data }, p.data) := by
  cases prev with
  | none => simp [encodeAgainst, MapClient.recv, he p.data, hrm]
  | some b =>
    have hh := hbase b rfl
    unfold encodeAgainst
    by_cases hlen : c.len (c.create b p.data) ≥ c.len p.data
    · simp [hlen, MapClient.recv, he p.data, hrm]
    · simp [hlen, MapClient.recv, he (c.create b p.data), hc b p.data, hrm, hh]

/-- **map_delta_per_key** (recovered list): `makeRecoveredMapPubsDeltaFossil` — per-key bases,
removals forget the key — is reconstructed from any client state that contains the server's
`prevByKey` (in particular from every state when `prevByKey` is empty, as in the code). -/
theorem map_recovered_go (c : Codec B) (hc : c.RoundTrip) (he : c.EscOK)
    (srv : List (Nat × B)) (cl : MapClient B) (ps : List (Pub B)) (hsub : Sub srv cl.vals) :
    ∃ cl', MapClient.recvAll c cl (makeRecoveredMapGo c srv ps) = some (cl', ps.map (·.data)) := by
  induction ps generalizing srv cl with
  | nil => exact ⟨cl, rfl⟩
  | cons p ps ih =>
    by_cases hrm : p.removed = true
    · simp only [makeRecoveredMapGo, if_pos hrm, MapClient.recvAll, List.map_cons]
      have hr : MapClient.recv c cl { off := p.off, delta := false, data := c.escape p.data, key := p.key, removed := true }
          = some ({ vals := erase cl.vals p.key }, p.data) := by
        simp [MapClient.recv, he p.data]
      rw [hr]
      obtain ⟨cl', h'⟩ := ih (erase srv p.key) { vals := erase cl.vals p.key } (sub_erase srv cl.vals p.key hsub)
      exact ⟨cl', by simp [h']⟩
    · have hrm' : p.removed = false := by cases h : p.removed <;> simp_all
      simp only [makeRecoveredMapGo, if_neg hrm, MapClient.recvAll, List.map_cons]
      rw [mapRecv_encodeAgainst c hc he cl (lookup srv p.key) p hrm' (fun b hb => hsub p.key b hb)]
      obtain ⟨cl', h'⟩ := ih (insert srv p.key p.data) { vals := insert cl.vals p.key p.data }
        (sub_insert srv cl.vals p.key p.data hsub)
      exact ⟨cl', by simp [h']⟩

theorem map_delta_per_key (c : Codec B) (hc : c.RoundTrip) (he : c.EscOK) (cl : MapClient B) (ps : List (Pub B)) :
    ∃ cl', MapClient.recvAll c cl (makeRecoveredMap c ps) = some (cl', ps.map (·.data)) :=
  map_recovered_go c hc he [] cl ps (fun _ _ h => by simp [lookup] at h)

/-- base condition for live map publications (`flagDeltaAllowed` is set from the start by
`buildMapChannelFlags`): the reported previous value of the key is what the client holds for it -/
def MapChained : List (Nat × B) → List (Option B × Pub B) → Prop
  | _, [] => True
  | vals, (prev, p) :: rest =>
    (p.removed = true → prev = none) ∧ (∀ b, prev = some b → lookup vals p.key = some b) ∧
      MapChained (if p.removed then erase vals p.key else insert vals p.key p.data) rest

theorem map_live_per_key (c : Codec B) (hc : c.RoundTrip) (he : c.EscOK) (cl : MapClient B)
    (ls : List (Option B × Pub B)) (hch : MapChained cl.vals ls) :
    ∃ cl', MapClient.recvAll c cl (liveRun c true ls) = some (cl', ls.map (·.2.data)) := by
  induction ls generalizing cl with
  | nil => exact ⟨cl, rfl⟩
  | cons e rest ih =>
    obtain ⟨prev, p⟩ := e
    obtain ⟨h0, h1, h2⟩ := hch
    simp only [liveRun, liveStep, if_true, MapClient.recvAll, List.map_cons]
    by_cases hrm : p.removed = true
    · have hp := h0 hrm
      subst hp
      have hr : MapClient.recv c cl (encodeAgainst c none p) = some ({ vals := erase cl.vals p.key }, p.data) := by
        simp [encodeAgainst, MapClient.recv, hrm, he p.data]
      rw [hr]
      rw [if_pos hrm] at h2
      obtain ⟨cl', h'⟩ := ih { vals := erase cl.vals p.key } h2
      exact ⟨cl', by simp [h']⟩
    · have hrm' : p.removed = false := by cases h : p.removed <;> simp_all
      rw [mapRecv_encodeAgainst c hc he cl prev p hrm' h1]
      rw [if_neg hrm] at h2
      obtain ⟨cl', h'⟩ := ih { vals := insert cl.vals p.key p.data } h2
      exact ⟨cl', by simp [h']⟩

/-! ## keyed (shared poll) delta -/
open Keyed in
/-- **keyed_delta_base_ok**: `keyedWritePublication` sends the prepared delta only when the
connection's version of the key equals the version the patch was built against (and a full
payload was delivered before: `deltaReady`). -/
theorem keyed_delta_base_ok (c : Codec B) (ks : KeyState) (v : Nat) (data : B) (prep : Prep B)
    (ks' : KeyState) (w : WPub B) (h : write c ks v data prep = (ks', .wire w true)) :
    ks.version = prep.prevVersion ∧ ks.deltaReady = true ∧ prep.deltaSub = true ∧ ks.version < v := by
  unfold write at h
  by_cases hv : v ≤ ks.version
  · simp [hv] at h
  · simp only [hv, if_false, Prod.mk.injEq, Sent.wire.injEq] at h
    obtain ⟨_, _, hu⟩ := h
    simp only [Bool.and_eq_true, decide_eq_true_eq] at hu
    exact ⟨hu.2, hu.1.2, hu.1.1.1, by omega⟩

open Keyed in
/-- and then the client, which holds the data of its version whenever `deltaReady`, reconstructs
the new data; the invariant is re-established (`sd` = the server's data per version) -/
theorem keyed_reconstructs (c : Codec B) (hc : c.RoundTrip) (he : c.EscOK) (sd : Nat → B)
    (ks : KeyState) (held : Option B) (hinv : ks.deltaReady = true → held = some (sd ks.version))
    (v pv : Nat) (dflt : B) (prev : Option Nat) :
    let prep := buildPrep c (sd v) (prev.map fun pv => (sd pv, pv)) dflt
    match write c ks v (sd v) prep with
    | (_, .skipped) => v ≤ ks.version
    | (ks', .wire w _) => Client.recv c { held := held } w = some (sd v) ∧ ks'.version = v ∧ ks'.deltaReady = true := by
  intro prep
  unfold write
  by_cases hv : v ≤ ks.version
  · simp [hv]
  · simp only [hv, if_false]
    refine ⟨?_, by simp⟩
    cases prev with
    | none => simp [prep, buildPrep, Client.recv, he (sd v)]
    | some pv' =>
      by_cases hr : ks.deltaReady = true
      · by_cases hver : ks.version = pv'
        · have hh := hinv hr
          subst hver
          by_cases hlen : c.len (c.create (sd ks.version) (sd v)) < c.len (sd v)
          · simp [prep, buildPrep, hr, hlen, Client.recv, hh, he (c.create (sd ks.version) (sd v)), hc (sd ks.version) (sd v)]
          · simp [prep, buildPrep, hr, hlen, Client.recv, he (sd v)]
        · simp [prep, buildPrep, hr, hver, Client.recv, he (sd v)]
      · simp [prep, buildPrep, hr, Client.recv, he (sd v)]

/-! ## what the current code does NOT guarantee (decided counter-witnesses = known findings) -/

/-- symbolic table: every patch is smaller than its target; entry 2 = patch not valid UTF-8 -/
def tblSmall : Nat → Nat → Nat := fun _ _ => 1
def tblUtf8 : Nat → Nat → Nat := fun _ _ => 2

/-- C14-1: in the JSON protocol a patch that is not valid UTF-8 does not survive `json.Escape`:
`EscOK` is false, and a two-publication live run is not reconstructed although the client holds the
right base. -/
theorem finding_json_escape_not_injective : ¬ (tokCodec tblUtf8 true).EscOK := by
  intro h
  have := h (.patch (.pay 0) (.pay 1))
  simp [tokCodec, Tok.entry, tblUtf8] at this

example : Client.recvAll (tokCodec tblUtf8 true) { held := none }
    (liveRun (tokCodec tblUtf8 true) false [(none, { off := 1, data := .pay 0 }), (some (.pay 0), { off := 2, data := .pay 1 })])
    = none := by decide

/-- C14-2: `isStreamRecovered` withholds filtered publications from the recovered list, but the
first live delta is built against the broker's previous publication — here offset 2 (payload 1),
withheld by the filter; the client holds payload 0 and cannot apply it. -/
def recoveredFiltered (c : Codec B) (ps : List (Pub B)) : List (WPub B) := makeRecovered c (ps.filter (·.pass))

theorem finding_filtered_recovery_breaks_chain :
    Client.recvAll (tokCodec tblSmall false) { held := none }
      (recoveredFiltered (tokCodec tblSmall false)
          [{ off := 1, data := .pay 0 }, { off := 2, data := .pay 1, pass := false }]
        ++ liveRun (tokCodec tblSmall false) true [(some (.pay 1), { off := 3, data := .pay 2 })]) = none := by
  decide

/-- C14-3: recovery succeeds with nothing to recover (client position = stream top) and sets
`flagDeltaAllowed`; a client that never received the publication at its position (it subscribed
there) gets the next publication as a delta without a base. -/
theorem finding_empty_recovery_delta_without_base :
    Client.recvAll (tokCodec tblSmall false) { held := none }
      (makeRecovered (tokCodec tblSmall false) []
        ++ liveRun (tokCodec tblSmall false) true [(some (.pay 0), { off := 6, data := .pay 1 })]) = none := by
  decide

/-- C14-4: map subscription with a tags filter: the state entry of key 7 was withheld, the live
update of key 7 is a delta against it (`flagDeltaAllowed` is set from the start for maps). -/
theorem finding_map_filtered_state_delta :
    MapClient.recvAll (tokCodec tblSmall false) { vals := [] }
      (liveRun (tokCodec tblSmall false) true [(some (.pay 0), { off := 2, data := .pay 1, key := 7 })]) = none := by
  decide

/-- … while the same runs ARE reconstructed when the client holds the base (the theorems above) -/
example : Client.recvAll (tokCodec tblSmall false) { held := some (.pay 0) }
    (liveRun (tokCodec tblSmall false) true [(some (.pay 0), { off := 6, data := .pay 1 })]) = some [.pay 1] := by decide

end CentrifugeVerif.C14
