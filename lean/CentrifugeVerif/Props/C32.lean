import CentrifugeVerif.Proofs.SSEFraming
import CentrifugeVerif.Proofs.HTTPStreamFraming
/-!
# C32 — SSE and HTTP-stream framing deliver each message intact

`SSE.body`, `HTTPStream.jsonBody`, `HTTPStream.protoBody` are what the handlers write for the
sequence of messages handed to the transport; `EventSource.parse`, `Lines.split`,
`Varint.decodeFrames` are the standards-conforming client-side decoders (`Spec/EventSource.lean`).

For Protobuf the round trip is proved for all byte strings.  For the JSON transports the only
hypothesis is `NoRawLF` (no message contains a raw LF): the external JSON encoder
(`protocol.Raw.MarshalJSON`) strips `\n`, and the check asserts it for every frame on every run.
Raw CR — legal insignificant white space of a JSON payload, not stripped by the encoder — is harmless
for the HTTP-stream and is removed by the SSE handler since commit 68b38e53 (finding C32-1, fixed):
the SSE client receives the message minus its raw CR bytes, a JSON-equal text (the check compares
them as JSON values).  Before the fix the theorem needed `NoRawNewline` and had the decided
counter-witness `parse (rawBody [{"a":\r1}]) = [{"a":]`, kept below as `sse_cr_broke_raw_framing`.
-/
namespace CentrifugeVerif.C32
open CentrifugeVerif.EventSource CentrifugeVerif.HTTPStream

/-- framing byte strings *as they are* is only safe without raw CR/LF (the pre-68b38e53 handler) -/
theorem sse_raw_frames_parse (msgs : List Bytes) (h : NoRawNewline msgs) :
    parse (SSE.rawBody msgs) = msgs.map (fun m => (⟨[], m, []⟩ : Event)) := by
  unfold parse SSE.rawBody
  have hb : stripBOM (SSE.preamble ++ msgs.flatMap SSE.rawFrame) = SSE.preamble ++ msgs.flatMap SSE.rawFrame := by
    simp [SSE.preamble, stripBOM]
  rw [hb, List.foldl_append, preamble_noop, feed_frames msgs {} h ⟨rfl, rfl, rfl, rfl⟩]
  simp

theorem sse_body_eq_raw (msgs : List Bytes) : SSE.body msgs = SSE.rawBody (msgs.map SSE.stripCR) := by
  unfold SSE.body SSE.rawBody SSE.frame
  rw [List.flatMap_map]

/-- **SSE**: if no message contains a raw LF, an EventSource client dispatches exactly one `message`
event per message, in order, whose data is the message without its raw CR bytes (and no `id`/`event`
is set). -/
theorem sse_parse_frame (msgs : List Bytes) (h : NoRawLF msgs) :
    parse (SSE.body msgs) = msgs.map (fun m => (⟨[], SSE.stripCR m, []⟩ : Event)) := by
  rw [sse_body_eq_raw, sse_raw_frames_parse]
  · simp [List.map_map, Function.comp_def]
  · intro m hm b hb
    rw [List.mem_map] at hm
    obtain ⟨m0, hm0, rfl⟩ := hm
    have hf := List.mem_filter.mp hb
    exact ⟨h m0 hm0 b hf.1, by simpa using hf.2⟩

/-- messages without raw CR arrive byte for byte -/
theorem sse_parse_frame_exact (msgs : List Bytes) (h : NoRawNewline msgs) :
    parse (SSE.body msgs) = msgs.map (fun m => (⟨[], m, []⟩ : Event)) := by
  rw [sse_parse_frame msgs (fun m hm b hb => (h m hm b hb).1)]
  apply List.map_congr_left
  intro m hm
  have : SSE.stripCR m = m := by
    unfold SSE.stripCR
    rw [List.filter_eq_self]
    intro b hb
    simpa using (h m hm b hb).2
  rw [this]

/-- **HTTP-stream, JSON**: if no message contains a raw LF, the LF-delimited records of the body
are exactly the messages, in order (CR inside a message is harmless here). -/
theorem httpstream_json_parse (msgs : List Bytes) (h : NoRawLF msgs) :
    Lines.split (jsonBody msgs) = msgs := by
  unfold Lines.split jsonBody
  induction msgs with
  | nil => simp [Lines.splitAcc]
  | cons m ms ih =>
    simp only [List.flatMap_cons, List.append_assoc, List.singleton_append]
    rw [splitAcc_plain m _ [] (h m (by simp))]
    rw [ih (fun m' hm' => h m' (by simp [hm']))]
    simp


/-- **HTTP-stream, Protobuf**: for *all* byte strings (any bytes, any lengths, empty messages
included) the varint length-prefixed body decodes to exactly the messages, in order. -/
theorem httpstream_proto_parse (msgs : List Bytes) :
    Varint.decodeFrames (protoBody msgs) = some msgs :=
  decodeFramesAux_body msgs _ (Nat.le_refl _)


/-- the varint length prefix alone round-trips for every length and leaves the rest untouched -/
theorem uvarint_roundtrip (n : Nat) (rest : Bytes) :
    Varint.readUvarint (uvarint n ++ rest) 1 0 = some (n, rest) := readUvarint_uvarint n rest

/-! ### the hypotheses are satisfiable and necessary -/

example : NoRawNewline [ascii "{\"id\":1,\"connect\":{}}", ascii "{}"] := by unfold NoRawNewline; decide
example : NoRawLF [ascii "{\"a\":\r1}"] := by unfold NoRawLF; decide

/-- a raw LF inside a message still splits / truncates the SSE event (`NoRawLF` is necessary) … -/
theorem sse_lf_breaks_event :
    parse (SSE.body [ascii "{\"a\":\n1}"]) = [⟨[], ascii "{\"a\":", []⟩] := by decide

/-- … a raw CR no longer does: the former witness of finding C32-1 arrives as one event with the
JSON-equal text `{"a":1}` … -/
theorem sse_cr_dropped :
    parse (SSE.body [ascii "{\"a\":\r1}"]) = [⟨[], ascii "{\"a\":1}", []⟩] := by decide

/-- … whereas framing it as it is (the handler before 68b38e53) truncated the event at the CR -/
theorem sse_cr_broke_raw_framing :
    parse (SSE.rawBody [ascii "{\"a\":\r1}"]) = [⟨[], ascii "{\"a\":", []⟩] := by decide

/-- a raw LF inside a message splits the HTTP-stream record -/
theorem json_lf_breaks_record :
    Lines.split (jsonBody [ascii "{\"a\":\n1}"]) = [ascii "{\"a\":", ascii "1}"] := by decide

/-- Protobuf framing is insensitive to CR/LF and to bytes that look like length prefixes -/
example : Varint.decodeFrames (protoBody [[10, 13, 0, 255], [], [2, 10]]) = some [[10, 13, 0, 255], [], [2, 10]] := by
  decide

end CentrifugeVerif.C32
