import CentrifugeVerif.Proofs.SSEFraming
import CentrifugeVerif.Proofs.HTTPStreamFraming
/-!
# C32 — SSE and HTTP-stream framing deliver each message intact

`SSE.body`, `HTTPStream.jsonBody`, `HTTPStream.protoBody` are what the handlers write for the
sequence of messages handed to the transport; `EventSource.parse`, `Lines.split`,
`Varint.decodeFrames` are the standards-conforming client-side decoders (`Spec/EventSource.lean`).

Full statement of the property: *for every message list the JSON / Protobuf protocol can produce*
the decoders return exactly that list.  For Protobuf this is proved for all byte strings.  For the
JSON transports it needs that no message contains the record separator:

* HTTP-stream: no raw LF — guaranteed by the external JSON encoder (`protocol.Raw.MarshalJSON`
  strips `\n`), asserted on every run of the check;
* SSE: no raw LF **and no raw CR**.  The encoder does *not* strip CR, and CR is legal insignificant
  white space of a JSON payload, so the unconditional statement is false for SSE
  (finding C32-1, counter-witness `sse_cr_breaks_event` below); the theorem is therefore the
  `_partial` one with the excluding hypothesis `NoRawNewline`.
-/
namespace CentrifugeVerif.C32
open CentrifugeVerif.EventSource CentrifugeVerif.HTTPStream

/-- **SSE**: if no message contains a raw CR/LF, an EventSource client dispatches exactly one
`message` event per message, in order, whose data is the message (and no `id`/`event` is set). -/
theorem sse_parse_frame_partial (msgs : List Bytes) (h : NoRawNewline msgs) :
    parse (SSE.body msgs) = msgs.map (fun m => (⟨[], m, []⟩ : Event)) := by
  unfold parse SSE.body
  have hb : stripBOM (SSE.preamble ++ msgs.flatMap SSE.frame) = SSE.preamble ++ msgs.flatMap SSE.frame := by
    simp [SSE.preamble, stripBOM]
  rw [hb, List.foldl_append, preamble_noop, feed_frames msgs {} h ⟨rfl, rfl, rfl, rfl⟩]
  simp


/-- **HTTP-stream, JSON**: if no message contains a raw LF, the LF-delimited records of the body
are exactly the messages, in order (CR inside a message is harmless here). -/
theorem httpstream_json_parse (msgs : List Bytes) (h : NoRawLF msgs) :
    Lines.split (jsonBody msgs) = msgs := by
  unfold Lines.split jsonBody
  induction msgs with
  | nil => simp [Lines.splitAcc]
  | cons m ms ih =>
    simp only [List.flatMap_cons, List.append_assoc, List.singleton_append]
    rw [splitAcc_plain m _ [] (h m (by simp))]
    rw [ih (fun m' hm' => h m' (by simp [hm']))]
    simp


/-- **HTTP-stream, Protobuf**: for *all* byte strings (any bytes, any lengths, empty messages
included) the varint length-prefixed body decodes to exactly the messages, in order. -/
theorem httpstream_proto_parse (msgs : List Bytes) :
    Varint.decodeFrames (protoBody msgs) = some msgs :=
  decodeFramesAux_body msgs _ (Nat.le_refl _)


/-- the varint length prefix alone round-trips for every length and leaves the rest untouched -/
theorem uvarint_roundtrip (n : Nat) (rest : Bytes) :
    Varint.readUvarint (uvarint n ++ rest) 1 0 = some (n, rest) := readUvarint_uvarint n rest

/-! ### the hypotheses are satisfiable and necessary -/

example : NoRawNewline [ascii "{\"id\":1,\"connect\":{}}", ascii "{}"] := by unfold NoRawNewline; decide
example : NoRawLF [ascii "{\"a\":\r1}"] := by unfold NoRawLF; decide

/-- a raw LF inside a message splits / truncates the SSE event … -/
theorem sse_lf_breaks_event :
    parse (SSE.body [ascii "{\"a\":\n1}"]) = [⟨[], ascii "{\"a\":", []⟩] := by decide

/-- … and so does a raw CR (**finding C32-1**: `{"a":\r1}` is a payload the JSON protocol accepts and
hands to the SSE transport unchanged; the client receives the event data `{"a":`). -/
theorem sse_cr_breaks_event :
    parse (SSE.body [ascii "{\"a\":\r1}"]) = [⟨[], ascii "{\"a\":", []⟩] := by decide

theorem sse_cr_not_intact :
    parse (SSE.body [ascii "{\"a\":\r1}"]) ≠ [⟨[], ascii "{\"a\":\r1}", []⟩] := by decide

/-- removing raw CR/LF bytes from a message (both are only insignificant white space in a JSON text;
inside JSON strings they are always escaped) -/
def stripCRLF (m : Bytes) : Bytes := m.filter (fun b => b != 10 && b != 13)

/-- a possible repair of finding C32-1 is sound for **all** messages: if `handler_sse.go` (or the JSON
encoder, as it already does for LF) dropped raw CR/LF bytes, every message would arrive as exactly
one event carrying the stripped (JSON-equivalent) text. -/
theorem sse_strip_fix_sound (msgs : List Bytes) :
    parse (SSE.body (msgs.map stripCRLF)) = (msgs.map stripCRLF).map (fun m => (⟨[], m, []⟩ : Event)) := by
  apply sse_parse_frame_partial
  intro m hm b hb
  rw [List.mem_map] at hm
  obtain ⟨m0, _, rfl⟩ := hm
  have := (List.mem_filter.mp hb).2
  simpa using this

/-- a raw LF inside a message splits the HTTP-stream record -/
theorem json_lf_breaks_record :
    Lines.split (jsonBody [ascii "{\"a\":\n1}"]) = [ascii "{\"a\":", ascii "1}"] := by decide

/-- Protobuf framing is insensitive to CR/LF and to bytes that look like length prefixes -/
example : Varint.decodeFrames (protoBody [[10, 13, 0, 255], [], [2, 10]]) = some [[10, 13, 0, 255], [], [2, 10]] := by
  decide

end CentrifugeVerif.C32
