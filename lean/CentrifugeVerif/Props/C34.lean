import CentrifugeVerif.Proofs.RedisKeys
import CentrifugeVerif.Proofs.CRC16
/-!
# C34 — Redis cluster keys for one operation share a hash slot

Key builders: `Gen/RedisKeys.lean` (regenerated from the Go `strings.Builder` code on every run),
grouped per Lua script in `Model/RedisKeys.lean`; slot function: `Spec/RedisSlot.lean`
(CRC-16/XMODEM bit by bit + Redis' hash-tag rule); Go's own `redisSlot` (table driven) is proved
equal to the specification (`crc16_table_eq_bitwise`, `goRedisSlot_eq_spec`).

The property as stated ("for every channel name") is **false** for the non-sharded cluster
scheme `prefix.xxx.{channel}`: an empty channel or a channel starting with `}` yields the empty
hash tag `{}`, Redis then hashes the whole key, and the keys of one script land in different
slots (`keys_not_same_slot_*`, finding C34-1).  `keys_same_slot_*` are proved under the precondition
`TagOK channel` (non-empty, first byte ≠ `}`) that the proof forces; the partition-tag scheme
needs no condition on the channel.
-/
namespace CentrifugeVerif.RedisKeys
open CentrifugeVerif.Spec.RedisSlot
open CentrifugeVerif.Gen.RedisKeys

/-! ## CRC16 / slot function of the Go code = specification -/

theorem crc16_table_eq_bitwise (bs : List UInt8) : CRC16.goCrc16 bs = crc16 bs :=
  CRC16.crc16_table_eq_bitwise bs

theorem goRedisSlot_eq_spec (key : List UInt8) : CRC16.goRedisSlot key = slot key :=
  CRC16.goRedisSlot_eq_spec key

/-! ## Same slot -/

def NoBrace (p : Bytes) : Prop := ∀ b ∈ p, b ≠ 123

instance (p : Bytes) : Decidable (NoBrace p) := by unfold NoBrace; infer_instance

/-- **RedisBroker, cluster without partitions** (`prefix.stream.{ch}` …): for every prefix without
`{`, every idempotency key, both history kinds, and every channel that is non-empty and does not
start with `}`, the keys + PUB/SUB channel of the add-history script and of the idempotent-publish
script share one slot. -/
theorem keys_same_slot_broker_cluster (e : Env) (useLists : Bool) (hp : NoBrace e.prefix) (hc : TagOK e.ch) :
    (∀ k1 ∈ brokerAddHistoryKeys true false useLists, ∀ k2 ∈ brokerAddHistoryKeys true false useLists,
      slot (render e k1) = slot (render e k2)) ∧
    (∀ k1 ∈ brokerPublishIdempotentKeys true false useLists, ∀ k2 ∈ brokerPublishIdempotentKeys true false useLists,
      slot (render e k1) = slot (render e k2)) := by
  constructor
  · exact keys_same_slot_generic e _ .ch (by cases useLists <;> decide) hp hc
  · exact keys_same_slot_generic e _ .ch (by cases useLists <;> decide) hp hc

/-- **RedisBroker, cluster with sharded PUB/SUB partitions** (`prefix.stream.{tag}.ch` …): for
**every** channel (also empty, with braces, dots), given a brace-free prefix and a partition tag
that is non-empty and does not start with `}` (decimal index or bundled tag, see C35). -/
theorem keys_same_slot_broker_sharded (e : Env) (useLists : Bool) (hp : NoBrace e.prefix) (ht : TagOK e.tag) :
    (∀ k1 ∈ brokerAddHistoryKeys true true useLists, ∀ k2 ∈ brokerAddHistoryKeys true true useLists,
      slot (render e k1) = slot (render e k2)) ∧
    (∀ k1 ∈ brokerPublishIdempotentKeys true true useLists, ∀ k2 ∈ brokerPublishIdempotentKeys true true useLists,
      slot (render e k1) = slot (render e k2)) := by
  constructor
  · exact keys_same_slot_generic e _ .tag (by cases useLists <;> decide) hp ht
  · exact keys_same_slot_generic e _ .tag (by cases useLists <;> decide) hp ht

/-- **RedisPresenceManager, cluster** (`prefix.presence.data.{ch}` …), any partition setting. -/
theorem keys_same_slot_presence (e : Env) (sharded useLists : Bool) (hp : NoBrace e.prefix) (hc : TagOK e.ch) :
    ∀ k1 ∈ presenceKeys true sharded useLists, ∀ k2 ∈ presenceKeys true sharded useLists,
      slot (render e k1) = slot (render e k2) :=
  keys_same_slot_generic e _ .ch (by cases sharded <;> cases useLists <;> decide) hp hc

/-- **RedisMapBroker, cluster** (always partitioned: `prefix:stream:{tag}.ch` …): every channel. -/
theorem keys_same_slot_mapBroker (e : Env) (useLists : Bool) (hp : NoBrace e.prefix) (ht : TagOK e.tag) :
    ∀ k1 ∈ mapBrokerKeys true true useLists, ∀ k2 ∈ mapBrokerKeys true true useLists,
      slot (render e k1) = slot (render e k2) :=
  keys_same_slot_generic e _ .tag (by cases useLists <;> decide) hp ht

/-- All four statements together: `keys_same_slot`. -/
theorem keys_same_slot (e : Env) (sharded useLists : Bool) (hp : NoBrace e.prefix)
    (hc : TagOK e.ch) (ht : TagOK e.tag) :
    (∀ k1 ∈ brokerAddHistoryKeys true sharded useLists, ∀ k2 ∈ brokerAddHistoryKeys true sharded useLists,
      slot (render e k1) = slot (render e k2)) ∧
    (∀ k1 ∈ brokerPublishIdempotentKeys true sharded useLists, ∀ k2 ∈ brokerPublishIdempotentKeys true sharded useLists,
      slot (render e k1) = slot (render e k2)) ∧
    (∀ k1 ∈ presenceKeys true sharded useLists, ∀ k2 ∈ presenceKeys true sharded useLists,
      slot (render e k1) = slot (render e k2)) ∧
    (∀ k1 ∈ mapBrokerKeys true true useLists, ∀ k2 ∈ mapBrokerKeys true true useLists,
      slot (render e k1) = slot (render e k2)) := by
  refine ⟨?_, ?_, keys_same_slot_presence e sharded useLists hp hc, keys_same_slot_mapBroker e useLists hp ht⟩
  · cases sharded
    · exact (keys_same_slot_broker_cluster e useLists hp hc).1
    · exact (keys_same_slot_broker_sharded e useLists hp ht).1
  · cases sharded
    · exact (keys_same_slot_broker_cluster e useLists hp hc).2
    · exact (keys_same_slot_broker_sharded e useLists hp ht).2

/-- the hypotheses hold for ordinary values (prefix "centrifuge", channel "news:{x}.y", tag "ms3") -/
example : NoBrace [99, 101, 110, 116] ∧ TagOK [110, 101, 119, 115, 58, 123, 120, 125, 46, 121] ∧ TagOK [109, 115, 51] := by
  refine ⟨by decide, by decide, by decide⟩

/-- the slot is that of the channel's bytes before its first `}` — e.g. channel `a}b` is fine -/
example : TagOK [97, 125, 98] := by decide

/-! ## The excluded channels really break the property (finding C34-1) -/

def envOf (ch : Bytes) : Env := { «prefix» := [99], ch := ch, tag := [], idem := [105, 100] }

/-- channel `}x`: stream key and meta key of the same script hash to different slots -/
theorem keys_not_same_slot_brace :
    slot (render (envOf [125, 120]) (broker_historyStreamKey true false false)) ≠
    slot (render (envOf [125, 120]) (broker_historyMetaKey true false false)) := by decide +kernel

/-- empty channel -/
theorem keys_not_same_slot_empty :
    slot (render (envOf []) (broker_historyStreamKey true false false)) ≠
    slot (render (envOf []) (broker_historyMetaKey true false false)) := by decide +kernel

/-- FULL STATEMENT (false): `keys_same_slot` without `TagOK e.ch`. -/
theorem keys_same_slot_needs_channel_condition :
    ¬ ∀ (e : Env), NoBrace e.prefix → ∀ k1 ∈ brokerAddHistoryKeys true false false,
        ∀ k2 ∈ brokerAddHistoryKeys true false false, slot (render e k1) = slot (render e k2) := by
  intro h
  exact keys_not_same_slot_brace (h (envOf [125, 120]) (by decide) _ (by decide) _ (by decide))

/-- a prefix containing `{` without a closing tag of its own also breaks it -/
theorem keys_not_same_slot_prefix_brace :
    slot (render { «prefix» := [97, 123, 98], ch := [120], tag := [], idem := [] } (broker_historyStreamKey true false false)) ≠
    slot (render { «prefix» := [97, 123, 98], ch := [120], tag := [], idem := [] } (broker_historyMetaKey true false false)) := by
  decide +kernel

/-! ## The receiving node recovers the channel name -/

def NoDot (t : Bytes) : Prop := ∀ b ∈ t, b ≠ 46

instance (t : Bytes) : Decidable (NoDot t) := by unfold NoDot; infer_instance

/-- `RedisBroker.extractChannel (messageChannelID ch) = ch` for every channel and prefix, in every
configuration `NewRedisBroker` accepts (`sharded → cluster`); with partitions the tag must not
contain `.` (true for decimal indices and the bundled tags). -/
theorem extractChannel_messageChannelID (e : Env) (cluster sharded useLists : Bool)
    (hv : sharded = true → cluster = true) (ht : NoDot e.tag) :
    brokerExtractChannel e.prefix sharded cluster (render e (broker_messageChannelID cluster sharded useLists)) = e.ch := by
  cases cluster <;> cases sharded <;> cases useLists <;> simp at hv
  all_goals
    simp only [broker_messageChannelID, render, renderPart, brokerExtractChannel, List.append_nil]
  · have : e.prefix ++ ([46, 99, 108, 105, 101, 110, 116, 46] ++ e.ch) = (e.prefix ++ clientInfix) ++ e.ch := by
      simp [clientInfix]
    rw [this, trimPrefix_append]; simp
  · have : e.prefix ++ ([46, 99, 108, 105, 101, 110, 116, 46] ++ e.ch) = (e.prefix ++ clientInfix) ++ e.ch := by
      simp [clientInfix]
    rw [this, trimPrefix_append]; simp
  · have : e.prefix ++ ([46, 99, 108, 105, 101, 110, 116, 46, 123] ++ (e.ch ++ [125])) =
        (e.prefix ++ clientInfix) ++ (123 :: (e.ch ++ [125])) := by simp [clientInfix]
    rw [this, trimPrefix_append]
    have hl : (123 :: (e.ch ++ [125])).getLast? = some 125 := by
      have : (123 :: (e.ch ++ [125]) : Bytes) = (123 :: e.ch) ++ [125] := by simp
      rw [this, List.getLast?_concat]
    simp [hl]
    omega
  · have : e.prefix ++ ([46, 99, 108, 105, 101, 110, 116, 46, 123] ++ (e.ch ++ [125])) =
        (e.prefix ++ clientInfix) ++ (123 :: (e.ch ++ [125])) := by simp [clientInfix]
    rw [this, trimPrefix_append]
    have hl : (123 :: (e.ch ++ [125])).getLast? = some 125 := by
      have : (123 :: (e.ch ++ [125]) : Bytes) = (123 :: e.ch) ++ [125] := by simp
      rw [this, List.getLast?_concat]
    simp [hl]
    omega
  · have : e.prefix ++ ([46, 99, 108, 105, 101, 110, 116, 46, 123] ++ (e.tag ++ ([125, 46] ++ e.ch))) =
        (e.prefix ++ clientInfix) ++ (123 :: (e.tag ++ 125 :: 46 :: e.ch)) := by simp [clientInfix]
    rw [this, trimPrefix_append]
    have hno : ∀ b ∈ (123 :: (e.tag ++ [125]) : Bytes), b ≠ 46 := by
      intro b hb
      simp only [List.mem_cons, List.mem_append, List.not_mem_nil, or_false] at hb
      rcases hb with hb | hb | hb
      · subst hb; decide
      · exact ht b hb
      · subst hb; decide
    have hi := indexByte_append_notin 46 _ e.ch hno
    have hre : (123 :: (e.tag ++ 125 :: 46 :: e.ch) : Bytes) = (123 :: (e.tag ++ [125])) ++ 46 :: e.ch := by simp
    rw [hre, hi]
    simp only [List.cons_append, List.length_cons]
    have hd : ∀ (h : Bytes) (c : UInt8) (p : Bytes), (h ++ c :: p).drop (h.length + 1) = p := by
      intro h c p; induction h with
      | nil => simp
      | cons a t ih => simpa using ih
    have := hd (123 :: (e.tag ++ [125])) 46 e.ch
    simpa using this
  · have : e.prefix ++ ([46, 99, 108, 105, 101, 110, 116, 46, 123] ++ (e.tag ++ ([125, 46] ++ e.ch))) =
        (e.prefix ++ clientInfix) ++ (123 :: (e.tag ++ 125 :: 46 :: e.ch)) := by simp [clientInfix]
    rw [this, trimPrefix_append]
    have hno : ∀ b ∈ (123 :: (e.tag ++ [125]) : Bytes), b ≠ 46 := by
      intro b hb
      simp only [List.mem_cons, List.mem_append, List.not_mem_nil, or_false] at hb
      rcases hb with hb | hb | hb
      · subst hb; decide
      · exact ht b hb
      · subst hb; decide
    have hi := indexByte_append_notin 46 _ e.ch hno
    have hre : (123 :: (e.tag ++ 125 :: 46 :: e.ch) : Bytes) = (123 :: (e.tag ++ [125])) ++ 46 :: e.ch := by simp
    rw [hre, hi]
    simp only [List.cons_append, List.length_cons]
    have hd : ∀ (h : Bytes) (c : UInt8) (p : Bytes), (h ++ c :: p).drop (h.length + 1) = p := by
      intro h c p; induction h with
      | nil => simp
      | cons a t ih => simpa using ih
    have := hd (123 :: (e.tag ++ [125])) 46 e.ch
    simpa using this



/-- the same for `RedisMapBroker.extractChannel` (accepted configurations: cluster ↔ partitions) -/
theorem mapBroker_extractChannel_messageChannelID (e : Env) (cluster useLists : Bool) (ht : NoDot e.tag) :
    mapBrokerExtractChannel e.prefix cluster (render e (mapBroker_messageChannelID cluster cluster useLists)) = e.ch := by
  have hb := extractChannel_messageChannelID e cluster cluster useLists (fun h => h) ht
  cases cluster <;> cases useLists <;>
    simpa [mapBrokerExtractChannel, brokerExtractChannel, mapBroker_messageChannelID, broker_messageChannelID] using hb

end CentrifugeVerif.RedisKeys
