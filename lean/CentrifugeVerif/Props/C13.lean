import CentrifugeVerif.Proofs.ChanWriter
/-!
# C13 — per-channel batching preserves order and coalesces correctly

Theorems over `Model/ChanWriter.lean` (`channelWriter`), for **every** sequence of adds (any batch size /
delay, any key pattern), timer firings of any timer identity at any moment (also cancelled ones), and
closes.  `CW.run` returns the batches handed to the flush callback in order.

The cross-lock part of the statement ("nothing is delivered after the subscription ended") is *not*
provable for the code: `perChannelWriter.Add` is `getWriter` followed by `w.Add` without a common lock,
and the client calls it after its subscribed check; see `add_after_del_is_flushed` (a `decide`d
witness at the `perChannelWriter` level) and the report.
-/
namespace CentrifugeVerif.ChanWriter

/-- **Order, no loss, no duplication** (plain mode).  For a channel whose adds all come with
`FlushLatestPublication = false` and that is never closed without flush: the concatenation of all
flushed batches followed by what is still buffered is exactly the sequence of added items. -/
theorem chan_order (ops : List Op) (hops : ∀ op ∈ ops, op.plainMode = true) :
    (({} : CW).run ops).2.flatten ++ (({} : CW).run ops).1.buffer = adds ops := by
  have := (run_plain {} rfl ops hops).1
  simpa using this

/-- **Latest-publication mode.**  For a channel whose adds all come with `FlushLatestPublication = true`
and that is never closed without flush: every flushed batch is exactly `coalesce pending`, where
`pending` are the items added since the previous flush — the join/leave pushes in their order followed
by the newest publication of each key in last-update order (`dedupLast`: an entry is kept iff no later
entry has its key).  `runP` is `run` instrumented with `pending` (`runP_fst`: same batches). -/
theorem latest_mode_flush (ops : List Op) (hops : ∀ op ∈ ops, op.latestMode = true) :
    (∀ p ∈ ({} : CW).runP [] ops, p.1 = coalesce p.2) ∧
      (({} : CW).runP [] ops).map Prod.fst = (({} : CW).run ops).2 :=
  ⟨runP_latest {} [] ⟨⟨rfl, rfl⟩, Or.inr rfl⟩ ops hops, runP_fst {} [] ops⟩

/-- a cancelled / superseded timer goroutine that still observes its timer firing changes nothing and
flushes nothing -/
theorem stale_timer_noop (w : CW) (id : Nat) (h : w.timer ≠ some id) : w.fire id = (w, none) := by
  simp [CW.fire, h]

/-- **Nothing buffered survives a close without flush.**  `close(false)` (what `delWriter(ch, false)` and
`Close(false)` do to a channel writer) flushes nothing, and whatever happens to that writer afterwards
(adds, stale or fresh timers, further closes), every item of every later batch was added *after* the
close — for any state `w` the writer was in, i.e. any history. -/
theorem closed_no_flush (w : CW) (ops : List Op) :
    (w.close false).2 = none ∧
      ∀ b ∈ ((w.close false).1.run ops).2, ∀ x ∈ b, x ∈ adds ops := by
  refine ⟨by simp [CW.close], ?_⟩
  intro b hb x hx
  rcases run_mem (w.close false).1 ops b hb x hx with h | h | h
  · simp [CW.close] at h
  · simp [CW.close] at h
  · exact h

/-- nothing is invented: every flushed item was added (or was already held) -/
theorem flushed_was_added (ops : List Op) : ∀ b ∈ (({} : CW).run ops).2, ∀ x ∈ b, x ∈ adds ops := by
  intro b hb x hx
  rcases run_mem {} ops b hb x hx with h | h | h
  · cases h
  · cases h
  · exact h

/-! Non-vacuity. -/

/-- plain mode, size 2: two batches and one item left buffered -/
example :
    (({} : CW).run [.add ⟨1, 0, .pub⟩ ⟨2, 0, false⟩, .add ⟨2, 0, .join⟩ ⟨2, 0, false⟩,
      .add ⟨3, 0, .pub⟩ ⟨2, 5, false⟩, .fire 0, .add ⟨4, 0, .pub⟩ ⟨2, 5, false⟩]).2 =
      [[⟨1, 0, .pub⟩, ⟨2, 0, .join⟩], [⟨3, 0, .pub⟩]] := by decide

/-- latest mode: key 1 updated twice, key 2 once, a join in between; the timer (identity 0) flushes
`join, pub(key 2), pub(key 1 newest)` -/
example :
    (({} : CW).run [.add ⟨1, 1, .pub⟩ ⟨0, 5, true⟩, .add ⟨2, 2, .pub⟩ ⟨0, 5, true⟩, .add ⟨3, 0, .join⟩ ⟨0, 5, true⟩,
      .add ⟨4, 1, .pub⟩ ⟨0, 5, true⟩, .fire 0]).2 = [[⟨3, 0, .join⟩, ⟨2, 2, .pub⟩, ⟨4, 1, .pub⟩]] := by decide

example : coalesce [⟨1, 1, .pub⟩, ⟨2, 2, .pub⟩, ⟨3, 0, .join⟩, ⟨4, 1, .pub⟩] =
    [⟨3, 0, .join⟩, ⟨2, 2, .pub⟩, ⟨4, 1, .pub⟩] := by decide

/-- the quirk outside both modes: publications coalesced under `FlushLatestPublication = true` are
dropped when the last add before the flush came with `false` -/
example :
    (({} : CW).run [.add ⟨1, 1, .pub⟩ ⟨0, 5, true⟩, .add ⟨2, 2, .pub⟩ ⟨0, 5, false⟩, .fire 0]).2 =
      [[⟨2, 2, .pub⟩]] := by decide

/-- **The gap** (`perChannelWriter` level): a handle obtained by `getWriter` before `delWriter(ch, false)`
still accepts an `Add` afterwards, arms a timer, and the item is flushed to the connection after the
channel's writer was removed.  (`perChannelWriter.Add` entirely after `delWriter` does the same through a
freshly created writer.) -/
theorem add_after_del_is_flushed :
    let p0 : PCW := {}
    let (p1, h) := p0.getWriter 7
    let (p2, _) := p1.del 7 false
    let (p3, b3) := p2.addH h ⟨1, 0, .pub⟩ ⟨0, 5, false⟩
    let (_, out) := PCW.sleep 3 p3 5 []
    b3 = none ∧ out = [[[⟨1, 0, .pub⟩]]] := by decide

end CentrifugeVerif.ChanWriter
