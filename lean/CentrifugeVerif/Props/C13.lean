import CentrifugeVerif.Model.ChanWriter
/-!
# C13 — per-channel batching preserves order and coalesces correctly (first theorem; more below)
-/
namespace CentrifugeVerif.ChanWriter

/-- a cancelled / superseded timer goroutine that still observes its timer firing changes nothing and
flushes nothing -/
theorem stale_timer_noop (w : CW) (id : Nat) (h : w.timer ≠ some id) : w.fire id = (w, none) := by
  simp [CW.fire, h]

end CentrifugeVerif.ChanWriter
