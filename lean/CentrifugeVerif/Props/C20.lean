import CentrifugeVerif.Model.MapHub
/-!
# C20 — the memory map broker implements the map-state specification
-/
namespace CentrifugeVerif.MapHub

/-- validated stream-backed options always have a positive stream size. -/
theorem resolve_stream_size_pos (r : RawCfg) (c : Cfg) (h : resolve r = some c) (hs : c.hasStream = true) :
    0 < c.streamSize := by
  unfold resolve at h
  repeat (split at h <;> try (simp at h))
  all_goals
    obtain ⟨_, _, _, _, _, rfl⟩ := h
    simp [Cfg.hasStream] at hs ⊢
    repeat' split
    all_goals omega

end CentrifugeVerif.MapHub
