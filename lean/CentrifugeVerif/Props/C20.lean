import CentrifugeVerif.Proofs.MapHub
import CentrifugeVerif.Proofs.MapHubRefine
/-!
# C20 — the memory map broker implements the map-state specification

Theorems about the executable model `Model/MapHub.lean` of `MemoryMapBroker` (`/repo/map_broker_memory.go`):

* T1 the suppress reason of `mapHub.add` is the specification's decision `decideSup`
  (version, then key mode, then compare-and-swap);
* T2/T3 a suppressed operation (and an error) changes nothing observable, appends nothing and
  broadcasts nothing — with the one documented exception (`RefreshTTLOnSuppress`), which only moves
  the deadline of the existing entry;
* T4 an unsuppressed operation on a stream-backed channel appends exactly one stream entry with
  offset `top + 1` and is broadcast exactly once with that offset; other channels and other keys are
  untouched;
* T5 compare-and-swap compares the stored publication's offset and the channel epoch;
* T6 structural invariants (`HubInv`) hold after every op sequence;
* T7 refinement: through the abstraction `RefMap.abs` the model's step is the step of the reference map
  `Spec/RefMap.lean` (state = fold of the unsuppressed operations), with identical outputs.

Helper definitions (`chanFor`, `decideSup`, `chanView`, `ChanInv`, `HubInv`) and lemmas are in
`Proofs/MapHub.lean`.
-/
namespace CentrifugeVerif.MapHub

/-- validated stream-backed options always have a positive stream size. -/
theorem resolve_stream_size_pos (r : RawCfg) (c : Cfg) (h : resolve r = some c) (hs : c.hasStream = true) :
    0 < c.streamSize := by
  unfold resolve at h
  repeat (split at h <;> try (simp at h))
  all_goals
    obtain ⟨_, _, _, _, _, rfl⟩ := h
    simp [Cfg.hasStream] at hs ⊢
    repeat' split
    all_goals omega

/-! ### fixtures for the examples -/

/-- stream-backed channel options with a key TTL (mode 2) -/
private def exRc : RawCfg := ⟨2, 1000, 10, false⟩
private def exCfg : Cfg := ⟨2, 1000, 10, false⟩
/-- ephemeral (streamless) options (mode 1) -/
private def exRcE : RawCfg := ⟨1, 1000, 0, false⟩
private def exCfgE : Cfg := ⟨1, 1000, 0, false⟩
private def exPub : Pub := ⟨[7], 5, 0, 0, 1, false, 0⟩
/-- channel 1 after `Publish(key [7], data 5, version 3)` at time 0 -/
private def exChan : Chan :=
  { stream := ⟨1, [exPub], 1⟩, state := [([7], ⟨exPub, 0, 1000, 3, 0⟩)], ordered := false, scores := [] }
private def exHub : Hub := (publish exRc Hub.init 0 1 [7] { data := 5, version := 3 }).1

example : resolve exRc = some exCfg := by decide
example : resolve exRcE = some exCfgE := by decide
example : aget exHub.chans 1 = some exChan := by decide
example : chanFor exCfg exHub 1 = exChan := by decide

/-! ### T1: order of the checks -/

/-- **T1** the suppress reason returned by `mapHub.add` is the specification's decision on the channel
the call works on: version first, then key mode, then compare-and-swap. -/
theorem add_check_order (cfg : Cfg) (h : Hub) (now ch : Nat) (key : Key) (o : PubOpts) :
    (add cfg h now ch key o).2.2.2.1 = decideSup cfg (chanFor cfg h ch) key o :=
  add_sup cfg h now ch key o

/-- a failing version check wins over everything else. -/
theorem version_checked_first (cfg : Cfg) (c : Chan) (key : Key) (o : PubOpts)
    (hv : versionBlocked cfg c key o = true) : decideSup cfg c key o = .version := by
  simp [decideSup, hv]

/-- when the version check passes, a failing key-mode check wins over compare-and-swap. -/
theorem keymode_checked_before_cas (cfg : Cfg) (c : Chan) (key : Key) (o : PubOpts) (r : Suppress)
    (hv : versionBlocked cfg c key o = false) (hk : keyModeBlocked c key o = some r) :
    decideSup cfg c key o = r := by
  simp [decideSup, hv, hk]

/-- compare-and-swap is looked at only when version and key mode pass. -/
theorem cas_checked_last (cfg : Cfg) (c : Chan) (key : Key) (o : PubOpts)
    (hv : versionBlocked cfg c key o = false) (hk : keyModeBlocked c key o = none) (hne : key ≠ [])
    (hc : (casBlocked c key o.cas).isSome = true) : decideSup cfg c key o = .positionMismatch := by
  simp [decideSup, hv, hk, hne, hc]

/-- all three checks would fail: the reason is `version`. -/
example :
    let o : PubOpts := { version := 2, mode := .ifNew, cas := some ⟨9, 9⟩ }
    versionBlocked exCfg exChan [7] o = true ∧ keyModeBlocked exChan [7] o = some .keyExists ∧
    (casBlocked exChan [7] o.cas).isSome = true ∧ decideSup exCfg exChan [7] o = .version ∧
    (add exCfg exHub 5 1 [7] o).2.2.2.1 = .version := by decide

/-- key mode and compare-and-swap would fail: the reason is `keyExists`. -/
example :
    let o : PubOpts := { mode := .ifNew, cas := some ⟨9, 9⟩ }
    versionBlocked exCfg exChan [7] o = false ∧ keyModeBlocked exChan [7] o = some .keyExists ∧
    (casBlocked exChan [7] o.cas).isSome = true ∧ decideSup exCfg exChan [7] o = .keyExists ∧
    (add exCfg exHub 5 1 [7] o).2.2.2.1 = .keyExists := by decide

/-- only compare-and-swap fails (hypotheses of `cas_checked_last`). -/
example :
    let o : PubOpts := { cas := some ⟨9, 9⟩ }
    versionBlocked exCfg exChan [7] o = false ∧ keyModeBlocked exChan [7] o = none ∧
    (casBlocked exChan [7] o.cas).isSome = true ∧ decideSup exCfg exChan [7] o = .positionMismatch := by
  decide

/-! ### T5: what compare-and-swap compares -/

/-- **T5** compare-and-swap passes iff the key exists, the *stored publication's offset* equals the
expected offset and the *channel epoch* equals the expected epoch. -/
theorem cas_compares_offset_and_epoch (c : Chan) (key : Key) (exp : Pos) :
    casBlocked c key (some exp) = none ↔
      ∃ e, aget c.state key = some e ∧ e.pub.offset = exp.offset ∧ c.stream.epoch = exp.epoch :=
  casBlocked_none_iff c key exp

/-- without an expected position there is no compare-and-swap. -/
theorem cas_absent (c : Chan) (key : Key) : casBlocked c key none = none := rfl

example : casBlocked exChan [7] (some ⟨1, 1⟩) = none ∧ casBlocked exChan [7] (some ⟨1, 2⟩) ≠ none ∧
    casBlocked exChan [7] (some ⟨2, 1⟩) ≠ none ∧ casBlocked exChan [8] (some ⟨1, 1⟩) ≠ none := by decide

/-! ### T2: a suppressed `add` -/

/-- **T2** a suppressed `mapHub.add` — other than the documented TTL refresh — leaves key deadlines,
the expiry queue, the result cache and the observable content of *every* channel unchanged.
(The Go code, and the model, may have created the empty channel or set its `ordered` flag.) -/
theorem add_suppressed_frame (cfg : Cfg) (h : Hub) (now ch : Nat) (key : Key) (o : PubOpts)
    (hs : (add cfg h now ch key o).2.2.2.1 ≠ .none)
    (hx : ¬ ((add cfg h now ch key o).2.2.2.1 = .keyExists ∧ o.refresh = true ∧ cfg.keyTTL > 0)) :
    (add cfg h now ch key o).1.keyExpires = h.keyExpires ∧ (add cfg h now ch key o).1.queue = h.queue ∧
    (add cfg h now ch key o).1.nextKeyCheck = h.nextKeyCheck ∧ (add cfg h now ch key o).1.cache = h.cache ∧
    ∀ ch', chanView (add cfg h now ch key o).1 ch' = chanView h ch' :=
  add_suppressed_frame' cfg h now ch key o hs hx

example : (add exCfg exHub 5 1 [7] { mode := .ifNew }).2.2.2.1 = .keyExists ∧
    (add exCfg Hub.init 5 1 [7] { mode := .ifExists }).2.2.2.1 = .keyNotFound := by decide

/-- **T2b** the documented exception: a suppressed `KeyModeIfNew` publish with `RefreshTTLOnSuppress`
only moves the deadline of the existing entry (to `now + KeyTTL`); stream, other entries, other
channels are unchanged. -/
theorem add_refresh_frame (cfg : Cfg) (h : Hub) (now ch : Nat) (key : Key) (o : PubOpts)
    (hs : (add cfg h now ch key o).2.2.2.1 = .keyExists) (hr : o.refresh = true) (ht : cfg.keyTTL > 0) :
    (∀ ch', ch' ≠ ch → chanView (add cfg h now ch key o).1 ch' = chanView h ch') ∧
    (chanView (add cfg h now ch key o).1 ch).1 = (chanView h ch).1 ∧
    (chanView (add cfg h now ch key o).1 ch).2.1 = (chanView h ch).2.1 ∧
    (∀ k, (aget (chanView (add cfg h now ch key o).1 ch).2.2 k).map (fun e => (e.pub, e.score, e.version, e.vepoch))
        = (aget (chanView h ch).2.2 k).map (fun e => (e.pub, e.score, e.version, e.vepoch))) ∧
    ∃ e, aget (chanView (add cfg h now ch key o).1 ch).2.2 key = some e ∧ e.expireAt = now + cfg.keyTTL :=
  add_refresh_frame' cfg h now ch key o hs hr ht

example : (add exCfg exHub 5 1 [7] { mode := .ifNew, refresh := true }).2.2.2.1 = .keyExists ∧
    (aget (chanView (add exCfg exHub 5 1 [7] { mode := .ifNew, refresh := true }).1 1).2.2 [7]).map (·.expireAt)
      = some 1005 := by decide

/-! ### T3: suppressed operations and errors at the broker level -/

/-- **T3** a suppressed `Publish` broadcasts nothing and saves nothing in the result cache; unless it
is the documented TTL refresh it leaves every channel's stream and state and the deadlines unchanged;
an idempotency hit leaves the whole hub unchanged. -/
theorem publish_suppressed_changes_nothing (rc : RawCfg) (h : Hub) (now ch : Nat) (key : Key) (o : PubOpts)
    (pos : Pos) (sup : Suppress) (cur : Option (Nat × Nat))
    (hres : (publish rc h now ch key o).2.res = .update pos sup cur) (hs : sup ≠ .none) :
    (publish rc h now ch key o).2.bcs = [] ∧ (publish rc h now ch key o).1.cache = h.cache ∧
    (sup = .idempotency → (publish rc h now ch key o).1 = h) ∧
    (¬ (sup = .keyExists ∧ o.refresh = true) →
      (∀ ch', chanView (publish rc h now ch key o).1 ch' = chanView h ch') ∧
      (publish rc h now ch key o).1.keyExpires = h.keyExpires ∧
      (publish rc h now ch key o).1.queue = h.queue ∧
      (publish rc h now ch key o).1.nextKeyCheck = h.nextKeyCheck) :=
  publish_suppressed_aux rc h now ch key o pos sup cur hres hs

example : (publish exRc exHub 5 1 [7] { version := 2 }).2.res = .update ⟨1, 1⟩ .version none := by decide
example : (publish exRc exHub 5 1 [7] { cas := some ⟨4, 1⟩ }).2.res
    = .update ⟨1, 1⟩ .positionMismatch (some (1, 5)) := by decide
/-- an idempotency hit returns the cached position -/
example :
    let h1 := (publish exRc exHub 5 1 [8] { idem := 4 }).1
    (publish exRc h1 6 1 [9] { idem := 4 }).2.res = .update ⟨2, 1⟩ .idempotency none := by decide

/-- **T3** a suppressed `Remove` changes nothing at all and broadcasts nothing. -/
theorem remove_suppressed_changes_nothing (rc : RawCfg) (h : Hub) (now ch : Nat) (key : Key) (o : RmOpts)
    (pos : Pos) (sup : Suppress) (cur : Option (Nat × Nat))
    (hres : (removeOp rc h now ch key o).2.res = .update pos sup cur) (hs : sup ≠ .none) :
    (removeOp rc h now ch key o).1 = h ∧ (removeOp rc h now ch key o).2.bcs = [] :=
  remove_suppressed_aux rc h now ch key o pos sup cur hres hs

example : (removeOp exRc exHub 5 1 [8] {}).2.res = .update ⟨1, 1⟩ .keyNotFound none ∧
    (removeOp exRc exHub 5 1 [7] { cas := some ⟨1, 2⟩ }).2.res
      = .update ⟨1, 1⟩ .positionMismatch (some (1, 5)) ∧
    (removeOp exRc exHub 5 2 [7] { cas := some ⟨1, 1⟩ }).2.res = .update ⟨0, 0⟩ .positionMismatch none := by
  decide

/-- a `Publish` that returns an error changes nothing and broadcasts nothing. -/
theorem publish_error_changes_nothing (rc : RawCfg) (h : Hub) (now ch : Nat) (key : Key) (o : PubOpts) (e : Err)
    (hres : (publish rc h now ch key o).2.res = .err e) :
    (publish rc h now ch key o).1 = h ∧ (publish rc h now ch key o).2.bcs = [] :=
  publish_err_aux rc h now ch key o e hres

example : (publish ⟨0, 0, 0, false⟩ exHub 5 1 [7] {}).2.res = .err .config ∧
    (publish exRcE exHub 5 1 [7] { cas := some ⟨1, 1⟩ }).2.res = .err .casEphemeral ∧
    (publish exRcE exHub 5 1 [7] { version := 1 }).2.res = .err .versionEphemeral := by decide

/-- a `Remove` that returns an error changes nothing and broadcasts nothing. -/
theorem remove_error_changes_nothing (rc : RawCfg) (h : Hub) (now ch : Nat) (key : Key) (o : RmOpts) (e : Err)
    (hres : (removeOp rc h now ch key o).2.res = .err e) :
    (removeOp rc h now ch key o).1 = h ∧ (removeOp rc h now ch key o).2.bcs = [] :=
  remove_err_aux rc h now ch key o e hres

example : (removeOp exRcE exHub 5 1 [7] { cas := some ⟨1, 1⟩ }).2.res = .err .casEphemeral := by decide

/-! ### T4: unsuppressed operations -/

/-- **T4** an unsuppressed `Publish` on a stream-backed channel appends exactly one stream entry — the
publication with offset `top + 1` (then trims the front to the stream size) —, reports and broadcasts
exactly that offset once, stores the publication under its key (the empty key has no state), and
touches no other key and no other channel. -/
theorem publish_unsuppressed_appends_one (rc : RawCfg) (cfg : Cfg) (h : Hub) (now ch : Nat) (key : Key)
    (o : PubOpts) (pos : Pos) (cur : Option (Nat × Nat))
    (hcfg : resolve rc = some cfg) (hst : cfg.hasStream = true)
    (hres : (publish rc h now ch key o).2.res = .update pos .none cur) :
    ∃ pub prev,
      pub.offset = (chanFor cfg h ch).stream.top + 1 ∧ pub.key = key ∧ pub.removed = false ∧
      pub.data = o.data ∧
      pos = ⟨(chanFor cfg h ch).stream.top + 1, (chanFor cfg h ch).stream.epoch⟩ ∧
      (publish rc h now ch key o).2.bcs = [⟨ch, pub, pos, o.delta, prev⟩] ∧
      (chanView (publish rc h now ch key o).1 ch).1 = (chanFor cfg h ch).stream.top + 1 ∧
      (chanView (publish rc h now ch key o).1 ch).2.1
        = ((chanFor cfg h ch).stream.items ++ [pub]).drop
            (((chanFor cfg h ch).stream.items ++ [pub]).length - cfg.streamSize) ∧
      (key ≠ [] → ∃ e, aget (chanView (publish rc h now ch key o).1 ch).2.2 key = some e ∧ e.pub = pub) ∧
      (∀ k, k ≠ key → aget (chanView (publish rc h now ch key o).1 ch).2.2 k = aget (chanView h ch).2.2 k) ∧
      ∀ ch', ch' ≠ ch → chanView (publish rc h now ch key o).1 ch' = chanView h ch' :=
  publish_unsuppressed_stream_aux rc cfg h now ch key o pos cur hcfg hst hres

example : exCfg.hasStream = true ∧
    (publish exRc exHub 5 1 [8] { data := 6 }).2.res = .update ⟨2, 1⟩ .none none ∧
    (publish exRc exHub 5 1 [8] { data := 6 }).2.bcs = [⟨1, ⟨[8], 6, 0, 0, 2, false, 5⟩, ⟨2, 1⟩, false, none⟩] := by
  decide

/-- **T4** an unsuppressed `Remove` on a stream-backed channel appends exactly one removal entry with
offset `top + 1`, broadcasts it once with that offset, deletes the key and nothing else. -/
theorem remove_unsuppressed_appends_one (rc : RawCfg) (cfg : Cfg) (h : Hub) (now ch : Nat) (key : Key)
    (o : RmOpts) (pos : Pos) (cur : Option (Nat × Nat))
    (hcfg : resolve rc = some cfg) (hst : cfg.hasStream = true)
    (hres : (removeOp rc h now ch key o).2.res = .update pos .none cur) :
    ∃ c pub,
      aget h.chans ch = some c ∧ (aget c.state key).isSome ∧
      pub.offset = c.stream.top + 1 ∧ pub.key = key ∧ pub.removed = true ∧
      pos = ⟨c.stream.top + 1, c.stream.epoch⟩ ∧
      (removeOp rc h now ch key o).2.bcs = [⟨ch, pub, pos, false, none⟩] ∧
      (chanView (removeOp rc h now ch key o).1 ch).1 = c.stream.top + 1 ∧
      (chanView (removeOp rc h now ch key o).1 ch).2.1
        = (c.stream.items ++ [pub]).drop ((c.stream.items ++ [pub]).length - cfg.streamSize) ∧
      aget (chanView (removeOp rc h now ch key o).1 ch).2.2 key = none ∧
      (∀ k, k ≠ key → aget (chanView (removeOp rc h now ch key o).1 ch).2.2 k = aget c.state k) ∧
      ∀ ch', ch' ≠ ch → chanView (removeOp rc h now ch key o).1 ch' = chanView h ch' :=
  remove_unsuppressed_stream_aux rc cfg h now ch key o pos cur hcfg hst hres

example : (removeOp exRc exHub 5 1 [7] {}).2.res = .update ⟨2, 1⟩ .none none ∧
    (removeOp exRc exHub 5 1 [7] {}).2.bcs = [⟨1, ⟨[7], 0, 0, 0, 2, true, 5⟩, ⟨2, 1⟩, false, none⟩] := by
  decide

/-- **T4** (streamless) an unsuppressed `Publish` on an ephemeral channel leaves the stream alone,
reports the unchanged position and is broadcast exactly once. -/
theorem publish_unsuppressed_streamless (rc : RawCfg) (cfg : Cfg) (h : Hub) (now ch : Nat) (key : Key)
    (o : PubOpts) (pos : Pos) (cur : Option (Nat × Nat))
    (hcfg : resolve rc = some cfg) (hst : cfg.hasStream = false)
    (hres : (publish rc h now ch key o).2.res = .update pos .none cur) :
    ∃ pub prev,
      pub.key = key ∧ pub.removed = false ∧ pub.data = o.data ∧
      pos = (chanFor cfg h ch).stream.pos ∧
      (publish rc h now ch key o).2.bcs = [⟨ch, pub, pos, o.delta, prev⟩] ∧
      (chanView (publish rc h now ch key o).1 ch).1 = (chanView h ch).1 ∧
      (chanView (publish rc h now ch key o).1 ch).2.1 = (chanView h ch).2.1 ∧
      (key ≠ [] → ∃ e, aget (chanView (publish rc h now ch key o).1 ch).2.2 key = some e ∧ e.pub = pub) ∧
      (∀ k, k ≠ key → aget (chanView (publish rc h now ch key o).1 ch).2.2 k = aget (chanView h ch).2.2 k) ∧
      ∀ ch', ch' ≠ ch → chanView (publish rc h now ch key o).1 ch' = chanView h ch' :=
  publish_unsuppressed_plain_aux rc cfg h now ch key o pos cur hcfg hst hres

example : exCfgE.hasStream = false ∧
    (publish exRcE Hub.init 5 3 [8] { data := 6 }).2.res = .update ⟨0, 1⟩ .none none ∧
    (publish exRcE Hub.init 5 3 [8] { data := 6 }).2.bcs
      = [⟨3, ⟨[8], 6, 0, 0, 0, false, 5⟩, ⟨0, 1⟩, false, none⟩] := by decide

/-! ### T6: invariants of every reachable hub -/

/-- **T6** the empty hub satisfies the invariant. -/
theorem hubInv_init : HubInv Hub.init := hubInv_init'

/-- **T6** every operation — publish, remove, clear, read-state, read-stream and a whole key-expiry
sweep — preserves the hub invariant (`HubInv`: unique channels with unique positive epochs below
`nextEpoch`; per channel unique state keys, strictly increasing stream offsets within `1..top`, every
state entry a live publication of its own key with an offset `≤ top`). -/
theorem step_preserves_hubInv (cfg : Nat → RawCfg) (h : Hub) (now : Nat) (op : MOp) (hi : HubInv h) :
    HubInv (step cfg h now op).1 :=
  step_inv cfg h now op hi

/-- a non-trivial hub satisfying the hypothesis: the fixture hub (one channel, one entry). -/
example : HubInv exHub := publish_inv _ _ _ _ _ _ hubInv_init
example : exHub.chans ≠ [] ∧ exHub.nextEpoch = 2 := by decide

/-- **T6** the invariant holds after every timed op sequence from the empty hub. -/
theorem run_preserves_hubInv (cfg : Nat → RawCfg) (ops : List (Nat × MOp)) :
    HubInv (run cfg Hub.init ops).1 :=
  run_inv cfg ops Hub.init hubInv_init'

/-- what the invariant says about a channel of a reachable hub, spelled out. -/
theorem reachable_channel_invariants (cfg : Nat → RawCfg) (ops : List (Nat × MOp)) (ch : Nat) (c : Chan)
    (hq : aget (run cfg Hub.init ops).1.chans ch = some c) :
    (akeys c.state).Nodup ∧
    c.stream.items.Pairwise (fun a b => a.offset < b.offset) ∧
    (∀ p ∈ c.stream.items, 1 ≤ p.offset ∧ p.offset ≤ c.stream.top) ∧
    (∀ k e, aget c.state k = some e → e.pub.offset ≤ c.stream.top ∧ e.pub.key = k ∧ e.pub.removed = false) ∧
    1 ≤ c.stream.epoch ∧ c.stream.epoch < (run cfg Hub.init ops).1.nextEpoch :=
  let h := (run_preserves_hubInv cfg ops).2.1 ch c hq
  ⟨h.1.1, h.1.2.1, h.1.2.2.1, h.1.2.2.2, h.2.1, h.2.2⟩

example : aget (run (fun _ => exRc) Hub.init [(0, .publish 1 [7] { data := 5, version := 3 })]).1.chans 1
    = some exChan := by decide

/-- channels of a reachable hub have pairwise different epochs. -/
theorem reachable_epochs_unique (cfg : Nat → RawCfg) (ops : List (Nat × MOp)) (ch1 ch2 : Nat) (c1 c2 : Chan)
    (h1 : aget (run cfg Hub.init ops).1.chans ch1 = some c1)
    (h2 : aget (run cfg Hub.init ops).1.chans ch2 = some c2)
    (he : c1.stream.epoch = c2.stream.epoch) : ch1 = ch2 :=
  (run_preserves_hubInv cfg ops).2.2.1 ch1 ch2 c1 c2 h1 h2 he

example :
    let h := (run (fun _ => exRc) Hub.init [(0, .publish 1 [7] {}), (1, .readStream 2 {})]).1
    (aget h.chans 1).map (·.stream.epoch) = some 1 ∧ (aget h.chans 2).map (·.stream.epoch) = some 2 := by
  decide

end CentrifugeVerif.MapHub

/-! ## T7 — the hub model refines the reference map -/
namespace CentrifugeVerif.C20
open CentrifugeVerif.MapHub CentrifugeVerif.RefMap

/-- **mapHub_refines_refMap**: for every hub state, every time and every supported operation (publish with any
options, remove, clear, read-stream, single-key / position-only read-state), the implementation model's step seen
through `abs` (forget heap, deadline table, scores, ordered flag) is the reference map's step, and result and
broadcasts are identical.  (Paged read-state: C21 `hub_pages_concat`; the sweep: C24.) -/
theorem mapHub_refines_refMap (cfg : Nat → RawCfg) (h : Hub) (now : Nat) (op : MOp) (hs : Supported op) :
    abs (MapHub.step cfg h now op).1 = (RefMap.step cfg (orderedOf h) (abs h) now op).1 ∧
    (MapHub.step cfg h now op).2 = (RefMap.step cfg (orderedOf h) (abs h) now op).2 :=
  RefMap.mapHub_refines_refMap cfg h now op hs

/-- the same over every timed op sequence, from every hub state. -/
theorem mapHub_refines_refMap_run (cfg : Nat → RawCfg) (ops : List (Nat × MOp)) (h : Hub)
    (hs : ∀ x ∈ ops, Supported x.2) :
    abs (MapHub.run cfg h ops).1 = (refRun cfg h (abs h) ops).1 ∧
    (MapHub.run cfg h ops).2 = (refRun cfg h (abs h) ops).2 :=
  RefMap.mapHub_refines_refMap_run cfg ops h hs

/-- from the initial (empty) broker the reference run starts from the empty reference map. -/
theorem mapHub_refines_refMap_from_init (cfg : Nat → RawCfg) (ops : List (Nat × MOp))
    (hs : ∀ x ∈ ops, Supported x.2) :
    abs (MapHub.run cfg Hub.init ops).1 = (refRun cfg Hub.init ⟨[], [], 1⟩ ops).1 ∧
    (MapHub.run cfg Hub.init ops).2 = (refRun cfg Hub.init ⟨[], [], 1⟩ ops).2 :=
  RefMap.mapHub_refines_refMap_from_init cfg ops hs

/-- the reference verdict is the model's decision (T1): first failing check, version -> key mode -> CAS. -/
theorem verdict_is_check_order (cfg : Cfg) (c : Chan) (key : Key) (o : PubOpts) :
    verdict cfg (absChan c) key o = decideSup cfg c key o := verdict_abs cfg c key o

/-! a supported sequence: publish, a publish failing all three checks, single-key read, stream read, remove, clear -/
example : ∀ x ∈ ([(0, .publish 1 [7] { data := 5, version := 3 }),
                  (1, .publish 1 [7] { version := 2, mode := .ifNew, cas := some ⟨9, 9⟩ }),
                  (2, .readState 1 { key := [7] }), (3, .readStream 1 { limit := -1 }),
                  (4, .remove 1 [7] {}), (5, .clear 1)] : List (Nat × MOp)), Supported x.2 := by
  intro x hx
  simp only [List.mem_cons, List.mem_nil_iff, or_false] at hx
  rcases hx with rfl | rfl | rfl | rfl | rfl | rfl <;> simp [Supported]

end CentrifugeVerif.C20
