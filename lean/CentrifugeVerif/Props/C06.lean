import CentrifugeVerif.Proofs.PresenceHub
import CentrifugeVerif.Proofs.PresenceProto
/-!
# C06 — presence reflects live subscriptions; presence statistics count exactly the distinct
clients and users

Part (a), the store (`presenceHub` behind `MemoryPresenceManager`): for ANY sequence of add/remove
calls and any channel, `NumClients` is the number of distinct client ids (map keys) and `NumUsers`
the number of distinct user ids of the presence set that `Presence()` returns.
"The number of distinct x" is stated without any library notion of cardinality: there is a
duplicate-free list containing exactly those x, and the statistic is its length.
-/
namespace CentrifugeVerif.PresenceHub

/-- `presenceHub_stats`: after any add/remove sequence, for a channel whose presence set is `m`. -/
theorem presenceHub_stats (ops : List Op) (ch : String) (m : Inner)
    (hg : get ch (runOps ops) = some m) :
    ∃ cs us : List String,
      cs.Nodup ∧ us.Nodup ∧
      (∀ c, c ∈ cs ↔ ∃ i, (c, i) ∈ m) ∧
      (∀ u, u ∈ us ↔ ∃ c i, (c, i) ∈ m ∧ i.userID = u) ∧
      getStats ch (runOps ops) = ⟨cs.length, us.length⟩ := by
  have hinv := inv_runOps ops ch m (get_mem hg)
  obtain ⟨us, hn, hm, hc⟩ := countUsers_spec m []
  refine ⟨keys m, us, hinv, hn, ?_, ?_, ?_⟩
  · intro c
    simp only [keys, List.mem_map]
    constructor
    · rintro ⟨⟨c', i⟩, h1, rfl⟩; exact ⟨i, h1⟩
    · rintro ⟨i, h1⟩; exact ⟨(c, i), h1, rfl⟩
  · intro u
    rw [hm u]
    simp only [usersOf, List.mem_map, List.not_mem_nil, not_false_eq_true, and_true]
    constructor
    · rintro ⟨⟨c, i⟩, h1, rfl⟩; exact ⟨c, i, h1, rfl⟩
    · rintro ⟨c, i, h1, rfl⟩; exact ⟨(c, i), h1, rfl⟩
  · simp [getStats, hg, hc, keys]

/-- absent channel (`Presence()` returns a nil map): zero statistics. -/
theorem presenceHub_stats_absent (ops : List Op) (ch : String)
    (hg : get ch (runOps ops) = none) : getStats ch (runOps ops) = ⟨0, 0⟩ := by
  simp [getStats, hg]

/-! Non-vacuity: two clients of the same user plus one other user, a re-add and a removal of an
absent client. -/
example :
    let ops := [Op.add "ch" "c1" ⟨"c1", "u1"⟩, .add "ch" "c2" ⟨"c2", "u1"⟩, .add "ch" "c3" ⟨"c3", "u2"⟩,
                .add "ch" "c1" ⟨"c1", "u1"⟩, .remove "ch" "zz", .remove "other" "c1"]
    getStats "ch" (runOps ops) = ⟨3, 2⟩ ∧ (get "ch" (runOps ops)).isSome = true := by decide
example : getStats "ch" (runOps [Op.add "ch" "c1" ⟨"c1", "u1"⟩, .remove "ch" "c1"]) = ⟨0, 0⟩ ∧
    get "ch" (runOps [Op.add "ch" "c1" ⟨"c1", "u1"⟩, .remove "ch" "c1"]) = none := by decide

end CentrifugeVerif.PresenceHub

/-!
## Part (b), the protocol (`Model/PresenceProto.lean`)

Threads: subscribe attempt (with both failure points), `Client.Unsubscribe`, `close`, presence tick
(with `compensateRacedPresence`), any number of each over time, all interleavings.

Full statements (DESIGN): in every reachable settled state, subscribed ⇒ present
(`presence_while_subscribed`) and not subscribed ⇒ not present (`presence_after_settle`).
Both are FALSE of the code as it is when a re-subscribe overlaps an unsubscribe or a tick that is
still in flight (three decided counter-witnesses below, each replayed on the real code by the check:
C06-1, C06-2, C06-3).  Proved: both statements for ALL interleavings under the assumption
`quietResub` (a subscribe attempt for the channel starts only while no unsubscribe call and no
presence tick of this connection is in flight) — hence the `_partial` names — plus the self-healing
theorem `presence_restored_by_tick` that needs no assumption.
-/
namespace CentrifugeVerif.PresenceProto

/-- `presence_while_subscribed` (partial: quiet re-subscribe).  Holds in every reachable state, not
only in settled ones. -/
theorem presence_while_subscribed_partial (cfg : Cfg) (hq : cfg.quietResub = true) (s : State)
    (hr : Reachable cfg s) (g : Nat) (hc : s.chan = some (g, true)) : s.present = true :=
  (inv_reachable hq hr).p1 g hc

/-- `presence_after_settle` (partial: quiet re-subscribe): once nothing is in flight and the channel
is not subscribed, the presence entry is gone. -/
theorem presence_after_settle_partial (cfg : Cfg) (hq : cfg.quietResub = true) (s : State)
    (hr : Reachable cfg s) (hs : Settled s = true) (hc : ∀ g, s.chan ≠ some (g, true)) :
    s.present = false := by
  have hi := inv_reachable hq hr
  cases hp : s.present with
  | false => rfl
  | true =>
    exfalso
    simp only [Settled, Bool.and_eq_true, Bool.or_eq_true, Option.isNone_iff_eq_none, beq_iff_eq] at hs
    obtain ⟨⟨⟨hS, hU⟩, hT⟩, hC⟩ := hs
    rcases hi.p2 hp with ⟨g, hg⟩ | hpend
    · exact hc g hg
    · rcases hC with hC | hC <;> simp [Pending, hS, hU, hT, hC] at hpend

/-- a settled state never holds a dangling reservation (so "not subscribed" = no entry at all) -/
theorem settled_no_reservation (cfg : Cfg) (hq : cfg.quietResub = true) (s : State)
    (hr : Reachable cfg s) (hs : Settled s = true) (g : Nat) : s.chan ≠ some (g, false) := by
  intro hc
  obtain ⟨t, ht, _⟩ := (inv_reachable hq hr).res g hc
  simp only [Settled, Bool.and_eq_true, Option.isNone_iff_eq_none] at hs
  simp [hs.1.1.1] at ht

/-- Self-healing, no assumption on the history: from ANY state (reachable or not) in which the
connection is open, the channel subscribed, no tick running and `presenceMu` free, one complete
presence tick run on its own ends with the connection present. -/
theorem presence_restored_by_tick (cfg : Cfg) (s : State) (g : Nat)
    (hc : s.chan = some (g, true)) (hcl : s.closed = false) (hclg : s.closing = false)
    (hT : s.T = none) (hmu : s.presenceMu = none) :
    ∃ s', run cfg s [.tStart, .tCheck, .tAdd, .tCompensate] = some s' ∧
      s'.present = true ∧ s'.chan = some (g, true) ∧ s'.T = none := by
  refine ⟨{ s with present := true, presenceMu := none, T := none }, ?_, rfl, hc, rfl⟩
  simp [run, next, hc, hcl, hclg, hT, hmu]

/-! ### non-vacuity -/

def quiet : Cfg := { quietResub := true }
def free : Cfg := { quietResub := false }

/-- subscribe, tick racing an unsubscribe (compensated), settle: not present. -/
example :
    ∃ s, run quiet State.init
      [.sSpawn, .sCheck, .sAdd, .sCommit, .tStart, .tCheck, .uSpawn, .uRemove, .uPresence, .tAdd,
       .tCompensate, .tRemove] = some s ∧ Settled s = true ∧ s.chan = none ∧ s.present = false := by decide

/-- subscribe and stay: settled, subscribed, present. -/
example :
    ∃ s, run quiet State.init [.sSpawn, .sCheck, .sAdd, .sCommit, .tStart, .tCheck, .tAdd, .tCompensate]
      = some s ∧ Settled s = true ∧ s.chan = some (1, true) ∧ s.present = true := by decide

/-! ### counter-witnesses without the assumption (the code as it is) -/

/-- C06-1: unsubscribe's `removePresence` lands after the re-subscribe's `addPresence`. -/
example :
    ∃ s, run free State.init
      [.sSpawn, .sCheck, .sAdd, .sCommit, .uSpawn, .uRemove,
       .sSpawn, .sCheck, .sAdd, .sCommit, .uPresence] = some s ∧
      Settled s = true ∧ s.chan = some (2, true) ∧ s.present = false := by decide

/-- C06-2: the tick's add lands after the unsubscribe's remove; the compensation is skipped because a
new reservation exists; that attempt fails: entry left behind with nothing subscribed. -/
example :
    ∃ s, run free State.init
      [.sSpawn, .sCheck, .sAdd, .sCommit, .tStart, .tCheck, .uSpawn, .uRemove, .uPresence,
       .sSpawn, .tAdd, .tCompensate, .sFail] = some s ∧
      Settled s = true ∧ s.chan = none ∧ s.present = true := by decide

/-- C06-3: the tick's compensating remove lands after a fast re-subscribe's add. -/
example :
    ∃ s, run free State.init
      [.sSpawn, .sCheck, .sAdd, .sCommit, .tStart, .tCheck, .uSpawn, .uRemove, .uPresence, .tAdd,
       .tCompensate, .sSpawn, .sCheck, .sAdd, .sCommit, .tRemove] = some s ∧
      Settled s = true ∧ s.chan = some (2, true) ∧ s.present = false := by decide

end CentrifugeVerif.PresenceProto
