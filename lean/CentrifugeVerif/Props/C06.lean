import CentrifugeVerif.Proofs.PresenceHub
/-!
# C06 — presence reflects live subscriptions; presence statistics count exactly the distinct
clients and users

Part (a), the store (`presenceHub` behind `MemoryPresenceManager`): for ANY sequence of add/remove
calls and any channel, `NumClients` is the number of distinct client ids (map keys) and `NumUsers`
the number of distinct user ids of the presence set that `Presence()` returns.
"The number of distinct x" is stated without any library notion of cardinality: there is a
duplicate-free list containing exactly those x, and the statistic is its length.
-/
namespace CentrifugeVerif.PresenceHub

/-- `presenceHub_stats`: after any add/remove sequence, for a channel whose presence set is `m`. -/
theorem presenceHub_stats (ops : List Op) (ch : String) (m : Inner)
    (hg : get ch (runOps ops) = some m) :
    ∃ cs us : List String,
      cs.Nodup ∧ us.Nodup ∧
      (∀ c, c ∈ cs ↔ ∃ i, (c, i) ∈ m) ∧
      (∀ u, u ∈ us ↔ ∃ c i, (c, i) ∈ m ∧ i.userID = u) ∧
      getStats ch (runOps ops) = ⟨cs.length, us.length⟩ := by
  have hinv := inv_runOps ops ch m (get_mem hg)
  obtain ⟨us, hn, hm, hc⟩ := countUsers_spec m []
  refine ⟨keys m, us, hinv, hn, ?_, ?_, ?_⟩
  · intro c
    simp only [keys, List.mem_map]
    constructor
    · rintro ⟨⟨c', i⟩, h1, rfl⟩; exact ⟨i, h1⟩
    · rintro ⟨i, h1⟩; exact ⟨(c, i), h1, rfl⟩
  · intro u
    rw [hm u]
    simp only [usersOf, List.mem_map, List.not_mem_nil, not_false_eq_true, and_true]
    constructor
    · rintro ⟨⟨c, i⟩, h1, rfl⟩; exact ⟨c, i, h1, rfl⟩
    · rintro ⟨c, i, h1, rfl⟩; exact ⟨(c, i), h1, rfl⟩
  · simp [getStats, hg, hc, keys]

/-- absent channel (`Presence()` returns a nil map): zero statistics. -/
theorem presenceHub_stats_absent (ops : List Op) (ch : String)
    (hg : get ch (runOps ops) = none) : getStats ch (runOps ops) = ⟨0, 0⟩ := by
  simp [getStats, hg]

/-! Non-vacuity: two clients of the same user plus one other user, a re-add and a removal of an
absent client. -/
example :
    let ops := [Op.add "ch" "c1" ⟨"c1", "u1"⟩, .add "ch" "c2" ⟨"c2", "u1"⟩, .add "ch" "c3" ⟨"c3", "u2"⟩,
                .add "ch" "c1" ⟨"c1", "u1"⟩, .remove "ch" "zz", .remove "other" "c1"]
    getStats "ch" (runOps ops) = ⟨3, 2⟩ ∧ (get "ch" (runOps ops)).isSome = true := by decide
example : getStats "ch" (runOps [Op.add "ch" "c1" ⟨"c1", "u1"⟩, .remove "ch" "c1"]) = ⟨0, 0⟩ ∧
    get "ch" (runOps [Op.add "ch" "c1" ⟨"c1", "u1"⟩, .remove "ch" "c1"]) = none := by decide

end CentrifugeVerif.PresenceHub
