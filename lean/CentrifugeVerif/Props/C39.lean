import CentrifugeVerif.Proofs.Merge
/-!
# C39 — Recovery merge is sorted, deduplicated and detects gaps

Property theorems only (helpers are in `Proofs/Merge.lean`).  All statements hold for every pair
of input lists, of any length, with arbitrary (also repeated, unsorted) offsets.
-/
namespace CentrifugeVerif.Merge

/-- unfiltered / filtered offsets of an input -/
def nfOffsets (l : List MPub) : List Nat := (l.filter (fun p => !p.filtered)).map (·.offset)
def fOffsets (l : List MPub) : List Nat := (l.filter (·.filtered)).map (·.offset)

theorem mem_nfOffsets (l : List MPub) (o : Nat) :
    o ∈ nfOffsets l ↔ ∃ p ∈ l, p.filtered = false ∧ p.offset = o := by
  simp [nfOffsets, List.mem_map, List.mem_filter, and_assoc]

/-- the entries the Go code sorts: buffered ones are appended only when present (same multiset
as `r ++ b` in both cases). -/
theorem all_eq (r b : List MPub) : (if b.isEmpty then r else r ++ b) = r ++ b := by
  cases b <;> simp

/-- (1) the result is strictly increasing by offset: ordered and free of duplicate offsets. -/
theorem merge_sorted_nodup (r b : List MPub) (l : List MPub) (m : Nat)
    (h : merge r b = some (l, m)) : l.Pairwise (fun x y => x.offset < y.offset) := by
  unfold merge at h
  simp only [all_eq] at h
  split at h
  · cases h
  · cases h; exact uniq_sorted_strict _

/-- (2) no filtered placeholder is returned, and every returned entry is one of the inputs. -/
theorem merge_no_placeholder (r b : List MPub) (l : List MPub) (m : Nat)
    (h : merge r b = some (l, m)) : ∀ p ∈ l, p.filtered = false ∧ p ∈ r ++ b := by
  unfold merge at h
  simp only [all_eq] at h
  split at h
  · cases h
  · cases h
    intro p hp
    have := uniq_mem hp
    exact ⟨this.2.1, (mem_sorted _ _).mp this.1⟩

/-- (3) the returned offsets are exactly the offsets of the unfiltered inputs (the union). -/
theorem merge_set (r b : List MPub) (l : List MPub) (m : Nat)
    (h : merge r b = some (l, m)) (o : Nat) :
    o ∈ l.map (·.offset) ↔ o ∈ nfOffsets (r ++ b) := by
  unfold merge at h
  simp only [all_eq] at h
  split at h
  · cases h
  · cases h
    rw [mem_nfOffsets, List.mem_map]
    constructor
    · rintro ⟨p, hp, rfl⟩
      have := uniq_mem hp
      exact ⟨p, (mem_sorted _ _).mp this.1, this.2.1, rfl⟩
    · rintro ⟨p, hp, hf, rfl⟩
      obtain ⟨q, hq, hqo⟩ := uniq_complete (seen := []) ((mem_sorted _ _).mpr hp) hf (by simp)
      exact ⟨q, hq, hqo⟩

/-- "the merged offsets have a hole not covered by filtered placeholders": some offset `o` lies
strictly between two unfiltered input offsets and is neither an unfiltered nor a filtered offset. -/
def UncoveredHole (r b : List MPub) : Prop :=
  ∃ lo ∈ nfOffsets (r ++ b), ∃ hi ∈ nfOffsets (r ++ b), ∃ o,
    lo < o ∧ o < hi ∧ o ∉ nfOffsets (r ++ b) ∧ o ∉ fOffsets (r ++ b)

/-- (4) failure is reported exactly when buffered publications were present and the merged
offsets have an uncovered hole. -/
theorem merge_fail_iff (r b : List MPub) :
    merge r b = none ↔ b ≠ [] ∧ UncoveredHole r b := by
  have hstrict := uniq_sorted_strict (r ++ b)
  have hgap := gapsCovered_false_iff (skipped (isort (r ++ b))) _ hstrict
  have hmemU : ∀ o, (∃ q ∈ uniq [] (isort (r ++ b)), q.offset = o) ↔ o ∈ nfOffsets (r ++ b) := by
    intro o
    rw [mem_nfOffsets]
    constructor
    · rintro ⟨p, hp, rfl⟩
      have := uniq_mem hp
      exact ⟨p, (mem_sorted _ _).mp this.1, this.2.1, rfl⟩
    · rintro ⟨p, hp, hf, rfl⟩
      exact uniq_complete (seen := []) ((mem_sorted _ _).mpr hp) hf (by simp)
  have hsk : ∀ o, o ∈ skipped (isort (r ++ b)) ↔ o ∈ fOffsets (r ++ b) := by
    intro o
    rw [mem_skipped]
    simp only [fOffsets, List.mem_map, List.mem_filter, mem_sorted, and_assoc]
  unfold merge
  simp only [all_eq]
  constructor
  · intro h
    split at h
    · rename_i hc
      simp only [Bool.and_eq_true, Bool.not_eq_true', List.isEmpty_eq_false_iff] at hc
      refine ⟨hc.1, ?_⟩
      obtain ⟨a, ha, c, hc', o, h1, h2, h3, h4⟩ := hgap.mp hc.2
      refine ⟨a.offset, (hmemU _).mp ⟨a, ha, rfl⟩, c.offset, (hmemU _).mp ⟨c, hc', rfl⟩, o, h1, h2, ?_, ?_⟩
      · intro hm
        obtain ⟨q, hq, hqo⟩ := (hmemU o).mpr hm
        exact h3 q hq hqo
      · intro hm; exact h4 ((hsk o).mpr hm)
    · cases h
  · rintro ⟨hb, lo, hlo, hi, hhi, o, h1, h2, h3, h4⟩
    obtain ⟨a, ha, hao⟩ := (hmemU lo).mpr hlo
    obtain ⟨c, hc, hco⟩ := (hmemU hi).mpr hhi
    have : gapsCovered (skipped (isort (r ++ b))) (uniq [] (isort (r ++ b))) = false := by
      apply hgap.mpr
      refine ⟨a, ha, c, hc, o, by omega, by omega, ?_, ?_⟩
      · intro q hq hqo; exact h3 ((hmemU o).mp ⟨q, hq, hqo⟩)
      · intro hm; exact h4 ((hsk o).mp hm)
    have hbe : b.isEmpty = false := by cases b <;> simp_all
    simp [this, hbe]

/-- (4') in particular: without buffered publications the merge never fails. -/
theorem merge_no_buffer_ok (r : List MPub) : merge r [] ≠ none := by
  intro h; have := (merge_fail_iff r []).mp h; exact this.1 rfl

/-- (5) the reported maximum offset dominates every input offset (placeholders included) and is
attained by an input entry, or is 0 for empty input. -/
theorem merge_max_seen (r b : List MPub) (l : List MPub) (m : Nat)
    (h : merge r b = some (l, m)) :
    (∀ p ∈ r ++ b, p.offset ≤ m) ∧ (m = 0 ∨ ∃ p ∈ r ++ b, p.offset = m) := by
  unfold merge at h
  simp only [all_eq] at h
  split at h
  · cases h
  · cases h
    constructor
    · intro p hp
      exact (maxSeen_foldl_ge _ 0).2 p ((mem_sorted _ _).mpr hp)
    · rcases maxSeen_foldl_attained (isort (r ++ b)) 0 with h | ⟨p, hp, h⟩
      · left; exact h
      · right; exact ⟨p, (mem_sorted _ _).mp hp, h⟩

/-! Non-vacuity: concrete inputs exercising success with a covered hole, failure, and dedup. -/
example : merge [⟨1, false, 0⟩, ⟨2, true, 1⟩] [⟨3, false, 2⟩, ⟨3, false, 3⟩] =
    some ([⟨1, false, 0⟩, ⟨3, false, 2⟩], 3) := by decide
example : merge [⟨1, false, 0⟩] [⟨3, false, 1⟩] = none := by decide
example : UncoveredHole [⟨1, false, 0⟩] [⟨3, false, 1⟩] :=
  ⟨1, by decide, 3, by decide, 2, by decide, by decide, by decide, by decide⟩
example : merge [⟨5, false, 0⟩, ⟨1, false, 1⟩] [] = some ([⟨1, false, 1⟩, ⟨5, false, 0⟩], 5) := by decide

end CentrifugeVerif.Merge
