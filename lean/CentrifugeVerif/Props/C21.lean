import CentrifugeVerif.Proofs.MapPageHub
/-!
# C21 — map state pagination enumerates every key exactly once (memory broker part)

Generic theorems are proved in `Proofs/MapPage.lean` for any strict total order; here they are instantiated
with the comparator of `mapHub.getState` (`elemLt asc` on `(score, key)`, keys compared bytewise).
The Redis/Lua half of the property is out of scope (partial).
-/
namespace CentrifugeVerif.C21
open CentrifugeVerif.MapPage

/-- the comparator of `getState` / `find…CursorPosition` is a strict total order on `(score, key)`
(hence on byte strings for unordered channels, where every score is `0`). -/
theorem comparator_strict_total (asc : Bool) : StrictTotal (elemLt asc) := elemLt_strictTotal asc

/-- the binary search of `sort.Search` returns the first index satisfying a monotone predicate. -/
theorem search_first_index (n : Nat) (f : Nat → Bool)
    (hmono : ∀ i j, i ≤ j → j < n → f i = true → f j = true) :
    search n f ≤ n ∧ (∀ k, k < search n f → f k = false) ∧ (search n f < n → f (search n f) = true) :=
  search_spec n f hmono

/-- the cursor position is the number of elements not strictly after the cursor — for *any* cursor,
also one that is not (or no longer) in the list. -/
theorem cursor_position_is_first_beyond (asc : Bool) (keys : List Elem) (hnd : keys.Nodup) (c : Elem) :
    afterCursor (elemLt asc) (isort (elemLt asc) keys) c
      = ((isort (elemLt asc) keys).takeWhile (fun x => !elemLt asc c x)).length :=
  afterCursor_spec (elemLt_strictTotal asc) _ (isort_sorted (elemLt_strictTotal asc) keys hnd) c

/-- **pages_concat_eq_sorted**: for every finite key set with scores, every `limit ≥ 1`, either direction,
requesting pages from the empty cursor while the returned cursor is non-empty terminates within
`size + 1` requests and the concatenation of the pages is the sorted key list. -/
theorem pages_concat_eq_sorted (asc : Bool) (keys : List Elem) (hnd : keys.Nodup) (limit : Int) (hl : 0 < limit) :
    paginateAll (elemLt asc) keys limit = (isort (elemLt asc) keys, true) :=
  MapPage.pages_concat_eq_sorted (elemLt_strictTotal asc) keys hnd limit hl

/-- a negative limit returns everything in one page. -/
theorem pages_concat_negative_limit (asc : Bool) (keys : List Elem) (limit : Int) (hl : limit < 0) :
    paginateAll (elemLt asc) keys limit = (isort (elemLt asc) keys, true) :=
  MapPage.pages_concat_negative_limit (elemLt asc) keys limit hl

/-- every key exactly once, in the channel's sort order. -/
theorem pages_each_key_once (asc : Bool) (keys : List Elem) (hnd : keys.Nodup) (limit : Int) (hl : 0 < limit) :
    (paginateAll (elemLt asc) keys limit).1.Perm keys ∧ (paginateAll (elemLt asc) keys limit).1.Nodup ∧
    (paginateAll (elemLt asc) keys limit).1.Pairwise (fun a b => elemLt asc a b = true) := by
  have h := MapPage.pages_each_key_once (elemLt_strictTotal asc) keys hnd limit hl
  refine ⟨h.1, h.2, ?_⟩
  rw [pages_concat_eq_sorted asc keys hnd limit hl]
  exact isort_sorted (elemLt_strictTotal asc) keys hnd

/-- progress: a page that returns a cursor is non-empty, the cursor is its last element and lies strictly
after the request cursor. -/
theorem page_progress (asc : Bool) (keys : List Elem) (hnd : keys.Nodup) (limit : Int) (hl : 0 < limit)
    (cur : Option Elem) (c' : Elem)
    (hc' : (getPage (elemLt asc) (isort (elemLt asc) keys) cur limit).cursor = some c') :
    (getPage (elemLt asc) (isort (elemLt asc) keys) cur limit).items ≠ [] ∧
    (getPage (elemLt asc) (isort (elemLt asc) keys) cur limit).items.getLast? = some c' ∧
    ∀ c, cur = some c → elemLt asc c c' = true :=
  getPage_progress (elemLt_strictTotal asc) _ (isort_sorted (elemLt_strictTotal asc) keys hnd) limit hl cur c' hc'

open CentrifugeVerif.MapHub in
/-- **hub_pages_concat** (the hub model of `mapHub.getState`): for every hub state, every existing channel of
any mode, ordered or not, every `limit ≥ 1`, either direction: requesting `ReadState` pages from the empty cursor
while the returned cursor is non-empty terminates within `size + 1` requests; the concatenation of the pages is
the list of the stored publications in the channel's sort order, one per key (same length as the state, the
sorted element list is a permutation of the channel's `(score, key)` elements and strictly sorted). -/
theorem hub_pages_concat (rc : RawCfg) (cfg : Cfg) (h : Hub) (ch : Nat) (c : Chan) (limit : Int) (asc : Bool)
    (hres : resolve rc = some cfg) (hc : aget h.chans ch = some c) (hnd : (akeys c.state).Nodup) (hl : 0 < limit) :
    hubPaginate rc h ch limit asc (c.state.length + 1) none []
      = some ((isort (elemLt (c.dir asc)) c.elems).filterMap (statePubOf c), true) ∧
    ((isort (elemLt (c.dir asc)) c.elems).filterMap (statePubOf c)).length = c.state.length ∧
    (isort (elemLt (c.dir asc)) c.elems).Perm c.elems ∧
    (isort (elemLt (c.dir asc)) c.elems).Pairwise (fun a b => elemLt (c.dir asc) a b = true) :=
  MapHub.hub_pages_concat rc cfg h ch c limit asc hres hc hnd hl

open CentrifugeVerif.MapHub in
/-- **single_key_read**: `ReadState` with `Key` set returns exactly the stored entry (or nothing), whatever
`Limit`, `Cursor` and direction are. -/
theorem single_key_read (rc : RawCfg) (cfg : Cfg) (h : Hub) (ch : Nat) (c : Chan) (o : StateOpts)
    (hres : resolve rc = some cfg) (hc : aget h.chans ch = some c) (hk : o.key ≠ [])
    (hrev : ∀ rv, o.rev = some rv → rv.epoch = c.stream.epoch) :
    getState rc h ch o
      = (h, ⟨.state (match aget c.state o.key with | some e => [e.pub] | none => []) c.stream.pos none c.ordered, []⟩) :=
  MapHub.single_key_read rc cfg h ch c o hres hc hk hrev

/-! a concrete hub on which the hypotheses hold: ordered channel, ties, prefix keys -/
section Example
open CentrifugeVerif.MapHub
private def exPub (k : Key) (d : Nat) (s : Int) : Pub := ⟨k, d, 0, s, 0, false, 0⟩
private def exChan : Chan :=
  { stream := ⟨0, [], 1⟩, ordered := true,
    state := [([1], ⟨exPub [1] 10 5, 5, 0, 0, 0⟩), ([1, 0], ⟨exPub [1, 0] 11 5, 5, 0, 0, 0⟩), ([2], ⟨exPub [2] 12 (-3), -3, 0, 0, 0⟩)],
    scores := [([1], 5), ([1, 0], 5), ([2], -3)] }
private def exHub : Hub := { Hub.init with chans := [(0, exChan)], nextEpoch := 2 }
example : resolve ⟨1, 1000, 0, true⟩ = some ⟨1, 1000, 0, true⟩ := by decide
example : aget exHub.chans 0 = some exChan := by decide
example : (akeys exChan.state).Nodup := by decide
example : hubPaginate ⟨1, 1000, 0, true⟩ exHub 0 2 false 4 none []
    = some ([exPub [1, 0] 11 5, exPub [1] 10 5, exPub [2] 12 (-3)], true) := by decide
end Example

/-! Non-vacuity: ties, Min/MaxInt64, a key that is a prefix of another, a NUL byte. -/
example : paginateAll (elemLt false)
    [((5 : Int), [1]), (5, [1, 0]), (-9223372036854775808, [2]), (9223372036854775807, [])] 1
    = ([(9223372036854775807, []), (5, [1, 0]), (5, [1]), (-9223372036854775808, [2])], true) := by decide
example : ([((5 : Int), [1]), (5, [1, 0]), (-3, [2]), (7, [])] : List Elem).Nodup := by decide

end CentrifugeVerif.C21
