import CentrifugeVerif.Proofs.MapPage
/-!
# C21 — map state pagination enumerates every key exactly once (memory broker part)

Generic theorems are proved in `Proofs/MapPage.lean` for any strict total order; here they are instantiated
with the comparator of `mapHub.getState` (`elemLt asc` on `(score, key)`, keys compared bytewise).
The Redis/Lua half of the property is out of scope (partial).
-/
namespace CentrifugeVerif.C21
open CentrifugeVerif.MapPage

/-- the comparator of `getState` / `find…CursorPosition` is a strict total order on `(score, key)`
(hence on byte strings for unordered channels, where every score is `0`). -/
theorem comparator_strict_total (asc : Bool) : StrictTotal (elemLt asc) := elemLt_strictTotal asc

/-- the binary search of `sort.Search` returns the first index satisfying a monotone predicate. -/
theorem search_first_index (n : Nat) (f : Nat → Bool)
    (hmono : ∀ i j, i ≤ j → j < n → f i = true → f j = true) :
    search n f ≤ n ∧ (∀ k, k < search n f → f k = false) ∧ (search n f < n → f (search n f) = true) :=
  search_spec n f hmono

/-- the cursor position is the number of elements not strictly after the cursor — for *any* cursor,
also one that is not (or no longer) in the list. -/
theorem cursor_position_is_first_beyond (asc : Bool) (keys : List Elem) (hnd : keys.Nodup) (c : Elem) :
    afterCursor (elemLt asc) (isort (elemLt asc) keys) c
      = ((isort (elemLt asc) keys).takeWhile (fun x => !elemLt asc c x)).length :=
  afterCursor_spec (elemLt_strictTotal asc) _ (isort_sorted (elemLt_strictTotal asc) keys hnd) c

/-- **pages_concat_eq_sorted**: for every finite key set with scores, every `limit ≥ 1`, either direction,
requesting pages from the empty cursor while the returned cursor is non-empty terminates within
`size + 1` requests and the concatenation of the pages is the sorted key list. -/
theorem pages_concat_eq_sorted (asc : Bool) (keys : List Elem) (hnd : keys.Nodup) (limit : Int) (hl : 0 < limit) :
    paginateAll (elemLt asc) keys limit = (isort (elemLt asc) keys, true) :=
  MapPage.pages_concat_eq_sorted (elemLt_strictTotal asc) keys hnd limit hl

/-- a negative limit returns everything in one page. -/
theorem pages_concat_negative_limit (asc : Bool) (keys : List Elem) (limit : Int) (hl : limit < 0) :
    paginateAll (elemLt asc) keys limit = (isort (elemLt asc) keys, true) :=
  MapPage.pages_concat_negative_limit (elemLt asc) keys limit hl

/-- every key exactly once, in the channel's sort order. -/
theorem pages_each_key_once (asc : Bool) (keys : List Elem) (hnd : keys.Nodup) (limit : Int) (hl : 0 < limit) :
    (paginateAll (elemLt asc) keys limit).1.Perm keys ∧ (paginateAll (elemLt asc) keys limit).1.Nodup ∧
    (paginateAll (elemLt asc) keys limit).1.Pairwise (fun a b => elemLt asc a b = true) := by
  have h := MapPage.pages_each_key_once (elemLt_strictTotal asc) keys hnd limit hl
  refine ⟨h.1, h.2, ?_⟩
  rw [pages_concat_eq_sorted asc keys hnd limit hl]
  exact isort_sorted (elemLt_strictTotal asc) keys hnd

/-- progress: a page that returns a cursor is non-empty, the cursor is its last element and lies strictly
after the request cursor. -/
theorem page_progress (asc : Bool) (keys : List Elem) (hnd : keys.Nodup) (limit : Int) (hl : 0 < limit)
    (cur : Option Elem) (c' : Elem)
    (hc' : (getPage (elemLt asc) (isort (elemLt asc) keys) cur limit).cursor = some c') :
    (getPage (elemLt asc) (isort (elemLt asc) keys) cur limit).items ≠ [] ∧
    (getPage (elemLt asc) (isort (elemLt asc) keys) cur limit).items.getLast? = some c' ∧
    ∀ c, cur = some c → elemLt asc c c' = true :=
  getPage_progress (elemLt_strictTotal asc) _ (isort_sorted (elemLt_strictTotal asc) keys hnd) limit hl cur c' hc'

/-! Non-vacuity: ties, Min/MaxInt64, a key that is a prefix of another, a NUL byte. -/
example : paginateAll (elemLt false)
    [((5 : Int), [1]), (5, [1, 0]), (-9223372036854775808, [2]), (9223372036854775807, [])] 1
    = ([(9223372036854775807, []), (5, [1, 0]), (5, [1]), (-9223372036854775808, [2])], true) := by decide
example : ([((5 : Int), [1]), (5, [1, 0]), (-3, [2]), (7, [])] : List Elem).Nodup := by decide

end CentrifugeVerif.C21
