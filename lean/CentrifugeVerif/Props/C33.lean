import CentrifugeVerif.Proofs.RedisPush
/-!
# C33 — Redis PUB/SUB payload framing round-trips and parsing is total

Model: `Model/RedisPush.lean` — Go `extractPushData` / `parseDeltaPush` as they are in `/repo`
(with the bounds checks of commits e8dc9ebe and efc5e395), slice-bounds panics as the explicit
outcome `Outcome.panic`; builders: the Lua `..` chains translated into `Gen/RedisPushFmt.lean` on
every run.

* Totality (`extract_total`, `parseDeltaPush_total`): for **every** byte string the decoder returns
  a value, never the `panic` outcome — the guards in front of the length-driven slices suffice.
* Round trip (`extract_build_roundtrip_*`): holds for all payload bytes, previous payloads,
  offsets and epochs under the stated (necessary, see the `example`s) restrictions.
* History: findings C33-1…4 (fixed by e8dc9ebe) — the functions with suffix `Pre` are the code
  before the fixes; `extractPre_panics_iff` characterises exactly which inputs made it panic,
  `extract_agrees_prefix` shows the fixes changed nothing on any other input, and the old witnesses
  are now decoded as malformed (`ok = false`).  Finding C33-6 (first version of the guard,
  `len(input) < prevPayloadLength+1`, overflowed for a declared length of MaxInt64; fixed by
  efc5e395 with `len(input) <= prevPayloadLength`): its witness is `decide`d below as well.
-/
namespace CentrifugeVerif.RedisPush
open CentrifugeVerif.Gen.RedisPushFmt

/-! ## Totality -/

/-- **Decoding an arbitrary PUB/SUB payload never crashes the node**: for every byte string,
`extractPushData` returns a value (possibly flagged malformed), never the panic outcome. -/
theorem extract_total (data : Bytes) : extractPushData data ≠ .panic :=
  extractPushData_ne_panic data

/-- the same for `parseDeltaPush` on every input string -/
theorem parseDeltaPush_total (input : Bytes) : parseDeltaPush input ≠ .panic :=
  parseDeltaPush_ne_panic input

/-- the four inputs that crashed the pre-fix code are now reported as malformed -/
example : extractPushData [95,95,112,49,95,95,120] = .val (failWith [120]) := by decide
example : extractPushData [95,95,100,49,58,49,58,101,58,51,58,97,98,99] = .val (failWith []) := by decide
example : extractPushData [95,95,100,49,58,49,58,101,58,45,49,58,97,98,99,58,49,58,120] = .val (failWith []) := by decide
example : extractPushData [95,95,100,49,58,49,58,101,58,48,58,58,45,50,58,97,98] = .val (failWith []) := by decide

/-- `__d1:1:e:9223372036854775807:abc` (declared prev-payload length = MaxInt64, finding C33-6):
malformed, no panic -/
example : extractPushData
    [95,95,100,49,58,49,58,101,58,57,50,50,51,51,55,50,48,51,54,56,53,52,55,55,53,56,48,55,58,97,98,99] =
    .val (failWith []) := by decide

/-! ## The code before the fixes (findings C33-1…4) -/

/-- Exactly the inputs classified by `panicClass` made the pre-fix `extractPushData` panic. -/
theorem extractPre_panics_iff (data : Bytes) :
    extractPushDataPre data = .panic ↔ (panicClass data).isSome = true :=
  extractPushDataPre_panic_iff data

theorem parseDeltaPushPre_panics_iff (input : Bytes) :
    parseDeltaPushPre input = .panic ↔ (deltaPanicClass input).isSome = true :=
  parseDeltaPushPre_panic_iff input

/-- the pre-fix code was total outside the four panic shapes -/
theorem extractPre_total_partial (data : Bytes) (h : panicClass data = none) :
    extractPushDataPre data ≠ .panic := by
  intro hp
  have := (extractPre_panics_iff data).1 hp
  rw [h] at this
  cases this

/-- the excluding hypothesis is satisfiable by non-trivial inputs (well-formed frames) -/
example : panicClass [95,95,100,49,58,49,58,101,58,51,58,97,98,99,58,49,58,120] = none := by decide
example : panicClass [95,95,112,49,58,53,58,97,98,95,95,120] = none := by decide

/-- witnesses: `__p1__x`, `__d1:1:e:3:abc`, `__d1:1:e:-1:abc:1:x`, `__d1:1:e:0::-2:ab` -/
example : extractPushDataPre [95,95,112,49,95,95,120] = .panic := by decide
example : extractPushDataPre [95,95,100,49,58,49,58,101,58,51,58,97,98,99] = .panic := by decide
example : extractPushDataPre [95,95,100,49,58,49,58,101,58,45,49,58,97,98,99,58,49,58,120] = .panic := by decide
example : extractPushDataPre [95,95,100,49,58,49,58,101,58,48,58,58,45,50,58,97,98] = .panic := by decide
example : (parseDeltaPushPre [100,49,58,49,58,101,58,51,58,97,98,99]).isPanic = true := by decide
example : panicClass [95,95,112,49,95,95,120] = some .pHeaderShort := by decide
example : panicClass [95,95,100,49,58,49,58,101,58,51,58,97,98,99] = some .prevLenEqRemaining := by decide
example : panicClass [95,95,100,49,58,49,58,101,58,45,49,58,97,98,99,58,49,58,120] = some .prevLenNegative := by decide
example : panicClass [95,95,100,49,58,49,58,101,58,48,58,58,45,50,58,97,98] = some .payloadLenNegative := by decide

/-- the pre-fix code was not total -/
theorem extractPre_not_total : ¬ ∀ data : Bytes, extractPushDataPre data ≠ .panic := by
  intro h
  exact h [95,95,112,49,95,95,120] (by decide)

/-- the fixes are conservative: wherever the pre-fix code returned a value, the current code
returns the same value -/
theorem extract_agrees_prefix (data : Bytes) (r : Push) (h : extractPushDataPre data = .val r) :
    extractPushData data = .val r :=
  extractPushData_agrees data r h

/-! ## Round trip -/

def positionedFrame (off : Nat) (epoch payload : Bytes) : Bytes :=
  [95, 95] ++ ((([112, 49, 58] ++ decimal off ++ 58 :: epoch) ++ 95 :: 95 :: payload))

def deltaFrame (off : Nat) (epoch prev payload : Bytes) : Bytes :=
  [95, 95] ++ ([100, 49, 58] ++ (decimal off ++ 58 :: (epoch ++ 58 :: (decimal prev.length ++ 58 ::
    (prev ++ 58 :: (decimal payload.length ++ 58 :: payload))))))

/-- the generated Lua chains denote exactly these frames (breaks when a script changes) -/
theorem render_plain (e : Env) (h : e.offset < 10 ^ 14) :
    render e streamPlain = some (positionedFrame e.offset e.epoch e.payload) ∧
    render e listPlain = some (positionedFrame e.offset e.epoch e.payload) := by
  simp [render, renderPiece, streamPlain, listPlain, luaNum, h, positionedFrame]

theorem render_delta (e : Env) (h : e.offset < 10 ^ 14) (hp : e.prev.length < 10 ^ 14)
    (hq : e.payload.length < 10 ^ 14) :
    render e streamDelta = some (deltaFrame e.offset e.epoch e.prev e.payload) ∧
    render e listDelta = some (deltaFrame e.offset e.epoch e.prev e.payload) := by
  simp [render, renderPiece, streamDelta, listDelta, luaNum, h, hp, hq, deltaFrame]

theorem extractPre_positionedFrame (off : Nat) (epoch payload : Bytes)
    (hoff : off < 2 ^ 64) (hep : ∀ b ∈ epoch, b ≠ 95) :
    extractPushDataPre (positionedFrame off epoch payload) = .val (expectPub off epoch payload false []) := by
  unfold extractPushDataPre positionedFrame
  rw [if_neg (by simp)]
  simp only [show ∀ l : Bytes, List.drop 2 ([95, 95] ++ l) = l from fun l => by simp]
  simp only [List.cons_append, List.nil_append]
  rw [if_neg (by decide), if_neg (by decide), if_pos trivial]
  have := extractPositionedPre_frame (95 :: 95 :: 112 :: 49 :: 58 :: (decimal off ++ 58 :: epoch ++ 95 :: 95 :: payload))
    off epoch payload hoff hep
  simpa using this

theorem extractPre_deltaFrame (off : Nat) (epoch prev payload : Bytes)
    (hoff : off < 2 ^ 64) (hep : ∀ b ∈ epoch, b ≠ 58)
    (hpv : prev.length < 2 ^ 63) (hpl : payload.length < 2 ^ 63) :
    extractPushDataPre (deltaFrame off epoch prev payload) = .val (expectPub off epoch payload true prev) := by
  unfold extractPushDataPre deltaFrame
  rw [if_neg (by simp)]
  simp only [show ∀ l : Bytes, List.drop 2 ([95, 95] ++ l) = l from fun l => by simp]
  have hp := parseDeltaPushPre_frame off epoch prev payload hoff hep hpv hpl
  simp only [List.cons_append, List.nil_append] at hp ⊢
  rw [if_neg (by decide), if_neg (by decide), if_neg (by decide), if_pos trivial]
  unfold extractDeltaPre
  rw [hp]
  simp [Outcome.bind, expectPub]

/-- the current decoder on a positioned frame -/
theorem extract_positionedFrame (off : Nat) (epoch payload : Bytes)
    (hoff : off < 2 ^ 64) (hep : ∀ b ∈ epoch, b ≠ 95) :
    extractPushData (positionedFrame off epoch payload) = .val (expectPub off epoch payload false []) :=
  extract_agrees_prefix _ _ (extractPre_positionedFrame off epoch payload hoff hep)

/-- the current decoder on a delta frame -/
theorem extract_deltaFrame (off : Nat) (epoch prev payload : Bytes)
    (hoff : off < 2 ^ 64) (hep : ∀ b ∈ epoch, b ≠ 58)
    (hpv : prev.length < 2 ^ 63) (hpl : payload.length < 2 ^ 63) :
    extractPushData (deltaFrame off epoch prev payload) = .val (expectPub off epoch payload true prev) := by
  exact extract_agrees_prefix _ _ (extractPre_deltaFrame off epoch prev payload hoff hep hpv hpl)

theorem p14_lt_64 : (10:Nat) ^ 14 < 2 ^ 64 := by decide
theorem p14_lt_63 : (10:Nat) ^ 14 < 2 ^ 63 := by decide

/-- **Positioned publications** (`__p1:offset:epoch__payload`, stream and list script): for all
payload bytes, all offsets below the Lua `%.14g` decimal range and all epochs without `_`, the
script's frame exists and the receiving node decodes exactly (payload, offset, epoch,
delta = false, no previous payload). -/
theorem extract_build_roundtrip_positioned (e : Env) (hoff : e.offset < 10 ^ 14)
    (hep : ∀ b ∈ e.epoch, b ≠ 95) :
    ∃ frame, render e streamPlain = some frame ∧ render e listPlain = some frame ∧
      extractPushData frame = .val (expectPub e.offset e.epoch e.payload false []) :=
  ⟨_, (render_plain e hoff).1, (render_plain e hoff).2,
    extract_positionedFrame _ _ _ (Nat.lt_trans hoff p14_lt_64) hep⟩

/-- **Delta publications** (`__d1:offset:epoch:len:prev:len:payload`): for all payload and
previous-payload bytes (also containing `:` and `__`), offsets/lengths in the Lua decimal range,
epochs without `:`. -/
theorem extract_build_roundtrip_delta (e : Env) (hoff : e.offset < 10 ^ 14)
    (hpv : e.prev.length < 10 ^ 14) (hpl : e.payload.length < 10 ^ 14)
    (hep : ∀ b ∈ e.epoch, b ≠ 58) :
    ∃ frame, render e streamDelta = some frame ∧ render e listDelta = some frame ∧
      extractPushData frame = .val (expectPub e.offset e.epoch e.payload true e.prev) :=
  ⟨_, (render_delta e hoff hpv hpl).1, (render_delta e hoff hpv hpl).2,
    extract_deltaFrame _ _ _ _ (Nat.lt_trans hoff p14_lt_64) hep (Nat.lt_trans hpv p14_lt_63)
      (Nat.lt_trans hpl p14_lt_63)⟩

/-- hypotheses are satisfiable by a non-trivial instance (epoch as generated by `epoch.Generate`) -/
example : ∃ frame, render ⟨7, [97, 98], [1, 58, 95, 95], [58, 0, 255]⟩ streamDelta = some frame ∧
    extractPushData frame = .val (expectPub 7 [97, 98] [58, 0, 255] true [1, 58, 95, 95]) := by
  obtain ⟨f, h1, _, h3⟩ := extract_build_roundtrip_delta ⟨7, [97, 98], [1, 58, 95, 95], [58, 0, 255]⟩
    (by decide) (by decide) (by decide) (by decide)
  exact ⟨f, h1, h3⟩

/-- the epoch restrictions are necessary: `_` at the end of an epoch breaks the positioned
framing, `:` inside an epoch breaks the delta framing -/
example : extractPushData (positionedFrame 5 [97, 95] [120]) ≠ .val (expectPub 5 [97, 95] [120] false []) := by
  decide
example : extractPushData (deltaFrame 5 [97, 58, 98] [] [120]) ≠ .val (expectPub 5 [97, 58, 98] [120] true []) := by
  decide

/-- **Join / leave** (`__j__` / `__l__` followed by the ClientInfo bytes): every payload. -/
theorem extract_build_roundtrip_join (payload : Bytes) :
    extractPushData (buildJoin payload) =
      .val { data := payload, typ := 1, epoch := [], offset := 0, delta := false, prev := [], ok := true } := by
  simp [buildJoin, joinPrefix, extractPushData, extractJoinLeave, indexSep]

theorem extract_build_roundtrip_leave (payload : Bytes) :
    extractPushData (buildLeave payload) =
      .val { data := payload, typ := 2, epoch := [], offset := 0, delta := false, prev := [], ok := true } := by
  simp [buildLeave, leavePrefix, extractPushData, extractJoinLeave, indexSep]

/-- **Plain publications** (no history: the raw protobuf bytes are published): every payload that
does not start with `__` (a protobuf message never does: `0x5f` = field 11 with wire type 7). -/
theorem extract_build_roundtrip_raw (payload : Bytes) (h : payload.take 2 ≠ [95, 95]) :
    extractPushData payload =
      .val { data := payload, typ := 0, epoch := [], offset := 0, delta := false, prev := [], ok := true } := by
  simp [extractPushData, h]

example : ([0x22, 2, 0x7b, 0x7d] : Bytes).take 2 ≠ [95, 95] := by decide

/-! ## List script with delta: the "previous payload" is the framed list entry

`broker_history_add_list.lua` stores `__p1:offset:epoch__payload` with `lpush` and, for delta,
reads the previous payload back with `lindex list_key 0` — i.e. *with* the framing
(`listPrevIsFramedListHead`, extracted from the script).  The delta frame of the second
publication therefore carries the first *frame*, not the first payload, and the receiver decodes
that.  (The Go side then fails to unmarshal it; replayed by the check, finding C33-5.) -/
theorem list_delta_prev_is_framed_entry (e1 e2 : Env) (h1 : e1.offset < 10 ^ 14) (h2 : e2.offset < 10 ^ 14)
    (hl1 : e1.payload.length + e1.epoch.length + 30 < 10 ^ 14) (hl2 : e2.payload.length < 10 ^ 14)
    (hep : ∀ b ∈ e2.epoch, b ≠ 58) (_hfr : listPrevIsFramedListHead = true) :
    ∃ stored frame2, render e1 listPlain = some stored ∧
      render { e2 with prev := stored } listDelta = some frame2 ∧
      extractPushData frame2 = .val (expectPub e2.offset e2.epoch e2.payload true stored) ∧
      stored ≠ e1.payload := by
  refine ⟨positionedFrame e1.offset e1.epoch e1.payload,
    deltaFrame e2.offset e2.epoch (positionedFrame e1.offset e1.epoch e1.payload) e2.payload,
    (render_plain e1 h1).2, ?_, ?_, ?_⟩
  · have hlen : (positionedFrame e1.offset e1.epoch e1.payload).length < 10 ^ 14 := by
      have : (decimal e1.offset).length ≤ 20 := by
        unfold decimal
        exact decimalF_length_le 20 e1.offset
      simp [positionedFrame]; omega
    exact (render_delta { e2 with prev := positionedFrame e1.offset e1.epoch e1.payload } h2 hlen hl2).2
  · have hlen : (positionedFrame e1.offset e1.epoch e1.payload).length < 2 ^ 63 := by
      have : (decimal e1.offset).length ≤ 20 := decimalF_length_le 20 e1.offset
      have := p14_lt_63
      simp [positionedFrame]; omega
    exact extract_deltaFrame _ _ _ _ (Nat.lt_trans h2 p14_lt_64) hep hlen (Nat.lt_trans hl2 p14_lt_63)
  · intro h
    have := congrArg List.length h
    simp [positionedFrame] at this
    omega

example : listPrevIsFramedListHead = true := by decide

end CentrifugeVerif.RedisPush
