import CentrifugeVerif.Proofs.SubProto
/-!
# C05 — nothing of a connection survives its end
-/
namespace CentrifugeVerif.SubProto

theorem applyEff_closed (s : State) (e : Eff) (h : s.status = .closed) : (applyEff s e).status = .closed := by
  cases e <;> simp only [applyEff] <;> (try split) <;> (try split) <;> simp_all

theorem applyEffs_closed (es : List Eff) (s : State) (h : s.status = .closed) : (applyEffs s es).status = .closed := by
  induction es generalizing s with
  | nil => exact h
  | cons e r ih => exact ih _ (applyEff_closed s e h)

/-- a closed connection never becomes open again, whatever runs afterwards -/
theorem closed_is_final (s s' : State) (l : Label) (h : s.status = .closed) (hn : next s l = some s') :
    s'.status = .closed := by
  cases l with
  | spawn k ch o =>
    simp only [next, Option.some.injEq] at hn
    subst hn; exact h
  | step tid o =>
    simp only [next] at hn
    split at hn
    · cases hn
    · split at hn
      · cases hn
      · simp only [Option.some.injEq] at hn
        subst hn
        exact applyEffs_closed _ _ h

end CentrifugeVerif.SubProto
