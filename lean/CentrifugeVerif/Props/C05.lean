import CentrifugeVerif.Proofs.SubProtoNT10
import CentrifugeVerif.Model.SubProtoWitness
/-!
# C05 — nothing of a connection survives its end

Proved for every reachable state (all labels, all interleavings, failures, timeouts):
* `closed_is_final` — a closed connection never becomes open again;
* `connections_gauge_lockstep` — the connections gauge is 1 exactly while the connection is
  registered in the hub;
* `closed_settled_unregistered` — closed and nothing in flight ⇒ not registered, gauge back to 0;
* `closed_no_new_subscription` (in `Props/C04.lean`) — nothing is committed after the close point.

Proved for executions in which the 5 s unsubscribe wait gate never times out (`ReachableNT`):
* `closed_settled_empty` — after the connection closed (at whatever point of whatever subscribe /
  unsubscribe was in progress, with whatever injected failures) and every operation has returned:
  no `c.channels` entry, no routing entry, no presence entry, not registered, both gauges back.

With the timeout the statement is false, for the model and for the implementation:
* `closed_settled_empty_fails_with_timeout_replayed` — kernel-checked execution in which a presence entry
  survives; the check replays it on the real code on every run (finding C05-1, `props/C05/findings.json`);
* `closed_settled_empty_fails_with_timeout` — a second such execution, which needs a goroutine switch
  between two lock regions of one `unsubscribe` call; the gate-controlled harness cannot force that, so it
  is a model-level counterexample only.
-/
namespace CentrifugeVerif.SubProto

/-- a closed connection never becomes open again, whatever runs afterwards -/
theorem closed_is_final (s s' : State) (l : Label) (h : s.status = .closed) (hn : next s l = some s') :
    s'.status = .closed := by
  cases l with
  | spawn k ch o =>
    simp only [next, Option.some.injEq] at hn
    subst hn; exact h
  | step tid o =>
    obtain ⟨t, effs, t', _, _, rfl⟩ := next_step_some hn
    exact applyEffs_closed _ _ h

/-- the connections-inflight gauge is 1 exactly while the connection is registered -/
theorem connections_gauge_lockstep (s : State) (h : Reachable s) :
    s.connGauge = if s.registered then 1 else 0 :=
  (reachable_regOk s h).gauge

/-- closed and nothing in flight ⇒ the connection is not registered on the node any more and the
connections gauge is back to its value before the connection (0) -/
theorem closed_settled_unregistered (s : State) (h : Reachable s) (hc : s.status = .closed) (hs : s.settled) :
    s.registered = false ∧ s.connGauge = 0 := by
  have hr := reachable_regOk s h
  have hreg : s.registered = false := by
    rcases hr.closedReg hc with h1 | ⟨tid, t, h1, h2⟩
    · exact h1
    · have := hs (tid, t) (aget_mem _ _ _ h1)
      simp only at this
      rw [this] at h2; cases h2
  exact ⟨hreg, by rw [hr.gauge, hreg]; rfl⟩

/-- … and, the subscriptions gauge being the number of routing entries, it is back to 0 exactly when
no routing entry of the connection is left -/
theorem closed_subscriptions_gauge (s : State) (h : Reachable s) : s.subGauge = 0 ↔ s.hub = [] := by
  rw [(reachable_struct s h).gauge]
  cases s.hub <;> simp; omega

/-- `closed_settled_empty` (no wait-gate timeout): after the close, once everything in flight has
returned, nothing of the connection is left — no `c.channels` entry, no routing entry in the hub, no
presence entry, no registration, and both inflight gauges are back to 0. -/
theorem closed_settled_empty (s : State) (h : ReachableNT s) (hc : s.status = .closed) (hs : s.settled) :
    s.channels = [] ∧ s.hub = [] ∧ s.presence = [] ∧ s.registered = false ∧ s.connGauge = 0 ∧ s.subGauge = 0 := by
  obtain ⟨h1, h2, h3⟩ := closed_settled_maps_empty s (reachableNT_invFull s h) hc hs
  obtain ⟨h4, h5⟩ := closed_settled_unregistered s (reachableNT_reachable s h) hc hs
  refine ⟨h1, h2, h3, h4, h5, ?_⟩
  rw [(reachable_struct s (reachableNT_reachable s h)).gauge, h2]; rfl

/-- the executable form of the statement used by the explorer and the oracle -/
theorem closed_settled_c05Ok (s : State) (h : ReachableNT s) (hs : s.settled) : c05Ok s = true := by
  unfold c05Ok
  cases hst : s.status with
  | closed =>
    obtain ⟨h1, h2, h3, h4, h5, h6⟩ := closed_settled_empty s h hst hs
    simp [h1, h2, h3, h4, h5, h6]
  | connecting => simp
  | connected => simp

/-- the hypotheses are satisfiable: a subscribe completed, then close() ran to the end -/
example : ∃ s, ReachableNT s ∧ s.status = .closed ∧ s.settled ∧ s.log ≠ [] :=
  ⟨_, ⟨[.spawn .csub 0 ⟨true, true⟩, .step 0 .ok, .step 0 .ok, .step 0 .ok, .step 0 .ok, .step 0 .ok, .step 0 .ok,
      .step 0 .ok, .step 0 .ok, .step 0 .ok, .step 0 .ok, .step 0 .ok, .spawn .close 0 ⟨false, false⟩,
      .step 1 .ok, .step 1 .ok, .step 1 .ok, .step 1 .ok, .step 1 .ok, .step 1 (.pick 0), .step 1 .ok, .step 1 .ok,
      .step 1 .ok, .step 1 .ok, .step 1 .ok, .step 1 .ok, .step 1 .ok, .step 1 .ok, .step 1 .ok], by decide, rfl⟩,
    by decide, by decide, by decide⟩

/-- with the wait-gate timeout the model reaches a closed, settled state that still holds a presence
entry of the connection -/
theorem closed_settled_empty_fails_with_timeout :
    (run State.init wPresenceSurvives).map (fun s => (s.status, settledB s, s.presence, c05Ok s)) =
      some (.closed, true, [0], false) := by decide

/-- … and so does the execution the check replays on the implementation (finding C05-1) -/
theorem closed_settled_empty_fails_with_timeout_replayed :
    (run State.init wPresenceSurvivesAdopt).map (fun s => (s.status, settledB s, s.presence, s.hub.length, s.channels.length, c05Ok s)) =
      some (.closed, true, [0], 0, 0, false) := by decide

end CentrifugeVerif.SubProto
