import CentrifugeVerif.Proofs.SubProtoInv
import CentrifugeVerif.Model.SubProtoWitness
/-!
# C05 — nothing of a connection survives its end

Proved for every reachable state (all labels, all interleavings, failures, timeouts):
* `closed_is_final` — a closed connection never becomes open again;
* `connections_gauge_lockstep` — the connections gauge is 1 exactly while the connection is
  registered in the hub;
* `closed_settled_unregistered` — closed and nothing in flight ⇒ not registered, gauge back to 0;
* `closed_no_new_subscription` (in `Props/C04.lean`) — nothing is committed after the close point.

`closed_settled_empty` in full (no routing entry, no presence entry, no `c.channels` entry after a
settled close) is NOT proved, and it is false for the model once the 5 s wait-gate timeout fires:
`closed_settled_empty_fails_with_timeout` is a checked execution in which a presence entry survives.
That execution needs a goroutine switch between two lock regions of one `unsubscribe` call, which the
gate-controlled harness cannot force, so it is a model-level counterexample only (no replay on the
implementation).  Without the timeout the bounded explorer finds no violation (`props/C05/corpus.ops`).
-/
namespace CentrifugeVerif.SubProto

theorem applyEff_closed (s : State) (e : Eff) (h : s.status = .closed) : (applyEff s e).status = .closed := by
  cases e <;> simp_all

theorem applyEffs_closed (es : List Eff) (s : State) (h : s.status = .closed) : (applyEffs s es).status = .closed := by
  induction es generalizing s with
  | nil => exact h
  | cons e r ih => exact ih _ (applyEff_closed s e h)

/-- a closed connection never becomes open again, whatever runs afterwards -/
theorem closed_is_final (s s' : State) (l : Label) (h : s.status = .closed) (hn : next s l = some s') :
    s'.status = .closed := by
  cases l with
  | spawn k ch o =>
    simp only [next, Option.some.injEq] at hn
    subst hn; exact h
  | step tid o =>
    obtain ⟨t, effs, t', _, _, rfl⟩ := next_step_some hn
    exact applyEffs_closed _ _ h

theorem reachable_regOk (s : State) (h : Reachable s) : RegOk s :=
  reachable_invariant RegOk RegOk.init next_regOk s h

/-- the connections-inflight gauge is 1 exactly while the connection is registered -/
theorem connections_gauge_lockstep (s : State) (h : Reachable s) :
    s.connGauge = if s.registered then 1 else 0 :=
  (reachable_regOk s h).gauge

/-- closed and nothing in flight ⇒ the connection is not registered on the node any more and the
connections gauge is back to its value before the connection (0) -/
theorem closed_settled_unregistered (s : State) (h : Reachable s) (hc : s.status = .closed) (hs : s.settled) :
    s.registered = false ∧ s.connGauge = 0 := by
  have hr := reachable_regOk s h
  have hreg : s.registered = false := by
    rcases hr.closedReg hc with h1 | ⟨tid, t, h1, h2⟩
    · exact h1
    · have := hs (tid, t) (aget_mem _ _ _ h1)
      simp only at this
      rw [this] at h2; cases h2
  exact ⟨hreg, by rw [hr.gauge, hreg]; rfl⟩

/-- … and, the subscriptions gauge being the number of routing entries, it is back to 0 exactly when
no routing entry of the connection is left -/
theorem closed_subscriptions_gauge (s : State) (h : Reachable s) : s.subGauge = 0 ↔ s.hub = [] := by
  rw [(reachable_struct s h).gauge]
  cases s.hub <;> simp; omega

/-
`closed_settled_empty` (full statement, not proved; false with timeouts, see below):
  Reachable s → s.status = .closed → s.settled → c05Ok s = true
-/

/-- with the wait-gate timeout the model reaches a closed, settled state that still holds a presence
entry of the connection -/
theorem closed_settled_empty_fails_with_timeout :
    (run State.init wPresenceSurvives).map (fun s => (s.status, settledB s, s.presence, c05Ok s)) =
      some (.closed, true, [0], false) := by decide

end CentrifugeVerif.SubProto
