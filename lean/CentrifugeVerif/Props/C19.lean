import CentrifugeVerif.Model.HistoryHub
/-!
# C19 — Idempotent and versioned publishes suppress exactly the duplicates (memory stream broker part)
(first cut; the general theorems follow)
-/
namespace CentrifugeVerif.HistoryHub
open CentrifugeVerif.MemStream

/-- an idempotency-cache hit returns the cached position, suppressed, and leaves the broker unchanged -/
theorem c19_idem_hit_changes_nothing (b : Broker) (ch data : String) (o : PubOpts) (now : Nat) (p : Pos)
    (hk : o.idemKey ≠ "") (hit : b.cacheGet ch o.idemKey now = some p) :
    b.publish ch data o now = (b, ⟨p, .idempotency, none⟩) := by
  unfold Broker.publish
  simp [hk, hit]

end CentrifugeVerif.HistoryHub
