import CentrifugeVerif.Proofs.HistoryHubBroker
/-!
# C19 — Idempotent and versioned publishes suppress exactly the duplicates
(memory stream broker part; Redis/Lua and the map brokers are not covered here)

Statement: a publish repeating an idempotency key within its result TTL returns the original
stream position, is marked suppressed, adds no history entry and reaches no subscriber; after the
TTL it is a fresh publish.  A versioned publish is suppressed exactly when the channel already
holds an equal or higher version in the same version epoch (unversioned publishes do not reset that
protection), and suppressed publishes change nothing.

What is proved about the code's model (`Model/HistoryHub.lean`), for all states, operation
sequences and times:
* `idem_within_ttl`, `idem_after_ttl_fresh`, `idem_suppressed_iff`, `idem_changes_nothing`;
* `version_suppressed_iff` — against the stream's *current* version pair;
* `suppressed_no_broadcast`, `stored_broadcast_once`;
* `version_suppressed_frame_partial` — a version-suppressed publish leaves streams, epochs and the
  result cache untouched, **but not the expiry deadlines**.
Three clauses of the statement do **not** hold for the code; each has a machine-checked
counter-witness below and a replay on the real broker (findings C19-1, C19-2, C19-3):
* an unversioned publish overwrites the version pair with `(0, "")` (`unversioned_resets_version`),
  so "unversioned publishes do not reset that protection" fails;
* the deadlines are refreshed before the version check, so "suppressed publishes change nothing"
  fails for the history's lifetime;
* the result-cache key is `channel ++ "_" ++ key`, so different (channel, key) pairs can collide and
  a first-time publish is suppressed ("exactly the duplicates" fails).
-/
namespace CentrifugeVerif.HistoryHub
open CentrifugeVerif.MemStream CentrifugeVerif.AbsStream

/-! ## idempotency -/

/-- **exact characterisation**: a publish is suppressed as idempotent iff it carries a key and the
result cache holds a live entry under `cacheKey channel key` -/
theorem idem_suppressed_iff (b : Broker) (ch data : String) (o : PubOpts) (now : Nat) :
    (b.publish ch data o now).2.suppress = .idempotency ↔
      o.idemKey ≠ "" ∧ ∃ p e, b.cache (cacheKey ch o.idemKey) = some (p, e) ∧ now < e := by
  constructor
  · intro hs
    rcases publish_cases b ch data o now with ⟨p, h⟩ | ⟨hm, hh, hsk⟩ | ⟨hm, hh, hsk⟩ | ⟨hm, hh⟩
    · unfold Broker.idemHit at h
      by_cases hk : o.idemKey ≠ ""
      · rw [if_pos hk] at h
        obtain ⟨e, he, hl⟩ := (cacheGet_some_iff b ch o.idemKey now p).mp h
        exact ⟨hk, p, e, he, hl⟩
      · simp [hk] at h
    · rw [publish_skip b ch data o now hm hh hsk] at hs; cases hs
    · rw [publish_store b ch data o now hm hh hsk] at hs; cases hs
    · rw [publish_nohistory b ch data o now hm hh] at hs; cases hs
  · rintro ⟨hk, p, e, he, hl⟩
    have : b.idemHit ch o now = some p := by
      unfold Broker.idemHit
      rw [if_pos hk]
      exact cacheGet_of_entry b ch o.idemKey now p e he hl
    rw [publish_hit b ch data o now p this]

/-- an idempotency-suppressed publish returns the cached position, changes **nothing** in the broker
(no history entry, no deadline, no cache write) and reaches no subscriber -/
theorem idem_changes_nothing (b : Broker) (ch data : String) (o : PubOpts) (now : Nat)
    (hs : (b.publish ch data o now).2.suppress = .idempotency) :
    (b.publish ch data o now).1 = b ∧ (b.publish ch data o now).2.bcast = none ∧
      ∃ e, b.cache (cacheKey ch o.idemKey) = some ((b.publish ch data o now).2.pos, e) ∧ now < e := by
  rcases publish_cases b ch data o now with ⟨p, h⟩ | ⟨hm, hh, hsk⟩ | ⟨hm, hh, hsk⟩ | ⟨hm, hh⟩
  · rw [publish_hit b ch data o now p h]
    refine ⟨rfl, rfl, ?_⟩
    unfold Broker.idemHit at h
    by_cases hk : o.idemKey ≠ ""
    · rw [if_pos hk] at h
      exact (cacheGet_some_iff b ch o.idemKey now p).mp h
    · simp [hk] at h
  · rw [publish_skip b ch data o now hm hh hsk] at hs; cases hs
  · rw [publish_store b ch data o now hm hh hsk] at hs; cases hs
  · rw [publish_nohistory b ch data o now hm hh] at hs; cases hs

/-- a keyed publish that is not suppressed saves its position under the cache key with
`ExpireAt = now + seconds·1000` -/
theorem keyed_publish_saves (b : Broker) (ch data : String) (o : PubOpts) (now : Nat)
    (hk : o.idemKey ≠ "") (hs : (b.publish ch data o now).2.suppress = .none) :
    (b.publish ch data o now).1.cache (cacheKey ch o.idemKey) =
      some ((b.publish ch data o now).2.pos, now + idemSeconds o * 1000) := by
  rcases publish_cases b ch data o now with ⟨p, h⟩ | ⟨hm, hh, hsk⟩ | ⟨hm, hh, hsk⟩ | ⟨hm, hh⟩
  · rw [publish_hit b ch data o now p h] at hs; cases hs
  · rw [publish_skip b ch data o now hm hh hsk] at hs; cases hs
  · rw [publish_store b ch data o now hm hh hsk]
    simp [Broker.saved, hk, Broker.cacheSave]
  · rw [publish_nohistory b ch data o now hm hh]
    simp [Broker.saved, hk, Broker.cacheSave]

/-- **idem_within_ttl**: after a keyed publish at `t0` that was not suppressed, *whatever* happens
next before `t0 + resultTTL` (any operations on any channels, sweeper wake-ups included), a publish
to the same channel with the same key before `t0 + resultTTL` returns the original position,
suppressed as idempotent, leaves the broker state exactly as it was and reaches no subscriber. -/
theorem idem_within_ttl (b : Broker) (ch data : String) (o : PubOpts) (t0 : Nat)
    (hk : o.idemKey ≠ "") (hs : (b.publish ch data o t0).2.suppress = .none)
    (ops : List Op) (hops : ∀ op ∈ ops, opTimeMs op < t0 + idemSeconds o * 1000)
    (data' : String) (o' : PubOpts) (now : Nat) (hk' : o'.idemKey = o.idemKey)
    (hnow : now < t0 + idemSeconds o * 1000) :
    (run (b.publish ch data o t0).1 ops).publish ch data' o' now =
      (run (b.publish ch data o t0).1 ops, ⟨(b.publish ch data o t0).2.pos, .idempotency, none⟩) := by
  have hsave := keyed_publish_saves b ch data o t0 hk hs
  have hkeep := run_keeps_entry _ ops _ _ _ hsave hops
  apply publish_hit
  unfold Broker.idemHit
  rw [hk', if_pos hk]
  exact cacheGet_of_entry _ ch o.idemKey now _ _ hkeep hnow

/-- **idem_after_ttl_fresh**: when the entry under the cache key has expired (`ExpireAt ≤ now`) or
does not exist, the publish is not suppressed as idempotent — it takes the normal path (and saves a
new result when it is stored). -/
theorem idem_after_ttl_fresh (b : Broker) (ch data : String) (o : PubOpts) (now : Nat)
    (hexp : ∀ p e, b.cache (cacheKey ch o.idemKey) = some (p, e) → e ≤ now) :
    (b.publish ch data o now).2.suppress ≠ .idempotency := by
  intro hs
  obtain ⟨_, p, e, he, hl⟩ := (idem_suppressed_iff b ch data o now).mp hs
  have := hexp p e he
  omega

/-! ## versions -/

/-- **version_suppressed_iff**: a publish is suppressed for its version iff it is not an idempotent
repeat, history is on, the channel has a stream, `version > 0`, the version epoch is empty or equals
the stream's current version epoch, and `version ≤` the stream's current version. -/
theorem version_suppressed_iff (b : Broker) (ch data : String) (o : PubOpts) (now : Nat) :
    (b.publish ch data o now).2.suppress = .version ↔
      b.idemHit ch o now = none ∧ o.history ∧
        ∃ s, (b.hub.chans ch).stream = some s ∧ VersionSkip o s := by
  constructor
  · intro hs
    rcases publish_cases b ch data o now with ⟨p, h⟩ | ⟨hm, hh, hsk⟩ | ⟨hm, hh, hsk⟩ | ⟨hm, hh⟩
    · rw [publish_hit b ch data o now p h] at hs; cases hs
    · exact ⟨hm, hh, (add_skip_iff _ ch _ o _).mp hsk⟩
    · rw [publish_store b ch data o now hm hh hsk] at hs; cases hs
    · rw [publish_nohistory b ch data o now hm hh] at hs; cases hs
  · rintro ⟨hm, hh, hex⟩
    have hsk := (add_skip_iff b.hub ch ⟨data, o.version⟩ o (now / 1000)).mpr hex
    rw [publish_skip b ch data o now hm hh hsk]

/-- what a stored publish does to the stream's version pair: it is **overwritten** with the
publish's `(version, versionEpoch)` — also by an unversioned publish (`(0, "")`). -/
theorem stored_sets_version (s : MStream Pub) (v : Pub) (size ver : Nat) (ve : String) :
    (s.add v size ver ve).1.topVersion = ver ∧ (s.add v size ver ve).1.topVersionEpoch = ve := ⟨rfl, rfl⟩

/-- **version protection (partial)**: right after a stored publish with version `v` in epoch `ve`,
a publish with version `0 < v' ≤ v` in the same or an empty epoch is suppressed.
Full clause ("equal or higher version the channel already holds, unversioned publishes do not reset
that protection") is false on the code: `unversioned_resets_version` below. -/
theorem version_protection_partial (s : MStream Pub) (p : Pub) (size v : Nat) (ve : String) (o : PubOpts)
    (h0 : 0 < o.version) (hle : o.version ≤ v) (hve : o.versionEpoch = "" ∨ o.versionEpoch = ve) :
    VersionSkip o (s.add p size v ve).1 := ⟨h0, hve, hle⟩

/-- a version-suppressed or idempotency-suppressed publish reaches no subscriber -/
theorem suppressed_no_broadcast (b : Broker) (ch data : String) (o : PubOpts) (now : Nat)
    (hs : (b.publish ch data o now).2.suppress ≠ .none) : (b.publish ch data o now).2.bcast = none := by
  rcases publish_cases b ch data o now with ⟨p, h⟩ | ⟨hm, hh, hsk⟩ | ⟨hm, hh, hsk⟩ | ⟨hm, hh⟩
  · rw [publish_hit b ch data o now p h]
  · rw [publish_skip b ch data o now hm hh hsk]
  · rw [publish_store b ch data o now hm hh hsk] at hs; exact absurd rfl hs
  · rw [publish_nohistory b ch data o now hm hh] at hs; exact absurd rfl hs

/-- an unsuppressed publish is handed to the subscribers exactly once, with the returned position,
the assigned offset and the payload -/
theorem stored_broadcast_once (b : Broker) (ch data : String) (o : PubOpts) (now : Nat)
    (hs : (b.publish ch data o now).2.suppress = .none) :
    ∃ prev, (b.publish ch data o now).2.bcast =
      some ⟨ch, ⟨(b.publish ch data o now).2.pos.offset, ⟨data, o.version⟩⟩,
        (b.publish ch data o now).2.pos, o.useDelta, prev⟩ := by
  rcases publish_cases b ch data o now with ⟨p, h⟩ | ⟨hm, hh, hsk⟩ | ⟨hm, hh, hsk⟩ | ⟨hm, hh⟩
  · rw [publish_hit b ch data o now p h] at hs; cases hs
  · rw [publish_skip b ch data o now hm hh hsk] at hs; cases hs
  · rw [publish_store b ch data o now hm hh hsk]; exact ⟨_, rfl⟩
  · rw [publish_nohistory b ch data o now hm hh]; exact ⟨_, rfl⟩

/-- **suppressed publishes change nothing (partial)**: a version-suppressed publish returns the
stream's current top position and leaves every stream (contents, top, epoch, version pair), the
epoch counter and the result cache untouched.
Full statement — `(b.publish …).1 = b` — is false on the code: the history-TTL and meta-TTL
deadlines of the channel are refreshed before the version check
(`version_suppressed_extends_ttl` below). -/
theorem version_suppressed_frame_partial (b : Broker) (ch data : String) (o : PubOpts) (now : Nat)
    (hs : (b.publish ch data o now).2.suppress = .version) :
    (∀ x, ((b.publish ch data o now).1.hub.chans x).stream = (b.hub.chans x).stream) ∧
      (b.publish ch data o now).1.hub.nextEpoch = b.hub.nextEpoch ∧
      (b.publish ch data o now).1.cache = b.cache ∧
      ∃ s, (b.hub.chans ch).stream = some s ∧ (b.publish ch data o now).2.pos = ⟨s.top, s.epoch⟩ := by
  rcases publish_cases b ch data o now with ⟨p, h⟩ | ⟨hm, hh, hsk⟩ | ⟨hm, hh, hsk⟩ | ⟨hm, hh⟩
  · rw [publish_hit b ch data o now p h] at hs; cases hs
  · rw [publish_skip b ch data o now hm hh hsk]
    obtain ⟨h1, _, h3, h4⟩ := add_skip_spec b.hub ch ⟨data, o.version⟩ o (now / 1000) hsk
    refine ⟨h3, ?_, rfl, h4⟩
    have := congrArg Abs.nextEpoch h1
    simpa [Hub.abs] using this
  · rw [publish_store b ch data o now hm hh hsk] at hs; cases hs
  · rw [publish_nohistory b ch data o now hm hh] at hs; cases hs

/-! ## counter-witnesses (each is replayed on the real broker by the check) -/

/-- finding C19-1: v=5 stored, v=3 suppressed, an unversioned publish stored, then v=3 is **stored**:
the unversioned publish reset the version pair to `(0, "")` -/
def c19w1 : List Op := [
  .publish "a" "d1" { size := 3, ttl := 10000, version := 5 } 500,
  .publish "a" "d2" { size := 3, ttl := 10000, version := 3 } 600,
  .publish "a" "d3" { size := 3, ttl := 10000 } 700,
  .publish "a" "d4" { size := 3, ttl := 10000, version := 3 } 800]

theorem unversioned_resets_version :
    (runOut (Broker.init 60000) c19w1).map (fun o => match o with | .pub p => some (p.pos.offset, p.suppress) | _ => none) =
      [some (1, .none), some (1, .version), some (2, .none), some (3, .none)] := by decide

/-- finding C19-2: v=5 at 0.5 s with TTL 10 s; a suppressed v=3 at 9.5 s moves the data deadline from
second 10 to second 19, so the history survives the sweeps at seconds 10 and 11 -/
def c19w2 : List Op := [
  .publish "a" "d1" { size := 3, ttl := 10000, version := 5 } 500,
  .publish "a" "d2" { size := 3, ttl := 10000, version := 3 } 9500]

theorem version_suppressed_extends_ttl :
    let b1 := run (Broker.init 60000) (c19w2.take 1)
    let b2 := run (Broker.init 60000) c19w2
    (b1.hub.chans "a").expires = some 10 ∧ (b2.hub.chans "a").expires = some 19 ∧
      (((b1.tick 10).tick 11).history "a" { limit := -1 } 0 11500).2.1 = [] ∧
      (((b2.tick 10).tick 11).history "a" { limit := -1 } 0 11500).2.1 = [⟨1, ⟨"d1", 5⟩⟩] := by decide

/-- finding C19-3: (channel `a_b`, key `c`) and (channel `a`, key `b_c`) share a cache key; the
first-time publish to `a` is answered with the other channel's position and dropped -/
theorem cache_key_collision : cacheKey "a_b" "c" = cacheKey "a" "b_c" := by decide

def c19w3 : List Op := [
  .publish "a_b" "d1" { size := 3, ttl := 10000, idemKey := "c" } 500,
  .publish "a" "d2" { size := 3, ttl := 10000, idemKey := "b_c" } 600]

theorem idem_collision_suppresses_first_publish :
    (runOut (Broker.init 60000) c19w3).map (fun o => match o with | .pub p => some (p.pos, p.suppress) | _ => none) =
      [some (⟨1, 1⟩, .none), some (⟨1, 1⟩, .idempotency)] ∧
    ((run (Broker.init 60000) c19w3).hub.chans "a").stream = none := by decide

/-! ## non-vacuity of the hypotheses above -/

/-- `idem_within_ttl`: key `k`, result TTL 2 s, repeated 1.9 s later after other traffic -/
example :
    let b := Broker.init 60000
    let o : PubOpts := { size := 3, ttl := 10000, idemKey := "k", idemTTL := 2000 }
    (b.publish "a" "d1" o 500).2.suppress = .none ∧
      ((run (b.publish "a" "d1" o 500).1 [.publish "a" "x" { size := 3, ttl := 10000 } 900, .tick 1, .tick 2]).publish
          "a" "d2" o 2400).2 = ⟨⟨1, 1⟩, .idempotency, none⟩ ∧
      ((run (b.publish "a" "d1" o 500).1 [.publish "a" "x" { size := 3, ttl := 10000 } 900, .tick 1, .tick 2]).publish
          "a" "d3" o 2600).2.suppress = .none := by decide

/-- `version_suppressed_iff` / `version_protection_partial`: equal version, other epoch not suppressed -/
example :
    (runOut (Broker.init 60000) [
      .publish "a" "d1" { size := 3, ttl := 10000, version := 5, versionEpoch := "x" } 500,
      .publish "a" "d2" { size := 3, ttl := 10000, version := 5, versionEpoch := "x" } 600,
      .publish "a" "d3" { size := 3, ttl := 10000, version := 5 } 700,
      .publish "a" "d4" { size := 3, ttl := 10000, version := 2, versionEpoch := "y" } 800]).map
      (fun o => match o with | .pub p => some p.suppress | _ => none) =
      [some .none, some .version, some .version, some .none] := by decide

end CentrifugeVerif.HistoryHub
