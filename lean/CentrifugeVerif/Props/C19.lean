import CentrifugeVerif.Proofs.HistoryHubBroker
import CentrifugeVerif.Proofs.HistoryHubCacheKey
/-!
# C19 — Idempotent and versioned publishes suppress exactly the duplicates
(memory stream broker part; Redis/Lua and the map brokers are not covered here)

Statement: a publish repeating an idempotency key within its result TTL returns the original
stream position, is marked suppressed, adds no history entry and reaches no subscriber; after the
TTL it is a fresh publish.  A versioned publish is suppressed exactly when the channel already
holds an equal or higher version in the same version epoch (unversioned publishes do not reset that
protection), and suppressed publishes change nothing.

What is proved about the code's model (`Model/HistoryHub.lean`, mirroring /repo after the fix
commits a5ec69f4 and e5e52fd9), for all states, operation sequences and times:
* `idem_within_ttl`, `idem_after_ttl_fresh`, `idem_suppressed_iff`, `idem_changes_nothing`;
* `version_suppressed_iff` — against the version pair the stream holds;
* `version_pair_step`, `unversioned_keeps_version` — the held version pair changes **only** by a
  stored versioned publish on that channel: unversioned publishes, other channels' traffic,
  history reads, remove, data expiry do not reset the protection;
* `version_suppressed_changes_nothing` — a version-suppressed publish (with or without `UseDelta`)
  leaves the whole broker state untouched (streams, epochs, **deadlines**, queues, result cache);
* `suppressed_no_broadcast`, `stored_broadcast_once`.
* `cache_key_injective`, `other_key_keeps_entry` — the result-cache key
  `Itoa(len(ch)) + "_" + ch + "_" + key` is injective, so a publish under a different
  (channel, key) never creates, refreshes or hits another pair's entry: with
  `idem_suppressed_iff` the idempotency suppression hits **exactly** the repeats.
All findings of the first rounds are fixed in /repo (old counter-witnesses kept as comments,
replays kept in the corpus as regression guards): C19-1 (an unversioned publish reset the version
pair; a5ec69f4), C19-2 (a version-suppressed publish refreshed the history-TTL and meta-TTL
deadlines; e5e52fd9), C19-3 (result-cache key `ch + "_" + key` collided across channels; 1b02042a),
C19-4 (with `UseDelta` the delta read preceded the version check and refreshed the meta-TTL
deadline; 43a5eb1b).
-/
namespace CentrifugeVerif.HistoryHub
open CentrifugeVerif.MemStream CentrifugeVerif.AbsStream

/-! ## idempotency -/

/-- **exact characterisation**: a publish is suppressed as idempotent iff it carries a key and the
result cache holds a live entry under `cacheKey channel key` -/
theorem idem_suppressed_iff (b : Broker) (ch data : String) (o : PubOpts) (now : Nat) :
    (b.publish ch data o now).2.suppress = .idempotency ↔
      o.idemKey ≠ "" ∧ ∃ p e, b.cache (cacheKey ch o.idemKey) = some (p, e) ∧ now < e := by
  constructor
  · intro hs
    rcases publish_cases b ch data o now with ⟨p, h⟩ | ⟨hm, hh, hsk⟩ | ⟨hm, hh, hsk⟩ | ⟨hm, hh⟩
    · unfold Broker.idemHit at h
      by_cases hk : o.idemKey ≠ ""
      · rw [if_pos hk] at h
        obtain ⟨e, he, hl⟩ := (cacheGet_some_iff b ch o.idemKey now p).mp h
        exact ⟨hk, p, e, he, hl⟩
      · simp [hk] at h
    · rw [publish_skip b ch data o now hm hh hsk] at hs; cases hs
    · rw [publish_store b ch data o now hm hh hsk] at hs; cases hs
    · rw [publish_nohistory b ch data o now hm hh] at hs; cases hs
  · rintro ⟨hk, p, e, he, hl⟩
    have : b.idemHit ch o now = some p := by
      unfold Broker.idemHit
      rw [if_pos hk]
      exact cacheGet_of_entry b ch o.idemKey now p e he hl
    rw [publish_hit b ch data o now p this]

/-- an idempotency-suppressed publish returns the cached position, changes **nothing** in the broker
(no history entry, no deadline, no cache write) and reaches no subscriber -/
theorem idem_changes_nothing (b : Broker) (ch data : String) (o : PubOpts) (now : Nat)
    (hs : (b.publish ch data o now).2.suppress = .idempotency) :
    (b.publish ch data o now).1 = b ∧ (b.publish ch data o now).2.bcast = none ∧
      ∃ e, b.cache (cacheKey ch o.idemKey) = some ((b.publish ch data o now).2.pos, e) ∧ now < e := by
  rcases publish_cases b ch data o now with ⟨p, h⟩ | ⟨hm, hh, hsk⟩ | ⟨hm, hh, hsk⟩ | ⟨hm, hh⟩
  · rw [publish_hit b ch data o now p h]
    refine ⟨rfl, rfl, ?_⟩
    unfold Broker.idemHit at h
    by_cases hk : o.idemKey ≠ ""
    · rw [if_pos hk] at h
      exact (cacheGet_some_iff b ch o.idemKey now p).mp h
    · simp [hk] at h
  · rw [publish_skip b ch data o now hm hh hsk] at hs; cases hs
  · rw [publish_store b ch data o now hm hh hsk] at hs; cases hs
  · rw [publish_nohistory b ch data o now hm hh] at hs; cases hs

/-- **the result-cache key is injective**: different (channel, key) pairs never share an entry -/
theorem cache_key_injective (ch key ch' key' : String) (h : cacheKey ch key = cacheKey ch' key') :
    ch = ch' ∧ key = key' := cacheKey_injective ch key ch' key' h

/-- a publish under another (channel, key) pair leaves the entry of (`ch`, `key`) as it is —
it neither creates nor refreshes nor replaces it -/
theorem other_key_keeps_entry (b : Broker) (ch key ch' data : String) (o : PubOpts) (now : Nat)
    (hne : ¬ (ch' = ch ∧ o.idemKey = key)) :
    (b.publish ch' data o now).1.cache (cacheKey ch key) = b.cache (cacheKey ch key) := by
  have hck : cacheKey ch key ≠ cacheKey ch' o.idemKey := by
    intro h
    obtain ⟨h1, h2⟩ := cacheKey_injective _ _ _ _ h
    exact hne ⟨h1.symm, h2.symm⟩
  have hsave : ∀ (b' : Broker) (q : Pos), b'.cache = b.cache →
      (b'.saved ch' o q now).cache (cacheKey ch key) = b.cache (cacheKey ch key) := by
    intro b' q hb'
    unfold Broker.saved
    split
    · unfold Broker.cacheSave; simp [hck, hb']
    · rw [hb']
  rcases publish_cases b ch' data o now with ⟨p, h⟩ | ⟨hm, hh, hsk⟩ | ⟨hm, hh, hsk⟩ | ⟨hm, hh⟩
  · rw [publish_hit b ch' data o now p h]
  · rw [publish_skip b ch' data o now hm hh hsk]
  · rw [publish_store b ch' data o now hm hh hsk]; exact hsave _ _ rfl
  · rw [publish_nohistory b ch' data o now hm hh]; exact hsave _ _ rfl

/-- a keyed publish that is not suppressed saves its position under the cache key with
`ExpireAt = now + seconds·1000` -/
theorem keyed_publish_saves (b : Broker) (ch data : String) (o : PubOpts) (now : Nat)
    (hk : o.idemKey ≠ "") (hs : (b.publish ch data o now).2.suppress = .none) :
    (b.publish ch data o now).1.cache (cacheKey ch o.idemKey) =
      some ((b.publish ch data o now).2.pos, now + idemSeconds o * 1000) := by
  rcases publish_cases b ch data o now with ⟨p, h⟩ | ⟨hm, hh, hsk⟩ | ⟨hm, hh, hsk⟩ | ⟨hm, hh⟩
  · rw [publish_hit b ch data o now p h] at hs; cases hs
  · rw [publish_skip b ch data o now hm hh hsk] at hs; cases hs
  · rw [publish_store b ch data o now hm hh hsk]
    simp [Broker.saved, hk, Broker.cacheSave]
  · rw [publish_nohistory b ch data o now hm hh]
    simp [Broker.saved, hk, Broker.cacheSave]

/-- **idem_within_ttl**: after a keyed publish at `t0` that was not suppressed, *whatever* happens
next before `t0 + resultTTL` (any operations on any channels, sweeper wake-ups included), a publish
to the same channel with the same key before `t0 + resultTTL` returns the original position,
suppressed as idempotent, leaves the broker state exactly as it was and reaches no subscriber. -/
theorem idem_within_ttl (b : Broker) (ch data : String) (o : PubOpts) (t0 : Nat)
    (hk : o.idemKey ≠ "") (hs : (b.publish ch data o t0).2.suppress = .none)
    (ops : List Op) (hops : ∀ op ∈ ops, opTimeMs op < t0 + idemSeconds o * 1000)
    (data' : String) (o' : PubOpts) (now : Nat) (hk' : o'.idemKey = o.idemKey)
    (hnow : now < t0 + idemSeconds o * 1000) :
    (run (b.publish ch data o t0).1 ops).publish ch data' o' now =
      (run (b.publish ch data o t0).1 ops, ⟨(b.publish ch data o t0).2.pos, .idempotency, none⟩) := by
  have hsave := keyed_publish_saves b ch data o t0 hk hs
  have hkeep := run_keeps_entry _ ops _ _ _ hsave hops
  apply publish_hit
  unfold Broker.idemHit
  rw [hk', if_pos hk]
  exact cacheGet_of_entry _ ch o.idemKey now _ _ hkeep hnow

/-- **idem_after_ttl_fresh**: when the entry under the cache key has expired (`ExpireAt ≤ now`) or
does not exist, the publish is not suppressed as idempotent — it takes the normal path (and saves a
new result when it is stored). -/
theorem idem_after_ttl_fresh (b : Broker) (ch data : String) (o : PubOpts) (now : Nat)
    (hexp : ∀ p e, b.cache (cacheKey ch o.idemKey) = some (p, e) → e ≤ now) :
    (b.publish ch data o now).2.suppress ≠ .idempotency := by
  intro hs
  obtain ⟨_, p, e, he, hl⟩ := (idem_suppressed_iff b ch data o now).mp hs
  have := hexp p e he
  omega

/-! ## versions -/

/-- **version_suppressed_iff**: a publish is suppressed for its version iff it is not an idempotent
repeat, history is on, the channel has a stream, `version > 0`, the version epoch is empty or equals
the stream's current version epoch, and `version ≤` the stream's current version. -/
theorem version_suppressed_iff (b : Broker) (ch data : String) (o : PubOpts) (now : Nat) :
    (b.publish ch data o now).2.suppress = .version ↔
      b.idemHit ch o now = none ∧ o.history ∧
        ∃ s, (b.hub.chans ch).stream = some s ∧ VersionSkip o s := by
  constructor
  · intro hs
    rcases publish_cases b ch data o now with ⟨p, h⟩ | ⟨hm, hh, hsk⟩ | ⟨hm, hh, hsk⟩ | ⟨hm, hh⟩
    · rw [publish_hit b ch data o now p h] at hs; cases hs
    · exact ⟨hm, hh, (add_skip_iff _ ch _ o _).mp hsk⟩
    · rw [publish_store b ch data o now hm hh hsk] at hs; cases hs
    · rw [publish_nohistory b ch data o now hm hh] at hs; cases hs
  · rintro ⟨hm, hh, hex⟩
    have hsk := (add_skip_iff b.hub ch ⟨data, o.version⟩ o (now / 1000)).mpr hex
    rw [publish_skip b ch data o now hm hh hsk]

/-- what `Add` does to the stream's version pair: a versioned publish sets it, an **unversioned
publish keeps it** -/
theorem stored_version_pair (s : MStream Pub) (v : Pub) (size ver : Nat) (ve : String) :
    ((s.add v size ver ve).1.topVersion, (s.add v size ver ve).1.topVersionEpoch) =
      if ver > 0 then (ver, ve) else (s.topVersion, s.topVersionEpoch) := by
  unfold MStream.add
  split <;> simp_all

/-- **unversioned publishes do not reset the protection** (stream level) -/
theorem unversioned_keeps_version (s : MStream Pub) (v : Pub) (size : Nat) (ve : String) :
    (s.add v size 0 ve).1.topVersion = s.topVersion ∧
      (s.add v size 0 ve).1.topVersionEpoch = s.topVersionEpoch := ⟨rfl, rfl⟩

/-- the version pair a stream holds -/
def vpair (s : MStream Pub) : Nat × String := (s.topVersion, s.topVersionEpoch)

/-- **the held version pair changes only by a stored versioned publish on that channel**: across
any operation, a channel that has a stream before and after it holds the same version pair —
unless the operation is a publish to that channel with `version > 0` that was stored, in which
case the pair is that publish's.  (So unversioned publishes, idempotent or version-suppressed
publishes, publishes to other channels, history reads, `RemoveHistory` and data expiry all keep
the protection; it ends only with the stream itself, at meta expiry.) -/
theorem version_pair_step (b : Broker) (op : Op) (x : String) (s s' : MStream Pub)
    (hst : (b.hub.chans x).stream = some s) (hst' : ((step b op).1.hub.chans x).stream = some s') :
    vpair s' = vpair s ∨
      ∃ data o now, op = .publish x data o now ∧ o.version > 0 ∧
        (b.publish x data o now).2.suppress = .none ∧ vpair s' = (o.version, o.versionEpoch) := by
  cases op with
  | publish ch data o now =>
    simp only [step] at hst'
    rcases publish_cases b ch data o now with ⟨p, h⟩ | ⟨hm, hh, hsk⟩ | ⟨hm, hh, hsk⟩ | ⟨hm, hh⟩
    · rw [publish_hit b ch data o now p h] at hst'
      rw [hst] at hst'; cases hst'; left; rfl
    · rw [publish_skip b ch data o now hm hh hsk] at hst'
      rw [(add_skip_spec _ ch _ o _ hsk).2.2.2.1 x, hst] at hst'; cases hst'; left; rfl
    · have hpub := publish_store b ch data o now hm hh hsk
      rw [hpub] at hst'
      simp only [saved_hub] at hst'
      by_cases hx : x = ch
      · subst hx
        rcases add_cases b.hub x ⟨data, o.version⟩ o (now / 1000) with
          ⟨t, ht, hv, he⟩ | ⟨t, ht, hv, he, _⟩ | ⟨ht, he, _⟩
        · rw [he] at hsk; cases hsk
        · rw [hst] at ht; cases ht
          rw [he] at hst'
          simp only [set_chans_same] at hst'
          cases hst'
          by_cases hver : o.version > 0
          · right
            refine ⟨data, o, now, rfl, hver, by rw [hpub], ?_⟩
            simp [vpair, MStream.add, hver]
          · left; simp [vpair, MStream.add, hver]
        · rw [hst] at ht; cases ht
      · rw [add_stream_other _ ch _ o _ x hx, hst] at hst'; cases hst'; left; rfl
    · rw [publish_nohistory b ch data o now hm hh] at hst'
      simp only [saved_hub] at hst'
      rw [hst] at hst'; cases hst'; left; rfl
  | history ch f m now =>
    simp only [step, Broker.history] at hst'
    left
    by_cases hx : x = ch
    · subst hx
      rw [get_stream_some _ x f m _ s hst, touchMeta_stream, hst] at hst'; cases hst'; rfl
    · rw [get_stream_other _ ch f m _ x hx, hst] at hst'; cases hst'; rfl
  | remove ch =>
    simp only [step, Broker.removeHistory] at hst'
    left
    unfold Hub.remove at hst'
    by_cases hx : x = ch
    · subst hx
      simp only [hst, set_chans_same] at hst'
      cases hst'; rfl
    · cases hc : (b.hub.chans ch).stream with
      | none => simp only [hc] at hst'; rw [hst] at hst'; cases hst'; rfl
      | some t =>
        simp only [hc, set_chans_other _ _ _ _ hx] at hst'
        rw [hst] at hst'; cases hst'; rfl
  | tick n =>
    simp only [step, Broker.tick, Broker.sweepCache] at hst'
    left
    rcases tick_stream b.hub n x with e | e | ⟨e, _⟩
    · rw [e, hst] at hst'; cases hst'; rfl
    · rw [e, hst] at hst'; cases hst'; rfl
    · rw [e] at hst'; cases hst'

/-- **version protection**: in a state where the channel's stream holds version `v` in epoch `ve`, a
publish with version `0 < v' ≤ v` in the same or an empty epoch is suppressed — and by
`version_pair_step` the held pair is the one of the latest stored *versioned* publication, whatever
unversioned traffic came after it. -/
theorem version_protection (b : Broker) (ch data : String) (o : PubOpts) (now : Nat) (s : MStream Pub)
    (hst : (b.hub.chans ch).stream = some s) (hm : b.idemHit ch o now = none) (hh : o.history)
    (h0 : 0 < o.version) (hle : o.version ≤ s.topVersion)
    (hve : o.versionEpoch = "" ∨ o.versionEpoch = s.topVersionEpoch) :
    (b.publish ch data o now).2.suppress = .version :=
  (version_suppressed_iff b ch data o now).mpr ⟨hm, hh, s, hst, h0, hve, hle⟩

/-- a version-suppressed or idempotency-suppressed publish reaches no subscriber -/
theorem suppressed_no_broadcast (b : Broker) (ch data : String) (o : PubOpts) (now : Nat)
    (hs : (b.publish ch data o now).2.suppress ≠ .none) : (b.publish ch data o now).2.bcast = none := by
  rcases publish_cases b ch data o now with ⟨p, h⟩ | ⟨hm, hh, hsk⟩ | ⟨hm, hh, hsk⟩ | ⟨hm, hh⟩
  · rw [publish_hit b ch data o now p h]
  · rw [publish_skip b ch data o now hm hh hsk]
  · rw [publish_store b ch data o now hm hh hsk] at hs; exact absurd rfl hs
  · rw [publish_nohistory b ch data o now hm hh] at hs; exact absurd rfl hs

/-- an unsuppressed publish is handed to the subscribers exactly once, with the returned position,
the assigned offset and the payload -/
theorem stored_broadcast_once (b : Broker) (ch data : String) (o : PubOpts) (now : Nat)
    (hs : (b.publish ch data o now).2.suppress = .none) :
    ∃ prev, (b.publish ch data o now).2.bcast =
      some ⟨ch, ⟨(b.publish ch data o now).2.pos.offset, ⟨data, o.version⟩⟩,
        (b.publish ch data o now).2.pos, o.useDelta, prev⟩ := by
  rcases publish_cases b ch data o now with ⟨p, h⟩ | ⟨hm, hh, hsk⟩ | ⟨hm, hh, hsk⟩ | ⟨hm, hh⟩
  · rw [publish_hit b ch data o now p h] at hs; cases hs
  · rw [publish_skip b ch data o now hm hh hsk] at hs; cases hs
  · rw [publish_store b ch data o now hm hh hsk]; exact ⟨_, rfl⟩
  · rw [publish_nohistory b ch data o now hm hh]; exact ⟨_, rfl⟩

/-- **suppressed publishes change nothing**: a version-suppressed publish — with or without
`UseDelta` — leaves the broker state exactly as it was (streams, epochs, history-TTL and meta-TTL
deadlines, sweep queues, result cache), returns the current top position and reaches no subscriber. -/
theorem version_suppressed_changes_nothing (b : Broker) (ch data : String) (o : PubOpts) (now : Nat)
    (hs : (b.publish ch data o now).2.suppress = .version) :
    (b.publish ch data o now).1 = b ∧ (b.publish ch data o now).2.bcast = none ∧
      ∃ s, (b.hub.chans ch).stream = some s ∧ (b.publish ch data o now).2.pos = ⟨s.top, s.epoch⟩ := by
  refine ⟨?_, suppressed_no_broadcast b ch data o now (by rw [hs]; simp), ?_⟩
  · rcases publish_cases b ch data o now with ⟨p, h⟩ | ⟨hm, hh, hsk⟩ | ⟨hm, hh, hsk⟩ | ⟨hm, hh⟩
    · rw [publish_hit b ch data o now p h] at hs; cases hs
    · rw [publish_skip b ch data o now hm hh hsk]
      simp only [(add_skip_spec b.hub ch ⟨data, o.version⟩ o (now / 1000) hsk).1]
    · rw [publish_store b ch data o now hm hh hsk] at hs; cases hs
    · rw [publish_nohistory b ch data o now hm hh] at hs; cases hs
  · rcases publish_cases b ch data o now with ⟨p, h⟩ | ⟨hm, hh, hsk⟩ | ⟨hm, hh, hsk⟩ | ⟨hm, hh⟩
    · rw [publish_hit b ch data o now p h] at hs; cases hs
    · rw [publish_skip b ch data o now hm hh hsk]
      exact (add_skip_spec b.hub ch ⟨data, o.version⟩ o (now / 1000) hsk).2.2.2.2
    · rw [publish_store b ch data o now hm hh hsk] at hs; cases hs
    · rw [publish_nohistory b ch data o now hm hh] at hs; cases hs

/-! ## witnesses (each is replayed on the real broker by the check) -/

/-- fixed finding C19-1: v=5 stored, v=3 suppressed, an unversioned publish stored, then v=3 is
suppressed again — the unversioned publish kept the version pair.
(Before /repo commit a5ec69f4 `Add` overwrote the pair with `(0, "")` and the last publish was
stored at offset 3: outputs were `[(1,none), (1,version), (2,none), (3,none)]`.) -/
def c19w1 : List Op := [
  .publish "a" "d1" { size := 3, ttl := 10000, version := 5 } 500,
  .publish "a" "d2" { size := 3, ttl := 10000, version := 3 } 600,
  .publish "a" "d3" { size := 3, ttl := 10000 } 700,
  .publish "a" "d4" { size := 3, ttl := 10000, version := 3 } 800]

theorem unversioned_keeps_protection :
    (runOut (Broker.init 60000) c19w1).map (fun o => match o with | .pub p => some (p.pos.offset, p.suppress) | _ => none) =
      [some (1, .none), some (1, .version), some (2, .none), some (2, .version)] := by decide

/-- fixed finding C19-2: v=5 at 0.5 s with TTL 10 s; a suppressed v=3 at 9.5 s leaves the data
deadline at second 10, so the history is gone after the sweeps at seconds 10 and 11 — exactly as
without the suppressed publish.
(Before /repo commit e5e52fd9 the deadline moved to second 19 and the history survived.) -/
def c19w2 : List Op := [
  .publish "a" "d1" { size := 3, ttl := 10000, version := 5 } 500,
  .publish "a" "d2" { size := 3, ttl := 10000, version := 3 } 9500]

theorem version_suppressed_keeps_ttl :
    let b1 := run (Broker.init 60000) (c19w2.take 1)
    let b2 := run (Broker.init 60000) c19w2
    (b1.hub.chans "a").expires = some 10 ∧ (b2.hub.chans "a").expires = some 10 ∧
      (((b1.tick 10).tick 11).history "a" { limit := -1 } 0 11500).2.1 = [] ∧
      (((b2.tick 10).tick 11).history "a" { limit := -1 } 0 11500).2.1 = [] := by decide

/-- fixed finding C19-4: v=5 at 0.5 s with meta TTL 3 s (meta deadline: second 3); a
version-suppressed **delta** publish at 2.5 s leaves the meta deadline at second 3, so the stream is
dropped at second 3 and the next read sees a fresh epoch — exactly as without that publish.
(Before /repo commit 43a5eb1b the delta read preceded the version check and moved the deadline to
second 5: the read at 4.5 s still saw offset 1 in epoch 1.) -/
def c19w4 : List Op := [
  .publish "a" "d1" { size := 3, ttl := 10000, metaTTL := 3000, version := 5 } 500,
  .publish "a" "d2" { size := 3, ttl := 10000, metaTTL := 3000, version := 3, useDelta := true } 2500]

theorem version_suppressed_delta_keeps_meta :
    let b1 := run (Broker.init 60000) (c19w4.take 1)
    let b2 := run (Broker.init 60000) c19w4
    (b1.hub.chans "a").removes = some 3 ∧ (b2.hub.chans "a").removes = some 3 ∧
      (((b1.tick 3).tick 4).history "a" { limit := 0 } 3000 4500).2.2 = ⟨0, 2⟩ ∧
      (((b2.tick 3).tick 4).history "a" { limit := 0 } 3000 4500).2.2 = ⟨0, 2⟩ := by decide

/-- fixed finding C19-3: (channel `a_b`, key `c`) and (channel `a`, key `b_c`) have different cache
keys (`3_a_b_c` vs `1_a_b_c`); the first-time publish to `a` is stored.
(Before /repo commit 1b02042a the key was `ch + "_" + key`, both pairs mapped to `a_b_c`, and the
second publish was answered `(⟨1, 1⟩, idempotency)` and dropped.) -/
theorem cache_key_no_collision : cacheKey "a_b" "c" ≠ cacheKey "a" "b_c" := by
  intro h; have := (cacheKey_injective _ _ _ _ h).1; revert this; decide

def c19w3 : List Op := [
  .publish "a_b" "d1" { size := 3, ttl := 10000, idemKey := "c" } 500,
  .publish "a" "d2" { size := 3, ttl := 10000, idemKey := "b_c" } 600]

theorem idem_no_collision_first_publish_stored :
    (runOut (Broker.init 60000) c19w3).map (fun o => match o with | .pub p => some (p.pos, p.suppress) | _ => none) =
      [some (⟨1, 1⟩, .none), some (⟨1, 2⟩, .none)] := by
  have hne : cacheKey "a" "b_c" ≠ cacheKey "a_b" "c" := fun h => cache_key_no_collision h.symm
  simp [c19w3, runOut, step, Broker.publish, Broker.init, Broker.cacheGet, Broker.cacheSave, hne,
    Hub.add, Hub.versionSkip, Hub.deltaRead, Hub.addCore, Hub.touchExpire, Hub.touchMeta, Hub.effMeta,
    Hub.set, MStream.new, MStream.add, idemSeconds]

/-! ## non-vacuity of the hypotheses above -/

/-- `idem_within_ttl`: key `k`, result TTL 2 s, repeated 1.9 s later after other traffic -/
example :
    let b := Broker.init 60000
    let o : PubOpts := { size := 3, ttl := 10000, idemKey := "k", idemTTL := 2000 }
    (b.publish "a" "d1" o 500).2.suppress = .none ∧
      ((run (b.publish "a" "d1" o 500).1 [.publish "a" "x" { size := 3, ttl := 10000 } 900, .tick 1, .tick 2]).publish
          "a" "d2" o 2400).2 = ⟨⟨1, 1⟩, .idempotency, none⟩ ∧
      ((run (b.publish "a" "d1" o 500).1 [.publish "a" "x" { size := 3, ttl := 10000 } 900, .tick 1, .tick 2]).publish
          "a" "d3" o 2600).2.suppress = .none := by decide

/-- `version_suppressed_iff` / `version_protection_partial`: equal version, other epoch not suppressed -/
example :
    (runOut (Broker.init 60000) [
      .publish "a" "d1" { size := 3, ttl := 10000, version := 5, versionEpoch := "x" } 500,
      .publish "a" "d2" { size := 3, ttl := 10000, version := 5, versionEpoch := "x" } 600,
      .publish "a" "d3" { size := 3, ttl := 10000, version := 5 } 700,
      .publish "a" "d4" { size := 3, ttl := 10000, version := 2, versionEpoch := "y" } 800]).map
      (fun o => match o with | .pub p => some p.suppress | _ => none) =
      [some .none, some .version, some .version, some .none] := by decide

end CentrifugeVerif.HistoryHub
