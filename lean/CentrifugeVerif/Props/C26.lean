import CentrifugeVerif.Proofs.Interest
/-!
# C26 — Broker subscription tracks local interest

Property theorems over `Model/Interest.lean` (helpers and the invariant are in `Proofs/Interest.lean`).
`Reach K s`: `s` is reachable from the initial state of a channel of kind `K` by any finite sequence
of labels (hub add under the lock, broker Subscribe returning ok or failing, remove, a pending job
starting, broker Unsubscribe returning ok or failing, end of the cool-down), in any interleaving that
the lock permits, with any pattern of broker failures.
-/
namespace CentrifugeVerif.Interest

/-- the job reaches the broker `Unsubscribe` call only when its re-check saw no subscribers -/
theorem job_unsub_only_when_empty (s s' : Ch) (w : Bool)
    (h : next s (.jobStart w) = some s') (hl : s'.lock = .job w) : s.subs = [] := by
  simp only [next] at h
  split at h
  · split at h
    · assumption
    · cases h; simp_all
  · cases h

/-- **interest ⇒ subscribed**, at lock-release granularity: in every reachable state in which the
channel's sub lock is free, local subscribers imply that the serving broker is subscribed. -/
theorem interest_implies_subscribed {K : Bool} {s : Ch} (h : Reach K s)
    (hfree : s.lock = .free) (hsubs : s.subs ≠ []) : served s K = true := by
  have := (reach_inv h).lock
  simp only [lockOk, hfree] at this
  exact this hsubs

/-- the same for *every* reachable state: the only states with local subscribers and no broker
subscription are those in which `addSubscription` holds the lock, has registered exactly its own
(first) subscriber and is inside `broker.Subscribe`. -/
theorem interest_implies_subscribed_or_subscribing {K : Bool} {s : Ch} (h : Reach K s)
    (hsubs : s.subs ≠ []) :
    served s K = true ∨ ∃ c g, s.lock = .adder c g K ∧ s.subs = [(c, g)] := by
  have hl := (reach_inv h).lock
  unfold lockOk at hl
  split at hl
  · exact Or.inl (hl hsubs)
  · rename_i c g m hlock
    exact Or.inr ⟨c, g, by rw [hlock, hl.1], hl.2⟩
  · exact absurd hl.1 hsubs
  · exact absurd hl.1 hsubs

/-- publications are not lost to a racing broker unsubscribe: whenever a job is inside
`broker.Unsubscribe` (or cooling down after a failed one) the channel has no local subscriber, and
none can be added before the job releases the lock (`addBegin` is not enabled). -/
theorem unsubscribe_excludes_interest {K : Bool} {s : Ch} (h : Reach K s) (w : Bool)
    (hl : s.lock = .job w ∨ s.lock = .cool w) :
    s.subs = [] ∧ ∀ c g m, next s (.addBegin c g m) = none := by
  have hlk := (reach_inv h).lock
  rcases hl with hl | hl <;> simp only [lockOk, hl] at hlk <;>
    exact ⟨hlk.1, fun c g m => by simp [next, hl]⟩

/-- **settled ⇒ exact**: no pending job and nothing in flight ⇒ the serving broker is subscribed
exactly when there are local subscribers, and the other broker is not subscribed. -/
theorem settled_exact {K : Bool} {s : Ch} (h : Reach K s) (hjobs : s.jobs = []) (hfree : s.lock = .free) :
    (served s K = true ↔ s.subs ≠ []) ∧ served s (!K) = false := by
  have hi := reach_inv h
  refine ⟨⟨fun hs hempty => ?_, fun hne => interest_implies_subscribed h hfree hne⟩, hi.other⟩
  have := hi.covered hs (Or.inl hempty)
  simp [hjobs] at this

/-- a settled channel without subscribers is literally in the initial state (in particular
`mapChannels[ch]` has been deleted again).  Hence the kind of a channel may change at such a point:
what follows is a run from `init` with the other kind and all theorems apply to it with the new `K`.
(A stale `mapChannels` entry would make the next epoch's job unsubscribe the wrong broker.) -/
theorem settled_empty_eq_init {K : Bool} {s : Ch} (h : Reach K s) (hsubs : s.subs = []) (hjobs : s.jobs = [])
    (hfree : s.lock = .free) : s = init := by
  have hi := reach_inv h
  have h1 := hi.hubMap_empty hsubs
  have h2 : served s K = false := by
    cases hs : served s K with
    | false => rfl
    | true => have := hi.covered hs (Or.inl hsubs); simp [hjobs] at this
  have h3 := hi.other
  obtain ⟨subs, hubMap, subStream, subMap, jobs, lock⟩ := s
  simp only at hsubs hjobs hfree h1
  subst hsubs hjobs hfree h1
  cases K <;> simp [served] at h2 h3 <;> simp [init, h2, h3]

/-- a broker subscription without local subscribers is always covered by a pending job of the
channel's kind (this is what the failed-Subscribe rollback and the "empty" return of `removeSub`
maintain), so it cannot be forgotten. -/
theorem stale_subscription_has_job {K : Bool} {s : Ch} (h : Reach K s)
    (hs : served s K = true) (hempty : s.subs = []) : K ∈ s.jobs :=
  (reach_inv h).covered hs (Or.inl hempty)

/-- the hypotheses of the theorems are satisfiable by a non-trivial run: subscribe (first, broker ok),
second subscriber, both leave, a job starts and the broker refuses, cool-down ends, a subscriber
returns, the job finds it and gives up silently. -/
example :
    ∃ s, run init [.addBegin 1 1 false, .addBroker true, .addBegin 2 1 false, .remove 1 1, .remove 2 1,
                   .jobStart false, .jobBroker false, .coolEnd, .addBegin 3 1 false, .addBroker true,
                   .jobStart false] = some s ∧
      s.jobs = [] ∧ s.lock = .free ∧ s.subs ≠ [] ∧ served s false = true := by
  refine ⟨_, rfl, ?_⟩
  decide

/-- Why the job's re-check of `NumSubscribers` matters: a job that skipped it (lock = `job` although
a subscriber is registered — not reachable, by `unsubscribe_excludes_interest`) would end in a state
with a local subscriber, a free lock and no broker subscription. -/
example :
    let bad : Ch := { subs := [(3, 1)], hubMap := false, subStream := true, subMap := false,
                      jobs := [false], lock := .job false }
    ∃ s, next bad (.jobBroker true) = some s ∧ s.lock = .free ∧ s.subs ≠ [] ∧ served s false = false := by
  refine ⟨_, rfl, ?_⟩
  decide

/-! ### "once deferred work drains" — the fairness-free half

Liveness proper ("every job eventually runs") needs scheduler fairness and a broker that eventually
accepts the unsubscribe; both are assumptions.  What is proved: from every reachable state with a
free lock the pending jobs *can* all be completed (each needs at most two labels and no other
label), without touching the hub, and the state reached is settled — so `settled_exact` applies. -/

theorem eraseJob_length {w : Bool} {l : List Bool} (h : w ∈ l) : (eraseJob w l).length + 1 = l.length := by
  induction l with
  | nil => cases h
  | cons x xs ih =>
    simp only [eraseJob]
    split
    · simp
    · rename_i hne
      rcases List.mem_cons.mp h with h | h
      · exact absurd h.symm hne
      · simp [ih h]

theorem drain_partial (n : Nat) : ∀ {K : Bool} {s : Ch}, Reach K s → s.lock = .free → s.jobs.length = n →
    ∃ ls s', run s ls = some s' ∧ Reach K s' ∧ s'.jobs = [] ∧ s'.lock = .free ∧ s'.subs = s.subs ∧
      ∀ l ∈ ls, (∃ w, l = .jobStart w) ∨ l = .jobBroker true := by
  induction n with
  | zero =>
    intro K s h hfree hlen
    exact ⟨[], s, rfl, h, List.length_eq_zero_iff.mp hlen, hfree, rfl, by simp⟩
  | succ n ih =>
    intro K s h hfree hlen
    match hj : s.jobs with
    | [] => simp [hj] at hlen
    | w :: rest =>
      have hw : w ∈ s.jobs := by simp [hj]
      by_cases hempty : s.subs = []
      · -- the job takes the lock, calls Unsubscribe, which succeeds
        let s1 : Ch := { s with lock := .job w }
        have h1 : next s (.jobStart w) = some s1 := by simp [next, hfree, hw, hempty, s1]
        let s2 : Ch := { setSubscribed s1 w false with jobs := eraseJob w s1.jobs, lock := .free }
        have h2 : next s1 (.jobBroker true) = some s2 := by simp [next, s1, s2]
        have r2 : Reach K s2 := Reach.step (Reach.step h (by simp [WF]) h1) (by simp [WF]) h2
        have hlen2 : s2.jobs.length = n := by
          have := eraseJob_length hw
          simp only [s2, s1]; omega
        have hsubs2 : s2.subs = s.subs := by
          simp only [s2]; exact (setSubscribed_fields s1 w false).1
        obtain ⟨ls, s', hr, hreach, hjobs, hl, hs, hall⟩ := ih r2 rfl hlen2
        refine ⟨.jobStart w :: .jobBroker true :: ls, s', ?_, hreach, hjobs, hl, hs.trans hsubs2, ?_⟩
        · simp [run, h1, h2, hr]
        · intro l hl'
          simp only [List.mem_cons] at hl'
          rcases hl' with rfl | rfl | hl'
          · exact Or.inl ⟨w, rfl⟩
          · exact Or.inr rfl
          · exact hall l hl'
      · -- subscribers present: the job returns nil without touching the broker
        let s1 : Ch := { s with jobs := eraseJob w s.jobs }
        have h1 : next s (.jobStart w) = some s1 := by simp [next, hfree, hw, hempty, s1]
        have r1 : Reach K s1 := Reach.step h (by simp [WF]) h1
        have hlen1 : s1.jobs.length = n := by
          have := eraseJob_length hw
          simp only [s1]; omega
        obtain ⟨ls, s', hr, hreach, hjobs, hl, hs, hall⟩ := ih r1 hfree hlen1
        refine ⟨.jobStart w :: ls, s', ?_, hreach, hjobs, hl, hs, ?_⟩
        · simp [run, h1, hr]
        · intro l hl'
          simp only [List.mem_cons] at hl'
          rcases hl' with rfl | hl'
          · exact Or.inl ⟨w, rfl⟩
          · exact hall l hl'

/-- (partial: existence of a draining run, not its inevitability) from every reachable state with a
free lock, completing the pending jobs — with broker unsubscribes succeeding and no subscribe /
unsubscribe of clients in between — reaches a settled state with the same local subscribers, in which
the serving broker is subscribed iff there are local subscribers. -/
theorem drains_to_exact_partial {K : Bool} {s : Ch} (h : Reach K s) (hfree : s.lock = .free) :
    ∃ ls s', run s ls = some s' ∧ s'.jobs = [] ∧ s'.lock = .free ∧ s'.subs = s.subs ∧
      (served s' K = true ↔ s.subs ≠ []) ∧ served s' (!K) = false := by
  obtain ⟨ls, s', hr, hreach, hjobs, hl, hs, _⟩ := drain_partial s.jobs.length h hfree rfl
  have := settled_exact hreach hjobs hl
  exact ⟨ls, s', hr, hjobs, hl, hs, by rw [← hs]; exact this.1, this.2⟩

end CentrifugeVerif.Interest
