import CentrifugeVerif.Model.Interest
/-!
# C26 — Broker subscription tracks local interest (first obligation; extended as proofs land)
-/
namespace CentrifugeVerif.Interest

/-- the job reaches the broker `Unsubscribe` call only when its re-check saw no subscribers -/
theorem job_unsub_only_when_empty (s s' : Ch) (w : Bool)
    (h : next s (.jobStart w) = some s') (hl : s'.lock = .job w) : s.subs = [] := by
  simp only [next] at h
  split at h
  · split at h
    · assumption
    · cases h; simp_all
  · cases h

end CentrifugeVerif.Interest
