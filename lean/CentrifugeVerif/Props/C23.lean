import CentrifugeVerif.Proofs.RedisMapRead
import CentrifugeVerif.Gen.Lua.BrokerHistoryStream
/-!
# C23 — Redis and Memory map brokers agree (Redis half: theorems about the translated scripts)

Level: **partial**.  The agreement of the two map brokers is established by the differential run of
`props/C23/check.py` (the real `RedisMapBroker` over the Redis model behind a fake endpoint vs. the real
`MemoryMapBroker`); the full statement
`theorem redis_map_sim_memory : ∀ ops, Agree (runRedisMap ops) (MapHub.runOut ops)` is **not** proved.

Proved here, for all keys, argument strings and states of the (trusted) Redis model, about the
translated `map_broker_stream_read.lua`:

* `map_stream_read_creates_epoch_and_wipes_stream` — when the meta hash has no epoch, the script stores
  `new_epoch_if_empty`, reports top offset 0 **and deletes the stream key** before reading, so entries of
  a dead epoch are never returned (contrast: `stream_broker_read_keeps_old_entries`, finding C18-11,
  where `broker_history_stream.lua` lacks the `DEL`);
* `map_stream_read_keeps_epoch` — an existing epoch is never replaced by a read and nothing is written
  by the epoch step.

Decided witnesses: the Lua number formatting facts behind findings C23-11 / C23-12.
-/
namespace CentrifugeVerif.C23
open CentrifugeVerif CentrifugeVerif.Redis CentrifugeVerif.Lua CentrifugeVerif.LuaRedis CentrifugeVerif.Gen.Lua
open CentrifugeVerif.MapRead

/-- No epoch in the meta hash: the epoch is created from `new_epoch_if_empty`, the top offset is 0 and
the stream key is deleted before anything is read. -/
theorem map_stream_read_creates_epoch_and_wipes_stream (sk mk : String) (a : ReadArgs) (s : Redis)
    (hm : List (String × String)) (hk : HashAt s mk hm) (he : hlookup hm "e" = none) :
    run (map_broker_stream_read (keys2 sk mk) a.argv) s
      = run (P2 sk mk a (.tbl [.bool false, respToLua (optBulk (hlookup hm "s"))]) (.str a.fresh) (.num 0))
          ((putHash s mk (hset1 hm "e" a.fresh)).put sk none) := by
  unfold HashAt at hk
  simp [map_broker_stream_read, map_broker_stream_read_p0, map_broker_stream_read_p1, ReadArgs.argv, keys2, P2,
    run_bind, Lua.index, Lua.eq, Lua.truthy, Lua.ofBool, callFn, argToString, exec_hmget2, exec_hset1, exec_del1,
    hk, he, optBulk, respToLua, respsToLua]

/-- An existing epoch is kept; the epoch step writes nothing. -/
theorem map_stream_read_keeps_epoch (sk mk : String) (a : ReadArgs) (s : Redis)
    (hm : List (String × String)) (e : String) (hk : HashAt s mk hm) (he : hlookup hm "e" = some e) :
    run (map_broker_stream_read (keys2 sk mk) a.argv) s
      = run (P2 sk mk a (.tbl [.str e, respToLua (optBulk (hlookup hm "s"))]) (.str e)
              (respToLua (optBulk (hlookup hm "s")))) s := by
  unfold HashAt at hk
  simp [map_broker_stream_read, map_broker_stream_read_p0, map_broker_stream_read_p1, ReadArgs.argv, keys2, P2,
    run_bind, Lua.index, Lua.eq, Lua.truthy, Lua.ofBool, callFn, argToString, exec_hmget2,
    hk, he, optBulk, respToLua, respsToLua]

/-- the hypotheses are satisfiable -/
example : HashAt ({} : Redis) "m" [] ∧ hlookup ([] : List (String × String)) "e" = none := ⟨rfl, rfl⟩

/-! ### witnesses -/

/-- C18-11 vs. the map script: after the meta hash is gone, `broker_history_stream.lua` still returns the
old entry (offset 1) under the new epoch with top offset 0 … -/
theorem stream_broker_read_keeps_old_entries :
    let s : Redis := { db := fun k => if k = "s" then some ⟨.stream [⟨1, 0, ["d", "p"]⟩] 1 0, none⟩ else none }
    (runScript broker_history_stream ["s", "m"] ["1", "0", "0", "0", "0", "E2"] 1000 s).1.toOption.map
        (fun r => match r with | .arr [.int t, .bulk e, .arr l] => (t, e, l.length) | _ => (0, "", 0))
      = some (0, "E2", 1) := by decide

/-- … while `map_broker_stream_read.lua` returns nothing. -/
theorem map_stream_read_returns_nothing_after_meta_loss :
    let s : Redis := { db := fun k => if k = "s" then some ⟨.stream [⟨1, 0, ["d", "p"]⟩] 1 0, none⟩ else none }
    (runScript map_broker_stream_read ["s", "m"] ["1", "-", "0", "0", "0", "E2"] 1000 s).1.toOption.map
        (fun r => match r with | .arr [.int t, .bulk e, .arr l] => (t, e, l.length) | _ => (9, "", 9))
      = some (0, "E2", 0) := by decide

/-- C23-12 / C21 (Redis half): the ordered cursor is built with `tostring(score)` = `"%.14g"`: the score
100000000000001 becomes `"1e+14"`, which reads back as a different number. -/
theorem ordered_cursor_loses_precision :
    fmtG14 100000000000001 = "1e+14" ∧
    tonumber (.str "1e+14") = (.ok (.num 100000000000000) : Except LuaErr LVal) := ⟨by decide, by rfl⟩

/-- C23-11: per-key versions above 2^53 collide. -/
theorem map_version_collision :
    tonumber (.str "9007199254740993") = tonumber (.str "9007199254740992") := by rfl

end CentrifugeVerif.C23
