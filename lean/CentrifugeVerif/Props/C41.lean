import CentrifugeVerif.Model.Survey
/-!
# C41 — Survey collects one answer per node and terminates (first obligations; extended as proofs land)
-/
namespace CentrifugeVerif.Survey

/-- `handleSurveyResponse` is a single label that is enabled in *every* state, for any uid, any id
(active, finished, never issued), any number of earlier duplicates and any number of concurrent
surveys: delivering a response never blocks. -/
theorem response_never_blocks (s : State) (uid : Uid) (id code : Nat) :
    (next s (.response uid id code)).isSome = true := by
  simp only [next]
  split <;> rfl

end CentrifugeVerif.Survey
