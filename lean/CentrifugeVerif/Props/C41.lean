import CentrifugeVerif.Proofs.Survey
import CentrifugeVerif.Gen.SurveyAddr
/-!
# C41 — Survey collects one answer per node and terminates

Property theorems over `Model/Survey.lean` (invariant in `Proofs/Survey.lean`).  `Reach s`: `s` is
reachable by any finite sequence of labels — any number of concurrent `Survey` calls, responses in
any order, duplicated, late, addressed to any id (active, finished, never issued), from any uid,
deadlines at any time, publish failures, local replies at any time.
-/
namespace CentrifugeVerif.Survey

/-- **`survey_result_keys`**: in every reachable state, for every Survey call: the collected results
and the returned map hold at most one entry per node uid, every entry was carried by a message whose
id field is this survey's own id, and there are never more entries than expected nodes. -/
theorem survey_result_keys {s : State} (h : Reach s) (t : Nat) (sv : Sv) (ht : s.surveys[t]? = some sv) :
    (uids sv.results).Nodup ∧ (∀ r ∈ sv.results, r.forId = sv.id) ∧ sv.results.length ≤ sv.numNodes ∧
    (uids sv.returned).Nodup ∧ (∀ r ∈ sv.returned, r.forId = sv.id) ∧ sv.returned.length ≤ sv.numNodes := by
  have hi := (reach_inv h).each t sv ht
  refine ⟨hi.res_nodup, hi.res_for, hi.res_le, ?_, ?_, ?_⟩
  all_goals
    by_cases hm : sv.main = .returnedOk
    · rw [(hi.returned_ok hm).2.1]
      first | exact hi.res_nodup | exact hi.res_for | exact hi.res_le
    · rw [hi.not_returned hm]; simp [uids]

/-- survey ids are never reused: distinct calls have distinct ids, so a response is routed to at most
one call. -/
theorem survey_ids_distinct {s : State} (h : Reach s) (t t' : Nat) (sv sv' : Sv)
    (ht : s.surveys[t]? = some sv) (ht' : s.surveys[t']? = some sv') (hid : sv.id = sv'.id) : t = t' := by
  have h1 := ((reach_inv h).each t sv ht).id_eq
  have h2 := ((reach_inv h).each t' sv' ht').id_eq
  omega

/-- **`survey_returns`**, safety half: a Survey call that has returned without a context error holds
exactly `numNodes` results; the collector is running only while fewer than `numNodes` distinct nodes
have been collected (it stops in the very step that collects the last one); it has stopped only
because the count was reached or the context was done. -/
theorem survey_returns {s : State} (h : Reach s) (t : Nat) (sv : Sv) (ht : s.surveys[t]? = some sv) :
    (sv.main = .returnedOk → sv.retErr = false → sv.returned.length = sv.numNodes) ∧
    (sv.coll = .collecting → sv.results.length < sv.numNodes ∨ sv.numNodes = 0) ∧
    (sv.coll = .done → sv.results.length = sv.numNodes ∨ sv.ctxDone = true) := by
  have hi := (reach_inv h).each t sv ht
  refine ⟨fun hm hr => ?_, hi.collecting_lt, hi.done_why⟩
  rw [(hi.returned_ok hm).2.1]
  exact (hi.returned_ok hm).2.2 hr

/-- **`survey_returns`**, progress half (no fairness needed: the labels are *enabled*, and they are the
survey's own internal steps): a call that waits in `wg.Wait()` and whose context is done or whose
collector has finished reaches `return` within two of its own steps, whatever the other surveys do. -/
theorem survey_return_enabled {s : State} (h : Reach s) (t : Nat) (sv : Sv) (ht : s.surveys[t]? = some sv)
    (hw : sv.main = .waiting) (hready : sv.coll = .done ∨ sv.ctxDone = true) :
    ∃ ls s' sv', ls.length ≤ 2 ∧ run s ls = some s' ∧ s'.surveys[t]? = some sv' ∧ sv'.main = .returnedOk ∧
      sv'.registered = false := by
  have hi := (reach_inv h).each t sv ht
  have hlt : t < s.surveys.length := by
    rcases Nat.lt_or_ge t s.surveys.length with h' | h'
    · exact h'
    · simp [List.getElem?_eq_none h'] at ht
  by_cases hd : sv.coll = .done
  · let sv1 : Sv := { sv with main := .returnedOk, registered := false, returned := sv.results }
    let sv2 : Sv := { sv1 with retErr := sv.ctxDone }
    refine ⟨[.ret t], upd s t sv2, sv2, by simp, ?_, ?_, rfl, rfl⟩
    · simp [run, next, ht, hw, hd, sv1, sv2]
    · simp [upd, hlt]
  · have hc : sv.coll = .collecting := by
      cases hcoll : sv.coll with
      | notStarted => have := (hi.not_started hcoll).2; rw [hw] at this; cases this
      | collecting => rfl
      | done => exact absurd hcoll hd
    have hctx : sv.ctxDone = true := by
      rcases hready with h' | h'
      · exact absurd h' hd
      · exact h'
    let sv0 : Sv := { sv with coll := .done }
    let sv1 : Sv := { sv0 with main := .returnedOk, registered := false, returned := sv0.results }
    let sv2 : Sv := { sv1 with retErr := sv0.ctxDone }
    have h1 : next s (.collExit t) = some (upd s t sv0) := by simp [next, ht, hc, hctx, sv0]
    have ht0 : (upd s t sv0).surveys[t]? = some sv0 := by simp [upd, hlt]
    have h2 : next (upd s t sv0) (.ret t) = some (upd (upd s t sv0) t sv2) := by
      simp only [next, ht0]
      simp [hw, sv0, sv1, sv2]
    refine ⟨[.collExit t, .ret t], upd (upd s t sv0) t sv2, sv2, by simp, ?_, ?_, rfl, rfl⟩
    · simp [run, h1, h2]
    · simp [upd, hlt]

/-- a collector with a buffered reply can always take it; with the deadline passed it can always exit -/
theorem collector_enabled (s : State) (t : Nat) (sv : Sv) (ht : s.surveys[t]? = some sv)
    (hc : sv.coll = .collecting) :
    (sv.chan ≠ [] → (next s (.collect t)).isSome = true) ∧
    (sv.ctxDone = true → (next s (.collExit t)).isSome = true) := by
  constructor
  · intro hne
    simp only [next, ht, hc]
    cases hch : sv.chan with
    | nil => exact absurd hch hne
    | cons r rest => simp
  · intro hd
    simp [next, ht, hc, hd]

/-- **`response_never_blocks`**: `handleSurveyResponse` is a single label that is enabled in *every*
state, for any uid, any id (active, finished, never issued), any number of earlier duplicates and any
number of concurrent surveys. -/
theorem response_never_blocks (s : State) (uid : Uid) (id code : Nat) :
    (next s (.response uid id code)).isSome = true := by
  simp only [next]
  split <;> rfl

/-- **`foreign_isolated`**: a response carrying id `id` leaves every Survey call with another id — and
every call that is no longer registered (late response) — completely unchanged; no call is added or
removed and the id counter does not move. -/
theorem foreign_isolated (s s' : State) (uid : Uid) (id code : Nat)
    (h : next s (.response uid id code) = some s') :
    s'.surveyID = s.surveyID ∧ s'.surveys.length = s.surveys.length ∧
    ∀ (t : Nat) (sv : Sv), s.surveys[t]? = some sv → (sv.id ≠ id ∨ sv.registered = false) →
      s'.surveys[t]? = some sv := by
  simp only [next] at h
  split at h
  · cases h; exact ⟨rfl, rfl, fun _ _ h _ => h⟩
  · cases h
    refine ⟨rfl, deliver_length _ _, ?_⟩
    intro t sv ht hne
    rcases deliver_get (Reply.mk uid code id) s.surveys t sv ht with h1 | ⟨_, hreg, hid, _⟩
    · exact h1
    · rcases hne with hne | hne
      · exact absurd hid hne
      · rw [hne] at hreg; cases hreg

/-- what a response can do to the call it *is* addressed to: nothing, or append itself to that call's
buffered channel when there is room — results, returned value, control state are never touched by a
delivery (no corruption). -/
theorem response_effect (s s' : State) (uid : Uid) (id code : Nat)
    (h : next s (.response uid id code) = some s') (t : Nat) (sv : Sv) (ht : s.surveys[t]? = some sv) :
    s'.surveys[t]? = some sv ∨
    (s'.surveys[t]? = some { sv with chan := sv.chan ++ [Reply.mk uid code id] } ∧
      sv.registered = true ∧ sv.id = id ∧ sv.chan.length < sv.numNodes) := by
  simp only [next] at h
  split at h
  · cases h; exact Or.inl ht
  · cases h
    exact deliver_get (Reply.mk uid code id) s.surveys t sv ht

/-- **addressing of the response** (over `Gen/SurveyAddr.lean`, regenerated from `node.go` on every
run): inside `handleSurveyRequest` the one `publishControl` call is given exactly the parameter that
names the requesting node, and `handleControl` passes the sender uid of the request command as that
parameter.  Together with the Controller contract (a non-empty node id = deliver to that node only)
this is what makes the model's `response` label apply to the requester's state only; a response
broadcast with an empty node id would reach other nodes' surveys that happen to have the same
per-node id. -/
theorem survey_response_addressed_to_requester :
    Gen.SurveyAddr.responseTargets = [Gen.SurveyAddr.requesterParam] ∧
    Gen.SurveyAddr.requestCallArgSource = "cmd.Uid" := by decide

/-- a response from the node's own uid is dropped by `handleControl` -/
theorem own_uid_dropped (s : State) (id code : Nat) : next s (.response selfUid id code) = some s := by
  simp [next]

/-- the hypotheses are satisfiable by a non-trivial run: two concurrent surveys over 2 nodes; a
duplicate, a foreign-id and a cross-addressed response; survey 0 completes, survey 1 hits its deadline. -/
example :
    ∃ s, run init exampleRun = some s ∧ Reach s ∧
      (s.surveys.map (fun sv => (sv.main, sv.retErr, sv.returned.map (fun r => (r.uid, r.code))))) =
        [(.returnedOk, false, [(1, 8), (0, 3)]), (.returnedOk, true, [(1, 5)])] := by
  refine ⟨_, rfl, ?_, by decide⟩
  exact reach_run exampleRun Reach.init rfl

/-- Outside the statement, recorded because the model shows it: the *local* reply is a blocking send.
After the collector has exited, `numNodes` late responses can fill the channel while the registry
entry still exists (here: `Survey` is still inside `publishControl`), and a local handler that calls
its callback after that blocks forever (label not enabled). -/
example :
    ∃ s, run init [.begin 1, .spawn 0, .ctxDone 0, .collExit 0, .response 1 1 4] = some s ∧
      next s (.localReply 0 1) = none := by
  refine ⟨_, rfl, ?_⟩
  decide

end CentrifugeVerif.Survey
