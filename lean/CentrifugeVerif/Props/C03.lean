import CentrifugeVerif.Proofs.RecoveryCache
import CentrifugeVerif.Proofs.RecoveryBuffered
/-!
# C03 — cache recovery delivers the newest visible publication

Property theorems over `Model/Recovery.lean` (`cacheSubscribe` = the cache-mode recovery branch of
`subscribeCmd` — client `Recover` or server-forced `AutoCacheRecover` — over `Node.recoverCache` /
`isCacheRecovered` / the cache-empty handler retry / `MergePublications` / the cache-mode trimming).
They hold for every stream state satisfying `RStream.Inv`, every client position (offset, epoch),
every filter pair (`Filt.WF`: "no filter" passes everything), every `RecoveryMaxPublicationLimit`.

Reading of "recovered = true exactly when the channel's newest publication is present in history or
the client already holds the current position": *newest publication visible to the subscription*,
searched in the part of history that recovery scans (`scanWindow`).  Without filters that is literally
the statement (`cache_recovered_iff_nofilter`).  With filters excluding every scanned publication the
code reports `recovered = clientHasSameState` although the channel's newest publication is in history
(`cache_literal_reading_counterexample`); this is the safe answer — the server cannot know whether an
older visible publication was already trimmed, and `recovered = true` with nothing delivered would tell
a client that is not at the current position that it is up to date — so it is not treated as a defect.
-/
namespace CentrifugeVerif.Recovery
open CentrifugeVerif.Merge

/-- **cache_recovered_iff** (one `recoverCache` + `isCacheRecovered` round).  `recovered = true` ⇔ a
publication passing both filters is found in the scanned part of history, or the client already is at
`(top, epoch)` with a non-zero offset. -/
theorem cache_recovered_iff (limit : Nat) (s : RStream) (hi : s.Inv) (f : Filt) (hw : f.WF) (off ep : Nat) :
    (cacheDecide limit s f off ep).2 = true ↔
      (∃ p ∈ scanWindow limit s f, f.pass p = true) ∨ sameState s off ep = true := by
  rw [cacheDecide_spec limit s hi f hw]
  cases hf : (scanWindow limit s f).find? f.pass with
  | none =>
    simp only
    constructor
    · intro h; exact Or.inr h
    · rintro (⟨p, hp, hpp⟩ | h)
      · have := List.find?_eq_none.mp hf p hp
        rw [hpp] at this; simp at this
      · exact h
  | some p =>
    simp only [true_iff]
    exact Or.inl ⟨p, (find_newest limit s hi f p hf).1, (find_newest limit s hi f p hf).2.1⟩

/-- Without any filter: `recovered = true` ⇔ the channel's newest publication (offset = top) is
present in history, or the client already holds the current position — the statement, literally. -/
theorem cache_recovered_iff_nofilter (limit : Nat) (s : RStream) (hi : s.Inv) (f : Filt) (hw : f.WF)
    (hn : f.has = false) (off ep : Nat) :
    (cacheDecide limit s f off ep).2 = true ↔
      (∃ p ∈ s.items, p.offset = s.top) ∨ sameState s off ep = true := by
  rw [cache_recovered_iff limit s hi f hw]
  have hwin : scanWindow limit s f = s.items.reverse.take 1 := by simp [scanWindow, hn]
  constructor
  · rintro (⟨p, hp, _⟩ | h)
    · left
      rw [hwin] at hp
      cases hr : s.items.reverse with
      | nil => rw [hr] at hp; simp at hp
      | cons x xs =>
        rw [hr] at hp
        simp only [List.take_succ_cons, List.take_zero, List.mem_singleton] at hp
        subst hp
        have hh : (scanWindow limit s f).head? = some p := by rw [hwin, hr]; rfl
        exact ⟨p, mem_scanWindow (by rw [hwin, hr]; simp), head_scanWindow_top limit s hi f p hh⟩
    · exact Or.inr h
  · rintro (⟨p, hp, _⟩ | h)
    · left
      cases hr : s.items.reverse with
      | nil =>
        have : s.items = [] := by simpa using hr
        rw [this] at hp; cases hp
      | cons x xs => exact ⟨x, by rw [hwin, hr]; simp, hw hn x⟩
    · exact Or.inr h

/-- With filters but no publication limit the scan covers all retained publications. -/
theorem cache_recovered_iff_nolimit (s : RStream) (hi : s.Inv) (f : Filt) (hw : f.WF) (hf : f.has = true)
    (off ep : Nat) :
    (cacheDecide 0 s f off ep).2 = true ↔ (∃ p ∈ s.items, f.pass p = true) ∨ sameState s off ep = true := by
  rw [cache_recovered_iff 0 s hi f hw]
  have hwin : scanWindow 0 s f = s.items.reverse := by simp [scanWindow, hf, takeLim]
  rw [hwin]
  simp only [List.mem_reverse]

/-- **cache_at_most_one.**  One round delivers at most one publication, and it is the maximum-offset
retained publication passing both filters; it is also the newest such publication ever published in
the epoch (`cache_never_stale`). -/
theorem cache_at_most_one (limit : Nat) (s : RStream) (hi : s.Inv) (f : Filt) (hw : f.WF) (off ep : Nat) :
    (cacheDecide limit s f off ep).1.length ≤ 1 ∧
    ∀ p ∈ (cacheDecide limit s f off ep).1,
      p ∈ s.items ∧ f.pass p = true ∧ ∀ q ∈ s.items, f.pass q = true → q.offset ≤ p.offset := by
  rw [cacheDecide_spec limit s hi f hw]
  cases hf : (scanWindow limit s f).find? f.pass with
  | none => simp
  | some p =>
    have hn := find_newest limit s hi f p hf
    cases sameState s off ep
    · simp only [Bool.false_eq_true, if_false, List.length_cons, List.length_nil, Nat.le_refl, List.mem_singleton,
        forall_eq, true_and]
      exact ⟨mem_scanWindow hn.1, hn.2.1, hn.2.2⟩
    · simp

/-- **cache_never_stale.**  A delivered publication is never older than some other publication of the
epoch that passes the filters — retained or not. -/
theorem cache_never_stale (limit : Nat) (s : RStream) (hi : s.Inv) (f : Filt) (hw : f.WF) (off ep : Nat) :
    ∀ p ∈ (cacheDecide limit s f off ep).1, ∀ q ∈ s.log, f.pass q = true → q.offset ≤ p.offset := by
  intro p hp q hq hpass
  obtain ⟨hpi, _, hmax⟩ := (cache_at_most_one limit s hi f hw off ep).2 p hp
  rcases log_older s hi q hq with h | h
  · exact hmax q h hpass
  · exact Nat.le_of_lt (h p hpi)

/-- nothing is delivered to a client that already holds the current position, and nothing is
delivered when `recovered = false` -/
theorem cache_same_or_false_empty (limit : Nat) (s : RStream) (hi : s.Inv) (f : Filt) (hw : f.WF) (off ep : Nat)
    (h : sameState s off ep = true ∨ (cacheDecide limit s f off ep).2 = false) :
    (cacheDecide limit s f off ep).1 = [] := by
  rw [cacheDecide_spec limit s hi f hw] at h ⊢
  cases hf : (scanWindow limit s f).find? f.pass with
  | none => rfl
  | some p =>
    rw [hf] at h
    rcases h with h | h
    · simp [h]
    · simp at h

/-- a client that is told `recovered = true` without holding the current position does receive the
newest visible publication -/
theorem cache_recovered_delivers (limit : Nat) (s : RStream) (hi : s.Inv) (f : Filt) (hw : f.WF) (off ep : Nat)
    (hr : (cacheDecide limit s f off ep).2 = true) (hs : sameState s off ep = false) :
    ∃ p, (cacheDecide limit s f off ep).1 = [p] := by
  rw [cacheDecide_spec limit s hi f hw] at hr ⊢
  cases hf : (scanWindow limit s f).find? f.pass with
  | none => rw [hf] at hr; simp [hs] at hr
  | some p => exact ⟨p, by simp [hs]⟩

/-- **cache_reply.**  The whole subscribe reply when the cache-empty handler is not invoked (none
registered, or something visible was found at once): `Recovered`, the publications (none unless
recovered), `Offset` (the requested one when recovered), `Epoch`, position = top; with or without
delta, client `Recover` or server-forced `AutoCacheRecover` alike (both run this branch). -/
theorem cache_reply (limit : Nat) (s1 s2 : RStream) (hi : s1.Inv) (f : Filt) (hw : f.WF) (req : Req)
    (delta : Bool) (h : HandlerReply) (buffered : List MPub)
    (hni : h = none ∨ recoverCache limit s1 f ≠ none) :
    cacheSubscribe limit s1 s2 f req delta h buffered =
      .reply (cacheDecide limit s1 f req.offset req.epoch).2
        (if (cacheDecide limit s1 f req.offset req.epoch).2 then
          (cacheDecide limit s1 f req.offset req.epoch).1.map toPlain else [])
        (if (cacheDecide limit s1 f req.offset req.epoch).2 then req.offset else s1.top) s1.epoch s1.top true :=
  cacheSubscribe_spec limit s1 s2 hi f hw req delta h buffered hni

/-- **cache_two_step.**  The populate-then-retry path as a two-step function of the handler's reply:
the handler is consulted only when the first round found nothing (`recoverCache = (nil, nil)`); an
error aborts; `Populated` leads to exactly one more round on the new stream state — but only when the
first round did not already report `recovered`; the reply is then assembled from the decisive round
and whatever was buffered meanwhile. -/
theorem cache_two_step (limit : Nat) (s1 s2 : RStream) (f : Filt) (req : Req) (delta : Bool)
    (hr : Option Bool) (buffered : List MPub) (h1 : recoverCache limit s1 f = none) :
    cacheSubscribe limit s1 s2 f req delta (some hr) buffered =
      match hr with
      | none => .handlerError
      | some populated =>
        let d1 := cacheDecide limit s1 f req.offset req.epoch
        if populated && !d1.2 then
          let d2 := cacheDecide limit s2 f req.offset req.epoch
          finish true delta d2.2 (d2.1.map toPlain) buffered s2.top s2.epoch req.offset true
        else finish true delta d1.2 (d1.1.map toPlain) buffered s1.top s1.epoch req.offset true := by
  unfold cacheSubscribe cacheDecide
  rw [h1]
  cases hr <;> rfl

/-- **The populate-then-retry reply never delivers a stale publication.**  `s1` is the stream at the
first read (nothing visible found, so the handler runs), `s2` the stream after the handler; the buffer
holds exactly the handler's publications (placeholders for filtered ones): every non-placeholder
buffered entry is a visible publication of `s2`'s log newer than `s1.top` (`hb1`), and every visible
publication of `s2`'s log newer than `s1.top` was buffered (`hb2`).  Then, without delta, every
delivered publication is a visible publication of the epoch and no newer visible one exists. -/
theorem cache_retry_never_stale (limit : Nat) (s1 s2 : RStream) (hi2 : s2.Inv) (f : Filt) (hw : f.WF)
    (req : Req) (populated : Bool) (buffered : List MPub)
    (h1 : recoverCache limit s1 f = none)
    (hb1 : ∀ b ∈ buffered, b.filtered = false →
      ∃ p ∈ s2.log, p.offset = b.offset ∧ p.id = b.id ∧ f.pass p = true ∧ s1.top < p.offset)
    (hb2 : ∀ p ∈ s2.log, s1.top < p.offset → f.pass p = true →
      ∃ b ∈ buffered, b.filtered = false ∧ b.offset = p.offset) :
    ∀ m ∈ (cacheSubscribe limit s1 s2 f req false (some (some populated)) buffered).pubs,
      ∃ p ∈ s2.log, p.offset = m.offset ∧ p.id = m.id ∧ f.pass p = true ∧
        ∀ q ∈ s2.log, f.pass q = true → q.offset ≤ p.offset := by
  intro m hm
  -- the reply is `finish` applied to the decisive round's (≤ 1) publication and the buffer
  have hshape : ∃ r rp t e, (cacheSubscribe limit s1 s2 f req false (some (some populated)) buffered) =
      finish true false r (rp.map toPlain) buffered t e req.offset true ∧
      (rp = [] ∨ rp = (cacheDecide limit s2 f req.offset req.epoch).1) := by
    unfold cacheSubscribe
    rw [h1]
    simp only
    split
    · exact ⟨_, _, _, _, rfl, Or.inr rfl⟩
    · exact ⟨_, _, _, _, rfl, Or.inl rfl⟩
  obtain ⟨r, rp, t, e, hs, hrp⟩ := hshape
  rw [hs] at hm
  obtain ⟨hnf, hmem, hmax⟩ := finish_cache_pubs r (rp.map toPlain) buffered t e req.offset true m hm
  have hfrombuf : m ∈ buffered →
      ∃ p ∈ s2.log, p.offset = m.offset ∧ p.id = m.id ∧ f.pass p = true ∧
        ∀ q ∈ s2.log, f.pass q = true → q.offset ≤ p.offset := by
    intro hmb
    obtain ⟨p, hp, hpo, hpid, hpp, hgt⟩ := hb1 m hmb hnf
    refine ⟨p, hp, hpo, hpid, hpp, ?_⟩
    intro q hq hqp
    by_cases hqt : s1.top < q.offset
    · obtain ⟨b, hb, hbf, hbo⟩ := hb2 q hq hqt hqp
      have := hmax b (List.mem_append_right _ hb) hbf
      omega
    · omega
  rcases List.mem_append.mp hmem with hmr | hmb
  · rcases hrp with hrp | hrp
    · subst hrp; simp at hmr
    · obtain ⟨p, hp, rfl⟩ := List.mem_map.mp hmr
      rw [hrp] at hp
      obtain ⟨hpi, hpp, _⟩ := (cache_at_most_one limit s2 hi2 f hw req.offset req.epoch).2 p hp
      have hplog : p ∈ s2.log := by
        have := hi2.suffix; rw [this] at hpi; exact List.mem_of_mem_drop hpi
      exact ⟨p, hplog, rfl, rfl, hpp, cache_never_stale limit s2 hi2 f hw req.offset req.epoch p hp⟩
  · exact hfrombuf hmb

/-- whatever the handler does, nothing is delivered with `recovered = false` -/
theorem cache_false_empty (limit : Nat) (s1 s2 : RStream) (f : Filt) (req : Req) (delta : Bool)
    (h : HandlerReply) (buffered : List MPub)
    (hr : (cacheSubscribe limit s1 s2 f req delta h buffered).recovered = false) :
    (cacheSubscribe limit s1 s2 f req delta h buffered).pubs = [] := by
  have hc : cacheSubscribe limit s1 s2 f req delta h buffered = .handlerError ∨
      ∃ r rp b t e, cacheSubscribe limit s1 s2 f req delta h buffered = finish true delta r rp b t e req.offset true := by
    unfold cacheSubscribe
    simp only
    cases recoverCache limit s1 f <;> cases h with
    | none => exact Or.inr ⟨_, _, _, _, _, rfl⟩
    | some x =>
      cases x with
      | none => first | exact Or.inl rfl | exact Or.inr ⟨_, _, _, _, _, rfl⟩
      | some pop =>
        first
        | exact Or.inr ⟨_, _, _, _, _, rfl⟩
        | (simp only; split <;> exact Or.inr ⟨_, _, _, _, _, rfl⟩)
  rcases hc with hc | ⟨r, rp, b, t, e, hc⟩
  · rw [hc]; rfl
  · rw [hc] at hr ⊢
    exact finish_false_empty _ _ _ _ _ _ _ _ _ hr

/-- without delta the reply never carries more than one publication (the `len > 1 ∧ delta = ""`
trimming), whatever was buffered and whatever the handler did -/
theorem cache_reply_at_most_one (limit : Nat) (s1 s2 : RStream) (f : Filt) (req : Req)
    (h : HandlerReply) (buffered : List MPub) :
    (cacheSubscribe limit s1 s2 f req false h buffered).pubs.length ≤ 1 := by
  have key : ∀ r rp b t e, (finish true false r rp b t e req.offset true).pubs.length ≤ 1 := by
    intro r rp b t e
    unfold finish
    split
    · simp [Outcome.pubs]
    · rename_i l mx _
      cases r
      · simp [Outcome.pubs]
      · simp only [Outcome.pubs, Bool.not_true, Bool.and_false, Bool.false_eq_true, if_false, Bool.true_and,
          Bool.not_false, Bool.and_true, if_true]
        split
        · rename_i hl; simp only [decide_eq_true_eq] at hl; simp; omega
        · rename_i hl; simp only [decide_eq_true_eq] at hl; omega
  unfold cacheSubscribe
  simp only
  cases recoverCache limit s1 f <;> cases h with
  | none => exact key _ _ _ _ _
  | some x =>
    cases x with
    | none => first | exact key _ _ _ _ _ | simp [Outcome.pubs]
    | some pop =>
      first
      | exact key _ _ _ _ _
      | (simp only; split <;> exact key _ _ _ _ _)

/-! ### Non-vacuity and the literal-reading witness -/

/-- three publications with tags 1, 2, 2 retained, top 3, epoch 7 -/
def exC : RStream := (((RStream.new 7).add 1 1 5).add 2 2 5).add 2 3 5

example : exC.Inv := by
  unfold exC
  have b : ∀ n : Nat, n ≤ 10 → n + 2 < U64 := by intro n hn; unfold U64; omega
  exact inv_add (inv_add (inv_add (inv_new 7 (by decide)) (b _ (by decide)) 1 1 5) (b _ (by decide)) 2 2 5)
    (b _ (by decide)) 2 3 5

def fEq (v : Nat) : Filt := ⟨true, fun p => p.tag == v⟩
def fNone : Filt := ⟨false, fun _ => true⟩
example : (fEq 1).WF := by intro h; cases h
example : fNone.WF := by intro _ _; rfl

-- no filter: newest publication delivered
example : cacheSubscribe 0 exC exC fNone ⟨0, 0, false⟩ false none [] = .reply true [⟨3, false, 3⟩] 0 7 3 true := by decide
-- filter tag = 1: the newest *visible* publication (offset 1) is delivered, recovered = true
example : cacheSubscribe 0 exC exC (fEq 1) ⟨0, 0, false⟩ false none [] = .reply true [⟨1, false, 1⟩] 0 7 3 true := by decide
-- … but a limit of 2 cuts the scan before it: nothing visible found
example : cacheSubscribe 2 exC exC (fEq 1) ⟨0, 0, false⟩ false none [] = .reply false [] 3 7 3 true := by decide
-- client already at (3, 7): recovered, nothing delivered
example : cacheSubscribe 0 exC exC fNone ⟨3, 7, false⟩ false none [] = .reply true [] 3 7 3 true := by decide
-- populate-then-retry: empty cache, handler publishes offset 4 (tag 1) which is also buffered
example : cacheSubscribe 0 exC.clear (exC.clear.add 1 4 5) (fEq 1) ⟨0, 0, false⟩ false (some (some true))
    [⟨4, false, 4⟩] = .reply true [⟨4, false, 4⟩] 0 7 4 true := by decide

-- the hypotheses of `cache_retry_never_stale` on that instance (handler published offset 4, tag 1)
example : recoverCache 0 exC.clear (fEq 1) = none := by decide
example : ∀ b ∈ [(⟨4, false, 4⟩ : MPub)], b.filtered = false →
    ∃ p ∈ (exC.clear.add 1 4 5).log, p.offset = b.offset ∧ p.id = b.id ∧ (fEq 1).pass p = true ∧
      exC.clear.top < p.offset := by decide
example : ∀ p ∈ (exC.clear.add 1 4 5).log, exC.clear.top < p.offset → (fEq 1).pass p = true →
    ∃ b ∈ [(⟨4, false, 4⟩ : MPub)], b.filtered = false ∧ b.offset = p.offset := by decide

/-- **Literal reading fails.**  Filter `tag = 3` excludes every retained publication: the channel's
newest publication (offset 3 = top) *is* present in history and the client is not at the current
position, yet the code reports `recovered = false` (see the module comment for why this is the
intended, safe behaviour and `cache_recovered_iff` is the right statement). -/
theorem cache_literal_reading_counterexample :
    (∃ p ∈ exC.items, p.offset = exC.top) ∧ sameState exC 1 7 = false ∧
    (cacheDecide 0 exC (fEq 3) 1 7).2 = false := by decide

end CentrifugeVerif.Recovery
