import CentrifugeVerif.Model.RecoveryHub
namespace CentrifugeVerif.Recovery
theorem c03_placeholder : True := trivial
end CentrifugeVerif.Recovery
