import CentrifugeVerif.Proofs.MapExpiry
/-!
# C24 — map key expiry removes each expired key exactly once

"A map key whose TTL elapses without refresh is removed from state, and exactly one removal is appended to
the stream and broadcast; a key refreshed (by publish or keep-alive) before its deadline is not removed, and a
key removed or republished concurrently with expiry is neither removed twice nor lost."

The statements are over `Model/MapExpiry.lean`: the sweeper's phase 1 (`MapHub.phase1`, one hub-lock region)
and every phase-2 region (`MapHub.phase2`, one per collected event) are separate atomic labels that interleave
with `Publish` / keep-alive / `Remove` / `Clear` and clock ticks.

* E1 `expiry_exactly_once`, E2 `refreshed_not_removed`, E3 `removed_not_removed_again`, `no_double_removal`
  describe one phase-2 region on an **arbitrary** hub (whatever ran between phase 1 and this region).
* `phase1_collects_only_elapsed_unrefreshed` describes phase 1 on an arbitrary hub.
* E4 `step_preserves_expInv` / `run_preserves_expInv`: over **all** interleavings no key with a deadline is
  lost by the sweeper (its deadline is recorded and either still in the heap or in a pending event).
* E5 `sequential_sweep_complete` / `phase1_never_stuck`: an uninterrupted sweep removes every elapsed key.
-/
namespace CentrifugeVerif.MapExpiry
open CentrifugeVerif.MapHub

/-! ### concrete instances used by the `example`s -/

/-- channel 0: `MapModeRecoverable` (mode 2), `KeyTTL` 1000 ms, default stream size (100);
channel 1: `MapModeEphemeral` (mode 1, no stream), `KeyTTL` 500 ms. -/
def exCfg : Nat → RawCfg := fun ch => if ch = 0 then ⟨2, 1000, 0, false⟩ else ⟨1, 500, 0, false⟩

/-- keep-alive: publish with `KeyModeIfNew` + `RefreshTTLOnSuppress`. -/
def keepAlive : PubOpts := { mode := .ifNew, refresh := true }

/-- key `[1]` of channel 0 published at 0, clock at 1000, phase 1 done: one event pending. -/
def exExpired : Sys := (Sys.init.run exCfg [.pub 0 [1] {}, .tick 1000, .phase1]).getD Sys.init
/-- … and a keep-alive lands between phase 1 and phase 2 (deadline now 2000). -/
def exRefreshed : Sys := (exExpired.run exCfg [.pub 0 [1] keepAlive]).getD Sys.init
/-- … or a `Remove` lands between phase 1 and phase 2. -/
def exRemoved : Sys := (exExpired.run exCfg [.rm 0 [1] {}]).getD Sys.init
/-- the event collected by phase 1. -/
def exEv : ExpEvent := ⟨0, [1], 1000, 0, 100⟩

example : exExpired.pending = [exEv] ∧ exRefreshed.pending = [exEv] ∧ exRemoved.pending = [exEv] := by decide

/-! ### E1 — an elapsed, unrefreshed key is removed exactly once -/

/-- **E1.** A phase-2 region that finds the entry still carrying the deadline phase 1 saw (the key was not
refreshed) removes the key from the state and forgets its deadline, leaves every other key and channel alone,
and emits exactly one broadcast: a removal of that key.  With a stream (`streamSize > 0`) exactly one entry —
that publication, with offset `top + 1` — is appended (and the front trimmed to `streamSize`), and it is
broadcast at position `(top + 1, epoch)`; without a stream the stream is unchanged. -/
theorem expiry_exactly_once (h : Hub) (now1 now2 : Nat) (ev : ExpEvent) (c : Chan) (e : Entry)
    (hc : aget h.chans ev.ch = some c) (he : aget c.state ev.key = some e)
    (hd : e.expireAt = ev.expireAt) :
    stateOf (phase2 h now1 now2 ev).1 ev.ch ev.key = none ∧
    aget (phase2 h now1 now2 ev).1.keyExpires (ev.ch, ev.key) = none ∧
    (∀ key, key ≠ ev.key → stateOf (phase2 h now1 now2 ev).1 ev.ch key = stateOf h ev.ch key) ∧
    (∀ ch, ch ≠ ev.ch → aget (phase2 h now1 now2 ev).1.chans ch = aget h.chans ch) ∧
    (phase2 h now1 now2 ev).2.length = 1 ∧
    ∃ b, (phase2 h now1 now2 ev).2 = [b] ∧ b.ch = ev.ch ∧ b.pub.key = ev.key ∧ b.pub.removed = true ∧
      b.pub.tag = ev.tag ∧ b.pub.time = now2 ∧ b.pos.epoch = c.stream.epoch ∧
      (0 < ev.streamSize →
        b.pub.offset = c.stream.top + 1 ∧ b.pos = ⟨c.stream.top + 1, c.stream.epoch⟩ ∧
        streamOf (phase2 h now1 now2 ev).1 ev.ch = some
          { top := c.stream.top + 1,
            items := (c.stream.items ++ [b.pub]).drop ((c.stream.items ++ [b.pub]).length - ev.streamSize),
            epoch := c.stream.epoch }) ∧
      (ev.streamSize = 0 →
        b.pub.offset = 0 ∧ b.pos = c.stream.pos ∧
        streamOf (phase2 h now1 now2 ev).1 ev.ch = some c.stream) :=
  phase2_expired_spec now1 now2 hc he hd

/-- the hypotheses hold for the pending event of `exExpired` (stream-backed channel) … -/
example : ∃ c e, aget exExpired.hub.chans exEv.ch = some c ∧ aget c.state exEv.key = some e ∧
    e.expireAt = exEv.expireAt ∧ 0 < exEv.streamSize ∧ c.stream.top = 1 :=
  ⟨⟨⟨1, [⟨[1], 0, 0, 0, 1, false, 0⟩], 1⟩, [([1], ⟨⟨[1], 0, 0, 0, 1, false, 0⟩, 0, 1000, 0, 0⟩)], false, []⟩,
   ⟨⟨[1], 0, 0, 0, 1, false, 0⟩, 0, 1000, 0, 0⟩, by decide, by decide, by decide, by decide, by decide⟩
/-- … and the region appends the removal at offset 2 and broadcasts it once. -/
example : (phase2 exExpired.hub 1000 1003 exEv).2 = [⟨0, ⟨[1], 0, 0, 0, 2, true, 1003⟩, ⟨2, 1⟩, false, none⟩] ∧
    streamOf (phase2 exExpired.hub 1000 1003 exEv).1 0 =
      some ⟨2, [⟨[1], 0, 0, 0, 1, false, 0⟩, ⟨[1], 0, 0, 0, 2, true, 1003⟩], 1⟩ := by decide

/-! ### E2 — a refreshed key is not removed -/

/-- **E2 (phase 2).** If the entry's deadline differs from the one phase 1 saw (keep-alive or republish in
between), the region emits nothing and leaves state and streams untouched; if the new deadline is later than
phase 1's `now` it is queued again: recorded in `keyExpires`, pushed on the heap, and the sweeper's wake-up
time is non-zero and not later than it. -/
theorem refreshed_not_removed (h : Hub) (now1 now2 : Nat) (ev : ExpEvent) (c : Chan) (e : Entry)
    (hc : aget h.chans ev.ch = some c) (he : aget c.state ev.key = some e)
    (hd : e.expireAt ≠ ev.expireAt) :
    (phase2 h now1 now2 ev).2 = [] ∧ (phase2 h now1 now2 ev).1.chans = h.chans ∧
    (e.expireAt > now1 →
      ((ev.ch, ev.key), e.expireAt) ∈ (phase2 h now1 now2 ev).1.queue ∧
      aget (phase2 h now1 now2 ev).1.keyExpires (ev.ch, ev.key) = some e.expireAt ∧
      (phase2 h now1 now2 ev).1.nextKeyCheck ≠ 0 ∧
      (phase2 h now1 now2 ev).1.nextKeyCheck ≤ e.expireAt) := by
  by_cases hn : now1 < e.expireAt
  · rw [phase2_requeue hc he hd hn]
    refine ⟨rfl, rfl, fun _ => ⟨by simp, aget_aset_same _ _ _, ?_, ?_⟩⟩
    · show (if _ then _ else _) ≠ 0
      split <;> omega
    · show (if _ then _ else _) ≤ _
      split <;> omega
  · rw [phase2_stale hc he hd (by omega)]
    exact ⟨rfl, rfl, fun h' => absurd h' hn⟩

/-- the hypotheses hold after a keep-alive between phase 1 and phase 2 (deadline moved from 1000 to 2000)… -/
example : ∃ c e, aget exRefreshed.hub.chans exEv.ch = some c ∧ aget c.state exEv.key = some e ∧
    e.expireAt ≠ exEv.expireAt ∧ e.expireAt > exRefreshed.now1 :=
  ⟨⟨⟨1, [⟨[1], 0, 0, 0, 1, false, 0⟩], 1⟩, [([1], ⟨⟨[1], 0, 0, 0, 1, false, 0⟩, 0, 2000, 0, 0⟩)], false, []⟩,
   ⟨⟨[1], 0, 0, 0, 1, false, 0⟩, 0, 2000, 0, 0⟩, by decide, by decide, by decide, by decide⟩
/-- … and the whole sweep then broadcasts nothing and keeps the key. -/
example : ((exRefreshed.run exCfg [.phase2]).map (fun s => (s.log.length, (stateOf s.hub 0 [1]).isSome, s.pending)))
    = some (1, true, []) := by decide

/-- **E2 (phase 1).** Phase 1 does not touch the channels, and every event it collects is for a key whose
entry carries exactly the collected deadline and that deadline has elapsed: a key whose deadline lies in the
future, or that was refreshed to a different deadline, is never collected. -/
theorem phase1_collects_only_elapsed_unrefreshed (cfg : Nat → RawCfg) (h h' : Hub) (now : Nat)
    (evs : List ExpEvent) (hp : phase1 cfg h now = some (h', evs)) :
    h'.chans = h.chans ∧
    ∀ ev ∈ evs, ev.expireAt ≤ now ∧ ∃ e, stateOf h ev.ch ev.key = some e ∧ e.expireAt = ev.expireAt := by
  unfold phase1 at hp
  split at hp
  · simp only [Option.some.injEq, Prod.mk.injEq] at hp
    obtain ⟨rfl, rfl⟩ := hp
    exact ⟨rfl, fun ev hev => by cases hev⟩
  · split at hp
    · cases hp
    · rename_i h1 next evs1 hl
      obtain ⟨h2, h3⟩ := phase1Loop_col cfg now _ _ _ _ _ _ hl
      have h4 : ∀ ev ∈ evs1, ev.expireAt ≤ now ∧
          ∃ e, stateOf h ev.ch ev.key = some e ∧ e.expireAt = ev.expireAt := by
        intro ev hev
        rcases h3 ev hev with h5 | h5
        · cases h5
        · exact h5
      split at hp <;>
      · simp only [Option.some.injEq, Prod.mk.injEq] at hp
        obtain ⟨rfl, rfl⟩ := hp
        exact ⟨h2, h4⟩

/-- phase 1 at 1000 with key `[1]` (deadline 1000, elapsed) and key `[2]` (published at 500, deadline 1500):
only `[1]` is collected. -/
example : ((Sys.init.run exCfg [.pub 0 [1] {}, .tick 500, .pub 0 [2] {}, .tick 500, .phase1]).map (·.pending))
    = some [exEv] := by decide

/-! ### E3 — a key removed concurrently is not removed again -/

/-- **E3.** If at phase-2 time the channel or the key is absent (removed concurrently, channel cleared, or
already removed by an earlier event for the same key), the region does nothing at all. -/
theorem removed_not_removed_again (h : Hub) (now1 now2 : Nat) (ev : ExpEvent)
    (hn : stateOf h ev.ch ev.key = none) : phase2 h now1 now2 ev = (h, []) :=
  phase2_noop hn

/-- a `Remove` between phase 1 and phase 2: the key is absent when the pending event is processed, and the
log holds the publication and the one removal by `Remove` only. -/
example : stateOf exRemoved.hub exEv.ch exEv.key = none ∧
    ((exRemoved.run exCfg [.phase2]).map (fun s => s.log.map (fun b => (b.pub.offset, b.pub.removed))))
      = some [(1, false), (2, true)] := by decide

/-- **Neither removed twice.** After a phase-2 region removed a key (hypotheses of E1), any further region
for the same channel and key — whatever deadline and clock values it carries — does nothing, unless the key
has been published again in between. -/
theorem no_double_removal (h : Hub) (now1 now2 : Nat) (ev : ExpEvent) (c : Chan) (e : Entry)
    (hc : aget h.chans ev.ch = some c) (he : aget c.state ev.key = some e)
    (hd : e.expireAt = ev.expireAt) (ev' : ExpEvent) (hch : ev'.ch = ev.ch) (hkey : ev'.key = ev.key)
    (now1' now2' : Nat) :
    phase2 (phase2 h now1 now2 ev).1 now1' now2' ev' = ((phase2 h now1 now2 ev).1, []) := by
  apply phase2_noop
  rw [hch, hkey]
  exact (phase2_expired_spec now1 now2 hc he hd).1

/-- On **any** hub, for any event and clock values, one phase-2 region emits at most one broadcast. -/
theorem phase2_at_most_one_broadcast (h : Hub) (now1 now2 : Nat) (ev : ExpEvent) :
    (phase2 h now1 now2 ev).2.length ≤ 1 := by
  unfold phase2
  repeat' split
  all_goals simp

/-! ### E4 — over all interleavings no deadline is lost -/

/-- the invariant holds initially. -/
theorem expInv_init : ExpInv Sys.init ∧ ExpAux Sys.init :=
  (hinv_iff Sys.init).mp hinv_init

/-- **E4.** Every label — publish (including keep-alive refresh), remove, clear, tick, phase 1 (including
the heap-compaction branch) and every branch of phase 2 — preserves the invariant `ExpInv` (together with
the two auxiliary facts `ExpAux` that make it inductive: recorded deadlines are positive and the empty key
is never in a state). -/
theorem step_preserves_expInv (cfg : Nat → RawCfg) (s : Sys) (l : Label) (s' : Sys)
    (hi : ExpInv s ∧ ExpAux s) (hs : s.step cfg l = some s') : ExpInv s' ∧ ExpAux s' :=
  (hinv_iff s').mp (step_hinv ((hinv_iff s).mpr hi) hs)

/-- **E4.** In every state reachable by any interleaving of publish / keep-alive / remove / clear / tick
with the sweeper's phase 1 and phase-2 regions, a key that carries a deadline has that deadline recorded,
and a heap item with priority ≤ the deadline or a pending event for exactly that deadline exists; the
sweeper's wake-up time is non-zero when the heap is non-empty and is a lower bound of the heap.  Hence the
sweeper cannot lose a key: it wakes up no later than the deadline and finds the item. -/
theorem run_preserves_expInv (cfg : Nat → RawCfg) (ls : List Label) (s : Sys)
    (hr : Sys.init.run cfg ls = some s) : ExpInv s :=
  ((hinv_iff s).mp (run_hinv ls Sys.init s hinv_init hr)).1

/-- a run in which a keep-alive and a republish race with the two phases; the re-queue of phase 2 on top of
the push by the refresh makes phase 1 collect duplicate events (two for `(1, [2])` at 1000, two for `(0, [1])`
at 2000) — each key is nevertheless removed once. -/
example : ((Sys.init.run exCfg
      [.pub 0 [1] {}, .pub 1 [2] {}, .tick 500, .phase1, .pub 1 [2] keepAlive, .phase2, .tick 500, .phase1,
       .pub 0 [1] {}, .phase2, .phase2, .phase2, .tick 1000, .phase1, .phase2, .phase2]).map
      (fun s => (s.pending, s.log.map (fun b => (b.ch, b.pub.key, b.pub.removed)))))
    = some ([], [(0, [1], false), (1, [2], false), (0, [1], false), (1, [2], true), (0, [1], true)]) := by
  decide

/-! ### E5 — an uninterrupted sweep removes every elapsed key -/

/-- **E5.** Phase 1 never runs out of fuel: `3 * queue.length + 3` iterations suffice (every heap item is
re-queued at most twice — once with the recorded deadline, once more with a deadline in the future). -/
theorem phase1_never_stuck (cfg : Nat → RawCfg) (h : Hub) (now : Nat) : phase1 cfg h now ≠ none :=
  phase1_ne_none cfg h now

/-- **E5.** From a state satisfying the invariant in which no sweep is in progress, one uninterrupted
`expireKeysIteration` at time `now` (`MapHub.sweep`: phase 1, then phase 2 for every event) terminates
normally and leaves no key whose positive deadline is `≤ now`. -/
theorem sequential_sweep_complete (cfg : Nat → RawCfg) (s : Sys) (now : Nat) (h' : Hub) (out : MOut)
    (hi : ExpInv s) (ha : ExpAux s) (hp : s.pending = []) (hsw : sweep cfg s.hub now = (h', out)) :
    out.res = .done ∧
    ∀ ch c key e, aget h'.chans ch = some c → aget c.state key = some e →
      ¬ (0 < e.expireAt ∧ e.expireAt ≤ now) := by
  have hh : HInv s.hub [] := by rw [← hp]; exact (hinv_iff s).mpr ⟨hi, ha⟩
  unfold sweep at hsw
  split at hsw
  · rename_i hn; exact absurd hn (phase1_ne_none cfg s.hub now)
  · rename_i h1 evs hp1
    simp only [Prod.mk.injEq] at hsw
    obtain ⟨rfl, rfl⟩ := hsw
    refine ⟨rfl, ?_⟩
    intro ch c key e hc he
    exact phase2All_complete now now now evs h1 (phase1_post hp1 hh).due ch key e
      (stateOf_eq_some_iff.mpr ⟨c, hc, he⟩)

/-- **E5 for reachable states.** After any interleaving that ends with no sweep in progress, one
uninterrupted sweep at the current time leaves no key whose deadline has elapsed. -/
theorem reachable_sweep_complete (cfg : Nat → RawCfg) (ls : List Label) (s : Sys)
    (hr : Sys.init.run cfg ls = some s) (hp : s.pending = []) :
    (sweep cfg s.hub s.now).2.res = .done ∧
    ∀ ch c key e, aget (sweep cfg s.hub s.now).1.chans ch = some c → aget c.state key = some e →
      ¬ (0 < e.expireAt ∧ e.expireAt ≤ s.now) := by
  have hi := (hinv_iff s).mp (run_hinv ls Sys.init s hinv_init hr)
  exact sequential_sweep_complete cfg s s.now _ _ hi.1 hi.2 hp rfl

/-- keys `[1]` (deadline 1000) and `[2]` (deadline 1500) of channel 0 and `[3]` of channel 1 (deadline 1000,
kept alive at 900 → 1400). -/
def exThree : Sys := (Sys.init.run exCfg [.pub 0 [1] {}, .tick 500, .pub 0 [2] {}, .pub 1 [3] {}, .tick 400,
  .pub 1 [3] keepAlive, .tick 600]).getD Sys.init

/-- the sweep at 1500 removes all three, each with one broadcast. -/
example : exThree.pending = [] ∧ exThree.now = 1500 ∧
    (sweep exCfg exThree.hub 1500).2.res = .done ∧
    (sweep exCfg exThree.hub 1500).2.bcs.map (fun b => (b.ch, b.pub.key, b.pub.removed, b.pub.offset))
      = [(0, [1], true, 3), (1, [3], true, 0), (0, [2], true, 4)] ∧
    (sweep exCfg exThree.hub 1500).1.chans.map (fun c => (c.1, c.2.state.length)) = [(0, 0), (1, 0)] := by
  decide

/-! ### the interleavings driven on the real code through the event handler (props/C24 `hook` lines)

The correspondence harness uses `BrokerEventHandler.HandlePublication` as a gate: an operation issued inside the
call for one expiry removal lands between two phase-2 regions of the same sweep.  As label sequences: -/

/-- two keys of two channels are due in one sweep; after the first key's phase-2 region the second key is
republished, then its own phase-2 region runs: it survives with the new value, exactly one removal is logged
(`refreshed_not_removed` at work). -/
example : ((Sys.init.run exCfg [.pub 0 [1] {}, .pub 1 [2] {}, .tick 1000, .phase1, .phase2,
              .pub 0 [1] { data := 7 }, .phase2]).map
            (fun s => (s.pending.length, (s.log.filter (·.pub.removed)).map (fun b => (b.ch, b.pub.key)),
                       (stateOf s.hub 0 [1]).map (·.pub.data), (stateOf s.hub 1 [2]).isSome)))
    = some (0, [(1, [2])], some 7, false) := by decide

/-- a republish of the same key right after its phase-2 region (the publish lock orders it after the removal's
dispatch): the log shows the removal (offset 2) before the publication (offset 3). -/
example : ((Sys.init.run exCfg [.pub 0 [1] {}, .tick 1000, .phase1, .phase2, .pub 0 [1] { data := 7 }]).map
            (fun s => s.log.map (fun b => (b.pub.removed, b.pub.offset))))
    = some [(false, 1), (true, 2), (false, 3)] := by decide

end CentrifugeVerif.MapExpiry
