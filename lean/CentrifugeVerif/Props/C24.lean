import CentrifugeVerif.Model.MapHub
/-!
# C24 — map key expiry removes each expired key exactly once
-/
namespace CentrifugeVerif.MapHub

/-- one phase-2 region emits at most one broadcast. -/
theorem phase2_at_most_one_broadcast (h : Hub) (now1 now2 : Nat) (ev : ExpEvent) :
    (phase2 h now1 now2 ev).2.length ≤ 1 := by
  unfold phase2
  repeat' split
  all_goals simp

end CentrifugeVerif.MapHub
