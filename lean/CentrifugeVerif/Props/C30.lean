import CentrifugeVerif.Proofs.WSMask
import CentrifugeVerif.Proofs.WSHeader
import CentrifugeVerif.Proofs.WSTrunc
/-!
# C30 — WebSocket messages round-trip through writer and reader
-/
namespace CentrifugeVerif.WS
open Writer

/-- Unmasking undoes masking (RFC 6455 §5.3: the same algorithm in both directions), from any key
position. -/
theorem mask_involutive (k : Key) (pos : Nat) (bs : Bytes) :
    xorMask k pos (xorMask k pos bs) = bs := xorMask_involutive k pos bs

/-- The key position carries across chunks: masking `a ++ b` from `pos` is masking `a` from `pos`
and `b` from the position `maskBytes` returned for `a` (`(pos + |a|) & 3`). -/
theorem mask_append (k : Key) (pos : Nat) (a b : Bytes) :
    xorMask k pos (a ++ b) = xorMask k pos a ++ xorMask k ((pos + a.length) % 4) b := by
  rw [xorMask_append, xorMask_congr k (p := (pos + a.length) % 4) (q := pos + a.length) (by omega)]

/-- The word-at-a-time `maskBytes` of mask.go computes the byte-wise definition and returns the
byte-wise position, for every key, start position, buffer alignment and length. -/
theorem maskWordsGo_eq (k : Key) (pos align : Nat) (b : Bytes) :
    maskWordsGo k pos align b = (xorMask k pos b, (pos + b.length) % 4) := by
  unfold maskWordsGo
  split
  · rfl
  · rename_i hlen
    simp only [Nat.not_lt] at hlen
    generalize hn : (if align % 8 == 0 then 0 else 8 - align % 8) = n
    have hn8 : n ≤ 8 := by subst hn; split <;> omega
    have hnl : n ≤ b.length := by omega
    simp only []
    generalize hnw : (b.drop n).length / 8 * 8 = nw
    have hnwl : nw ≤ (b.drop n).length := by subst hnw; exact Nat.div_mul_le_self _ _
    have hnw4 : nw % 4 = 0 := by subst hnw; omega
    congr 1
    · rw [xorMask_rotated, Nat.add_zero]
      conv => rhs; rw [← List.take_append_drop n b, xorMask_append]
      rw [List.append_assoc]
      congr 1
      simp only [List.length_take, Nat.min_eq_left hnl]
      conv => rhs; rw [← List.take_append_drop nw (b.drop n), xorMask_append]
      congr 1
      simp only [List.length_take, Nat.min_eq_left hnwl]
      exact xorMask_congr k (by omega) _
    · simp only [List.length_drop] at hnwl ⊢
      omega

/-- The header `flushFrame` writes parses back to the same FIN, RSV1, opcode, mask bit and payload
length, with RSV2 = RSV3 = 0, for every opcode, every length below 2^63 (7-, 16- and 64-bit forms)
and whatever follows it on the wire. -/
theorem header_roundtrip (final rsv1 masked : Bool) (op : Nat) (hop : op < 16) (len : Nat)
    (hlen : len < 2 ^ 63) (rest : Bytes) :
    ∃ b0 b1 ext, encHeader (firstByte final rsv1 op) masked len = b0 :: b1 :: ext ∧
      (parseHdr b0 b1).fin = final ∧ (parseHdr b0 b1).rsv1 = rsv1 ∧ (parseHdr b0 b1).rsv2 = false ∧
      (parseHdr b0 b1).rsv3 = false ∧ (parseHdr b0 b1).opcode = op ∧ (parseHdr b0 b1).masked = masked ∧
      Spec.extLen (parseHdr b0 b1).len7 (ext ++ rest) = some (len, rest) :=
  encHeader_parse final rsv1 masked op hop len hlen rest

/-- `truncWriter`: however the compressed stream is cut into `Write` calls (empty ones included),
the bytes passed on to the message writer are the stream without its last four bytes, and those
four bytes are what `flateWriteWrapper.Close` compares with `00 00 ff ff`. -/
theorem truncWriter_drops_last4 (chunks : List Bytes) (d tail : Bytes)
    (h : chunks.flatten = d ++ tail) (ht : tail.length = 4) :
    (twWrites {} chunks).2.flatten = d ∧ (twWrites {} chunks).1.held = tail := by
  have hs := twWrites_spec chunks {} (by simp)
  simp only [List.length_nil, List.nil_append, Nat.zero_add] at hs
  rw [h] at hs
  have hl : (twWrites {} chunks).1.held.length = tail.length := by
    rw [hs.2, ht]; simp only [List.length_append]; omega
  exact List.append_inj' hs.1 hl

/-- shorter streams are kept back entirely -/
theorem truncWriter_short (chunks : List Bytes) (h : chunks.flatten.length ≤ 4) :
    (twWrites {} chunks).2.flatten = [] ∧ (twWrites {} chunks).1.held = chunks.flatten := by
  have hs := twWrites_spec chunks {} (by simp)
  simp only [List.length_nil, List.nil_append, Nat.zero_add] at hs
  have hl : (twWrites {} chunks).1.held.length = chunks.flatten.length := by rw [hs.2]; omega
  have := List.append_inj' (s₁ := (twWrites {} chunks).2.flatten) (s₂ := []) (by simpa using hs.1) hl
  exact this

example : (twWrites {} [[1, 2], [], [3, 4, 5, 6, 7, 8, 9], [10]]).2.flatten = [1, 2, 3, 4, 5, 6] ∧
    (twWrites {} [[1, 2], [], [3, 4, 5, 6, 7, 8, 9], [10]]).1.held = [7, 8, 9, 10] := by decide

end CentrifugeVerif.WS
