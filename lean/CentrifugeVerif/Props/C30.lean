import CentrifugeVerif.Proofs.WSMask
import CentrifugeVerif.Proofs.WSHeader
import CentrifugeVerif.Proofs.WSTrunc
import CentrifugeVerif.Proofs.WSRoundtrip
/-!
# C30 — WebSocket messages round-trip through writer and reader
-/
namespace CentrifugeVerif.WS
open Writer

/-- Unmasking undoes masking (RFC 6455 §5.3: the same algorithm in both directions), from any key
position. -/
theorem mask_involutive (k : Key) (pos : Nat) (bs : Bytes) :
    xorMask k pos (xorMask k pos bs) = bs := xorMask_involutive k pos bs

/-- The key position carries across chunks: masking `a ++ b` from `pos` is masking `a` from `pos`
and `b` from the position `maskBytes` returned for `a` (`(pos + |a|) & 3`). -/
theorem mask_append (k : Key) (pos : Nat) (a b : Bytes) :
    xorMask k pos (a ++ b) = xorMask k pos a ++ xorMask k ((pos + a.length) % 4) b := by
  rw [xorMask_append, xorMask_congr k (p := (pos + a.length) % 4) (q := pos + a.length) (by omega)]

/-- The word-at-a-time `maskBytes` of mask.go computes the byte-wise definition and returns the
byte-wise position, for every key, start position, buffer alignment and length. -/
theorem maskWordsGo_eq (k : Key) (pos align : Nat) (b : Bytes) :
    maskWordsGo k pos align b = (xorMask k pos b, (pos + b.length) % 4) := by
  unfold maskWordsGo
  split
  · rfl
  · rename_i hlen
    simp only [Nat.not_lt] at hlen
    generalize hn : (if align % 8 == 0 then 0 else 8 - align % 8) = n
    have hn8 : n ≤ 8 := by subst hn; split <;> omega
    have hnl : n ≤ b.length := by omega
    simp only []
    generalize hnw : (b.drop n).length / 8 * 8 = nw
    have hnwl : nw ≤ (b.drop n).length := by subst hnw; exact Nat.div_mul_le_self _ _
    have hnw4 : nw % 4 = 0 := by subst hnw; omega
    congr 1
    · rw [xorMask_rotated, Nat.add_zero]
      conv => rhs; rw [← List.take_append_drop n b, xorMask_append]
      rw [List.append_assoc]
      congr 1
      simp only [List.length_take, Nat.min_eq_left hnl]
      conv => rhs; rw [← List.take_append_drop nw (b.drop n), xorMask_append]
      congr 1
      simp only [List.length_take, Nat.min_eq_left hnwl]
      exact xorMask_congr k (by omega) _
    · simp only [List.length_drop] at hnwl ⊢
      omega

/-- The header `flushFrame` writes parses back to the same FIN, RSV1, opcode, mask bit and payload
length, with RSV2 = RSV3 = 0, for every opcode, every length below 2^63 (7-, 16- and 64-bit forms)
and whatever follows it on the wire. -/
theorem header_roundtrip (final rsv1 masked : Bool) (op : Nat) (hop : op < 16) (len : Nat)
    (hlen : len < 2 ^ 63) (rest : Bytes) :
    ∃ b0 b1 ext, encHeader (firstByte final rsv1 op) masked len = b0 :: b1 :: ext ∧
      (parseHdr b0 b1).fin = final ∧ (parseHdr b0 b1).rsv1 = rsv1 ∧ (parseHdr b0 b1).rsv2 = false ∧
      (parseHdr b0 b1).rsv3 = false ∧ (parseHdr b0 b1).opcode = op ∧ (parseHdr b0 b1).masked = masked ∧
      Spec.extLen (parseHdr b0 b1).len7 (ext ++ rest) = some (len, rest) :=
  encHeader_parse final rsv1 masked op hop len hlen rest

/-- `truncWriter`: however the compressed stream is cut into `Write` calls (empty ones included),
the bytes passed on to the message writer are the stream without its last four bytes, and those
four bytes are what `flateWriteWrapper.Close` compares with `00 00 ff ff`. -/
theorem truncWriter_drops_last4 (chunks : List Bytes) (d tail : Bytes)
    (h : chunks.flatten = d ++ tail) (ht : tail.length = 4) :
    (twWrites {} chunks).2.flatten = d ∧ (twWrites {} chunks).1.held = tail := by
  have hs := twWrites_spec chunks {} (by simp)
  simp only [List.length_nil, List.nil_append, Nat.zero_add] at hs
  rw [h] at hs
  have hl : (twWrites {} chunks).1.held.length = tail.length := by
    rw [hs.2, ht]; simp only [List.length_append]; omega
  exact List.append_inj' hs.1 hl

/-- shorter streams are kept back entirely -/
theorem truncWriter_short (chunks : List Bytes) (h : chunks.flatten.length ≤ 4) :
    (twWrites {} chunks).2.flatten = [] ∧ (twWrites {} chunks).1.held = chunks.flatten := by
  have hs := twWrites_spec chunks {} (by simp)
  simp only [List.length_nil, List.nil_append, Nat.zero_add] at hs
  have hl : (twWrites {} chunks).1.held.length = chunks.flatten.length := by rw [hs.2]; omega
  have := List.append_inj' (s₁ := (twWrites {} chunks).2.flatten) (s₂ := []) (by simpa using hs.1) hl
  exact this

example : (twWrites {} [[1, 2], [], [3, 4, 5, 6, 7, 8, 9], [10]]).2.flatten = [1, 2, 3, 4, 5, 6] ∧
    (twWrites {} [[1, 2], [], [3, 4, 5, 6, 7, 8, 9], [10]]).1.held = [7, 8, 9, 10] := by decide

/-! ## Round trip -/

/-- what makes a write operation admissible for the round-trip theorem: a data message type, fewer
than 2^63 bytes, and for a compressed message the codec hypothesis — whatever chunks flate emits,
they concatenate to a stream `dfl ++ 00 00 ff ff` which the peer's inflate maps back to the data -/
def Writer.WOp.Admissible (peer : Cfg) : WOp → Prop
  | .compressed t d chunks => isDataOp t = true ∧ peer.deflate = true ∧
      ∃ dfl, chunks.flatten = dfl ++ deflateTail ∧ peer.inflate (dfl ++ deflateTail) = some d ∧
        dfl.length < two63
  | op => isDataOp op.typ = true ∧ op.data.length < two63

theorem writeAll_decodes (peer : Cfg) (accept : Nat → Bool) (cfg : WCfg)
    (hside : peer.server = !cfg.server) (hrl : peer.readLimit = 0) (hlim : peer.inflatedLimit = 0)
    (hB : cfg.bufSize > 0) : ∀ (ops : List WOp) (c : WConn) (evs : List Event),
    (∀ op ∈ ops, op.Admissible peer) → DecodesTo peer accept c.wire evs none → c.closeSent = false →
    (writeAll cfg c ops).2 = true ∧
    DecodesTo peer accept (writeAll cfg c ops).1.wire
      (evs ++ ops.map (fun op => Event.msg op.typ op.data)) none := by
  intro ops
  induction ops with
  | nil => intro c evs _ hd _; exact ⟨rfl, by simpa [writeAll] using hd⟩
  | cons op ops ih =>
    intro c evs hadm hd hopen
    have hop := hadm op (List.mem_cons_self ..)
    have hstep : ∃ c', writeOp cfg c op = (c', none) ∧ c'.closeSent = false ∧
        DecodesTo peer accept c'.wire (evs ++ [Event.msg op.typ op.data]) none := by
      cases op with
      | message t d =>
        exact writeMessagePlain_sync (comp := false) hside hrl hop.1 (fun h => by cases h) hB d rfl hd hopen hop.2
      | streamed t ps =>
        obtain ⟨c', h1, h2, h3⟩ := writeStreamed_sync (comp := false) hside hrl hop.1 (fun h => by cases h) hB ps
          hd hopen hop.2 (by simp [Spec.deliver, Event.terminal])
        exact ⟨c', h1, h2, by simpa [Spec.deliver, WOp.typ, WOp.data] using h3⟩
      | strings t ps =>
        exact writeStrings_sync (comp := false) hside hrl hop.1 (fun h => by cases h) hB ps rfl hd hopen hop.2
      | prepared t d =>
        exact writePrepared_sync hside hrl hop.1 d hd hopen hop.2
      | compressed t d chunks =>
        obtain ⟨ht, hdefl, dfl, hch, hcodec, hl⟩ := hop
        exact writeCompressed_sync hside hrl ht hB hdefl hlim d dfl chunks hch hcodec hd hopen hl
    obtain ⟨c', h1, h2, h3⟩ := hstep
    have := ih c' (evs ++ [Event.msg op.typ op.data])
      (fun o ho => hadm o (List.mem_cons_of_mem _ ho)) h3 h2
    simp only [writeAll, h1, List.map_cons]
    exact ⟨this.1, by simpa [List.append_assoc] using this.2⟩

/-- **Round trip.**  For every script of data-message writes (`WriteMessage`, `NextWriter` with any
pieces via `Write` or `WriteString`, prepared messages, compressed messages under the codec
hypothesis with any chunking of the compressed stream), every write buffer size, both sides and
any mask keys: every write succeeds, and the specification's decoder (strict RFC 6455 §5 rules,
configured as the opposite side) reads from the bytes on the wire exactly the written messages, same
types and bytes, in order, followed only by "incomplete" (the stream ends).  Since that decoder
reports a protocol error for an unmasked client frame, a masked server frame, a reserved bit or a
bad fragmentation, the wire is well-formed in particular. -/
theorem write_then_read (peer : Cfg) (accept : Nat → Bool) (cfg : WCfg)
    (hside : peer.server = !cfg.server) (hrl : peer.readLimit = 0) (hlim : peer.inflatedLimit = 0)
    (hB : cfg.bufSize > 0) (ops : List WOp) (hadm : ∀ op ∈ ops, op.Admissible peer) :
    (writeAll cfg {} ops).2 = true ∧
    Spec.decode peer accept (writeAll cfg {} ops).1.wire =
      ops.map (fun op => Event.msg op.typ op.data) ++ [.incomplete] := by
  obtain ⟨h1, h2⟩ := writeAll_decodes peer accept cfg hside hrl hlim hB ops {} [] hadm
    (decodesTo_nil peer accept) rfl
  refine ⟨h1, ?_⟩
  have := h2 [] ((writeAll cfg {} ops).1.wire.length + 1) 1 (by simp; omega) (by simp)
  simpa [Spec.decode, Spec.decodeQ] using this

/-- non-vacuity: a client with a 2-byte write buffer streams "abc" and writes "de" -/
example : (writeAll { server := false, bufSize := 2, compress := false, keyAt := fun _ => ⟨1, 2, 3, 4⟩ } {}
      [.streamed 1 [[0x61], [0x62, 0x63]], .message 2 [0x64, 0x65]]).1.wire =
    [0x01, 0x82, 1, 2, 3, 4, 0x60, 0x60, 0x80, 0x81, 1, 2, 3, 4, 0x62,
     0x82, 0x82, 1, 2, 3, 4, 0x65, 0x67] := by decide

/-- non-vacuity of the codec hypothesis: "a" deflates (sync flush) to `4a 04 00 00 00 ff ff`, flate
hands it over in two pieces, the peer's inflate knows that stream -/
example : (WOp.compressed 1 [0x61] [[0x4a, 0x04], [0x00, 0x00, 0x00, 0xff, 0xff]]).Admissible
    { server := false, deflate := true, readLimit := 0, inflatedLimit := 0,
      inflate := fun b => if b = [0x4a, 0x04, 0x00, 0x00, 0x00, 0xff, 0xff] then some [0x61] else none } :=
  ⟨rfl, rfl, [0x4a, 0x04, 0x00], rfl, by decide, by decide⟩

end CentrifugeVerif.WS
