import CentrifugeVerif.Proofs.WSMask
/-!
# C30 — WebSocket messages round-trip through writer and reader
-/
namespace CentrifugeVerif.WS
open Writer

/-- Unmasking undoes masking (RFC 6455 §5.3: the same algorithm in both directions), from any key
position. -/
theorem mask_involutive (k : Key) (pos : Nat) (bs : Bytes) :
    xorMask k pos (xorMask k pos bs) = bs := xorMask_involutive k pos bs

/-- The key position carries across chunks: masking `a ++ b` from `pos` is masking `a` from `pos`
and `b` from the position `maskBytes` returned for `a` (`(pos + |a|) & 3`). -/
theorem mask_append (k : Key) (pos : Nat) (a b : Bytes) :
    xorMask k pos (a ++ b) = xorMask k pos a ++ xorMask k ((pos + a.length) % 4) b := by
  rw [xorMask_append, xorMask_congr k (p := (pos + a.length) % 4) (q := pos + a.length) (by omega)]

/-- The word-at-a-time `maskBytes` of mask.go computes the byte-wise definition and returns the
byte-wise position, for every key, start position, buffer alignment and length. -/
theorem maskWordsGo_eq (k : Key) (pos align : Nat) (b : Bytes) :
    maskWordsGo k pos align b = (xorMask k pos b, (pos + b.length) % 4) := by
  unfold maskWordsGo
  split
  · rfl
  · rename_i hlen
    simp only [Nat.not_lt] at hlen
    generalize hn : (if align % 8 == 0 then 0 else 8 - align % 8) = n
    have hn8 : n ≤ 8 := by subst hn; split <;> omega
    have hnl : n ≤ b.length := by omega
    simp only []
    generalize hnw : (b.drop n).length / 8 * 8 = nw
    have hnwl : nw ≤ (b.drop n).length := by subst hnw; exact Nat.div_mul_le_self _ _
    have hnw4 : nw % 4 = 0 := by subst hnw; omega
    congr 1
    · rw [xorMask_rotated, Nat.add_zero]
      conv => rhs; rw [← List.take_append_drop n b, xorMask_append]
      rw [List.append_assoc]
      congr 1
      simp only [List.length_take, Nat.min_eq_left hnl]
      conv => rhs; rw [← List.take_append_drop nw (b.drop n), xorMask_append]
      congr 1
      simp only [List.length_take, Nat.min_eq_left hnwl]
      exact xorMask_congr k (by omega) _
    · simp only [List.length_drop] at hnwl ⊢
      omega

end CentrifugeVerif.WS
