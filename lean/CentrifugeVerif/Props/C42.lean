import CentrifugeVerif.Proofs.BPool
/-!
# C42 — Buffer pools never hand out undersized or dirty buffers

Statements are over *all* finite sequences of `get` / `put` / `forget` operations, with `put` of an
arbitrary buffer (any capacity, any length, any dirtiness) and every resolution of what
`sync.Pool.Get` returns (`choice`).

* byte buffers (`bpool.go`) and byte-slice lists (`byte_slices.go`): `get_ok_bytes`, `get_ok_slices`
  hold unconditionally.
* item buffers (`writer.go`): `getItemBuf` hands out `B[:length]`, so "empty" means that the
  `length` visible items are zero.  `putItemBuf` now clears the whole backing array
  (/repo "fix: putItemBuf clears the whole backing array of a returned item buffer", finding C42-1),
  and the full statement holds with no hypothesis: `get_ok_items` (= `get_ok_items_fixed`).
  Before the fix `putItemBuf` zeroed only `[0, len)`, so a buffer returned with a *shortened* `B`
  over non-zero items came back dirty (checked `example` at `dirtyWitness`); what held then was
  `get_ok_items_partial` (hypothesis: every returned item buffer has zero items beyond its length).
-/
namespace CentrifugeVerif.BPool

/-- the length a request is served for (`length <= 0` ⇒ 16 in the two guarded pools) -/
def eff (n : Int) : Nat := if n ≤ 0 then 16 else n.toNat

def GoodBytes (n : Int) (r : Res) : Prop := ∃ b, r = .buf b ∧ b.len = 0 ∧ n.toNat ≤ b.cap
def GoodSlices (n : Int) (r : Res) : Prop := ∃ b, r = .buf b ∧ b.len = 0 ∧ eff n ≤ b.cap
def GoodItems (n : Int) (r : Res) : Prop :=
  ∃ b, r = .buf b ∧ b.len = eff n ∧ eff n ≤ b.cap ∧ ∀ x ∈ b.vis, x = false

/-! ## arithmetic obligations of the property (all uint32 inputs) -/

/-- rounding up: the bucket of a request holds buffers that are large enough. -/
theorem next_log2_covers (n : Nat) (h0 : 0 < n) (h : n < 2 ^ 32) :
    n ≤ 2 ^ nextLogBase2 n ∧ n ≤ 2 ^ nextLogBase2G n := by
  rw [nextLogBase2G_eq n (by omega)]
  exact ⟨le_pow_nextLogBase2 n h0 (by rw [two32_eq]; exact h), le_pow_nextLogBase2 n h0 (by rw [two32_eq]; exact h)⟩

/-- rounding down: a returned buffer is filed under a bucket it is large enough for. -/
theorem prev_log2_fits (c : Nat) (h0 : 0 < c) (h : c < 2 ^ 32) :
    2 ^ prevLogBase2 c ≤ c ∧ 2 ^ prevLogBase2G c ≤ c := by
  rw [prevLogBase2G_eq c (by omega)]
  exact ⟨pow_prevLogBase2_le c h0 (by rw [two32_eq]; exact h), pow_prevLogBase2_le c h0 (by rw [two32_eq]; exact h)⟩

/-- in-range requests and returned capacities never index outside the bucket arrays. -/
theorem bucket_in_range (n k : Nat) (h0 : 0 < n) (h : n ≤ 2 ^ k) (hk : k < 32) :
    nextLogBase2 n ≤ k ∧ prevLogBase2 n ≤ k ∧ nextLogBase2G n ≤ k ∧ prevLogBase2G n ≤ k := by
  rw [nextLogBase2G_eq n (by omega), prevLogBase2G_eq n (by omega)]
  exact ⟨nextLogBase2_le n k h0 h, prevLogBase2_le n k h0 h hk, nextLogBase2_le n k h0 h, prevLogBase2_le n k h0 h hk⟩

/-! ## single operations -/

theorem max_bytes : maxBufferLength = 2 ^ 18 := by decide
theorem max_slices : maxByteSlicesBufLength = 2 ^ 12 := by decide
theorem max_items : maxItemBufLength = 2 ^ 12 := by decide

private theorem int_in_range {l : Int} {m : Nat} (h0 : 0 < l) (h : ¬ l > (m : Int)) (hm : m ≤ 2 ^ 18) :
    0 < l.toNat ∧ l.toNat ≤ m ∧ toU32 l = l.toNat := by
  have h1 : l.toNat ≤ m := by omega
  refine ⟨by omega, h1, toU32_of_nonneg l (by omega) ?_⟩
  have : (two32 : Int) = 4294967296 := by decide
  have : (2:Nat) ^ 18 = 262144 := by decide
  omega

theorem getByteBuffer_ok (p : Pools) (n : Int) (c : Option Nat) (hinv : Inv (fun b => b.len = 0) p) :
    Inv (fun b => b.len = 0) (getByteBuffer p n c).1 ∧ (0 ≤ n → GoodBytes n (getByteBuffer p n c).2) := by
  unfold getByteBuffer
  split
  · next h => subst h; exact ⟨hinv, fun _ => ⟨_, rfl, rfl, by simp [Buf.cap]⟩⟩
  · next hne =>
    split
    · refine ⟨hinv, fun h0 => ⟨_, rfl, by simp, ?_⟩⟩
      rw [Buf.fresh_cap _ _ (Nat.zero_le _)]; omega
    · next hmax =>
      simp only
      split
      · next hidx =>
        refine ⟨hinv, fun h0 => ?_⟩
        exfalso
        have ⟨hp, hle, hu⟩ := int_in_range (l := n) (m := maxBufferLength) (by omega) hmax (by decide)
        rw [hu] at hidx
        have := nextLogBase2_le n.toNat 18 hp (by rw [← max_bytes]; exact hle)
        unfold nBytePools at hidx; omega
      · next hidx =>
        split
        · next b p' hget =>
          have ⟨hb, hsub⟩ := poolGet_some hget
          refine ⟨fun j x hx => hinv j x (hsub j x hx), fun h0 => ⟨b, rfl, (hinv _ b hb).2, ?_⟩⟩
          have ⟨hp, hle, hu⟩ := int_in_range (l := n) (m := maxBufferLength) (by omega) hmax (by decide)
          have hcap := (hinv _ b hb).1
          rw [hu] at hcap
          have := le_pow_nextLogBase2 n.toNat hp (by
            have : two32 = 4294967296 := by decide
            have : maxBufferLength = 262144 := by decide
            omega)
          omega
        · refine ⟨hinv, fun h0 => ⟨_, rfl, by simp, ?_⟩⟩
          have ⟨hp, hle, hu⟩ := int_in_range (l := n) (m := maxBufferLength) (by omega) hmax (by decide)
          rw [Buf.fresh_cap _ _ (Nat.zero_le _), hu]
          exact le_pow_nextLogBase2 n.toNat hp (by
            have : two32 = 4294967296 := by decide
            have : maxBufferLength = 262144 := by decide
            omega)

theorem putByteBuffer_inv (p : Pools) (b : Buf) (hinv : Inv (fun b => b.len = 0) p) :
    Inv (fun b => b.len = 0) (putByteBuffer p b).1 := by
  unfold putByteBuffer
  simp only
  split
  · exact hinv
  · next hc =>
    split
    · exact hinv
    · apply hinv.add
      · rw [Buf.reslice0_cap]
        exact pow_prevLogBase2_le b.cap (by omega) (by
          have : two32 = 4294967296 := by decide
          have : maxBufferLength = 262144 := by decide
          omega)
      · rfl

private theorem eff_facts {n : Int} {m : Nat} (h : ¬ (effLen 16 n) > (m : Int))
    (hm : m ≤ 2 ^ 18) :
    0 < eff n ∧ eff n ≤ m ∧ toU32 (effLen 16 n) = eff n ∧
      (effLen 16 n).toNat = eff n := by
  unfold eff
  unfold effLen at h ⊢
  split
  · next hn =>
    rw [if_pos hn] at h
    refine ⟨by omega, by omega, by decide, by decide⟩
  · next hn =>
    rw [if_neg hn] at h
    have := int_in_range (l := n) (m := m) (by omega) h hm
    exact ⟨this.1, this.2.1, this.2.2, rfl⟩

private theorem eff_big {n : Int} {m : Nat} (_h : (effLen 16 n) > (m : Int)) :
    (effLen 16 n).toNat = eff n := by
  unfold eff effLen; split <;> rfl

private theorem lt_two32_of_le_4096 {x : Nat} (h : x ≤ 4096) : x < two32 := by
  have : two32 = 4294967296 := by decide
  omega

theorem getByteSlicesBuf_ok (p : Pools) (n : Int) (c : Option Nat) (hinv : Inv (fun _ => True) p) :
    Inv (fun _ => True) (getByteSlicesBuf p n c).1 ∧ GoodSlices n (getByteSlicesBuf p n c).2 := by
  unfold getByteSlicesBuf
  simp only
  split
  · next hbig =>
    refine ⟨hinv, ⟨_, rfl, by simp, ?_⟩⟩
    rw [Buf.fresh_cap _ _ (Nat.zero_le _), eff_big hbig]; omega
  · next hmax =>
    have ⟨hp, hle, hu, _⟩ := eff_facts (m := maxByteSlicesBufLength) hmax (by decide)
    have hle' : eff n ≤ 4096 := hle
    rw [hu, nextLogBase2G_eq _ (by omega)]
    split
    · next hidx =>
      exfalso
      have := nextLogBase2_le (eff n) 12 hp (by rw [← max_slices]; exact hle)
      unfold nSlicePools at hidx; omega
    · split
      · next b p' hget =>
        have ⟨hb, hsub⟩ := poolGet_some hget
        refine ⟨fun j x hx => hinv j x (hsub j x hx), ⟨_, rfl, by simp, ?_⟩⟩
        have hcap := (hinv _ b hb).1
        have := le_pow_nextLogBase2 (eff n) hp (lt_two32_of_le_4096 hle')
        rw [Buf.reslice0_cap]; omega
      · refine ⟨hinv, ⟨_, rfl, by simp, ?_⟩⟩
        rw [Buf.fresh_cap _ _ (Nat.zero_le _)]
        exact le_pow_nextLogBase2 (eff n) hp (lt_two32_of_le_4096 hle')

theorem putByteSlicesBuf_inv (p : Pools) (b : Buf) (hinv : Inv (fun _ => True) p) :
    Inv (fun _ => True) (putByteSlicesBuf p b).1 := by
  unfold putByteSlicesBuf
  simp only
  split
  · exact hinv
  · next hc =>
    split
    · exact hinv
    · apply hinv.add
      · have hc' : b.cap ≤ 4096 := by
          have : maxByteSlicesBufLength = 4096 := by decide
          omega
        rw [Buf.reslice0_cap, Buf.clearVis_cap, prevLogBase2G_eq _ (by omega)]
        exact pow_prevLogBase2_le b.cap (by omega) (lt_two32_of_le_4096 hc')
      · trivial

theorem getItemBuf_ok (p : Pools) (n : Int) (c : Option Nat) (hinv : Inv Buf.clean p) :
    Inv Buf.clean (getItemBuf p n c).1 ∧ GoodItems n (getItemBuf p n c).2 := by
  unfold getItemBuf defaultMaxMessagesInFrame
  simp only
  split
  · next hbig =>
    refine ⟨hinv, ⟨_, rfl, ?_, ?_, (Buf.fresh_clean _ _).1⟩⟩
    · rw [Buf.fresh_len, eff_big hbig]
    · rw [Buf.fresh_cap _ _ (Nat.le_refl _), eff_big hbig]; omega
  · next hmax =>
    have ⟨hp, hle, hu, htn⟩ := eff_facts (m := maxItemBufLength) hmax (by decide)
    have hle' : eff n ≤ 4096 := hle
    rw [hu, htn, nextLogBase2G_eq _ (by omega)]
    split
    · next hidx =>
      exfalso
      have := nextLogBase2_le (eff n) 12 hp (by rw [← max_items]; exact hle)
      unfold nItemPools at hidx; omega
    · have hpow := le_pow_nextLogBase2 (eff n) hp (lt_two32_of_le_4096 hle')
      split
      · next b p' hget =>
        have ⟨hb, hsub⟩ := poolGet_some hget
        have ⟨hcap, hclean⟩ := hinv _ b hb
        have ⟨b', hre, hlen, hcap', hcl⟩ := Buf.reslice_some b (eff n) (by omega)
        rw [hre]
        exact ⟨fun j x hx => hinv j x (hsub j x hx), ⟨b', rfl, hlen, by omega, (hcl hclean).1⟩⟩
      · refine ⟨hinv, ⟨_, rfl, by simp, ?_, (Buf.fresh_clean _ _).1⟩⟩
        rw [Buf.fresh_cap _ _ hpow]; exact hpow

theorem putItemBufV_inv (fix : Bool) (p : Pools) (b : Buf) (hinv : Inv Buf.clean p)
    (hb : fix = true ∨ ∀ x ∈ b.hid, x = false) : Inv Buf.clean (putItemBufV fix p b).1 := by
  unfold putItemBufV
  simp only
  split
  · exact hinv
  · next hc =>
    split
    · exact hinv
    · have hc' : b.cap ≤ 4096 := by
        have : maxItemBufLength = 4096 := by decide
        omega
      apply hinv.add
      · rw [Buf.reslice0_cap]
        have : (if fix = true then b.clearAll else b.clearVis).cap = b.cap := by split <;> simp
        rw [this, prevLogBase2G_eq _ (by omega)]
        exact pow_prevLogBase2_le b.cap (by omega) (lt_two32_of_le_4096 hc')
      · cases fix with
        | true => exact Buf.clearAll_reslice0_clean b
        | false =>
          rcases hb with h | h
          · cases h
          · exact Buf.clearVis_reslice0_clean b h

/-! ## operation sequences -/

/-- generic trace induction: a step-preserved invariant that makes every `get` good. -/
theorem run_good {fix : Bool} {k : Kind} {I : Pools → Prop} {G : Int → Res → Prop} {A : Op → Prop}
    (hstep : ∀ p op, I p → A op →
      I (stepV fix k p op).1 ∧ ∀ n r, (stepV fix k p op).2 = some (n, r) → G n r) :
    ∀ (ops : List Op) (p : Pools), I p → (∀ op ∈ ops, A op) →
      ∀ x ∈ (runV fix k p ops).2, G x.1 x.2 := by
  intro ops
  induction ops with
  | nil => intro p _ _ x hx; simp [runV] at hx
  | cons op ops ih =>
    intro p hI hA x hx
    have ⟨hI', hG⟩ := hstep p op hI (hA op (by simp))
    have ih' := ih (stepV fix k p op).1 hI' (fun o ho => hA o (by simp [ho]))
    unfold runV at hx
    simp only at hx
    cases ho : (stepV fix k p op).2 with
    | none => rw [ho] at hx; exact ih' x hx
    | some y =>
      rw [ho] at hx
      rcases List.mem_cons.mp hx with h | h
      · rw [h]; exact hG y.1 y.2 ho
      · exact ih' x h

/-- **byte buffers**: for every operation sequence (arbitrary puts, every pool behaviour) started
from pools satisfying the bucket invariant (e.g. the empty pools), every `GetByteBuffer(n)` with
`n ≥ 0` yields a buffer of length 0 and capacity ≥ n. -/
theorem get_ok_bytes (fix : Bool) (ops : List Op) :
    ∀ x ∈ (runV fix .bytes Pools.empty ops).2, 0 ≤ x.1 → GoodBytes x.1 x.2 := by
  apply run_good (I := Inv (fun b => b.len = 0)) (A := fun _ => True) (G := fun n r => 0 ≤ n → GoodBytes n r)
  · intro p op hI _
    cases op with
    | get n c =>
      have := getByteBuffer_ok p n c hI
      exact ⟨this.1, fun n' r h => by cases h; exact this.2⟩
    | put b => exact ⟨putByteBuffer_inv p b hI, fun _ _ h => by cases h⟩
    | forget i pos => exact ⟨hI.remove i pos, fun _ _ h => by cases h⟩
  · exact Inv.empty _
  · intros; trivial

/-- **byte-slice lists**: every `GetByteSlicesBuf(n)` yields a list of length 0 and capacity
≥ n (≥ 16 for n ≤ 0), after any history. -/
theorem get_ok_slices (fix : Bool) (ops : List Op) :
    ∀ x ∈ (runV fix .slices Pools.empty ops).2, GoodSlices x.1 x.2 := by
  apply run_good (I := Inv (fun _ => True)) (A := fun _ => True) (G := GoodSlices)
  · intro p op hI _
    cases op with
    | get n c =>
      have := getByteSlicesBuf_ok p n c hI
      exact ⟨this.1, fun n' r h => by cases h; exact this.2⟩
    | put b => exact ⟨putByteSlicesBuf_inv p b hI, fun _ _ h => by cases h⟩
    | forget i pos => exact ⟨hI.remove i pos, fun _ _ h => by cases h⟩
  · exact Inv.empty _
  · intros; trivial

/-- every `put` of the sequence returns a buffer whose items beyond its length are zero -/
def PutsTailClean (ops : List Op) : Prop := ∀ b, Op.put b ∈ ops → ∀ x ∈ b.hid, x = false

/-- **item buffers, code before the fix of C42-1** (`_partial`: needs `PutsTailClean`).
Full statement (false for that `putItemBuf`, see the `example` at `dirtyWitness`); kept because it
still says something about the present code too: with disciplined callers even the old clearing sufficed.
`∀ ops, ∀ x ∈ (runV false .items Pools.empty ops).2, GoodItems x.1 x.2`. -/
theorem get_ok_items_partial (ops : List Op) (h : PutsTailClean ops) :
    ∀ x ∈ (runV false .items Pools.empty ops).2, GoodItems x.1 x.2 := by
  apply run_good (I := Inv Buf.clean)
    (A := fun op => ∀ b, op = Op.put b → ∀ x ∈ b.hid, x = false) (G := GoodItems)
  · intro p op hI hA
    cases op with
    | get n c =>
      have := getItemBuf_ok p n c hI
      exact ⟨this.1, fun n' r h => by cases h; exact this.2⟩
    | put b => exact ⟨putItemBufV_inv false p b hI (Or.inr (hA b rfl)), fun _ _ h => by cases h⟩
    | forget i pos => exact ⟨hI.remove i pos, fun _ _ h => by cases h⟩
  · exact Inv.empty _
  · intro op hop b hb; subst hb; exact h b hop

/-- **item buffers, `putItemBuf` clearing up to capacity** (the code as it is): the full statement,
no hypothesis. -/
theorem get_ok_items_fixed (ops : List Op) :
    ∀ x ∈ (runV true .items Pools.empty ops).2, GoodItems x.1 x.2 := by
  apply run_good (I := Inv Buf.clean) (A := fun _ => True) (G := GoodItems)
  · intro p op hI _
    cases op with
    | get n c =>
      have := getItemBuf_ok p n c hI
      exact ⟨this.1, fun n' r h => by cases h; exact this.2⟩
    | put b => exact ⟨putItemBufV_inv true p b hI (Or.inl rfl), fun _ _ h => by cases h⟩
    | forget i pos => exact ⟨hI.remove i pos, fun _ _ h => by cases h⟩
  · exact Inv.empty _
  · intros; trivial

/-- item buffers for whichever variant the model is currently switched to (`itemFixApplied`). -/
theorem get_ok_items_current (ops : List Op) (h : itemFixApplied = true ∨ PutsTailClean ops) :
    ∀ x ∈ (run .items Pools.empty ops).2, GoodItems x.1 x.2 := by
  unfold run
  rcases h with h | h
  · rw [h]; exact get_ok_items_fixed ops
  · cases hf : itemFixApplied with
    | true => exact get_ok_items_fixed ops
    | false => exact get_ok_items_partial ops h

/-- **item buffers, code as it is**: every `getItemBuf(n)` after any history yields `len = n`
(16 for n ≤ 0), `cap ≥ len`, all visible items zero, and never panics. -/
theorem get_ok_items (ops : List Op) :
    ∀ x ∈ (run .items Pools.empty ops).2, GoodItems x.1 x.2 :=
  get_ok_items_current ops (Or.inl rfl)

/-- **`get_ok`** — the property for all three pools as they are in /repo, no hypothesis. -/
theorem get_ok (k : Kind) (ops : List Op) :
    ∀ x ∈ (run k Pools.empty ops).2,
      match k with
      | .bytes => 0 ≤ x.1 → GoodBytes x.1 x.2
      | .slices => GoodSlices x.1 x.2
      | .items => GoodItems x.1 x.2 := by
  cases k with
  | bytes => exact get_ok_bytes itemFixApplied ops
  | slices => exact get_ok_slices itemFixApplied ops
  | items => exact get_ok_items ops

/-- in none of the three pools does an in-range request or any `put` panic (index out of range,
slice bounds): every `get` result is a buffer. -/
theorem get_never_panics_items (ops : List Op) :
    ∀ x ∈ (run .items Pools.empty ops).2, x.2 ≠ Res.panic := by
  intro x hx
  obtain ⟨b, hb, _⟩ := get_ok_items ops x hx
  rw [hb]; intro h; cases h

/-! ## `putItemBuf` before the fix did hand out dirty items -/

/-- a buffer of capacity 2 returned with `B` re-sliced to length 0 over two non-zero items -/
def dirtyWitness : List Op := [.put ⟨[], [true, true]⟩, .get 2 (some 0)]

/- Counter-witness for the code *before* the fix (checked `example`, not an obligation): after
`putItemBuf` of a buffer whose `B` was shortened over non-zero items, `getItemBuf(2)` returned
those items. -/
example :
    (runV false .items Pools.empty dirtyWitness).2 = [(2, .buf ⟨[true, true], []⟩)] ∧
    ¬ GoodItems 2 (.buf ⟨[true, true], []⟩) := by
  refine ⟨by decide, ?_⟩
  rintro ⟨b, hb, _, _, hclean⟩
  cases hb
  exact absurd (hclean true (by simp)) (by decide)

/-- … and the code as it is does not. -/
example : (run .items Pools.empty dirtyWitness).2 = [(2, .buf ⟨[false, false], []⟩)] := by decide

/-! ## non-vacuity -/

/-- odd capacities, dirty contents, pool hits, misses and forgetting -/
def sampleOps : List Op :=
  [.put ⟨[true, true, true], [false, false, false, false, false, false, false]⟩,  -- cap 10 → bucket 3
   .get 7 (some 0), .get 7 (some 0), .put ⟨[true], []⟩, .forget 0 0, .get 1 (some 0), .get 0 none,
   .get (-3) none]

example : PutsTailClean sampleOps := by
  intro b hb x hx
  simp [sampleOps] at hb
  rcases hb with rfl | rfl <;> simp at hx <;> try exact hx

example : (runV false .items Pools.empty sampleOps).2.map (fun x => (x.1, match x.2 with | .buf b => (b.len, b.cap) | .panic => (0, 0)))
    = [(7, (7, 10)), (7, (7, 8)), (1, (1, 1)), (0, (16, 16)), (-3, (16, 16))] := by decide

example : (runV false .bytes Pools.empty sampleOps).2.map (fun x => (x.1, match x.2 with | .buf b => (b.len, b.cap) | .panic => (99, 99)))
    = [(7, (0, 10)), (7, (0, 8)), (1, (0, 1)), (0, (0, 0)), (-3, (99, 99))] := by decide

example : prevLogBase2 0 = 32 ∧ nextLogBase2 0 = 32 ∧ prevLogBase2G 0 = 0 ∧ prevLogBase2 1 = 0
    ∧ prevLogBase2 10 = 3 ∧ nextLogBase2 10 = 4 ∧ nextLogBase2 262144 = 18 ∧ prevLogBase2 262143 = 17 := by decide

end CentrifugeVerif.BPool
