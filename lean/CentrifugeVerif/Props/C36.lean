import CentrifugeVerif.Proofs.Timers
/-!
# C36 — liveness timers close exactly the connections they should

Statement (properties.jsonl): a connection that does not answer a server ping within the pong timeout is
disconnected with the no-pong code; an unauthenticated connection is closed after the stale delay; a
connection or subscription past its expiry (plus grace delay) that was not refreshed is closed or
unsubscribed with the expired code, and one that was refreshed in time is not.

Model: `Model/Timers.lean` — the single-timer multiplexer of client.go as a state machine with `now`
as an input (`step c s now op`; `Op.fire` = the armed timer fires).  Theorems quantify over every
configuration, every state satisfying the invariant `Inv` (which holds initially and is preserved by
every admissible operation at every time, `timer_is_min_partial`), every operation and every time.

Former findings, all FIXED upstream-style in /repo and mirrored in the model (their replays stay in the
check's corpus, so a regression is a VIOLATION):
* C36-1 (fix dc7a0abf) `Client.Refresh(ExpireAt = 0)` used to clear `exp` but leave `nextExpire` pending;
  the expire op then returned without re-arming and NO timer was armed.  Now `disableExpiration` clears
  both and reschedules: `timer_is_min` holds for those timelines too (`refresh_zero_keeps_timer_armed`).
* C36-2a/b (fix dc7a0abf) a RefreshHandler answer `ExpireAt = 0` ("no expiration") was not honoured
  (`refresh_zero_disables_expiry_client` / `_server`).
* C36-3 (fix 0280a82e) `handleSubRefresh` ignored `SubRefreshReply.Expired`
  (`subrefresh_expired_disconnects`).
-/
namespace CentrifugeVerif.C36
open CentrifugeVerif.Timers

/-- run a timeline of (time, operation) pairs -/
def runOps (c : Cfg) : St → List (Nat × Op) → St
  | s, [] => s
  | s, (now, op) :: rest => runOps c (step c s now op).1 rest

/-- every operation of the timeline is admissible in the state it is applied to (no `Client.Refresh`
before authentication, `NewClient` only once) and happens at a positive time -/
def AdmissibleTrace (c : Cfg) : St → List (Nat × Op) → Prop
  | _, [] => True
  | s, (now, op) :: rest => 0 < now ∧ Admissible s op ∧ AdmissibleTrace c (step c s now op).1 rest

instance (s : St) (op : Op) : Decidable (Admissible s op) := by
  cases op with
  | srefresh a => cases a <;> (simp only [Admissible]; exact inferInstance)
  | new => simp only [Admissible]; exact inferInstance
  | _ => simp only [Admissible]; exact inferInstance

instance decAdmissibleTrace (c : Cfg) : (s : St) → (tl : List (Nat × Op)) → Decidable (AdmissibleTrace c s tl)
  | _, [] => isTrue trivial
  | s, (now, op) :: rest =>
    have := decAdmissibleTrace c (step c s now op).1 rest
    by unfold AdmissibleTrace; exact inferInstance

theorem inv_init (c : Cfg) (rhr srhr : List Ans) : Inv c { rhr := rhr, srhr := srhr } :=
  Or.inr (Or.inl ⟨rfl, Or.inl rfl, rfl, rfl, rfl, rfl, rfl⟩)

theorem inv_runOps (c : Cfg) (hsec : 0 < c.sec) (s : St) (tl : List (Nat × Op))
    (h : Inv c s) (hadm : AdmissibleTrace c s tl) : Inv c (runOps c s tl) := by
  induction tl generalizing s with
  | nil => exact h
  | cons e rest ih =>
    obtain ⟨now, op⟩ := e
    obtain ⟨hnow, ha, hrest⟩ := hadm
    exact ih _ (step_inv c s now op hsec hnow ha h) hrest

/-- **timer_is_min**: after EVERY operation of EVERY admissible timeline — connect, pings, pongs,
refreshes (client- and server-side, including `ExpireAt = 0`), sub refreshes, timer firings at arbitrary
times, in any order — an open authenticated connection has its single timer armed, for exactly the
minimum of the pending deadlines (next expire / presence / ping / pong), and `timerOp` is the kind of
that deadline.  Hence no pending deadline is ever missed.
(Exclusions kept: `Client.Refresh` on a not yet authenticated connection, a second `NewClient`.) -/
theorem timer_is_min (c : Cfg) (hsec : 0 < c.sec) (rhr srhr : List Ans) (tl : List (Nat × Op))
    (hadm : AdmissibleTrace c { rhr := rhr, srhr := srhr } tl) :
    let s := runOps c { rhr := rhr, srhr := srhr } tl
    s.status = .connected →
      ∃ t, s.armed = some t ∧ t ∈ pending s ∧ (∀ x ∈ pending s, t ≤ x) ∧ deadlineOf s s.timerOp = t := by
  intro s hst
  have hinv := inv_runOps c hsec _ tl (inv_init c rhr srhr) hadm
  rcases hinv with h | ⟨h, _⟩ | ⟨_, _, ⟨o, t, hpk, har, hop⟩, _, _⟩
  · rw [hst] at h; cases h
  · rw [hst] at h; cases h
  · obtain ⟨_, hdl, _, hmem, hmin⟩ := pick_some _ o t hpk
    exact ⟨t, har, hmem, hmin, by rw [hop]; exact hdl⟩

/-- the scan itself (for every state): `scheduleNextTimer` arms the earliest pending deadline -/
theorem schedule_arms_min (s : St) (hcl : s.status ≠ .closed) (hne : pending s ≠ []) :
    ∃ t, (schedule s).armed = some t ∧ t ∈ pending s ∧ ∀ x ∈ pending s, t ≤ x := by
  unfold schedule
  rw [if_neg hcl]
  cases hpk : pick s with
  | none => exact absurd (pick_none s hpk) hne
  | some ot =>
    obtain ⟨o, t⟩ := ot
    obtain ⟨_, _, _, hmem, hmin⟩ := pick_some s o t hpk
    exact ⟨t, rfl, hmem, hmin⟩

/-! ### C36-1 (fixed): `Client.Refresh(ExpireAt = 0)` keeps the timer armed -/

def cfgW : Cfg := { sec := 1000, pingInterval := 1000, pongTimeout := 400, staleDelay := 2000, ecd := 1000,
                    escd := 1000, presInterval := 3000 }

def cfgNP : Cfg := { cfgW with pingInterval := 0, pongTimeout := 0 }

/-- `Client.Refresh(ExpireAt = 0)` / a refresh answer `ExpireAt = 0` on an open connection: expiry is off,
no expire deadline stays pending, the connection stays open. -/
theorem refresh_zero_disables_expiry (s : St) (hst : s.status = .connected) :
    (disableExpiration s).exp = 0 ∧ (disableExpiration s).nextExpire = 0 ∧
    (disableExpiration s).status = .connected := by
  unfold disableExpiration
  have h := schedule_keeps { s with exp := 0, nextExpire := 0 }
  exact ⟨h.2.2.2.2.2, h.2.2.2.1, by rw [h.2.2.1]; exact hst⟩

/-- the former counter-witness timeline (connect with ExpireAt = now+3 s, `Client.Refresh(ExpireAt=0)` at
1.5 s, a presence tick): the timer stays armed for the remaining deadline, nothing fires at 3.3 s. -/
theorem refresh_zero_keeps_timer_armed :
    let s := runOps cfgNP {} [(100, .new), (300, .connect 3 0 2252), (1500, .srefresh .zero), (2552, .fire), (3300, .fire)]
    s.status = .connected ∧ s.armed = some 5552 ∧ pending s = [5552] ∧ s.exp = 0 := by decide

/-! ### no pong ⇒ NoPong at the pong deadline; pong in time ⇒ survives -/

/-- a ping sets the pong deadline `now + PongTimeout`, the next ping, and remembers the ping time -/
theorem ping_sets_pong_deadline (c : Cfg) (s : St) (now : Nat) (hT : 0 < c.pongTimeout) (hbi : c.uni = false) :
    let s' := (sendPing c s now).1
    s'.nextPong = now + c.pongTimeout ∧ s'.nextPing = now + c.pingInterval ∧ s'.lastPing = now ∧
    s'.ponged = false ∧ s'.lastSeen = s.lastSeen ∧ (sendPing c s now).2 = [.ping] := by
  unfold sendPing schedule
  simp only [hT, hbi, and_self, if_true]
  split <;> (try split) <;> simp

/-- a unidirectional transport cannot answer pings: a ping sets NO pong deadline for it (so, with
`timer_is_min`, the pong check — the only source of DisconnectNoPong — is never armed by a ping). -/
theorem uni_ping_sets_no_pong_deadline (c : Cfg) (s : St) (now : Nat) (hu : c.uni = true) :
    (sendPing c s now).1.nextPong = s.nextPong ∧ (sendPing c s now).2 = [.ping] := by
  unfold sendPing
  simp only [hu, Bool.true_eq_false, and_false, if_false]
  exact ⟨(schedule_keeps _).2.2.2.2.1, trivial⟩

/-- only an accepted pong command moves `lastSeen`; every other operation that is not a timer firing
leaves "no pong since the last ping" (`lastSeen < lastPing`) untouched (or closes the connection) -/
theorem no_pong_preserved (c : Cfg) (s : St) (now : Nat) (op : Op) (hop : op ≠ .pong) (hf : op ≠ .fire)
    (h : s.lastSeen < s.lastPing) :
    (step c s now op).1.status = .closed ∨ (step c s now op).1.lastSeen < (step c s now op).1.lastPing := by
  have hcl : ∀ code, (close s code).1.status = .closed ∨ (close s code).1.lastSeen < (close s code).1.lastPing :=
    fun code => Or.inl (close_status s code)
  have hap : ∀ d, (applyRefresh c s now d).status = .closed ∨
      (applyRefresh c s now d).lastSeen < (applyRefresh c s now d).lastPing := by
    intro d; right
    rw [(applyRefresh_keeps c s now d).1, (applyRefresh_keeps c s now d).2.1]; exact h
  have hde : (disableExpiration s).status = .closed ∨
      (disableExpiration s).lastSeen < (disableExpiration s).lastPing := by
    right; unfold disableExpiration
    rw [(schedule_keeps _).1, (schedule_keeps _).2.1]; exact h
  cases op with
  | pong => exact absurd rfl hop
  | fire => exact absurd rfl hf
  | new =>
    simp only [step]
    by_cases hs : c.staleDelay > 0
    · rw [if_pos hs]; exact Or.inr h
    · rw [if_neg hs]; exact Or.inr h
  | connect e jp jr =>
    simp only [step]
    by_cases h1 : s.status = .closed
    · rw [if_pos h1]; exact Or.inr h
    · rw [if_neg h1]
      by_cases hu : s.unusable = true
      · rw [if_pos hu]; exact hcl _
      rw [if_neg hu]
      by_cases h2 : s.auth = true
      · rw [if_pos h2]; exact hcl _
      · rw [if_neg h2]
        right
        rw [(schedule_keeps _).1, (schedule_keeps _).2.1]; exact h
  | connectFail =>
    simp only [step]
    by_cases h1 : s.status = .closed
    · rw [if_pos h1]; exact Or.inr h
    · rw [if_neg h1]
      by_cases hu : s.unusable = true
      · rw [if_pos hu]; exact hcl _
      rw [if_neg hu]
      by_cases h2 : s.auth = true
      · rw [if_pos h2]; exact hcl _
      · rw [if_neg h2]
        by_cases h3 : c.uni = true
        · rw [if_pos h3]; exact hcl _
        · rw [if_neg h3]; exact Or.inr h
  | refresh a =>
    simp only [step]
    by_cases h1 : s.status = .closed
    · rw [if_pos h1]; exact Or.inr h
    · rw [if_neg h1]
      by_cases hu : s.unusable = true
      · rw [if_pos hu]; exact hcl _
      rw [if_neg hu]
      by_cases h2 : (!s.auth) = true
      · rw [if_pos h2]; exact hcl _
      · rw [if_neg h2]
        by_cases h3 : (!c.hasRH) = true
        · rw [if_pos h3]; exact Or.inr h
        · rw [if_neg h3]
          by_cases h4 : (!c.csr) = true
          · rw [if_pos h4]; exact hcl _
          · rw [if_neg h4]
            cases a with
            | error => exact Or.inr h
            | expired => exact hcl _
            | zero => exact hde
            | «at» d =>
              by_cases hd : d > 0
              · simp only [hd, if_true]; exact hap d
              · simp only [hd, if_false]; exact Or.inr h
  | srefresh a =>
    simp only [step]
    cases a with
    | error => exact Or.inr h
    | expired => exact hcl _
    | zero =>
      by_cases h1 : s.status = .closed
      · simp only [h1, if_true]; exact Or.inr h
      · simp only [h1, if_false]; exact hde
    | «at» d =>
      by_cases hd : d > 0
      · simp only [hd, if_true]
        by_cases h1 : s.status = .closed
        · rw [if_pos h1]; exact Or.inr h
        · rw [if_neg h1]; exact hap d
      · simp only [hd, if_false]; exact hcl _
  | sub ch ttl csr =>
    simp only [step]
    by_cases h1 : s.status = .closed
    · rw [if_pos h1]; exact Or.inr h
    · rw [if_neg h1]
      by_cases hu : s.unusable = true
      · rw [if_pos hu]; exact hcl _
      rw [if_neg hu]
      by_cases h2 : (!s.auth) = true
      · rw [if_pos h2]; exact hcl _
      · rw [if_neg h2]
        by_cases h3 : (s.subs.any (·.ch == ch)) = true
        · rw [if_pos h3]; exact Or.inr h
        · rw [if_neg h3]; exact Or.inr h
  | subrefresh ch a =>
    simp only [step]
    by_cases h1 : s.status = .closed
    · rw [if_pos h1]; exact Or.inr h
    · rw [if_neg h1]
      by_cases hu : s.unusable = true
      · rw [if_pos hu]; exact hcl _
      rw [if_neg hu]
      by_cases h2 : (!s.auth) = true
      · rw [if_pos h2]; exact hcl _
      · rw [if_neg h2]
        cases hfd : s.subs.find? (·.ch == ch) with
        | none => exact Or.inr h
        | some sb =>
          dsimp only
          by_cases h3 : (!c.hasSRH) = true
          · rw [if_pos h3]; exact Or.inr h
          · rw [if_neg h3]
            by_cases h4 : (!sb.csr) = true
            · rw [if_pos h4]; exact hcl _
            · rw [if_neg h4]
              cases a with
              | error => exact Or.inr h
              | expired => exact hcl _
              | zero => exact Or.inr h
              | «at» d =>
                by_cases hd : d < 0
                · simp only [hd, if_true]; exact Or.inr h
                · simp only [hd, if_false]; exact Or.inr h

/-- **no_pong_disconnects**: when the pong-check deadline fires (at the pong deadline, by `timer_is_min`)
and no pong was accepted since the ping, the connection is closed with DisconnectNoPong. -/
theorem no_pong_disconnects (c : Cfg) (s : St) (now d : Nat)
    (harm : s.armed = some d) (hd : d ≤ now) (hst : s.status = .connected) (hop : s.timerOp = .pong)
    (hnp : s.lastSeen < s.lastPing) :
    (fire c s now).2 = [.disc dNoPong] ∧ (fire c s now).1.status = .closed := by
  have hcl : ¬ s.status = .closed := by rw [hst]; decide
  have hdn : ¬ d > now := by omega
  unfold fire
  rw [harm]
  simp only [hdn, if_false, hcl]
  unfold fireOp
  show ((match s.timerOp with
    | .stale => if (!s.auth || s.unusable) = true then close { s with armed := none } dStale else ({ s with armed := none }, [])
    | .presence => presenceTick c { s with armed := none } now
    | .expire => expire c { s with armed := none } now
    | .ping => sendPing c { s with armed := none } now
    | .pong => checkPong { s with armed := none })).2 = _ ∧ _
  rw [hop]
  unfold checkPong close
  simp [hnp, hcl]

/-- **pong_in_time_survives**: a pong accepted at or after the ping (`lastSeen ≥ lastPing`) makes the
pong check clear the deadline and re-arm the timer — no disconnect. -/
theorem pong_in_time_survives (c : Cfg) (s : St) (now d : Nat)
    (harm : s.armed = some d) (hd : d ≤ now) (hst : s.status = .connected) (hop : s.timerOp = .pong)
    (hp : s.lastPing ≤ s.lastSeen) :
    (fire c s now).2 = [] ∧ (fire c s now).1.status = .connected ∧ (fire c s now).1.nextPong = 0 := by
  have hcl : ¬ s.status = .closed := by rw [hst]; decide
  have hdn : ¬ d > now := by omega
  have hnl : ¬ s.lastSeen < s.lastPing := by omega
  unfold fire
  rw [harm]
  simp only [hdn, if_false, hcl]
  unfold fireOp
  show ((match s.timerOp with
    | .stale => if (!s.auth || s.unusable) = true then close { s with armed := none } dStale else ({ s with armed := none }, [])
    | .presence => presenceTick c { s with armed := none } now
    | .expire => expire c { s with armed := none } now
    | .ping => sendPing c { s with armed := none } now
    | .pong => checkPong { s with armed := none })).2 = _ ∧ _
  rw [hop]
  unfold checkPong schedule
  simp only [hnl, if_false, hcl]
  split <;> simp [hst]

/-- the pong command: accepted only while a ping is outstanding; then `lastSeen = now` -/
theorem pong_accepted (c : Cfg) (s : St) (now : Nat) (hst : s.status = .connected) (hau : s.auth = true)
    (hus : s.unusable = false) (hping : s.lastPing ≠ 0) (hnp : s.ponged = false) :
    (step c s now .pong).1.lastSeen = now ∧ (step c s now .pong).1.lastPing = s.lastPing ∧
    (step c s now .pong).2 = [] := by
  have hcl : ¬ s.status = .closed := by rw [hst]; decide
  simp [step, hcl, hau, hus, hping, hnp]

/-! ### stale -/

/-- **stale_closed_after_delay** (a): `NewClient` at `t0` arms the stale timer for `t0 + delay`; when it
fires on a connection that has not successfully connected — not authenticated, OR marked `unusable` because
its connect command was answered with an error (even after authentication) — the connection is closed with
DisconnectStale. -/
theorem stale_closed_after_delay (c : Cfg) (s : St) (now d : Nat)
    (harm : s.armed = some d) (hd : d ≤ now) (hop : s.timerOp = .stale)
    (hst : s.status = .connecting) (hnc : s.auth = false ∨ s.unusable = true) :
    (fire c s now).2 = [.disc dStale] ∧ (fire c s now).1.status = .closed := by
  have hcl : ¬ s.status = .closed := by rw [hst]; decide
  have hdn : ¬ d > now := by omega
  have hcond : (!s.auth || s.unusable) = true := by rcases hnc with h | h <;> simp [h]
  unfold fire
  rw [harm]
  simp only [hdn, if_false, hcl]
  unfold fireOp
  show ((match s.timerOp with
    | .stale => if (!s.auth || s.unusable) = true then close { s with armed := none } dStale else ({ s with armed := none }, [])
    | .presence => presenceTick c { s with armed := none } now
    | .expire => expire c { s with armed := none } now
    | .ping => sendPing c { s with armed := none } now
    | .pong => checkPong { s with armed := none })).2 = _ ∧ _
  rw [hop]
  simp only [hcond, if_true]
  unfold close
  simp [hcl]

/-- `NewClient` arms exactly that timer -/
theorem new_arms_stale (c : Cfg) (s : St) (t0 : Nat) (hstale : 0 < c.staleDelay) :
    (step c s t0 .new).1.armed = some (t0 + c.staleDelay) ∧ (step c s t0 .new).1.timerOp = .stale := by
  simp [step, hstale]

/-- a connect that fails after authentication leaves the connection authenticated but `unusable`, still
`connecting`, with the stale timer untouched: the stale close above applies to it. -/
theorem connect_fail_marks_unusable (c : Cfg) (s : St) (now : Nat) (hst : s.status = .connecting)
    (hau : s.auth = false) (hus : s.unusable = false) (hbi : c.uni = false) :
    let s' := (step c s now .connectFail).1
    s'.unusable = true ∧ s'.auth = true ∧ s'.status = .connecting ∧ s'.armed = s.armed ∧ s'.timerOp = s.timerOp ∧
    (step c s now .connectFail).2 = [.err eExpired] := by
  have hcl : ¬ s.status = .closed := by rw [hst]; decide
  simp [step, hcl, hau, hus, hbi, hst]

/-- **stale_closed_after_delay** (b): once authenticated (any state satisfying the invariant), no timer
firing ever closes the connection with DisconnectStale. -/
theorem stale_not_after_auth (c : Cfg) (s : St) (now : Nat) (hinv : Inv c s) (hst : s.status = .connected) :
    Out.disc dStale ∉ (fire c s now).2 := by
  rcases hinv with h | ⟨h, _⟩ | ⟨_, hau, ⟨o, t, hpk, har, hop⟩, _, _⟩
  · rw [hst] at h; cases h
  · rw [hst] at h; cases h
  · have hcl : ¬ s.status = .closed := by rw [hst]; decide
    obtain ⟨_, _, hns, _, _⟩ := pick_some s o t hpk
    unfold fire
    rw [har]
    by_cases hd : t > now
    · simp [hd]
    · simp only [hd, if_false, hcl]
      unfold fireOp
      show Out.disc dStale ∉ ((match s.timerOp with
        | .stale => if (!s.auth || s.unusable) = true then close { s with armed := none } dStale else ({ s with armed := none }, [])
        | .presence => presenceTick c { s with armed := none } now
        | .expire => expire c { s with armed := none } now
        | .ping => sendPing c { s with armed := none } now
        | .pong => checkPong { s with armed := none })).2
      rw [hop]
      cases o with
      | stale => exact absurd rfl hns
      | presence =>
        simp only [presenceTick, List.mem_cons, reduceCtorEq, false_or]
        intro hmem
        -- tickSubs only emits srh / unsub
        have : ∀ (subs : List SubC) (script : List Ans), Out.disc dStale ∉ (tickSubs c now subs script).2.1 := by
          intro subs
          induction subs with
          | nil => intro script; simp [tickSubs]
          | cons sb rest ih =>
            intro script
            simp only [tickSubs, List.mem_append, not_or]
            refine ⟨?_, ih _⟩
            unfold tickSub
            repeat' split
            all_goals simp
        exact this _ _ hmem
      | expire =>
        simp only [expire, checkExpired, close]
        repeat' split
        all_goals simp [dStale, dExpired, dServerError]
      | ping => simp [sendPing]
      | pong =>
        simp only [checkPong, close]
        repeat' split
        all_goals simp [dStale, dNoPong]

/-! ### connection expiry -/

/-- **expired_closed_unless_refreshed** (a): when the expire deadline fires on a connection whose expiry
stamp has passed, without server-side refresh (client-side refresh mode, or no handler), the connection is
closed with DisconnectExpired. -/
theorem expired_closed (c : Cfg) (s : St) (now : Nat) (hst : s.status = .connected)
    (hexp : 0 < s.exp) (hpast : s.exp ≤ unix c now) (hmode : (!c.csr && c.hasRH) = false) :
    (expire c s now).2 = [.disc dExpired] ∧ (expire c s now).1.status = .closed := by
  have hcl : ¬ s.status = .closed := by rw [hst]; decide
  have h1 : ¬ (s.status = .closed ∨ s.exp = 0) := by simp [hcl]; omega
  have h2 : ¬ s.exp > unix c now := by omega
  unfold expire
  rw [if_neg h1, hmode]
  simp only [Bool.false_eq_true, if_false]
  unfold checkExpired
  rw [if_neg h1, if_neg h2]
  unfold close
  simp [hcl]

/-- … and by the invariant the stamp HAS passed whenever the expire deadline fires: under `Inv` the
pending expire deadline is never earlier than the stamp (so the close is never early, and it happens at
the deadline `stamp + grace` by `timer_is_min`). -/
theorem expire_deadline_after_stamp (c : Cfg) (s : St) (hinv : Inv c s) (hst : s.status = .connected)
    (hne : 0 < s.nextExpire) : 0 < s.exp ∧ s.exp * c.sec ≤ s.nextExpire := by
  rcases hinv with h | ⟨h, _⟩ | ⟨_, _, _, _, he⟩
  · rw [hst] at h; cases h
  · rw [hst] at h; cases h
  · exact he hne

/-- **expired_closed_unless_refreshed** (b): a refresh in time (client command in client-side mode, or
`Client.Refresh`, with a stamp `d > 0` seconds ahead) moves the expire deadline to
`now + d s + ClientExpiredCloseDelay`, keeps the connection open and the timer armed for the minimum. -/
theorem refreshed_moves_deadline (c : Cfg) (s : St) (now : Nat) (d : Int) (hd : 0 < d)
    (hst : s.status = .connected) :
    let s' := applyRefresh c s now d
    s'.status = .connected ∧ s'.nextExpire = now + d.toNat * c.sec + c.ecd ∧
    s'.exp = (Int.ofNat (unix c now) + d).toNat := by
  have hcl : ¬ s.status = .closed := by rw [hst]; decide
  unfold applyRefresh schedule
  simp only [hcl, if_false]
  split <;> simp [hst]

theorem refresh_command_refreshes (c : Cfg) (s : St) (now : Nat) (d : Int) (hd : 0 < d)
    (hst : s.status = .connected) (hau : s.auth = true) (hus : s.unusable = false) (hrh : c.hasRH = true)
    (hcsr : c.csr = true) :
    step c s now (.refresh (.at d)) = (applyRefresh c s now d, [.rrefresh true d.toNat]) := by
  have hcl : ¬ s.status = .closed := by rw [hst]; decide
  simp [step, hcl, hau, hus, hrh, hcsr, hd]

theorem server_refresh_refreshes (c : Cfg) (s : St) (now : Nat) (d : Int) (hd : 0 < d)
    (hst : s.status = .connected) :
    step c s now (.srefresh (.at d)) = (applyRefresh c s now d, [.prefresh true d.toNat]) := by
  have hcl : ¬ s.status = .closed := by rw [hst]; decide
  simp [step, hcl, hd]

/-- the expire op cannot run before its deadline: a firing attempt before the armed deadline is a no-op -/
theorem not_before_deadline (c : Cfg) (s : St) (now d : Nat) (harm : s.armed = some d) (h : now < d) :
    fire c s now = (s, []) := by
  unfold fire
  rw [harm]
  simp [h]

/-! ### C36-2 (fixed): an answer "no expiration" (ExpireAt = 0) is honoured -/

def cfgCSR : Cfg := { cfgW with csr := true, hasRH := true }
def cfgSSR : Cfg := { cfgW with csr := false, hasRH := true }

/-- client-side: refresh command at 1.5 s answered ExpireAt = 0 → reply `expires=false`, expiry off; the old
deadline (4.3 s) does nothing and the connection stays open. -/
theorem refresh_zero_disables_expiry_client :
    let s1 := runOps cfgCSR {} [(100, .new), (300, .connect 3 5360 2252)]
    let s2 := runOps cfgCSR s1 [(1500, .refresh .zero), (2552, .fire)]
    (step cfgCSR s1 1500 (.refresh .zero)).2 = [.rrefresh false 0] ∧
    (fire cfgCSR s2 4300).2 = [] ∧ s2.status = .connected ∧ s2.exp = 0 ∧ s2.nextExpire = 0 := by decide

/-- server-side: the handler called at the deadline answers ExpireAt = 0 → no close, expiry off, the timer
re-armed for the next deadline. -/
theorem refresh_zero_disables_expiry_server :
    let s1 := runOps cfgSSR { rhr := [.zero] } [(100, .new), (300, .connect 3 5360 5252)]
    (fire cfgSSR s1 3300).2 = [.rh .zero] ∧ (fire cfgSSR s1 3300).1.status = .connected ∧
    (fire cfgSSR s1 3300).1.exp = 0 ∧ (fire cfgSSR s1 3300).1.armed = some 5552 := by decide

/-! ### subscription expiry (checked on the presence tick) -/

/-- **sub_expired_unsubscribed_unless_refreshed** (a): on a presence tick later than
`expireAt + ⌊ClientExpiredSubCloseDelay⌋ s` a subscription that cannot be refreshed server-side
(client-side-refresh subscription, or no SubRefreshHandler) is unsubscribed with the expired code. -/
theorem sub_expired_unsubscribed (c : Cfg) (now : Nat) (sb : SubC) (script : List Ans)
    (hexp : 0 < sb.expireAt) (hpast : sb.expireAt + c.escd / c.sec < unix c now)
    (hmode : (sb.csr || !c.hasSRH) = true) :
    tickSub c now sb script = (none, [.unsub sb.ch uExpired], script) := by
  unfold tickSub
  have : sb.expireAt > 0 ∧ unix c now > sb.expireAt + c.escd / c.sec := ⟨hexp, hpast⟩
  rw [if_pos this, if_pos hmode]

/-- (b) before that moment, or without an expiry, the tick leaves the subscription alone -/
theorem sub_not_expired_kept (c : Cfg) (now : Nat) (sb : SubC) (script : List Ans)
    (h : sb.expireAt = 0 ∨ unix c now ≤ sb.expireAt + c.escd / c.sec) :
    tickSub c now sb script = (some sb, [], script) := by
  unfold tickSub
  have : ¬ (sb.expireAt > 0 ∧ unix c now > sb.expireAt + c.escd / c.sec) := by omega
  rw [if_neg this]

/-- (c) a client sub refresh with a stamp `d ≥ 0` s ahead replaces the subscription's expiry -/
theorem sub_refresh_moves_expiry (c : Cfg) (s : St) (now : Nat) (ch : Nat) (d : Int) (hd : 0 ≤ d) (sb : SubC)
    (hst : s.status = .connected) (hau : s.auth = true) (hus : s.unusable = false) (hsrh : c.hasSRH = true)
    (hfind : s.subs.find? (·.ch == ch) = some sb) (hcsr : sb.csr = true) :
    (step c s now (.subrefresh ch (.at d))).1.subs =
      s.subs.map (fun x => if x.ch == ch then { x with expireAt := (Int.ofNat (unix c now) + d).toNat } else x) := by
  have hcl : ¬ s.status = .closed := by rw [hst]; decide
  have hdn : ¬ d < 0 := by omega
  simp [step, hcl, hau, hus, hsrh, hfind, hcsr, hdn]

/-! ### C36-3 (fixed): `SubRefreshReply.Expired` closes the connection with DisconnectExpired -/

theorem subrefresh_expired_disconnects :
    let s1 := runOps { cfgW with hasSRH := true } {} [(100, .new), (300, .connect 0 536 2252), (400, .sub 1 2 true)]
    (step { cfgW with hasSRH := true } s1 2500 (.subrefresh 1 .expired)).2 = [.disc dExpired] ∧
    (step { cfgW with hasSRH := true } s1 2500 (.subrefresh 1 .expired)).1.status = .closed := by
  decide

/-! ### concrete instances of the hypotheses -/

-- an admissible timeline: connect, a ping fires, pong, a refresh, the pong check fires
example : AdmissibleTrace cfgCSR {} [(100, .new), (300, .connect 3 536 2252), (836, .fire), (900, .pong),
    (1000, .refresh (.at 5)), (1236, .fire)] := by decide
-- a timeline with `Client.Refresh(ExpireAt = 0)` is admissible too
example : AdmissibleTrace cfgNP {} [(100, .new), (300, .connect 3 0 2252), (1500, .srefresh .zero), (2552, .fire),
    (3300, .fire)] := by decide
-- … after which the timer is armed for the minimum (here the next ping)
example : (runOps cfgCSR {} [(100, .new), (300, .connect 3 536 2252), (836, .fire), (900, .pong),
    (1000, .refresh (.at 5)), (1236, .fire)]).armed = some 1836 := by decide
-- the no-pong hypotheses hold after a ping that is not answered
example :
    let s := runOps cfgW {} [(100, .new), (300, .connect 0 536 2252), (836, .fire)]
    s.armed = some 1236 ∧ s.timerOp = .pong ∧ s.status = .connected ∧ s.lastSeen < s.lastPing := by decide
-- a connect that failed after authentication, then silence: closed Stale when the stale timer fires
example :
    let s := runOps cfgW {} [(100, .new), (300, .connectFail)]
    s.auth = true ∧ s.unusable = true ∧ (fire cfgW s 2100).2 = [.disc dStale] := by decide
-- PongTimeout ≥ PingInterval (documented as unsupported): the next ping fires first and moves the pong
-- deadline, so an unanswered ping is never detected
example :
    let c : Cfg := { cfgW with pongTimeout := 1000 }
    (runOps c {} [(100, .new), (300, .connect 0 536 2252), (836, .fire), (1836, .fire), (2836, .fire)]).status
      = .connected := by decide

end CentrifugeVerif.C36
