import CentrifugeVerif.Proofs.Queue
/-!
# C12 — the per-connection write path delivers messages exactly

Part 1 (this section): `internal/queue.Queue` (ring buffer with growth, immediate and deferred shrink)
refines an unbounded FIFO list for *every* sequence of operations, and its byte-size accounting is the
sum of the queued items' sizes.  Part 2 (`Writer`): see below.
-/
namespace CentrifugeVerif.Queue

/-- **Refinement.**  For every initial capacity `c ≥ 1` and every sequence of queue operations
(`Add`, `AddMany`, `Remove`, `RemoveMany`, `RemoveManyInto`, `RemoveManyIntoShrink`, `FinishCollect(0)`,
the delayed-shrink timer firing at any moment, `Close`, `CloseRemaining`, `Len`, `Size`, `Closed`), the
ring buffer returns exactly what the FIFO specification returns: same items in the same order, nothing
lost or duplicated across resizes, same `Len`, `Size` = byte sum of the queued items. -/
theorem queue_refines_fifo (c : Nat) (hc : 0 < c) (ops : List Op) :
    ((RingQ.new c).run ops).2 = ((⟨[], false⟩ : Fifo).run ops).2 :=
  (RingQ.run_refines (RingQ.rel_new hc) ops).2

/-- The representation invariant holds, and the ring presents exactly the FIFO's content, after every
operation sequence (so in particular `size` is the byte sum of the queued items). -/
theorem queue_state_refines (c : Nat) (hc : 0 < c) (ops : List Op) :
    let q := ((RingQ.new c).run ops).1
    let f := ((⟨[], false⟩ : Fifo).run ops).1
    q.Inv ∧ q.toList = f.items ∧ q.closed = f.closed ∧ q.size = bytes f.items ∧ q.cnt = f.items.length := by
  have h := (RingQ.run_refines (RingQ.rel_new hc) ops).1
  refine ⟨h.1, h.2.1, h.2.2, ?_, ?_⟩
  · rw [← h.2.1]; exact h.1.sizeEq
  · rw [← h.2.1]; simp

theorem fifo_step_no_panic (f : Fifo) (op : Op) : (f.step op).2 ≠ .panic := by
  cases op <;> simp [Fifo.step] <;> (try split) <;> simp

theorem fifo_run_no_panic (f : Fifo) (ops : List Op) : Out.panic ∉ (f.run ops).2 := by
  induction ops generalizing f with
  | nil => simp [Fifo.run]
  | cons op ops ih =>
    simp only [Fifo.run, List.mem_cons, not_or]
    exact ⟨fun h => fifo_step_no_panic f op h.symm, ih _⟩

/-- No slice index is ever out of range (the explicit `panic` outcome of the model is unreachable). -/
theorem queue_no_panic (c : Nat) (hc : 0 < c) (ops : List Op) : Out.panic ∉ ((RingQ.new c).run ops).2 := by
  rw [queue_refines_fifo c hc ops]; exact fifo_run_no_panic _ ops

/-! Non-vacuity: a run that grows (2 → 4), wraps, shrinks and closes mid-stream. -/
example :
    ((RingQ.new 2).run [.add ⟨1, 5⟩, .add ⟨2, 3⟩, .add ⟨3, 1⟩, .remove, .size, .addMany [⟨4, 2⟩, ⟨5, 2⟩],
        .removeManyInto 2 (-1), .shrink true, .closeRemaining, .add ⟨6, 1⟩]).2 =
      [.added true, .added true, .added true, .item (some ⟨1, 5⟩), .nat 4, .added true,
        .items (some [⟨2, 3⟩, ⟨3, 1⟩]), .unit, .rem [⟨4, 2⟩, ⟨5, 2⟩], .added false] := by decide

/-- `New(0)` then `Add` indexes a zero-length slice: the explicit panic outcome (outside `Inv`). -/
example : ((RingQ.new 0).add ⟨1, 1⟩).2 = .panic := by decide

end CentrifugeVerif.Queue
