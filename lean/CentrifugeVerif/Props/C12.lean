import CentrifugeVerif.Proofs.Queue
import CentrifugeVerif.Proofs.Writer
/-!
# C12 — the per-connection write path delivers messages exactly

Part 1 (this section): `internal/queue.Queue` (ring buffer with growth, immediate and deferred shrink)
refines an unbounded FIFO list for *every* sequence of operations, and its byte-size accounting is the
sum of the queued items' sizes.  Part 2 (`Writer`): see below.
-/
namespace CentrifugeVerif.Queue

/-- **Refinement.**  For every initial capacity `c ≥ 1` and every sequence of queue operations
(`Add`, `AddMany`, `Remove`, `RemoveMany`, `RemoveManyInto`, `RemoveManyIntoShrink`, `FinishCollect(0)`,
the delayed-shrink timer firing at any moment, `Close`, `CloseRemaining`, `Len`, `Size`, `Closed`), the
ring buffer returns exactly what the FIFO specification returns: same items in the same order, nothing
lost or duplicated across resizes, same `Len`, `Size` = byte sum of the queued items. -/
theorem queue_refines_fifo (c : Nat) (hc : 0 < c) (ops : List Op) :
    ((RingQ.new c).run ops).2 = ((⟨[], false⟩ : Fifo).run ops).2 :=
  (RingQ.run_refines (RingQ.rel_new hc) ops).2

/-- The representation invariant holds, and the ring presents exactly the FIFO's content, after every
operation sequence (so in particular `size` is the byte sum of the queued items). -/
theorem queue_state_refines (c : Nat) (hc : 0 < c) (ops : List Op) :
    let q := ((RingQ.new c).run ops).1
    let f := ((⟨[], false⟩ : Fifo).run ops).1
    q.Inv ∧ q.toList = f.items ∧ q.closed = f.closed ∧ q.size = bytes f.items ∧ q.cnt = f.items.length := by
  have h := (RingQ.run_refines (RingQ.rel_new hc) ops).1
  refine ⟨h.1, h.2.1, h.2.2, ?_, ?_⟩
  · rw [← h.2.1]; exact h.1.sizeEq
  · rw [← h.2.1]; simp

theorem fifo_step_no_panic (f : Fifo) (op : Op) : (f.step op).2 ≠ .panic := by
  cases op <;> simp [Fifo.step] <;> (try split) <;> simp

theorem fifo_run_no_panic (f : Fifo) (ops : List Op) : Out.panic ∉ (f.run ops).2 := by
  induction ops generalizing f with
  | nil => simp [Fifo.run]
  | cons op ops ih =>
    simp only [Fifo.run, List.mem_cons, not_or]
    exact ⟨fun h => fifo_step_no_panic f op h.symm, ih _⟩

/-- No slice index is ever out of range (the explicit `panic` outcome of the model is unreachable). -/
theorem queue_no_panic (c : Nat) (hc : 0 < c) (ops : List Op) : Out.panic ∉ ((RingQ.new c).run ops).2 := by
  rw [queue_refines_fifo c hc ops]; exact fifo_run_no_panic _ ops

/-! Non-vacuity: a run that grows (2 → 4), wraps, shrinks and closes mid-stream. -/
example :
    ((RingQ.new 2).run [.add ⟨1, 5⟩, .add ⟨2, 3⟩, .add ⟨3, 1⟩, .remove, .size, .addMany [⟨4, 2⟩, ⟨5, 2⟩],
        .removeManyInto 2 (-1), .shrink true, .closeRemaining, .add ⟨6, 1⟩]).2 =
      [.added true, .added true, .added true, .item (some ⟨1, 5⟩), .nat 4, .added true,
        .items (some [⟨2, 3⟩, ⟨3, 1⟩]), .unit, .rem [⟨4, 2⟩, ⟨5, 2⟩], .added false] := by decide

/-- `New(0)` then `Add` indexes a zero-length slice: the explicit panic outcome (outside `Inv`). -/
example : ((RingQ.new 0).add ⟨1, 1⟩).2 = .panic := by decide

end CentrifugeVerif.Queue

/-!
## Part 2 — the writer (`writer.go`) as a transition system

`Writer.step` (in `Model/Writer.lean`) is the executable step function of the model: producers
(`Add`/`AddMany`, the `MaxQueueSize` check, timer-mode scheduling), the flusher goroutine in its modes,
the timer-driven `flush`, `close(flush)`, direct writes, virtual time and the timers, each queue call
and each `w.mu` critical-section boundary an atomic step.  `Reachable c w` quantifies over **all** label
sequences, i.e. all interleavings and all timings.  The theorems hold for every configuration `c`
(mode, write delay, `maxMessagesInFrame`, shrink delay, `MaxQueueSize`) with a positive queue capacity
(`newWriter` maps 0 to 2).
-/
namespace CentrifugeVerif.Writer
open Queue

/-- **Exactly-once, in order.**  In every reachable state, as long as no transport write has failed,
what the transport received from the queue (successful `WriteFn`/`WriteManyFn` calls, flattened) is a
prefix of the sequence of messages accepted by `Add`/`AddMany`, in queue order — no loss, no
duplication, no reordering, whatever the mode, delays, frame limit, growth and shrinking, and whatever
`close` does concurrently. -/
theorem writer_prefix_in_order (c : Cfg) (hc : 0 < c.initCap) (w : W) (hr : Reachable c w)
    (hf : w.failed = false) : txq w.tx <+: w.enq := by
  obtain ⟨rest, h1, _⟩ := (inv_reachable hc hr).order hf
  exact ⟨w.holder.inflight ++ rest, by rw [h1, List.append_assoc]⟩

/-- more precisely: accepted = delivered ++ (batch in the hands of the holder of `w.mu`) ++ queued,
unless `close(false)` discarded the queue -/
theorem writer_conservation (c : Cfg) (hc : 0 < c.initCap) (w : W) (hr : Reachable c w)
    (hf : w.failed = false) (hd : w.dropped = false) :
    w.enq = txq w.tx ++ w.holder.inflight ++ w.q.toList := by
  obtain ⟨rest, h1, h2⟩ := (inv_reachable hc hr).order hf
  rw [h1, h2 hd]

/-- **Close with flush delivers everything.**  Once `close(true)` has returned and no write failed, the
transport has received exactly the accepted sequence (and later `Add`s are refused, see
`closed_refuses`). -/
theorem close_flush_delivers_all (c : Cfg) (hc : 0 < c.initCap) (w : W) (hr : Reachable c w)
    (hcd : w.closeDone = some true) (hf : w.failed = false) (hfree : w.holder = .free) :
    txq w.tx = w.enq := by
  have hI := inv_reachable hc hr
  obtain ⟨rest, h1, h2⟩ := hI.order hf
  have hnd : w.dropped = false := by
    cases hd : w.dropped with
    | false => rfl
    | true => have := hI.k1 hd; simp [closeFlag, hfree, hcd] at this
  have hqc : w.q.closed = true := hI.k2 (Or.inl (by simp [hcd]))
  rw [h1, h2 hnd, RingQ.closed_toList hI.qinv hqc, hfree]
  simp [Holder.inflight]

/-- after `close` returned the queue is closed, so every later `Add` is refused -/
theorem closed_refuses (c : Cfg) (hc : 0 < c.initCap) (w : W) (hr : Reachable c w) (hcd : w.closeDone.isSome = true)
    (x : Item) : (w.q.add x).2 = .closed := by
  have hI := inv_reachable hc hr
  rw [RingQ.add_closed (hI.k2 (Or.inl hcd))]

/-- **Slow consumer exactly when over the limit.**  Every `enqueue`/`enqueueMany` call that got past
`Add` returns `DisconnectSlow` iff `MaxQueueSize > 0` and the bytes queued at the moment of its `Size()`
read (the byte sum of the queue's content, third component) exceed `MaxQueueSize`. -/
theorem slow_iff_oversize (c : Cfg) (hc : 0 < c.initCap) (w : W) (hr : Reachable c w)
    (xs : List Item) (res : Res) (queued : Nat) (hm : (xs, res, queued) ∈ w.results) :
    res = .slow ↔ (0 < c.maxQueueSize ∧ c.maxQueueSize < queued) :=
  (inv_reachable hc hr).slow _ hm

/-- no producer, flusher or closer is in the middle of anything -/
def quiescent (w : W) : Prop :=
  w.holder = .free ∧ w.pendCheck = [] ∧ w.pendSched = 0 ∧ w.flushPending = 0

/-- **Timer mode strands no message.**  In timer-driven mode, whenever the system is at rest with a
non-empty queue — connection not closed, no write failed, no enqueue answered `DisconnectSlow` (those
two end the connection) — the flush timer is armed.  (That an armed timer eventually fires is the
runtime's part.) -/
theorem timer_mode_no_stranded_message (c : Cfg) (hc : 0 < c.initCap) (hm : c.mode = .timer) (w : W)
    (hr : Reachable c w) (hq : quiescent w) (hne : 0 < w.q.cnt) (hcl : w.closed = false)
    (hf : w.failed = false) (hs : w.slowSeen = false) : w.flushAt.isSome = true := by
  obtain ⟨ls, hrun⟩ := hr
  have hT := tinv_run hm (WInv.init c hc) (TInv.init c hm) ls hrun
  obtain ⟨h1, h2, h3, h4⟩ := hq
  rcases hT.live hcl hf hs hne with h | h | h | h | h
  · exact h
  · omega
  · simp [h1, Holder.flushing] at h
  · exact absurd h2 h
  · omega

/-! Non-vacuity: concrete reachable states of each kind (`decide` runs the step function). -/

def exCfgTimer : Cfg := { mode := .timer, writeDelay := 10, maxFrame := 2, shrinkDelay := 0, maxQueueSize := 4, initCap := 2 }

/-- timer mode: three messages, timer fires, one batch of two goes out, close(true) flushes the third -/
def exRun : List Lbl :=
  [.add [⟨1, 1⟩] false, .check 0, .sched, .add [⟨2, 1⟩, ⟨3, 1⟩] true, .check 0, .sched, .tick 10, .fire, .tLock,
   .h true, .h true, .h true, .h true, .tFin, .close true, .h true, .h true, .h true]

example : (run exCfgTimer (W.init exCfgTimer) exRun).map (fun w => (txq w.tx, w.enq, w.closeDone, w.failed, w.holder)) =
    some ([⟨1, 1⟩, ⟨2, 1⟩, ⟨3, 1⟩], [⟨1, 1⟩, ⟨2, 1⟩, ⟨3, 1⟩], some true, false, .free) := by decide

/-- a slow-consumer answer: 5 bytes queued with `MaxQueueSize = 4` -/
example : (run exCfgTimer (W.init exCfgTimer) [.add [⟨1, 5⟩] false, .check 0]).map (·.results) =
    some [([⟨1, 5⟩], .slow, 5)] := by decide

/-- a quiescent timer-mode state with a non-empty queue (the flush timer is armed: deadline 10) -/
example : (run exCfgTimer (W.init exCfgTimer) [.add [⟨1, 1⟩] false, .check 0, .sched]).map
    (fun w => decide (w.q.cnt = 1 ∧ w.flushAt = some 10 ∧ w.holder = .free ∧ w.pendCheck = [] ∧
      w.pendSched = 0 ∧ w.flushPending = 0 ∧ w.closed = false ∧ w.failed = false ∧ w.slowSeen = false)) =
    some true := by decide

end CentrifugeVerif.Writer
