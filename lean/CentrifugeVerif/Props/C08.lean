import CentrifugeVerif.Proofs.ConnProtoLifecycle
/-!
# C08 — connection lifecycle callbacks fire once and in order; shutdown

Model: `Model/ConnProtoLifecycle.lean` (one connection; connect thread, any number of racing
`close` / `unsubscribe` / presence-tick / subscribe calls, `Node.Shutdown`).  All theorems quantify
over every finite label sequence, i.e. over every interleaving.
-/
namespace CentrifugeVerif.Lifecycle

theorem scan_append (log : List Ev) (e : Ev) : scan (log ++ [e]) = scanStep (scan log) e := by
  simp [scan, List.foldl_append]

def wEarly : WPC → Bool
  | .none => true
  | .holdConnect _ _ => true
  | _ => false

def wPrev : WPC → Bool
  | .holdConnect p _ => p
  | .holdBoth p _ _ => p
  | _ => false

structure Inv (s : St) : Prop where
  ok : (scan s.log).ok = true
  cs : (scan s.log).seenCS = true ↔ (s.cpc = .inCb ∨ s.cpc = .doneRan)
  ce : (scan s.log).seenCE = true ↔ s.cpc = .doneRan
  ds : (scan s.log).seenDS = true ↔ (s.w = .inDisc ∨ s.w = .done true)
  reg : s.registered = true ↔ (s.cpc = .inCb ∨ s.cpc = .doneRan)
  closed : s.status = .closed ↔ s.w ≠ .none
  conn : s.status = .connected → s.cpc = .doneRan
  incb : s.cpc = .inCb → s.status = .connecting
  prev : wPrev s.w = true → s.cpc = .doneRan
  tk : s.tick ≠ .none → wEarly s.w = true
  tkreg : s.tick = .inAlive → s.registered = true

theorem inv_init : Inv {} := by
  constructor <;> simp [scan, wPrev, wEarly]

theorem step_inv (s s' : St) (l : Label) (h : Inv s) (hs : step s l = some s') : Inv s' := by
  obtain ⟨hok, hcs, hce, hds, hreg, hcl, hconn, hincb, hprev, htk, htkreg⟩ := h
  cases l <;> simp only [step] at hs
  case connectCmdOk =>
    split at hs <;> cases hs
    rename_i hc; simp at hc
    constructor <;> simp_all [wPrev, wEarly]
  case connectCmdRefused =>
    split at hs <;> cases hs
    rename_i hc; simp at hc
    constructor <;> simp_all [wPrev, wEarly]
  case triggerAcquire =>
    split at hs
    · rename_i hc; simp [connectMuFree] at hc
      split at hs <;> cases hs
      · constructor <;> simp_all [scan_append, scanStep, wPrev, wEarly]
      · constructor <;> simp_all [wPrev, wEarly]
    · cases hs
  case triggerEnd =>
    split at hs <;> cases hs
    rename_i hc
    have hst := hincb hc
    have hw : s.w = .none := by
      by_cases hw : s.w = .none
      · exact hw
      · have := hcl.mpr hw; simp [hst] at this
    constructor <;> simp_all [scan_append, scanStep, wPrev, wEarly]
  case subscribe =>
    split at hs <;> cases hs
    constructor <;> simp_all
  case closeTry =>
    split at hs
    · rename_i hc; simp [connectMuFree] at hc
      split at hs <;> cases hs
      · constructor <;> simp_all
      · rename_i hncl
        have hw : s.w = .none := by
          by_cases hw : s.w = .none
          · exact hw
          · exact absurd (hcl.mpr hw) hncl
        constructor <;> simp_all [wPrev, wEarly]
    · cases hs
  case wAcquirePresence =>
    split at hs
    · split at hs <;> cases hs
      rename_i p snap hw hc
      simp [presenceMuFree] at hc
      constructor <;> simp_all [wPrev, wEarly]
    · cases hs
  case wRemove =>
    split at hs
    · split at hs <;> cases hs <;> (constructor <;> simp_all [wPrev, wEarly])
    · cases hs
  case wCb =>
    split at hs
    · cases hs
      rename_i p snap n hw
      by_cases hr : s.registered = true
      · have hcs' := hcs.mpr (hreg.mp hr)
        constructor <;> simp_all [scan_append, scanStep, wPrev, wEarly]
      · constructor <;> simp_all [wPrev, wEarly]
    · cases hs
  case wDisc =>
    split at hs
    · rename_i p hw
      split at hs <;> cases hs
      · rename_i hp
        have hdr : s.cpc = .doneRan := hprev (by simp [hw, wPrev, hp])
        have hce' := hce.mpr hdr
        have hnds : (scan s.log).seenDS = false := by
          cases hd : (scan s.log).seenDS
          · rfl
          · have := hds.mp hd; simp [hw] at this
        constructor <;> simp_all [scan_append, scanStep, wPrev, wEarly]
      · constructor <;> simp_all [wPrev, wEarly]
    · cases hs
  case wDiscEnd =>
    split at hs
    · cases hs
      rename_i hw
      have hd := hds.mpr (Or.inl hw)
      constructor <;> simp_all [scan_append, scanStep, wPrev, wEarly]
    · cases hs
  case unsubRemove n =>
    split at hs <;> cases hs <;> (constructor <;> simp_all)
  case unsubCb n =>
    split at hs <;> cases hs
    by_cases hr : s.registered = true
    · have hcs' := hcs.mpr (hreg.mp hr)
      constructor <;> simp_all [scan_append, scanStep]
    · constructor <;> simp_all
  case tickAcquire =>
    split at hs
    · rename_i hc; simp [presenceMuFree] at hc
      split at hs <;> cases hs
      · constructor <;> simp_all
      · rename_i hncl
        have hw : s.w = .none := by
          by_cases hw : s.w = .none
          · exact hw
          · exact absurd (hcl.mpr hw) hncl
        constructor <;> simp_all [wEarly]
    · cases hs
  case tickAliveStart =>
    split at hs <;> cases hs
    rename_i hc; simp at hc
    have hcs' := hcs.mpr (hreg.mp hc.2)
    have hwe := htk (by simp [hc.1])
    have hnds : (scan s.log).seenDS = false := by
      cases hd : (scan s.log).seenDS
      · rfl
      · have := hds.mp hd; rcases this with h | h <;> simp [h, wEarly] at hwe
    constructor <;> simp_all [scan_append, scanStep]
  case tickAliveEnd =>
    split at hs <;> cases hs
    rename_i hc
    have hcs' := hcs.mpr (hreg.mp (htkreg hc))
    have hwe := htk (by simp [hc])
    have hnds : (scan s.log).seenDS = false := by
      cases hd : (scan s.log).seenDS
      · rfl
      · have := hds.mp hd; rcases this with h | h <;> simp [h, wEarly] at hwe
    constructor <;> simp_all [scan_append, scanStep]
  case tickRelease =>
    split at hs <;> cases hs
    constructor <;> simp_all
  case shutdownSnapshot =>
    split at hs <;> cases hs
    constructor <;> simp_all
  case shutdownDone =>
    split at hs
    · split at hs <;> cases hs
      constructor <;> simp_all
    · cases hs

theorem run_inv : ∀ (ls : List Label) (s s' : St), Inv s → run s ls = some s' → Inv s'
  | [], s, s', h, hr => by simp [run] at hr; subst hr; exact h
  | l :: ls, s, s', h, hr => by
    simp only [run] at hr
    split at hr
    · rename_i s1 h1; exact run_inv ls s1 s' (step_inv s s1 l h h1) hr
    · cases hr

/-- `callbacks` (ordering part): in every interleaving the callback log satisfies the executable
predicate `scan … .ok`: the connect callback starts at most once and before any alive / unsubscribe
/ disconnect callback; the disconnect callback starts at most once and only after the connect
callback completed; no alive callback starts or is still running once the disconnect callback
started. -/
theorem callbacks (ls : List Label) (s : St) (hr : run {} ls = some s) : (scan s.log).ok = true :=
  (run_inv ls {} s inv_init hr).ok

theorem foldl_flags : ∀ (log : List Ev) (a : Scan),
    ((log.foldl scanStep a).seenDS = (a.seenDS || decide (Ev.discStart ∈ log))) ∧
    ((log.foldl scanStep a).seenCE = (a.seenCE || decide (Ev.connectEnd ∈ log))) ∧
    ((log.foldl scanStep a).seenCS = (a.seenCS || decide (Ev.connectStart ∈ log)))
  | [], a => by simp
  | e :: l, a => by
    have ih := foldl_flags l (scanStep a e)
    simp only [List.foldl_cons]
    rw [ih.1, ih.2.1, ih.2.2]
    cases e <;> simp [scanStep, Bool.or_assoc]

theorem foldl_ok_mono : ∀ (log : List Ev) (a : Scan), (log.foldl scanStep a).ok = true → a.ok = true
  | [], a, h => by simpa using h
  | e :: l, a, h => by
    have := foldl_ok_mono l (scanStep a e) (by simpa using h)
    cases e <;> simp [scanStep] at this <;> simp [this]

/-- `ok` means: wherever an event sits in the log, its precondition held on the prefix before it -/
theorem ok_split (l1 : List Ev) (e : Ev) (l2 : List Ev) (h : (scan (l1 ++ e :: l2)).ok = true) :
    (scanStep (scan l1) e).ok = true := by
  have : scan (l1 ++ e :: l2) = l2.foldl scanStep (scanStep (scan l1) e) := by
    simp [scan, List.foldl_append]
  rw [this] at h
  exact foldl_ok_mono l2 _ h

theorem ok_prefix (l1 l2 : List Ev) (h : (scan (l1 ++ l2)).ok = true) : (scan l1).ok = true := by
  have : scan (l1 ++ l2) = l2.foldl scanStep (scan l1) := by simp [scan, List.foldl_append]
  rw [this] at h
  exact foldl_ok_mono l2 _ h

theorem seenCS_iff (l : List Ev) : (scan l).seenCS = true ↔ Ev.connectStart ∈ l := by
  have := (foldl_flags l {}).2.2; simp [scan, this]
theorem seenCE_iff (l : List Ev) : (scan l).seenCE = true ↔ Ev.connectEnd ∈ l := by
  have := (foldl_flags l {}).2.1; simp [scan, this]
theorem seenDS_iff (l : List Ev) : (scan l).seenDS = true ↔ Ev.discStart ∈ l := by
  have := (foldl_flags l {}).1; simp [scan, this]

/-- reading of `callbacks`, 1: the connect callback starts at most once -/
theorem connect_at_most_once (ls : List Label) (s : St) (hr : run {} ls = some s)
    (l1 l2 : List Ev) (hl : s.log = l1 ++ Ev.connectStart :: l2) : Ev.connectStart ∉ l1 := by
  have hok := (run_inv ls {} s inv_init hr).ok
  rw [hl] at hok
  have h := ok_split l1 _ l2 hok
  simp [scanStep] at h
  intro hm
  have := (seenCS_iff l1).mpr hm
  simp [this] at h

/-- reading of `callbacks`, 3: the disconnect callback starts at most once, only after the connect
callback completed, and no alive callback starts or ends after it started -/
theorem disconnect_discipline (ls : List Label) (s : St) (hr : run {} ls = some s)
    (l1 l2 : List Ev) (hl : s.log = l1 ++ Ev.discStart :: l2) :
    Ev.discStart ∉ l1 ∧ Ev.connectEnd ∈ l1 ∧ Ev.aliveStart ∉ l2 ∧ Ev.aliveEnd ∉ l2 ∧ Ev.discStart ∉ l2 := by
  have hok := (run_inv ls {} s inv_init hr).ok
  rw [hl] at hok
  have h := ok_split l1 _ l2 hok
  simp [scanStep] at h
  have hce := (seenCE_iff l1).mp h.1.2
  have hnd : Ev.discStart ∉ l1 := by
    intro hm; have := (seenDS_iff l1).mpr hm; simp [this] at h
  have aux : ∀ e : Ev, (∀ a : Scan, a.seenDS = true → (scanStep a e).ok = false) → e ∉ l2 := by
    intro e hbad hmem
    obtain ⟨a, b, hab⟩ := List.append_of_mem hmem
    have hre : l1 ++ Ev.discStart :: l2 = (l1 ++ Ev.discStart :: a) ++ e :: b := by rw [hab]; simp
    rw [hre] at hok
    have h2 := ok_split _ _ b hok
    have hds : (scan (l1 ++ Ev.discStart :: a)).seenDS = true := (seenDS_iff _).mpr (by simp)
    rw [hbad _ hds] at h2
    cases h2
  refine ⟨hnd, hce, aux _ ?_, aux _ ?_, aux _ ?_⟩ <;> intro a ha <;> simp [scanStep, ha]

/-- reading of `callbacks`, 2: every alive / unsubscribe / disconnect callback event is preceded
by the start of the connect callback -/
theorem connect_first (ls : List Label) (s : St) (hr : run {} ls = some s)
    (l1 l2 : List Ev) (e : Ev) (hl : s.log = l1 ++ e :: l2)
    (he : e ≠ .connectStart) : Ev.connectStart ∈ l1 := by
  have hok := (run_inv ls {} s inv_init hr).ok
  rw [hl] at hok
  have h := ok_split l1 _ l2 hok
  have hok1 := ok_prefix l1 (e :: l2) hok
  -- connectEnd ∈ prefix ⇒ connectStart before it; discStart ∈ prefix ⇒ connectEnd before it
  have ce_cs : ∀ l, (scan l).ok = true → Ev.connectEnd ∈ l → Ev.connectStart ∈ l := by
    intro l hl hm
    obtain ⟨a, b, hab⟩ := List.append_of_mem hm
    rw [hab] at hl
    have := ok_split a _ b hl
    simp [scanStep] at this
    rw [hab]; simp; left; exact (seenCS_iff a).mp this.2
  have ds_cs : ∀ l, (scan l).ok = true → Ev.discStart ∈ l → Ev.connectStart ∈ l := by
    intro l hl hm
    obtain ⟨a, b, hab⟩ := List.append_of_mem hm
    rw [hab] at hl
    have h2 := ok_split a _ b hl
    simp [scanStep] at h2
    have := ce_cs a (ok_prefix a _ hl) ((seenCE_iff a).mp h2.1.2)
    rw [hab]; simp; left; exact this
  cases e <;> simp [scanStep] at h
  · exact absurd rfl he
  · exact (seenCS_iff l1).mp h.2
  · exact (seenCS_iff l1).mp h.1.2
  · exact (seenCS_iff l1).mp h.1.2
  · exact ce_cs l1 hok1 ((seenCE_iff l1).mp h.1.2)
  · exact ds_cs l1 hok1 ((seenDS_iff l1).mp h.2)
  · exact (seenCS_iff l1).mp h.2

/-- `callbacks` (unsubscribe part): in every interleaving of subscribes, racing unsubscribes
(client command, server API, expiry …), `close` calls and the connect thread, the unsubscribe
callback of a subscription `n` runs at most once; it ran exactly once for every subscription that
was removed from the connection's table while the handlers were registered (`endedReg`), as soon
as the thread that removed it has delivered what it owes (`owes n s = 0`, e.g. at quiescence);
and it only ever runs for a subscription that was established and is gone. -/
theorem unsubscribe_exactly_once (ls : List Label) (s : St) (hr : run {} ls = some s) (n : Nat) :
    cntU n s ≤ 1 ∧ (n ∈ s.endedReg → owes n s = 0 → cntU n s = 1) ∧
    (0 < cntU n s → n < s.nextSub ∧ n ∉ s.subs) := by
  have h := run_uinv ls {} s uinv_init hr
  refine ⟨by have := h.once n; omega, ?_, ?_⟩
  · intro hm ho; have := (h.ended n hm).2; omega
  · intro hp
    constructor
    · by_cases hlt : n < s.nextSub
      · exact hlt
      · have := (h.fresh n (by omega)).2.1; omega
    · intro hm; have := (h.live n hm).2.1; omega

def passedAdd (s : St) : Prop := s.cpc = .ready ∨ s.cpc = .inCb ∨ s.cpc = .doneRan

structure SInv (s : St) : Prop where
  /-- a client that passed `addClient` and is not closed is registered in the hub -/
  hub : passedAdd s → s.status ≠ .closed → s.inHub = true
  /-- once the shutdown took its snapshot, a client that passed `addClient` is closed already or
  is in the snapshot -/
  sh : s.shut ≠ .idle → passedAdd s → s.status = .closed ∨ s.shut = .snapshotTaken true

theorem sinv_frame (s s' : St) (h : SInv s) (h1 : s'.cpc = s.cpc) (h2 : s'.status = s.status)
    (h3 : s'.inHub = s.inHub) (h4 : s'.shut = s.shut) : SInv s' := by
  constructor
  · intro hp hc; rw [h3]; exact h.hub (by simpa [passedAdd, h1] using hp) (by rwa [h2] at hc)
  · intro hsn hp; rw [h2, h4]; exact h.sh (by rwa [h4] at hsn) (by simpa [passedAdd, h1] using hp)

theorem step_sinv (s s' : St) (l : Label) (hI : Inv s) (h : SInv s) (hs : step s l = some s') : SInv s' := by
  cases l <;> simp only [step] at hs
  case connectCmdOk =>
    split at hs <;> cases hs
    rename_i hc; simp at hc
    constructor
    · intro _ _; rfl
    · intro hsn; simp [hc.2] at hsn
  case connectCmdRefused =>
    split at hs <;> cases hs
    constructor <;> simp [passedAdd]
  case triggerAcquire =>
    split at hs
    · rename_i hc; simp at hc
      split at hs <;> cases hs
      · constructor
        · intro _ hcl; exact h.hub (Or.inl hc.1) hcl
        · intro hsn _; exact h.sh hsn (Or.inl hc.1)
      · constructor <;> simp [passedAdd]
    · cases hs
  case triggerEnd =>
    split at hs <;> cases hs
    rename_i hc
    have hst := hI.incb hc
    constructor
    · intro _ _; exact h.hub (Or.inr (Or.inl hc)) (by simp [hst])
    · intro hsn _
      rcases h.sh hsn (Or.inr (Or.inl hc)) with h1 | h1
      · simp [hst] at h1
      · exact Or.inr h1
  case subscribe =>
    split at hs <;> cases hs
    exact sinv_frame s _ h rfl rfl rfl rfl
  case closeTry =>
    split at hs
    · split at hs <;> cases hs
      · exact h
      · constructor
        · intro _ hcl; simp at hcl
        · intro _ _; left; rfl
    · cases hs
  case wAcquirePresence =>
    split at hs
    · split at hs <;> cases hs
      exact sinv_frame s _ h rfl rfl rfl rfl
    · cases hs
  case wRemove =>
    split at hs
    · split at hs <;> cases hs <;> exact sinv_frame s _ h rfl rfl rfl rfl
    · cases hs
  case wCb =>
    split at hs
    · cases hs; exact sinv_frame s _ h rfl rfl rfl rfl
    · cases hs
  case wDisc =>
    split at hs
    · split at hs <;> cases hs <;> exact sinv_frame s _ h rfl rfl rfl rfl
    · cases hs
  case wDiscEnd =>
    split at hs
    · cases hs; exact sinv_frame s _ h rfl rfl rfl rfl
    · cases hs
  case unsubRemove n =>
    split at hs <;> cases hs
    · exact sinv_frame s _ h rfl rfl rfl rfl
    · exact h
  case unsubCb n =>
    split at hs <;> cases hs
    exact sinv_frame s _ h rfl rfl rfl rfl
  case tickAcquire =>
    split at hs
    · split at hs <;> cases hs
      · exact h
      · exact sinv_frame s _ h rfl rfl rfl rfl
    · cases hs
  case tickAliveStart =>
    split at hs <;> cases hs
    exact sinv_frame s _ h rfl rfl rfl rfl
  case tickAliveEnd =>
    split at hs <;> cases hs
    exact sinv_frame s _ h rfl rfl rfl rfl
  case tickRelease =>
    split at hs <;> cases hs
    exact sinv_frame s _ h rfl rfl rfl rfl
  case shutdownSnapshot =>
    split at hs <;> cases hs
    constructor
    · exact h.hub
    · intro _ hp
      by_cases hcl : s.status = .closed
      · exact Or.inl hcl
      · right; simp [h.hub hp hcl]
  case shutdownDone =>
    split at hs
    · rename_i had hsh
      split at hs <;> cases hs
      rename_i hc; simp at hc
      constructor
      · exact h.hub
      · intro _ hp
        left
        rcases hc with hc | hc
        · rcases h.sh (by simp [hsh]) hp with h1 | h1
          · exact h1
          · simp [hsh, hc] at h1
        · exact hc
    · cases hs

theorem run_sinv : ∀ (ls : List Label) (s s' : St), Inv s → SInv s → run s ls = some s' → SInv s'
  | [], s, s', _, h, hr => by simp [run] at hr; subst hr; exact h
  | l :: ls, s, s', hI, h, hr => by
    simp only [run] at hr
    split at hr
    · rename_i s1 h1; exact run_sinv ls s1 s' (step_inv s s1 l hI h1) (step_sinv s s1 l hI h h1) hr
    · cases hr

theorem sinv_init : SInv {} := by
  constructor <;> simp [passedAdd]

theorem run_append (l1 l2 : List Label) (a : St) : run a (l1 ++ l2) = (run a l1).bind (fun m => run m l2) := by
  induction l1 generalizing a with
  | nil => simp [run]
  | cons l l1 ih => simp only [List.cons_append, run]; split <;> simp [ih]

theorem shut_done_stable : ∀ (ls : List Label) (x y : St), run x ls = some y → x.shut = .done → y.shut = .done := by
  intro ls
  induction ls with
  | nil => intro x y h hx; simp [run] at h; subst h; exact hx
  | cons l ls ih =>
    intro x y h hx
    simp only [run] at h
    split at h
    · rename_i x1 hx1
      apply ih x1 y h
      cases l <;> simp only [step] at hx1 <;> (repeat' split at hx1) <;> (try cases hx1) <;> simp_all
    · cases h

/-- `shutdown_final` (full strength since the fix "no connection becomes connected once node
shutdown took its snapshot"): in every interleaving, once `Node.Shutdown` has completed the
connection is not connected — whether it was registered before the snapshot (then it is closed) or
tries to register afterwards (`addClient` refuses, `triggerConnect` is never reached) — and it
never becomes connected in any continuation. -/
theorem shutdown_final (ls : List Label) (s : St) (hr : run {} ls = some s) (hd : s.shut = .done) :
    s.status ≠ .connected ∧ ∀ ls3 s3, run s ls3 = some s3 → s3.status ≠ .connected := by
  have key : ∀ (ls : List Label) (s : St), run {} ls = some s → s.shut = .done → s.status ≠ .connected := by
    intro ls s hr hd hc
    have hinv := run_inv ls {} s inv_init hr
    have hsinv := run_sinv ls {} s inv_init sinv_init hr
    have hcpc := hinv.conn hc
    rcases hsinv.sh (by simp [hd]) (Or.inr (Or.inr hcpc)) with h | h
    · simp [hc] at h
    · simp [hd] at h
  refine ⟨key ls s hr hd, ?_⟩
  intro ls3 s3 h3
  apply key (ls ++ ls3) s3
  · rw [run_append, hr]; simpa using h3
  · exact shut_done_stable ls3 s s3 h3 hd

/-- a connection that was registered in the hub when the shutdown took its snapshot is closed
when `Shutdown` returns -/
theorem shutdown_closes_registered (ls : List Label) (s : St) (hr : run {} ls = some s) (hd : s.shut = .done)
    (hreg : s.cpc = .ready ∨ s.cpc = .inCb ∨ s.cpc = .doneRan) : s.status = .closed := by
  have hsinv := run_sinv ls {} s inv_init sinv_init hr
  rcases hsinv.sh (by simp [hd]) hreg with h | h
  · exact h
  · simp [hd] at h

/-- the former counter-witness (findings C08-1…4, now fixed): after the snapshot `addClient`
is refused … -/
example : run {} [.shutdownSnapshot, .shutdownDone, .connectCmdOk] = none := by decide
/-- … the connect fails, the spawned `close(DisconnectShutdown)` closes the connection and the
connect callback never runs. -/
example : ∃ s, run {} [.shutdownSnapshot, .shutdownDone, .connectCmdRefused, .closeTry] = some s ∧
    s.status = .closed ∧ s.log = [] ∧ step s .triggerAcquire = none := ⟨_, rfl, by decide, by decide, by decide⟩

/-! non-vacuity -/
example : ∃ s, run {} [.connectCmdOk, .subscribe, .triggerAcquire, .triggerEnd, .subscribe, .tickAcquire, .tickAliveStart,
    .closeTry, .tickAliveEnd, .tickRelease, .wAcquirePresence, .wRemove, .wCb, .wRemove, .wCb, .wDisc, .wDiscEnd] = some s ∧
    s.log = [.connectStart, .connectEnd, .aliveStart, .aliveEnd, .unsub 0, .unsub 1, .discStart, .discEnd] :=
  ⟨_, rfl, by decide⟩
example : ∃ s, run {} [.connectCmdOk, .triggerAcquire, .triggerEnd, .shutdownSnapshot, .closeTry, .shutdownDone] = some s ∧
    s.shut = .done ∧ s.status = .closed := ⟨_, rfl, by decide, by decide⟩

end CentrifugeVerif.Lifecycle
