/-! placeholder, replaced by the lifecycle LTS theorems -/
namespace CentrifugeVerif.C08Stub
theorem stub : True := trivial
end CentrifugeVerif.C08Stub
