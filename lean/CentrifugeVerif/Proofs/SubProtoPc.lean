import CentrifugeVerif.Proofs.SubProtoNT2
/-!
Program-counter classes used by the no-timeout invariants, with their evaluation lemmas (generated).
-/
namespace CentrifugeVerif.SubProto

def rbPc : Pc → Bool
  | .sRbHub | .sRbPres | .sRbClose => true
  | _ => false
@[simp] theorem rbPc_sReserve : rbPc .sReserve = false := rfl
@[simp] theorem rbPc_sOnSub : rbPc .sOnSub = false := rfl
@[simp] theorem rbPc_sReadGen : rbPc .sReadGen = false := rfl
@[simp] theorem rbPc_sCheck1 : rbPc .sCheck1 = false := rfl
@[simp] theorem rbPc_sHubAdd : rbPc .sHubAdd = false := rfl
@[simp] theorem rbPc_sCheck2 : rbPc .sCheck2 = false := rfl
@[simp] theorem rbPc_sPresAdd : rbPc .sPresAdd = false := rfl
@[simp] theorem rbPc_sReply : rbPc .sReply = false := rfl
@[simp] theorem rbPc_sCommit : rbPc .sCommit = false := rfl
@[simp] theorem rbPc_sRbHub : rbPc .sRbHub = true := rfl
@[simp] theorem rbPc_sRbPres : rbPc .sRbPres = true := rfl
@[simp] theorem rbPc_sRbClose : rbPc .sRbClose = true := rfl
@[simp] theorem rbPc_sCloseGate : rbPc .sCloseGate = false := rfl
@[simp] theorem rbPc_sDpf : rbPc .sDpf = false := rfl
@[simp] theorem rbPc_sPush : rbPc .sPush = false := rfl
@[simp] theorem rbPc_sJoin : rbPc .sJoin = false := rfl
@[simp] theorem rbPc_sDeferPres : rbPc .sDeferPres = false := rfl
@[simp] theorem rbPc_sErrDel : rbPc .sErrDel = false := rfl
@[simp] theorem rbPc_sErrHub : rbPc .sErrHub = false := rfl
@[simp] theorem rbPc_sErrClose : rbPc .sErrClose = false := rfl
@[simp] theorem rbPc_sErrOut : rbPc .sErrOut = false := rfl
@[simp] theorem rbPc_uStatus : rbPc .uStatus = false := rfl
@[simp] theorem rbPc_uSnap : rbPc .uSnap = false := rfl
@[simp] theorem rbPc_uWait : rbPc .uWait = false := rfl
@[simp] theorem rbPc_uTmoLog : rbPc .uTmoLog = false := rfl
@[simp] theorem rbPc_uRemove : rbPc .uRemove = false := rfl
@[simp] theorem rbPc_uPresRm : rbPc .uPresRm = false := rfl
@[simp] theorem rbPc_uLeave : rbPc .uLeave = false := rfl
@[simp] theorem rbPc_uHubRm : rbPc .uHubRm = false := rfl
@[simp] theorem rbPc_uOnUnsub : rbPc .uOnUnsub = false := rfl
@[simp] theorem rbPc_uOut : rbPc .uOut = false := rfl
@[simp] theorem rbPc_cEnter : rbPc .cEnter = false := rfl
@[simp] theorem rbPc_cRemoveClient : rbPc .cRemoveClient = false := rfl
@[simp] theorem rbPc_cDpf : rbPc .cDpf = false := rfl
@[simp] theorem rbPc_cWriter : rbPc .cWriter = false := rfl
@[simp] theorem rbPc_cTClose : rbPc .cTClose = false := rfl
@[simp] theorem rbPc_cLoop : rbPc .cLoop = false := rfl
@[simp] theorem rbPc_cOnDisc : rbPc .cOnDisc = false := rfl
@[simp] theorem rbPc_cExit : rbPc .cExit = false := rfl
@[simp] theorem rbPc_done : rbPc .done = false := rfl
@[simp] theorem rbPc_ite (c : Prop) [Decidable c] (a b : Pc) :
    rbPc (if c then a else b) = if c then rbPc a else rbPc b := apply_ite rbPc c a b
@[simp] theorem rbPc_unsubRetPc (k : Kind) : rbPc (unsubRetPc k) = false := by
  cases k <;> rfl
@[simp] theorem rbPc_afterRemove (c : Entry) : rbPc (afterRemove c) = false := by
  unfold afterRemove; split <;> (try split) <;> rfl
@[simp] theorem rbPc_afterCmdFail (t : Thread) : rbPc (afterCmdFail t) = false := by
  unfold afterCmdFail; split <;> rfl
@[simp] theorem rbPc_afterChecks (t : Thread) : rbPc (afterChecks t) = false := by
  unfold afterChecks; split <;> (try split) <;> rfl
@[simp] theorem rbPc_afterPres (t : Thread) : rbPc (afterPres t) = false := by
  unfold afterPres; split <;> rfl

def errPc : Pc → Bool
  | .sErrHub | .sErrClose => true
  | _ => false
@[simp] theorem errPc_sReserve : errPc .sReserve = false := rfl
@[simp] theorem errPc_sOnSub : errPc .sOnSub = false := rfl
@[simp] theorem errPc_sReadGen : errPc .sReadGen = false := rfl
@[simp] theorem errPc_sCheck1 : errPc .sCheck1 = false := rfl
@[simp] theorem errPc_sHubAdd : errPc .sHubAdd = false := rfl
@[simp] theorem errPc_sCheck2 : errPc .sCheck2 = false := rfl
@[simp] theorem errPc_sPresAdd : errPc .sPresAdd = false := rfl
@[simp] theorem errPc_sReply : errPc .sReply = false := rfl
@[simp] theorem errPc_sCommit : errPc .sCommit = false := rfl
@[simp] theorem errPc_sRbHub : errPc .sRbHub = false := rfl
@[simp] theorem errPc_sRbPres : errPc .sRbPres = false := rfl
@[simp] theorem errPc_sRbClose : errPc .sRbClose = false := rfl
@[simp] theorem errPc_sCloseGate : errPc .sCloseGate = false := rfl
@[simp] theorem errPc_sDpf : errPc .sDpf = false := rfl
@[simp] theorem errPc_sPush : errPc .sPush = false := rfl
@[simp] theorem errPc_sJoin : errPc .sJoin = false := rfl
@[simp] theorem errPc_sDeferPres : errPc .sDeferPres = false := rfl
@[simp] theorem errPc_sErrDel : errPc .sErrDel = false := rfl
@[simp] theorem errPc_sErrHub : errPc .sErrHub = true := rfl
@[simp] theorem errPc_sErrClose : errPc .sErrClose = true := rfl
@[simp] theorem errPc_sErrOut : errPc .sErrOut = false := rfl
@[simp] theorem errPc_uStatus : errPc .uStatus = false := rfl
@[simp] theorem errPc_uSnap : errPc .uSnap = false := rfl
@[simp] theorem errPc_uWait : errPc .uWait = false := rfl
@[simp] theorem errPc_uTmoLog : errPc .uTmoLog = false := rfl
@[simp] theorem errPc_uRemove : errPc .uRemove = false := rfl
@[simp] theorem errPc_uPresRm : errPc .uPresRm = false := rfl
@[simp] theorem errPc_uLeave : errPc .uLeave = false := rfl
@[simp] theorem errPc_uHubRm : errPc .uHubRm = false := rfl
@[simp] theorem errPc_uOnUnsub : errPc .uOnUnsub = false := rfl
@[simp] theorem errPc_uOut : errPc .uOut = false := rfl
@[simp] theorem errPc_cEnter : errPc .cEnter = false := rfl
@[simp] theorem errPc_cRemoveClient : errPc .cRemoveClient = false := rfl
@[simp] theorem errPc_cDpf : errPc .cDpf = false := rfl
@[simp] theorem errPc_cWriter : errPc .cWriter = false := rfl
@[simp] theorem errPc_cTClose : errPc .cTClose = false := rfl
@[simp] theorem errPc_cLoop : errPc .cLoop = false := rfl
@[simp] theorem errPc_cOnDisc : errPc .cOnDisc = false := rfl
@[simp] theorem errPc_cExit : errPc .cExit = false := rfl
@[simp] theorem errPc_done : errPc .done = false := rfl
@[simp] theorem errPc_ite (c : Prop) [Decidable c] (a b : Pc) :
    errPc (if c then a else b) = if c then errPc a else errPc b := apply_ite errPc c a b
@[simp] theorem errPc_unsubRetPc (k : Kind) : errPc (unsubRetPc k) = false := by
  cases k <;> rfl
@[simp] theorem errPc_afterRemove (c : Entry) : errPc (afterRemove c) = false := by
  unfold afterRemove; split <;> (try split) <;> rfl
@[simp] theorem errPc_afterCmdFail (t : Thread) : errPc (afterCmdFail t) = false := by
  unfold afterCmdFail; split <;> rfl
@[simp] theorem errPc_afterChecks (t : Thread) : errPc (afterChecks t) = false := by
  unfold afterChecks; split <;> (try split) <;> rfl
@[simp] theorem errPc_afterPres (t : Thread) : errPc (afterPres t) = false := by
  unfold afterPres; split <;> rfl

def holderPc : Pc → Bool
  | .sOnSub | .sReadGen | .sCheck1 | .sHubAdd | .sCheck2 | .sPresAdd | .sReply | .sCommit | .sDeferPres | .sErrDel => true
  | _ => false
@[simp] theorem holderPc_sReserve : holderPc .sReserve = false := rfl
@[simp] theorem holderPc_sOnSub : holderPc .sOnSub = true := rfl
@[simp] theorem holderPc_sReadGen : holderPc .sReadGen = true := rfl
@[simp] theorem holderPc_sCheck1 : holderPc .sCheck1 = true := rfl
@[simp] theorem holderPc_sHubAdd : holderPc .sHubAdd = true := rfl
@[simp] theorem holderPc_sCheck2 : holderPc .sCheck2 = true := rfl
@[simp] theorem holderPc_sPresAdd : holderPc .sPresAdd = true := rfl
@[simp] theorem holderPc_sReply : holderPc .sReply = true := rfl
@[simp] theorem holderPc_sCommit : holderPc .sCommit = true := rfl
@[simp] theorem holderPc_sRbHub : holderPc .sRbHub = false := rfl
@[simp] theorem holderPc_sRbPres : holderPc .sRbPres = false := rfl
@[simp] theorem holderPc_sRbClose : holderPc .sRbClose = false := rfl
@[simp] theorem holderPc_sCloseGate : holderPc .sCloseGate = false := rfl
@[simp] theorem holderPc_sDpf : holderPc .sDpf = false := rfl
@[simp] theorem holderPc_sPush : holderPc .sPush = false := rfl
@[simp] theorem holderPc_sJoin : holderPc .sJoin = false := rfl
@[simp] theorem holderPc_sDeferPres : holderPc .sDeferPres = true := rfl
@[simp] theorem holderPc_sErrDel : holderPc .sErrDel = true := rfl
@[simp] theorem holderPc_sErrHub : holderPc .sErrHub = false := rfl
@[simp] theorem holderPc_sErrClose : holderPc .sErrClose = false := rfl
@[simp] theorem holderPc_sErrOut : holderPc .sErrOut = false := rfl
@[simp] theorem holderPc_uStatus : holderPc .uStatus = false := rfl
@[simp] theorem holderPc_uSnap : holderPc .uSnap = false := rfl
@[simp] theorem holderPc_uWait : holderPc .uWait = false := rfl
@[simp] theorem holderPc_uTmoLog : holderPc .uTmoLog = false := rfl
@[simp] theorem holderPc_uRemove : holderPc .uRemove = false := rfl
@[simp] theorem holderPc_uPresRm : holderPc .uPresRm = false := rfl
@[simp] theorem holderPc_uLeave : holderPc .uLeave = false := rfl
@[simp] theorem holderPc_uHubRm : holderPc .uHubRm = false := rfl
@[simp] theorem holderPc_uOnUnsub : holderPc .uOnUnsub = false := rfl
@[simp] theorem holderPc_uOut : holderPc .uOut = false := rfl
@[simp] theorem holderPc_cEnter : holderPc .cEnter = false := rfl
@[simp] theorem holderPc_cRemoveClient : holderPc .cRemoveClient = false := rfl
@[simp] theorem holderPc_cDpf : holderPc .cDpf = false := rfl
@[simp] theorem holderPc_cWriter : holderPc .cWriter = false := rfl
@[simp] theorem holderPc_cTClose : holderPc .cTClose = false := rfl
@[simp] theorem holderPc_cLoop : holderPc .cLoop = false := rfl
@[simp] theorem holderPc_cOnDisc : holderPc .cOnDisc = false := rfl
@[simp] theorem holderPc_cExit : holderPc .cExit = false := rfl
@[simp] theorem holderPc_done : holderPc .done = false := rfl
@[simp] theorem holderPc_ite (c : Prop) [Decidable c] (a b : Pc) :
    holderPc (if c then a else b) = if c then holderPc a else holderPc b := apply_ite holderPc c a b
@[simp] theorem holderPc_unsubRetPc (k : Kind) : holderPc (unsubRetPc k) = false := by
  cases k <;> rfl
@[simp] theorem holderPc_afterRemove (c : Entry) : holderPc (afterRemove c) = false := by
  unfold afterRemove; split <;> (try split) <;> rfl
@[simp] theorem holderPc_afterCmdFail (t : Thread) : holderPc (afterCmdFail t) = true := by
  unfold afterCmdFail; split <;> rfl
@[simp] theorem holderPc_afterChecks (t : Thread) : holderPc (afterChecks t) = true := by
  unfold afterChecks; split <;> (try split) <;> rfl
@[simp] theorem holderPc_afterPres (t : Thread) : holderPc (afterPres t) = true := by
  unfold afterPres; split <;> rfl

def waitPc : Pc → Bool
  | .uWait => true
  | _ => false
@[simp] theorem waitPc_sReserve : waitPc .sReserve = false := rfl
@[simp] theorem waitPc_sOnSub : waitPc .sOnSub = false := rfl
@[simp] theorem waitPc_sReadGen : waitPc .sReadGen = false := rfl
@[simp] theorem waitPc_sCheck1 : waitPc .sCheck1 = false := rfl
@[simp] theorem waitPc_sHubAdd : waitPc .sHubAdd = false := rfl
@[simp] theorem waitPc_sCheck2 : waitPc .sCheck2 = false := rfl
@[simp] theorem waitPc_sPresAdd : waitPc .sPresAdd = false := rfl
@[simp] theorem waitPc_sReply : waitPc .sReply = false := rfl
@[simp] theorem waitPc_sCommit : waitPc .sCommit = false := rfl
@[simp] theorem waitPc_sRbHub : waitPc .sRbHub = false := rfl
@[simp] theorem waitPc_sRbPres : waitPc .sRbPres = false := rfl
@[simp] theorem waitPc_sRbClose : waitPc .sRbClose = false := rfl
@[simp] theorem waitPc_sCloseGate : waitPc .sCloseGate = false := rfl
@[simp] theorem waitPc_sDpf : waitPc .sDpf = false := rfl
@[simp] theorem waitPc_sPush : waitPc .sPush = false := rfl
@[simp] theorem waitPc_sJoin : waitPc .sJoin = false := rfl
@[simp] theorem waitPc_sDeferPres : waitPc .sDeferPres = false := rfl
@[simp] theorem waitPc_sErrDel : waitPc .sErrDel = false := rfl
@[simp] theorem waitPc_sErrHub : waitPc .sErrHub = false := rfl
@[simp] theorem waitPc_sErrClose : waitPc .sErrClose = false := rfl
@[simp] theorem waitPc_sErrOut : waitPc .sErrOut = false := rfl
@[simp] theorem waitPc_uStatus : waitPc .uStatus = false := rfl
@[simp] theorem waitPc_uSnap : waitPc .uSnap = false := rfl
@[simp] theorem waitPc_uWait : waitPc .uWait = true := rfl
@[simp] theorem waitPc_uTmoLog : waitPc .uTmoLog = false := rfl
@[simp] theorem waitPc_uRemove : waitPc .uRemove = false := rfl
@[simp] theorem waitPc_uPresRm : waitPc .uPresRm = false := rfl
@[simp] theorem waitPc_uLeave : waitPc .uLeave = false := rfl
@[simp] theorem waitPc_uHubRm : waitPc .uHubRm = false := rfl
@[simp] theorem waitPc_uOnUnsub : waitPc .uOnUnsub = false := rfl
@[simp] theorem waitPc_uOut : waitPc .uOut = false := rfl
@[simp] theorem waitPc_cEnter : waitPc .cEnter = false := rfl
@[simp] theorem waitPc_cRemoveClient : waitPc .cRemoveClient = false := rfl
@[simp] theorem waitPc_cDpf : waitPc .cDpf = false := rfl
@[simp] theorem waitPc_cWriter : waitPc .cWriter = false := rfl
@[simp] theorem waitPc_cTClose : waitPc .cTClose = false := rfl
@[simp] theorem waitPc_cLoop : waitPc .cLoop = false := rfl
@[simp] theorem waitPc_cOnDisc : waitPc .cOnDisc = false := rfl
@[simp] theorem waitPc_cExit : waitPc .cExit = false := rfl
@[simp] theorem waitPc_done : waitPc .done = false := rfl
@[simp] theorem waitPc_ite (c : Prop) [Decidable c] (a b : Pc) :
    waitPc (if c then a else b) = if c then waitPc a else waitPc b := apply_ite waitPc c a b
@[simp] theorem waitPc_unsubRetPc (k : Kind) : waitPc (unsubRetPc k) = false := by
  cases k <;> rfl
@[simp] theorem waitPc_afterRemove (c : Entry) : waitPc (afterRemove c) = false := by
  unfold afterRemove; split <;> (try split) <;> rfl
@[simp] theorem waitPc_afterCmdFail (t : Thread) : waitPc (afterCmdFail t) = false := by
  unfold afterCmdFail; split <;> rfl
@[simp] theorem waitPc_afterChecks (t : Thread) : waitPc (afterChecks t) = false := by
  unfold afterChecks; split <;> (try split) <;> rfl
@[simp] theorem waitPc_afterPres (t : Thread) : waitPc (afterPres t) = false := by
  unfold afterPres; split <;> rfl

def removePc : Pc → Bool
  | .uRemove => true
  | _ => false
@[simp] theorem removePc_sReserve : removePc .sReserve = false := rfl
@[simp] theorem removePc_sOnSub : removePc .sOnSub = false := rfl
@[simp] theorem removePc_sReadGen : removePc .sReadGen = false := rfl
@[simp] theorem removePc_sCheck1 : removePc .sCheck1 = false := rfl
@[simp] theorem removePc_sHubAdd : removePc .sHubAdd = false := rfl
@[simp] theorem removePc_sCheck2 : removePc .sCheck2 = false := rfl
@[simp] theorem removePc_sPresAdd : removePc .sPresAdd = false := rfl
@[simp] theorem removePc_sReply : removePc .sReply = false := rfl
@[simp] theorem removePc_sCommit : removePc .sCommit = false := rfl
@[simp] theorem removePc_sRbHub : removePc .sRbHub = false := rfl
@[simp] theorem removePc_sRbPres : removePc .sRbPres = false := rfl
@[simp] theorem removePc_sRbClose : removePc .sRbClose = false := rfl
@[simp] theorem removePc_sCloseGate : removePc .sCloseGate = false := rfl
@[simp] theorem removePc_sDpf : removePc .sDpf = false := rfl
@[simp] theorem removePc_sPush : removePc .sPush = false := rfl
@[simp] theorem removePc_sJoin : removePc .sJoin = false := rfl
@[simp] theorem removePc_sDeferPres : removePc .sDeferPres = false := rfl
@[simp] theorem removePc_sErrDel : removePc .sErrDel = false := rfl
@[simp] theorem removePc_sErrHub : removePc .sErrHub = false := rfl
@[simp] theorem removePc_sErrClose : removePc .sErrClose = false := rfl
@[simp] theorem removePc_sErrOut : removePc .sErrOut = false := rfl
@[simp] theorem removePc_uStatus : removePc .uStatus = false := rfl
@[simp] theorem removePc_uSnap : removePc .uSnap = false := rfl
@[simp] theorem removePc_uWait : removePc .uWait = false := rfl
@[simp] theorem removePc_uTmoLog : removePc .uTmoLog = false := rfl
@[simp] theorem removePc_uRemove : removePc .uRemove = true := rfl
@[simp] theorem removePc_uPresRm : removePc .uPresRm = false := rfl
@[simp] theorem removePc_uLeave : removePc .uLeave = false := rfl
@[simp] theorem removePc_uHubRm : removePc .uHubRm = false := rfl
@[simp] theorem removePc_uOnUnsub : removePc .uOnUnsub = false := rfl
@[simp] theorem removePc_uOut : removePc .uOut = false := rfl
@[simp] theorem removePc_cEnter : removePc .cEnter = false := rfl
@[simp] theorem removePc_cRemoveClient : removePc .cRemoveClient = false := rfl
@[simp] theorem removePc_cDpf : removePc .cDpf = false := rfl
@[simp] theorem removePc_cWriter : removePc .cWriter = false := rfl
@[simp] theorem removePc_cTClose : removePc .cTClose = false := rfl
@[simp] theorem removePc_cLoop : removePc .cLoop = false := rfl
@[simp] theorem removePc_cOnDisc : removePc .cOnDisc = false := rfl
@[simp] theorem removePc_cExit : removePc .cExit = false := rfl
@[simp] theorem removePc_done : removePc .done = false := rfl
@[simp] theorem removePc_ite (c : Prop) [Decidable c] (a b : Pc) :
    removePc (if c then a else b) = if c then removePc a else removePc b := apply_ite removePc c a b
@[simp] theorem removePc_unsubRetPc (k : Kind) : removePc (unsubRetPc k) = false := by
  cases k <;> rfl
@[simp] theorem removePc_afterRemove (c : Entry) : removePc (afterRemove c) = false := by
  unfold afterRemove; split <;> (try split) <;> rfl
@[simp] theorem removePc_afterCmdFail (t : Thread) : removePc (afterCmdFail t) = false := by
  unfold afterCmdFail; split <;> rfl
@[simp] theorem removePc_afterChecks (t : Thread) : removePc (afterChecks t) = false := by
  unfold afterChecks; split <;> (try split) <;> rfl
@[simp] theorem removePc_afterPres (t : Thread) : removePc (afterPres t) = false := by
  unfold afterPres; split <;> rfl

def closeGatePc : Pc → Bool
  | .sCloseGate => true
  | _ => false
@[simp] theorem closeGatePc_sReserve : closeGatePc .sReserve = false := rfl
@[simp] theorem closeGatePc_sOnSub : closeGatePc .sOnSub = false := rfl
@[simp] theorem closeGatePc_sReadGen : closeGatePc .sReadGen = false := rfl
@[simp] theorem closeGatePc_sCheck1 : closeGatePc .sCheck1 = false := rfl
@[simp] theorem closeGatePc_sHubAdd : closeGatePc .sHubAdd = false := rfl
@[simp] theorem closeGatePc_sCheck2 : closeGatePc .sCheck2 = false := rfl
@[simp] theorem closeGatePc_sPresAdd : closeGatePc .sPresAdd = false := rfl
@[simp] theorem closeGatePc_sReply : closeGatePc .sReply = false := rfl
@[simp] theorem closeGatePc_sCommit : closeGatePc .sCommit = false := rfl
@[simp] theorem closeGatePc_sRbHub : closeGatePc .sRbHub = false := rfl
@[simp] theorem closeGatePc_sRbPres : closeGatePc .sRbPres = false := rfl
@[simp] theorem closeGatePc_sRbClose : closeGatePc .sRbClose = false := rfl
@[simp] theorem closeGatePc_sCloseGate : closeGatePc .sCloseGate = true := rfl
@[simp] theorem closeGatePc_sDpf : closeGatePc .sDpf = false := rfl
@[simp] theorem closeGatePc_sPush : closeGatePc .sPush = false := rfl
@[simp] theorem closeGatePc_sJoin : closeGatePc .sJoin = false := rfl
@[simp] theorem closeGatePc_sDeferPres : closeGatePc .sDeferPres = false := rfl
@[simp] theorem closeGatePc_sErrDel : closeGatePc .sErrDel = false := rfl
@[simp] theorem closeGatePc_sErrHub : closeGatePc .sErrHub = false := rfl
@[simp] theorem closeGatePc_sErrClose : closeGatePc .sErrClose = false := rfl
@[simp] theorem closeGatePc_sErrOut : closeGatePc .sErrOut = false := rfl
@[simp] theorem closeGatePc_uStatus : closeGatePc .uStatus = false := rfl
@[simp] theorem closeGatePc_uSnap : closeGatePc .uSnap = false := rfl
@[simp] theorem closeGatePc_uWait : closeGatePc .uWait = false := rfl
@[simp] theorem closeGatePc_uTmoLog : closeGatePc .uTmoLog = false := rfl
@[simp] theorem closeGatePc_uRemove : closeGatePc .uRemove = false := rfl
@[simp] theorem closeGatePc_uPresRm : closeGatePc .uPresRm = false := rfl
@[simp] theorem closeGatePc_uLeave : closeGatePc .uLeave = false := rfl
@[simp] theorem closeGatePc_uHubRm : closeGatePc .uHubRm = false := rfl
@[simp] theorem closeGatePc_uOnUnsub : closeGatePc .uOnUnsub = false := rfl
@[simp] theorem closeGatePc_uOut : closeGatePc .uOut = false := rfl
@[simp] theorem closeGatePc_cEnter : closeGatePc .cEnter = false := rfl
@[simp] theorem closeGatePc_cRemoveClient : closeGatePc .cRemoveClient = false := rfl
@[simp] theorem closeGatePc_cDpf : closeGatePc .cDpf = false := rfl
@[simp] theorem closeGatePc_cWriter : closeGatePc .cWriter = false := rfl
@[simp] theorem closeGatePc_cTClose : closeGatePc .cTClose = false := rfl
@[simp] theorem closeGatePc_cLoop : closeGatePc .cLoop = false := rfl
@[simp] theorem closeGatePc_cOnDisc : closeGatePc .cOnDisc = false := rfl
@[simp] theorem closeGatePc_cExit : closeGatePc .cExit = false := rfl
@[simp] theorem closeGatePc_done : closeGatePc .done = false := rfl
@[simp] theorem closeGatePc_ite (c : Prop) [Decidable c] (a b : Pc) :
    closeGatePc (if c then a else b) = if c then closeGatePc a else closeGatePc b := apply_ite closeGatePc c a b
@[simp] theorem closeGatePc_unsubRetPc (k : Kind) : closeGatePc (unsubRetPc k) = false := by
  cases k <;> rfl
@[simp] theorem closeGatePc_afterRemove (c : Entry) : closeGatePc (afterRemove c) = false := by
  unfold afterRemove; split <;> (try split) <;> rfl
@[simp] theorem closeGatePc_afterCmdFail (t : Thread) : closeGatePc (afterCmdFail t) = false := by
  unfold afterCmdFail; split <;> rfl
@[simp] theorem closeGatePc_afterChecks (t : Thread) : closeGatePc (afterChecks t) = false := by
  unfold afterChecks; split <;> (try split) <;> rfl
@[simp] theorem closeGatePc_afterPres (t : Thread) : closeGatePc (afterPres t) = false := by
  unfold afterPres; split <;> rfl

def postDelPc : Pc → Bool
  | .uPresRm | .uLeave | .uHubRm | .uOnUnsub => true
  | _ => false
@[simp] theorem postDelPc_sReserve : postDelPc .sReserve = false := rfl
@[simp] theorem postDelPc_sOnSub : postDelPc .sOnSub = false := rfl
@[simp] theorem postDelPc_sReadGen : postDelPc .sReadGen = false := rfl
@[simp] theorem postDelPc_sCheck1 : postDelPc .sCheck1 = false := rfl
@[simp] theorem postDelPc_sHubAdd : postDelPc .sHubAdd = false := rfl
@[simp] theorem postDelPc_sCheck2 : postDelPc .sCheck2 = false := rfl
@[simp] theorem postDelPc_sPresAdd : postDelPc .sPresAdd = false := rfl
@[simp] theorem postDelPc_sReply : postDelPc .sReply = false := rfl
@[simp] theorem postDelPc_sCommit : postDelPc .sCommit = false := rfl
@[simp] theorem postDelPc_sRbHub : postDelPc .sRbHub = false := rfl
@[simp] theorem postDelPc_sRbPres : postDelPc .sRbPres = false := rfl
@[simp] theorem postDelPc_sRbClose : postDelPc .sRbClose = false := rfl
@[simp] theorem postDelPc_sCloseGate : postDelPc .sCloseGate = false := rfl
@[simp] theorem postDelPc_sDpf : postDelPc .sDpf = false := rfl
@[simp] theorem postDelPc_sPush : postDelPc .sPush = false := rfl
@[simp] theorem postDelPc_sJoin : postDelPc .sJoin = false := rfl
@[simp] theorem postDelPc_sDeferPres : postDelPc .sDeferPres = false := rfl
@[simp] theorem postDelPc_sErrDel : postDelPc .sErrDel = false := rfl
@[simp] theorem postDelPc_sErrHub : postDelPc .sErrHub = false := rfl
@[simp] theorem postDelPc_sErrClose : postDelPc .sErrClose = false := rfl
@[simp] theorem postDelPc_sErrOut : postDelPc .sErrOut = false := rfl
@[simp] theorem postDelPc_uStatus : postDelPc .uStatus = false := rfl
@[simp] theorem postDelPc_uSnap : postDelPc .uSnap = false := rfl
@[simp] theorem postDelPc_uWait : postDelPc .uWait = false := rfl
@[simp] theorem postDelPc_uTmoLog : postDelPc .uTmoLog = false := rfl
@[simp] theorem postDelPc_uRemove : postDelPc .uRemove = false := rfl
@[simp] theorem postDelPc_uPresRm : postDelPc .uPresRm = true := rfl
@[simp] theorem postDelPc_uLeave : postDelPc .uLeave = true := rfl
@[simp] theorem postDelPc_uHubRm : postDelPc .uHubRm = true := rfl
@[simp] theorem postDelPc_uOnUnsub : postDelPc .uOnUnsub = true := rfl
@[simp] theorem postDelPc_uOut : postDelPc .uOut = false := rfl
@[simp] theorem postDelPc_cEnter : postDelPc .cEnter = false := rfl
@[simp] theorem postDelPc_cRemoveClient : postDelPc .cRemoveClient = false := rfl
@[simp] theorem postDelPc_cDpf : postDelPc .cDpf = false := rfl
@[simp] theorem postDelPc_cWriter : postDelPc .cWriter = false := rfl
@[simp] theorem postDelPc_cTClose : postDelPc .cTClose = false := rfl
@[simp] theorem postDelPc_cLoop : postDelPc .cLoop = false := rfl
@[simp] theorem postDelPc_cOnDisc : postDelPc .cOnDisc = false := rfl
@[simp] theorem postDelPc_cExit : postDelPc .cExit = false := rfl
@[simp] theorem postDelPc_done : postDelPc .done = false := rfl
@[simp] theorem postDelPc_ite (c : Prop) [Decidable c] (a b : Pc) :
    postDelPc (if c then a else b) = if c then postDelPc a else postDelPc b := apply_ite postDelPc c a b
@[simp] theorem postDelPc_unsubRetPc (k : Kind) : postDelPc (unsubRetPc k) = false := by
  cases k <;> rfl
@[simp] theorem postDelPc_afterRemove (c : Entry) : postDelPc (afterRemove c) = true := by
  unfold afterRemove; split <;> (try split) <;> rfl
@[simp] theorem postDelPc_afterCmdFail (t : Thread) : postDelPc (afterCmdFail t) = false := by
  unfold afterCmdFail; split <;> rfl
@[simp] theorem postDelPc_afterChecks (t : Thread) : postDelPc (afterChecks t) = false := by
  unfold afterChecks; split <;> (try split) <;> rfl
@[simp] theorem postDelPc_afterPres (t : Thread) : postDelPc (afterPres t) = false := by
  unfold afterPres; split <;> rfl

def owesHubPc : Pc → Bool
  | .uPresRm | .uLeave | .uHubRm => true
  | _ => false
@[simp] theorem owesHubPc_sReserve : owesHubPc .sReserve = false := rfl
@[simp] theorem owesHubPc_sOnSub : owesHubPc .sOnSub = false := rfl
@[simp] theorem owesHubPc_sReadGen : owesHubPc .sReadGen = false := rfl
@[simp] theorem owesHubPc_sCheck1 : owesHubPc .sCheck1 = false := rfl
@[simp] theorem owesHubPc_sHubAdd : owesHubPc .sHubAdd = false := rfl
@[simp] theorem owesHubPc_sCheck2 : owesHubPc .sCheck2 = false := rfl
@[simp] theorem owesHubPc_sPresAdd : owesHubPc .sPresAdd = false := rfl
@[simp] theorem owesHubPc_sReply : owesHubPc .sReply = false := rfl
@[simp] theorem owesHubPc_sCommit : owesHubPc .sCommit = false := rfl
@[simp] theorem owesHubPc_sRbHub : owesHubPc .sRbHub = false := rfl
@[simp] theorem owesHubPc_sRbPres : owesHubPc .sRbPres = false := rfl
@[simp] theorem owesHubPc_sRbClose : owesHubPc .sRbClose = false := rfl
@[simp] theorem owesHubPc_sCloseGate : owesHubPc .sCloseGate = false := rfl
@[simp] theorem owesHubPc_sDpf : owesHubPc .sDpf = false := rfl
@[simp] theorem owesHubPc_sPush : owesHubPc .sPush = false := rfl
@[simp] theorem owesHubPc_sJoin : owesHubPc .sJoin = false := rfl
@[simp] theorem owesHubPc_sDeferPres : owesHubPc .sDeferPres = false := rfl
@[simp] theorem owesHubPc_sErrDel : owesHubPc .sErrDel = false := rfl
@[simp] theorem owesHubPc_sErrHub : owesHubPc .sErrHub = false := rfl
@[simp] theorem owesHubPc_sErrClose : owesHubPc .sErrClose = false := rfl
@[simp] theorem owesHubPc_sErrOut : owesHubPc .sErrOut = false := rfl
@[simp] theorem owesHubPc_uStatus : owesHubPc .uStatus = false := rfl
@[simp] theorem owesHubPc_uSnap : owesHubPc .uSnap = false := rfl
@[simp] theorem owesHubPc_uWait : owesHubPc .uWait = false := rfl
@[simp] theorem owesHubPc_uTmoLog : owesHubPc .uTmoLog = false := rfl
@[simp] theorem owesHubPc_uRemove : owesHubPc .uRemove = false := rfl
@[simp] theorem owesHubPc_uPresRm : owesHubPc .uPresRm = true := rfl
@[simp] theorem owesHubPc_uLeave : owesHubPc .uLeave = true := rfl
@[simp] theorem owesHubPc_uHubRm : owesHubPc .uHubRm = true := rfl
@[simp] theorem owesHubPc_uOnUnsub : owesHubPc .uOnUnsub = false := rfl
@[simp] theorem owesHubPc_uOut : owesHubPc .uOut = false := rfl
@[simp] theorem owesHubPc_cEnter : owesHubPc .cEnter = false := rfl
@[simp] theorem owesHubPc_cRemoveClient : owesHubPc .cRemoveClient = false := rfl
@[simp] theorem owesHubPc_cDpf : owesHubPc .cDpf = false := rfl
@[simp] theorem owesHubPc_cWriter : owesHubPc .cWriter = false := rfl
@[simp] theorem owesHubPc_cTClose : owesHubPc .cTClose = false := rfl
@[simp] theorem owesHubPc_cLoop : owesHubPc .cLoop = false := rfl
@[simp] theorem owesHubPc_cOnDisc : owesHubPc .cOnDisc = false := rfl
@[simp] theorem owesHubPc_cExit : owesHubPc .cExit = false := rfl
@[simp] theorem owesHubPc_done : owesHubPc .done = false := rfl
@[simp] theorem owesHubPc_ite (c : Prop) [Decidable c] (a b : Pc) :
    owesHubPc (if c then a else b) = if c then owesHubPc a else owesHubPc b := apply_ite owesHubPc c a b
@[simp] theorem owesHubPc_unsubRetPc (k : Kind) : owesHubPc (unsubRetPc k) = false := by
  cases k <;> rfl
@[simp] theorem owesHubPc_afterRemove (c : Entry) : owesHubPc (afterRemove c) = true := by
  unfold afterRemove; split <;> (try split) <;> rfl
@[simp] theorem owesHubPc_afterCmdFail (t : Thread) : owesHubPc (afterCmdFail t) = false := by
  unfold afterCmdFail; split <;> rfl
@[simp] theorem owesHubPc_afterChecks (t : Thread) : owesHubPc (afterChecks t) = false := by
  unfold afterChecks; split <;> (try split) <;> rfl
@[simp] theorem owesHubPc_afterPres (t : Thread) : owesHubPc (afterPres t) = false := by
  unfold afterPres; split <;> rfl

def errHubPc : Pc → Bool
  | .sErrHub => true
  | _ => false
@[simp] theorem errHubPc_sReserve : errHubPc .sReserve = false := rfl
@[simp] theorem errHubPc_sOnSub : errHubPc .sOnSub = false := rfl
@[simp] theorem errHubPc_sReadGen : errHubPc .sReadGen = false := rfl
@[simp] theorem errHubPc_sCheck1 : errHubPc .sCheck1 = false := rfl
@[simp] theorem errHubPc_sHubAdd : errHubPc .sHubAdd = false := rfl
@[simp] theorem errHubPc_sCheck2 : errHubPc .sCheck2 = false := rfl
@[simp] theorem errHubPc_sPresAdd : errHubPc .sPresAdd = false := rfl
@[simp] theorem errHubPc_sReply : errHubPc .sReply = false := rfl
@[simp] theorem errHubPc_sCommit : errHubPc .sCommit = false := rfl
@[simp] theorem errHubPc_sRbHub : errHubPc .sRbHub = false := rfl
@[simp] theorem errHubPc_sRbPres : errHubPc .sRbPres = false := rfl
@[simp] theorem errHubPc_sRbClose : errHubPc .sRbClose = false := rfl
@[simp] theorem errHubPc_sCloseGate : errHubPc .sCloseGate = false := rfl
@[simp] theorem errHubPc_sDpf : errHubPc .sDpf = false := rfl
@[simp] theorem errHubPc_sPush : errHubPc .sPush = false := rfl
@[simp] theorem errHubPc_sJoin : errHubPc .sJoin = false := rfl
@[simp] theorem errHubPc_sDeferPres : errHubPc .sDeferPres = false := rfl
@[simp] theorem errHubPc_sErrDel : errHubPc .sErrDel = false := rfl
@[simp] theorem errHubPc_sErrHub : errHubPc .sErrHub = true := rfl
@[simp] theorem errHubPc_sErrClose : errHubPc .sErrClose = false := rfl
@[simp] theorem errHubPc_sErrOut : errHubPc .sErrOut = false := rfl
@[simp] theorem errHubPc_uStatus : errHubPc .uStatus = false := rfl
@[simp] theorem errHubPc_uSnap : errHubPc .uSnap = false := rfl
@[simp] theorem errHubPc_uWait : errHubPc .uWait = false := rfl
@[simp] theorem errHubPc_uTmoLog : errHubPc .uTmoLog = false := rfl
@[simp] theorem errHubPc_uRemove : errHubPc .uRemove = false := rfl
@[simp] theorem errHubPc_uPresRm : errHubPc .uPresRm = false := rfl
@[simp] theorem errHubPc_uLeave : errHubPc .uLeave = false := rfl
@[simp] theorem errHubPc_uHubRm : errHubPc .uHubRm = false := rfl
@[simp] theorem errHubPc_uOnUnsub : errHubPc .uOnUnsub = false := rfl
@[simp] theorem errHubPc_uOut : errHubPc .uOut = false := rfl
@[simp] theorem errHubPc_cEnter : errHubPc .cEnter = false := rfl
@[simp] theorem errHubPc_cRemoveClient : errHubPc .cRemoveClient = false := rfl
@[simp] theorem errHubPc_cDpf : errHubPc .cDpf = false := rfl
@[simp] theorem errHubPc_cWriter : errHubPc .cWriter = false := rfl
@[simp] theorem errHubPc_cTClose : errHubPc .cTClose = false := rfl
@[simp] theorem errHubPc_cLoop : errHubPc .cLoop = false := rfl
@[simp] theorem errHubPc_cOnDisc : errHubPc .cOnDisc = false := rfl
@[simp] theorem errHubPc_cExit : errHubPc .cExit = false := rfl
@[simp] theorem errHubPc_done : errHubPc .done = false := rfl
@[simp] theorem errHubPc_ite (c : Prop) [Decidable c] (a b : Pc) :
    errHubPc (if c then a else b) = if c then errHubPc a else errHubPc b := apply_ite errHubPc c a b
@[simp] theorem errHubPc_unsubRetPc (k : Kind) : errHubPc (unsubRetPc k) = false := by
  cases k <;> rfl
@[simp] theorem errHubPc_afterRemove (c : Entry) : errHubPc (afterRemove c) = false := by
  unfold afterRemove; split <;> (try split) <;> rfl
@[simp] theorem errHubPc_afterCmdFail (t : Thread) : errHubPc (afterCmdFail t) = false := by
  unfold afterCmdFail; split <;> rfl
@[simp] theorem errHubPc_afterChecks (t : Thread) : errHubPc (afterChecks t) = false := by
  unfold afterChecks; split <;> (try split) <;> rfl
@[simp] theorem errHubPc_afterPres (t : Thread) : errHubPc (afterPres t) = false := by
  unfold afterPres; split <;> rfl

def rbHubPc : Pc → Bool
  | .sRbHub => true
  | _ => false
@[simp] theorem rbHubPc_sReserve : rbHubPc .sReserve = false := rfl
@[simp] theorem rbHubPc_sOnSub : rbHubPc .sOnSub = false := rfl
@[simp] theorem rbHubPc_sReadGen : rbHubPc .sReadGen = false := rfl
@[simp] theorem rbHubPc_sCheck1 : rbHubPc .sCheck1 = false := rfl
@[simp] theorem rbHubPc_sHubAdd : rbHubPc .sHubAdd = false := rfl
@[simp] theorem rbHubPc_sCheck2 : rbHubPc .sCheck2 = false := rfl
@[simp] theorem rbHubPc_sPresAdd : rbHubPc .sPresAdd = false := rfl
@[simp] theorem rbHubPc_sReply : rbHubPc .sReply = false := rfl
@[simp] theorem rbHubPc_sCommit : rbHubPc .sCommit = false := rfl
@[simp] theorem rbHubPc_sRbHub : rbHubPc .sRbHub = true := rfl
@[simp] theorem rbHubPc_sRbPres : rbHubPc .sRbPres = false := rfl
@[simp] theorem rbHubPc_sRbClose : rbHubPc .sRbClose = false := rfl
@[simp] theorem rbHubPc_sCloseGate : rbHubPc .sCloseGate = false := rfl
@[simp] theorem rbHubPc_sDpf : rbHubPc .sDpf = false := rfl
@[simp] theorem rbHubPc_sPush : rbHubPc .sPush = false := rfl
@[simp] theorem rbHubPc_sJoin : rbHubPc .sJoin = false := rfl
@[simp] theorem rbHubPc_sDeferPres : rbHubPc .sDeferPres = false := rfl
@[simp] theorem rbHubPc_sErrDel : rbHubPc .sErrDel = false := rfl
@[simp] theorem rbHubPc_sErrHub : rbHubPc .sErrHub = false := rfl
@[simp] theorem rbHubPc_sErrClose : rbHubPc .sErrClose = false := rfl
@[simp] theorem rbHubPc_sErrOut : rbHubPc .sErrOut = false := rfl
@[simp] theorem rbHubPc_uStatus : rbHubPc .uStatus = false := rfl
@[simp] theorem rbHubPc_uSnap : rbHubPc .uSnap = false := rfl
@[simp] theorem rbHubPc_uWait : rbHubPc .uWait = false := rfl
@[simp] theorem rbHubPc_uTmoLog : rbHubPc .uTmoLog = false := rfl
@[simp] theorem rbHubPc_uRemove : rbHubPc .uRemove = false := rfl
@[simp] theorem rbHubPc_uPresRm : rbHubPc .uPresRm = false := rfl
@[simp] theorem rbHubPc_uLeave : rbHubPc .uLeave = false := rfl
@[simp] theorem rbHubPc_uHubRm : rbHubPc .uHubRm = false := rfl
@[simp] theorem rbHubPc_uOnUnsub : rbHubPc .uOnUnsub = false := rfl
@[simp] theorem rbHubPc_uOut : rbHubPc .uOut = false := rfl
@[simp] theorem rbHubPc_cEnter : rbHubPc .cEnter = false := rfl
@[simp] theorem rbHubPc_cRemoveClient : rbHubPc .cRemoveClient = false := rfl
@[simp] theorem rbHubPc_cDpf : rbHubPc .cDpf = false := rfl
@[simp] theorem rbHubPc_cWriter : rbHubPc .cWriter = false := rfl
@[simp] theorem rbHubPc_cTClose : rbHubPc .cTClose = false := rfl
@[simp] theorem rbHubPc_cLoop : rbHubPc .cLoop = false := rfl
@[simp] theorem rbHubPc_cOnDisc : rbHubPc .cOnDisc = false := rfl
@[simp] theorem rbHubPc_cExit : rbHubPc .cExit = false := rfl
@[simp] theorem rbHubPc_done : rbHubPc .done = false := rfl
@[simp] theorem rbHubPc_ite (c : Prop) [Decidable c] (a b : Pc) :
    rbHubPc (if c then a else b) = if c then rbHubPc a else rbHubPc b := apply_ite rbHubPc c a b
@[simp] theorem rbHubPc_unsubRetPc (k : Kind) : rbHubPc (unsubRetPc k) = false := by
  cases k <;> rfl
@[simp] theorem rbHubPc_afterRemove (c : Entry) : rbHubPc (afterRemove c) = false := by
  unfold afterRemove; split <;> (try split) <;> rfl
@[simp] theorem rbHubPc_afterCmdFail (t : Thread) : rbHubPc (afterCmdFail t) = false := by
  unfold afterCmdFail; split <;> rfl
@[simp] theorem rbHubPc_afterChecks (t : Thread) : rbHubPc (afterChecks t) = false := by
  unfold afterChecks; split <;> (try split) <;> rfl
@[simp] theorem rbHubPc_afterPres (t : Thread) : rbHubPc (afterPres t) = false := by
  unfold afterPres; split <;> rfl

def failPc : Pc → Bool
  | .sDeferPres | .sErrDel => true
  | _ => false
@[simp] theorem failPc_sReserve : failPc .sReserve = false := rfl
@[simp] theorem failPc_sOnSub : failPc .sOnSub = false := rfl
@[simp] theorem failPc_sReadGen : failPc .sReadGen = false := rfl
@[simp] theorem failPc_sCheck1 : failPc .sCheck1 = false := rfl
@[simp] theorem failPc_sHubAdd : failPc .sHubAdd = false := rfl
@[simp] theorem failPc_sCheck2 : failPc .sCheck2 = false := rfl
@[simp] theorem failPc_sPresAdd : failPc .sPresAdd = false := rfl
@[simp] theorem failPc_sReply : failPc .sReply = false := rfl
@[simp] theorem failPc_sCommit : failPc .sCommit = false := rfl
@[simp] theorem failPc_sRbHub : failPc .sRbHub = false := rfl
@[simp] theorem failPc_sRbPres : failPc .sRbPres = false := rfl
@[simp] theorem failPc_sRbClose : failPc .sRbClose = false := rfl
@[simp] theorem failPc_sCloseGate : failPc .sCloseGate = false := rfl
@[simp] theorem failPc_sDpf : failPc .sDpf = false := rfl
@[simp] theorem failPc_sPush : failPc .sPush = false := rfl
@[simp] theorem failPc_sJoin : failPc .sJoin = false := rfl
@[simp] theorem failPc_sDeferPres : failPc .sDeferPres = true := rfl
@[simp] theorem failPc_sErrDel : failPc .sErrDel = true := rfl
@[simp] theorem failPc_sErrHub : failPc .sErrHub = false := rfl
@[simp] theorem failPc_sErrClose : failPc .sErrClose = false := rfl
@[simp] theorem failPc_sErrOut : failPc .sErrOut = false := rfl
@[simp] theorem failPc_uStatus : failPc .uStatus = false := rfl
@[simp] theorem failPc_uSnap : failPc .uSnap = false := rfl
@[simp] theorem failPc_uWait : failPc .uWait = false := rfl
@[simp] theorem failPc_uTmoLog : failPc .uTmoLog = false := rfl
@[simp] theorem failPc_uRemove : failPc .uRemove = false := rfl
@[simp] theorem failPc_uPresRm : failPc .uPresRm = false := rfl
@[simp] theorem failPc_uLeave : failPc .uLeave = false := rfl
@[simp] theorem failPc_uHubRm : failPc .uHubRm = false := rfl
@[simp] theorem failPc_uOnUnsub : failPc .uOnUnsub = false := rfl
@[simp] theorem failPc_uOut : failPc .uOut = false := rfl
@[simp] theorem failPc_cEnter : failPc .cEnter = false := rfl
@[simp] theorem failPc_cRemoveClient : failPc .cRemoveClient = false := rfl
@[simp] theorem failPc_cDpf : failPc .cDpf = false := rfl
@[simp] theorem failPc_cWriter : failPc .cWriter = false := rfl
@[simp] theorem failPc_cTClose : failPc .cTClose = false := rfl
@[simp] theorem failPc_cLoop : failPc .cLoop = false := rfl
@[simp] theorem failPc_cOnDisc : failPc .cOnDisc = false := rfl
@[simp] theorem failPc_cExit : failPc .cExit = false := rfl
@[simp] theorem failPc_done : failPc .done = false := rfl
@[simp] theorem failPc_ite (c : Prop) [Decidable c] (a b : Pc) :
    failPc (if c then a else b) = if c then failPc a else failPc b := apply_ite failPc c a b
@[simp] theorem failPc_unsubRetPc (k : Kind) : failPc (unsubRetPc k) = false := by
  cases k <;> rfl
@[simp] theorem failPc_afterRemove (c : Entry) : failPc (afterRemove c) = false := by
  unfold afterRemove; split <;> (try split) <;> rfl
@[simp] theorem failPc_afterCmdFail (t : Thread) : failPc (afterCmdFail t) = true := by
  unfold afterCmdFail; split <;> rfl
@[simp] theorem failPc_afterChecks (t : Thread) : failPc (afterChecks t) = false := by
  unfold afterChecks; split <;> (try split) <;> rfl
@[simp] theorem failPc_afterPres (t : Thread) : failPc (afterPres t) = false := by
  unfold afterPres; split <;> rfl

def hubHeldPc : Pc → Bool
  | .sCheck2 | .sPresAdd | .sReply | .sCommit => true
  | _ => false
@[simp] theorem hubHeldPc_sReserve : hubHeldPc .sReserve = false := rfl
@[simp] theorem hubHeldPc_sOnSub : hubHeldPc .sOnSub = false := rfl
@[simp] theorem hubHeldPc_sReadGen : hubHeldPc .sReadGen = false := rfl
@[simp] theorem hubHeldPc_sCheck1 : hubHeldPc .sCheck1 = false := rfl
@[simp] theorem hubHeldPc_sHubAdd : hubHeldPc .sHubAdd = false := rfl
@[simp] theorem hubHeldPc_sCheck2 : hubHeldPc .sCheck2 = true := rfl
@[simp] theorem hubHeldPc_sPresAdd : hubHeldPc .sPresAdd = true := rfl
@[simp] theorem hubHeldPc_sReply : hubHeldPc .sReply = true := rfl
@[simp] theorem hubHeldPc_sCommit : hubHeldPc .sCommit = true := rfl
@[simp] theorem hubHeldPc_sRbHub : hubHeldPc .sRbHub = false := rfl
@[simp] theorem hubHeldPc_sRbPres : hubHeldPc .sRbPres = false := rfl
@[simp] theorem hubHeldPc_sRbClose : hubHeldPc .sRbClose = false := rfl
@[simp] theorem hubHeldPc_sCloseGate : hubHeldPc .sCloseGate = false := rfl
@[simp] theorem hubHeldPc_sDpf : hubHeldPc .sDpf = false := rfl
@[simp] theorem hubHeldPc_sPush : hubHeldPc .sPush = false := rfl
@[simp] theorem hubHeldPc_sJoin : hubHeldPc .sJoin = false := rfl
@[simp] theorem hubHeldPc_sDeferPres : hubHeldPc .sDeferPres = false := rfl
@[simp] theorem hubHeldPc_sErrDel : hubHeldPc .sErrDel = false := rfl
@[simp] theorem hubHeldPc_sErrHub : hubHeldPc .sErrHub = false := rfl
@[simp] theorem hubHeldPc_sErrClose : hubHeldPc .sErrClose = false := rfl
@[simp] theorem hubHeldPc_sErrOut : hubHeldPc .sErrOut = false := rfl
@[simp] theorem hubHeldPc_uStatus : hubHeldPc .uStatus = false := rfl
@[simp] theorem hubHeldPc_uSnap : hubHeldPc .uSnap = false := rfl
@[simp] theorem hubHeldPc_uWait : hubHeldPc .uWait = false := rfl
@[simp] theorem hubHeldPc_uTmoLog : hubHeldPc .uTmoLog = false := rfl
@[simp] theorem hubHeldPc_uRemove : hubHeldPc .uRemove = false := rfl
@[simp] theorem hubHeldPc_uPresRm : hubHeldPc .uPresRm = false := rfl
@[simp] theorem hubHeldPc_uLeave : hubHeldPc .uLeave = false := rfl
@[simp] theorem hubHeldPc_uHubRm : hubHeldPc .uHubRm = false := rfl
@[simp] theorem hubHeldPc_uOnUnsub : hubHeldPc .uOnUnsub = false := rfl
@[simp] theorem hubHeldPc_uOut : hubHeldPc .uOut = false := rfl
@[simp] theorem hubHeldPc_cEnter : hubHeldPc .cEnter = false := rfl
@[simp] theorem hubHeldPc_cRemoveClient : hubHeldPc .cRemoveClient = false := rfl
@[simp] theorem hubHeldPc_cDpf : hubHeldPc .cDpf = false := rfl
@[simp] theorem hubHeldPc_cWriter : hubHeldPc .cWriter = false := rfl
@[simp] theorem hubHeldPc_cTClose : hubHeldPc .cTClose = false := rfl
@[simp] theorem hubHeldPc_cLoop : hubHeldPc .cLoop = false := rfl
@[simp] theorem hubHeldPc_cOnDisc : hubHeldPc .cOnDisc = false := rfl
@[simp] theorem hubHeldPc_cExit : hubHeldPc .cExit = false := rfl
@[simp] theorem hubHeldPc_done : hubHeldPc .done = false := rfl
@[simp] theorem hubHeldPc_ite (c : Prop) [Decidable c] (a b : Pc) :
    hubHeldPc (if c then a else b) = if c then hubHeldPc a else hubHeldPc b := apply_ite hubHeldPc c a b
@[simp] theorem hubHeldPc_unsubRetPc (k : Kind) : hubHeldPc (unsubRetPc k) = false := by
  cases k <;> rfl
@[simp] theorem hubHeldPc_afterRemove (c : Entry) : hubHeldPc (afterRemove c) = false := by
  unfold afterRemove; split <;> (try split) <;> rfl
@[simp] theorem hubHeldPc_afterCmdFail (t : Thread) : hubHeldPc (afterCmdFail t) = false := by
  unfold afterCmdFail; split <;> rfl
@[simp] theorem hubHeldPc_afterChecks (t : Thread) : hubHeldPc (afterChecks t) = true := by
  unfold afterChecks; split <;> (try split) <;> rfl
@[simp] theorem hubHeldPc_afterPres (t : Thread) : hubHeldPc (afterPres t) = true := by
  unfold afterPres; split <;> rfl

def presOwnPc : Pc → Bool
  | .sReply | .sCommit | .sRbHub | .sRbPres | .sDeferPres => true
  | _ => false
@[simp] theorem presOwnPc_sReserve : presOwnPc .sReserve = false := rfl
@[simp] theorem presOwnPc_sOnSub : presOwnPc .sOnSub = false := rfl
@[simp] theorem presOwnPc_sReadGen : presOwnPc .sReadGen = false := rfl
@[simp] theorem presOwnPc_sCheck1 : presOwnPc .sCheck1 = false := rfl
@[simp] theorem presOwnPc_sHubAdd : presOwnPc .sHubAdd = false := rfl
@[simp] theorem presOwnPc_sCheck2 : presOwnPc .sCheck2 = false := rfl
@[simp] theorem presOwnPc_sPresAdd : presOwnPc .sPresAdd = false := rfl
@[simp] theorem presOwnPc_sReply : presOwnPc .sReply = true := rfl
@[simp] theorem presOwnPc_sCommit : presOwnPc .sCommit = true := rfl
@[simp] theorem presOwnPc_sRbHub : presOwnPc .sRbHub = true := rfl
@[simp] theorem presOwnPc_sRbPres : presOwnPc .sRbPres = true := rfl
@[simp] theorem presOwnPc_sRbClose : presOwnPc .sRbClose = false := rfl
@[simp] theorem presOwnPc_sCloseGate : presOwnPc .sCloseGate = false := rfl
@[simp] theorem presOwnPc_sDpf : presOwnPc .sDpf = false := rfl
@[simp] theorem presOwnPc_sPush : presOwnPc .sPush = false := rfl
@[simp] theorem presOwnPc_sJoin : presOwnPc .sJoin = false := rfl
@[simp] theorem presOwnPc_sDeferPres : presOwnPc .sDeferPres = true := rfl
@[simp] theorem presOwnPc_sErrDel : presOwnPc .sErrDel = false := rfl
@[simp] theorem presOwnPc_sErrHub : presOwnPc .sErrHub = false := rfl
@[simp] theorem presOwnPc_sErrClose : presOwnPc .sErrClose = false := rfl
@[simp] theorem presOwnPc_sErrOut : presOwnPc .sErrOut = false := rfl
@[simp] theorem presOwnPc_uStatus : presOwnPc .uStatus = false := rfl
@[simp] theorem presOwnPc_uSnap : presOwnPc .uSnap = false := rfl
@[simp] theorem presOwnPc_uWait : presOwnPc .uWait = false := rfl
@[simp] theorem presOwnPc_uTmoLog : presOwnPc .uTmoLog = false := rfl
@[simp] theorem presOwnPc_uRemove : presOwnPc .uRemove = false := rfl
@[simp] theorem presOwnPc_uPresRm : presOwnPc .uPresRm = false := rfl
@[simp] theorem presOwnPc_uLeave : presOwnPc .uLeave = false := rfl
@[simp] theorem presOwnPc_uHubRm : presOwnPc .uHubRm = false := rfl
@[simp] theorem presOwnPc_uOnUnsub : presOwnPc .uOnUnsub = false := rfl
@[simp] theorem presOwnPc_uOut : presOwnPc .uOut = false := rfl
@[simp] theorem presOwnPc_cEnter : presOwnPc .cEnter = false := rfl
@[simp] theorem presOwnPc_cRemoveClient : presOwnPc .cRemoveClient = false := rfl
@[simp] theorem presOwnPc_cDpf : presOwnPc .cDpf = false := rfl
@[simp] theorem presOwnPc_cWriter : presOwnPc .cWriter = false := rfl
@[simp] theorem presOwnPc_cTClose : presOwnPc .cTClose = false := rfl
@[simp] theorem presOwnPc_cLoop : presOwnPc .cLoop = false := rfl
@[simp] theorem presOwnPc_cOnDisc : presOwnPc .cOnDisc = false := rfl
@[simp] theorem presOwnPc_cExit : presOwnPc .cExit = false := rfl
@[simp] theorem presOwnPc_done : presOwnPc .done = false := rfl
@[simp] theorem presOwnPc_ite (c : Prop) [Decidable c] (a b : Pc) :
    presOwnPc (if c then a else b) = if c then presOwnPc a else presOwnPc b := apply_ite presOwnPc c a b
@[simp] theorem presOwnPc_unsubRetPc (k : Kind) : presOwnPc (unsubRetPc k) = false := by
  cases k <;> rfl
@[simp] theorem presOwnPc_afterRemove (c : Entry) : presOwnPc (afterRemove c) = false := by
  unfold afterRemove; split <;> (try split) <;> rfl
@[simp] theorem presOwnPc_afterPres (t : Thread) : presOwnPc (afterPres t) = true := by
  unfold afterPres; split <;> rfl

def uPresRmPc : Pc → Bool
  | .uPresRm => true
  | _ => false
@[simp] theorem uPresRmPc_sReserve : uPresRmPc .sReserve = false := rfl
@[simp] theorem uPresRmPc_sOnSub : uPresRmPc .sOnSub = false := rfl
@[simp] theorem uPresRmPc_sReadGen : uPresRmPc .sReadGen = false := rfl
@[simp] theorem uPresRmPc_sCheck1 : uPresRmPc .sCheck1 = false := rfl
@[simp] theorem uPresRmPc_sHubAdd : uPresRmPc .sHubAdd = false := rfl
@[simp] theorem uPresRmPc_sCheck2 : uPresRmPc .sCheck2 = false := rfl
@[simp] theorem uPresRmPc_sPresAdd : uPresRmPc .sPresAdd = false := rfl
@[simp] theorem uPresRmPc_sReply : uPresRmPc .sReply = false := rfl
@[simp] theorem uPresRmPc_sCommit : uPresRmPc .sCommit = false := rfl
@[simp] theorem uPresRmPc_sRbHub : uPresRmPc .sRbHub = false := rfl
@[simp] theorem uPresRmPc_sRbPres : uPresRmPc .sRbPres = false := rfl
@[simp] theorem uPresRmPc_sRbClose : uPresRmPc .sRbClose = false := rfl
@[simp] theorem uPresRmPc_sCloseGate : uPresRmPc .sCloseGate = false := rfl
@[simp] theorem uPresRmPc_sDpf : uPresRmPc .sDpf = false := rfl
@[simp] theorem uPresRmPc_sPush : uPresRmPc .sPush = false := rfl
@[simp] theorem uPresRmPc_sJoin : uPresRmPc .sJoin = false := rfl
@[simp] theorem uPresRmPc_sDeferPres : uPresRmPc .sDeferPres = false := rfl
@[simp] theorem uPresRmPc_sErrDel : uPresRmPc .sErrDel = false := rfl
@[simp] theorem uPresRmPc_sErrHub : uPresRmPc .sErrHub = false := rfl
@[simp] theorem uPresRmPc_sErrClose : uPresRmPc .sErrClose = false := rfl
@[simp] theorem uPresRmPc_sErrOut : uPresRmPc .sErrOut = false := rfl
@[simp] theorem uPresRmPc_uStatus : uPresRmPc .uStatus = false := rfl
@[simp] theorem uPresRmPc_uSnap : uPresRmPc .uSnap = false := rfl
@[simp] theorem uPresRmPc_uWait : uPresRmPc .uWait = false := rfl
@[simp] theorem uPresRmPc_uTmoLog : uPresRmPc .uTmoLog = false := rfl
@[simp] theorem uPresRmPc_uRemove : uPresRmPc .uRemove = false := rfl
@[simp] theorem uPresRmPc_uPresRm : uPresRmPc .uPresRm = true := rfl
@[simp] theorem uPresRmPc_uLeave : uPresRmPc .uLeave = false := rfl
@[simp] theorem uPresRmPc_uHubRm : uPresRmPc .uHubRm = false := rfl
@[simp] theorem uPresRmPc_uOnUnsub : uPresRmPc .uOnUnsub = false := rfl
@[simp] theorem uPresRmPc_uOut : uPresRmPc .uOut = false := rfl
@[simp] theorem uPresRmPc_cEnter : uPresRmPc .cEnter = false := rfl
@[simp] theorem uPresRmPc_cRemoveClient : uPresRmPc .cRemoveClient = false := rfl
@[simp] theorem uPresRmPc_cDpf : uPresRmPc .cDpf = false := rfl
@[simp] theorem uPresRmPc_cWriter : uPresRmPc .cWriter = false := rfl
@[simp] theorem uPresRmPc_cTClose : uPresRmPc .cTClose = false := rfl
@[simp] theorem uPresRmPc_cLoop : uPresRmPc .cLoop = false := rfl
@[simp] theorem uPresRmPc_cOnDisc : uPresRmPc .cOnDisc = false := rfl
@[simp] theorem uPresRmPc_cExit : uPresRmPc .cExit = false := rfl
@[simp] theorem uPresRmPc_done : uPresRmPc .done = false := rfl
@[simp] theorem uPresRmPc_ite (c : Prop) [Decidable c] (a b : Pc) :
    uPresRmPc (if c then a else b) = if c then uPresRmPc a else uPresRmPc b := apply_ite uPresRmPc c a b
@[simp] theorem uPresRmPc_unsubRetPc (k : Kind) : uPresRmPc (unsubRetPc k) = false := by
  cases k <;> rfl
@[simp] theorem uPresRmPc_afterCmdFail (t : Thread) : uPresRmPc (afterCmdFail t) = false := by
  unfold afterCmdFail; split <;> rfl
@[simp] theorem uPresRmPc_afterChecks (t : Thread) : uPresRmPc (afterChecks t) = false := by
  unfold afterChecks; split <;> (try split) <;> rfl
@[simp] theorem uPresRmPc_afterPres (t : Thread) : uPresRmPc (afterPres t) = false := by
  unfold afterPres; split <;> rfl

def closeWorkPc : Pc → Bool
  | .uSnap => true
  | _ => false
@[simp] theorem closeWorkPc_sReserve : closeWorkPc .sReserve = false := rfl
@[simp] theorem closeWorkPc_sOnSub : closeWorkPc .sOnSub = false := rfl
@[simp] theorem closeWorkPc_sReadGen : closeWorkPc .sReadGen = false := rfl
@[simp] theorem closeWorkPc_sCheck1 : closeWorkPc .sCheck1 = false := rfl
@[simp] theorem closeWorkPc_sHubAdd : closeWorkPc .sHubAdd = false := rfl
@[simp] theorem closeWorkPc_sCheck2 : closeWorkPc .sCheck2 = false := rfl
@[simp] theorem closeWorkPc_sPresAdd : closeWorkPc .sPresAdd = false := rfl
@[simp] theorem closeWorkPc_sReply : closeWorkPc .sReply = false := rfl
@[simp] theorem closeWorkPc_sCommit : closeWorkPc .sCommit = false := rfl
@[simp] theorem closeWorkPc_sRbHub : closeWorkPc .sRbHub = false := rfl
@[simp] theorem closeWorkPc_sRbPres : closeWorkPc .sRbPres = false := rfl
@[simp] theorem closeWorkPc_sRbClose : closeWorkPc .sRbClose = false := rfl
@[simp] theorem closeWorkPc_sCloseGate : closeWorkPc .sCloseGate = false := rfl
@[simp] theorem closeWorkPc_sDpf : closeWorkPc .sDpf = false := rfl
@[simp] theorem closeWorkPc_sPush : closeWorkPc .sPush = false := rfl
@[simp] theorem closeWorkPc_sJoin : closeWorkPc .sJoin = false := rfl
@[simp] theorem closeWorkPc_sDeferPres : closeWorkPc .sDeferPres = false := rfl
@[simp] theorem closeWorkPc_sErrDel : closeWorkPc .sErrDel = false := rfl
@[simp] theorem closeWorkPc_sErrHub : closeWorkPc .sErrHub = false := rfl
@[simp] theorem closeWorkPc_sErrClose : closeWorkPc .sErrClose = false := rfl
@[simp] theorem closeWorkPc_sErrOut : closeWorkPc .sErrOut = false := rfl
@[simp] theorem closeWorkPc_uStatus : closeWorkPc .uStatus = false := rfl
@[simp] theorem closeWorkPc_uSnap : closeWorkPc .uSnap = true := rfl
@[simp] theorem closeWorkPc_uWait : closeWorkPc .uWait = false := rfl
@[simp] theorem closeWorkPc_uTmoLog : closeWorkPc .uTmoLog = false := rfl
@[simp] theorem closeWorkPc_uRemove : closeWorkPc .uRemove = false := rfl
@[simp] theorem closeWorkPc_uPresRm : closeWorkPc .uPresRm = false := rfl
@[simp] theorem closeWorkPc_uLeave : closeWorkPc .uLeave = false := rfl
@[simp] theorem closeWorkPc_uHubRm : closeWorkPc .uHubRm = false := rfl
@[simp] theorem closeWorkPc_uOnUnsub : closeWorkPc .uOnUnsub = false := rfl
@[simp] theorem closeWorkPc_uOut : closeWorkPc .uOut = false := rfl
@[simp] theorem closeWorkPc_cEnter : closeWorkPc .cEnter = false := rfl
@[simp] theorem closeWorkPc_cRemoveClient : closeWorkPc .cRemoveClient = false := rfl
@[simp] theorem closeWorkPc_cDpf : closeWorkPc .cDpf = false := rfl
@[simp] theorem closeWorkPc_cWriter : closeWorkPc .cWriter = false := rfl
@[simp] theorem closeWorkPc_cTClose : closeWorkPc .cTClose = false := rfl
@[simp] theorem closeWorkPc_cLoop : closeWorkPc .cLoop = false := rfl
@[simp] theorem closeWorkPc_cOnDisc : closeWorkPc .cOnDisc = false := rfl
@[simp] theorem closeWorkPc_cExit : closeWorkPc .cExit = false := rfl
@[simp] theorem closeWorkPc_done : closeWorkPc .done = false := rfl
@[simp] theorem closeWorkPc_ite (c : Prop) [Decidable c] (a b : Pc) :
    closeWorkPc (if c then a else b) = if c then closeWorkPc a else closeWorkPc b := apply_ite closeWorkPc c a b
@[simp] theorem closeWorkPc_unsubRetPc (k : Kind) : closeWorkPc (unsubRetPc k) = false := by
  cases k <;> rfl
@[simp] theorem closeWorkPc_afterRemove (c : Entry) : closeWorkPc (afterRemove c) = false := by
  unfold afterRemove; split <;> (try split) <;> rfl
@[simp] theorem closeWorkPc_afterCmdFail (t : Thread) : closeWorkPc (afterCmdFail t) = false := by
  unfold afterCmdFail; split <;> rfl
@[simp] theorem closeWorkPc_afterChecks (t : Thread) : closeWorkPc (afterChecks t) = false := by
  unfold afterChecks; split <;> (try split) <;> rfl
@[simp] theorem closeWorkPc_afterPres (t : Thread) : closeWorkPc (afterPres t) = false := by
  unfold afterPres; split <;> rfl

def cRemoveClientPc : Pc → Bool
  | .cRemoveClient => true
  | _ => false
@[simp] theorem cRemoveClientPc_sReserve : cRemoveClientPc .sReserve = false := rfl
@[simp] theorem cRemoveClientPc_sOnSub : cRemoveClientPc .sOnSub = false := rfl
@[simp] theorem cRemoveClientPc_sReadGen : cRemoveClientPc .sReadGen = false := rfl
@[simp] theorem cRemoveClientPc_sCheck1 : cRemoveClientPc .sCheck1 = false := rfl
@[simp] theorem cRemoveClientPc_sHubAdd : cRemoveClientPc .sHubAdd = false := rfl
@[simp] theorem cRemoveClientPc_sCheck2 : cRemoveClientPc .sCheck2 = false := rfl
@[simp] theorem cRemoveClientPc_sPresAdd : cRemoveClientPc .sPresAdd = false := rfl
@[simp] theorem cRemoveClientPc_sReply : cRemoveClientPc .sReply = false := rfl
@[simp] theorem cRemoveClientPc_sCommit : cRemoveClientPc .sCommit = false := rfl
@[simp] theorem cRemoveClientPc_sRbHub : cRemoveClientPc .sRbHub = false := rfl
@[simp] theorem cRemoveClientPc_sRbPres : cRemoveClientPc .sRbPres = false := rfl
@[simp] theorem cRemoveClientPc_sRbClose : cRemoveClientPc .sRbClose = false := rfl
@[simp] theorem cRemoveClientPc_sCloseGate : cRemoveClientPc .sCloseGate = false := rfl
@[simp] theorem cRemoveClientPc_sDpf : cRemoveClientPc .sDpf = false := rfl
@[simp] theorem cRemoveClientPc_sPush : cRemoveClientPc .sPush = false := rfl
@[simp] theorem cRemoveClientPc_sJoin : cRemoveClientPc .sJoin = false := rfl
@[simp] theorem cRemoveClientPc_sDeferPres : cRemoveClientPc .sDeferPres = false := rfl
@[simp] theorem cRemoveClientPc_sErrDel : cRemoveClientPc .sErrDel = false := rfl
@[simp] theorem cRemoveClientPc_sErrHub : cRemoveClientPc .sErrHub = false := rfl
@[simp] theorem cRemoveClientPc_sErrClose : cRemoveClientPc .sErrClose = false := rfl
@[simp] theorem cRemoveClientPc_sErrOut : cRemoveClientPc .sErrOut = false := rfl
@[simp] theorem cRemoveClientPc_uStatus : cRemoveClientPc .uStatus = false := rfl
@[simp] theorem cRemoveClientPc_uSnap : cRemoveClientPc .uSnap = false := rfl
@[simp] theorem cRemoveClientPc_uWait : cRemoveClientPc .uWait = false := rfl
@[simp] theorem cRemoveClientPc_uTmoLog : cRemoveClientPc .uTmoLog = false := rfl
@[simp] theorem cRemoveClientPc_uRemove : cRemoveClientPc .uRemove = false := rfl
@[simp] theorem cRemoveClientPc_uPresRm : cRemoveClientPc .uPresRm = false := rfl
@[simp] theorem cRemoveClientPc_uLeave : cRemoveClientPc .uLeave = false := rfl
@[simp] theorem cRemoveClientPc_uHubRm : cRemoveClientPc .uHubRm = false := rfl
@[simp] theorem cRemoveClientPc_uOnUnsub : cRemoveClientPc .uOnUnsub = false := rfl
@[simp] theorem cRemoveClientPc_uOut : cRemoveClientPc .uOut = false := rfl
@[simp] theorem cRemoveClientPc_cEnter : cRemoveClientPc .cEnter = false := rfl
@[simp] theorem cRemoveClientPc_cRemoveClient : cRemoveClientPc .cRemoveClient = true := rfl
@[simp] theorem cRemoveClientPc_cDpf : cRemoveClientPc .cDpf = false := rfl
@[simp] theorem cRemoveClientPc_cWriter : cRemoveClientPc .cWriter = false := rfl
@[simp] theorem cRemoveClientPc_cTClose : cRemoveClientPc .cTClose = false := rfl
@[simp] theorem cRemoveClientPc_cLoop : cRemoveClientPc .cLoop = false := rfl
@[simp] theorem cRemoveClientPc_cOnDisc : cRemoveClientPc .cOnDisc = false := rfl
@[simp] theorem cRemoveClientPc_cExit : cRemoveClientPc .cExit = false := rfl
@[simp] theorem cRemoveClientPc_done : cRemoveClientPc .done = false := rfl
@[simp] theorem cRemoveClientPc_ite (c : Prop) [Decidable c] (a b : Pc) :
    cRemoveClientPc (if c then a else b) = if c then cRemoveClientPc a else cRemoveClientPc b := apply_ite cRemoveClientPc c a b
@[simp] theorem cRemoveClientPc_unsubRetPc (k : Kind) : cRemoveClientPc (unsubRetPc k) = false := by
  cases k <;> rfl
@[simp] theorem cRemoveClientPc_afterRemove (c : Entry) : cRemoveClientPc (afterRemove c) = false := by
  unfold afterRemove; split <;> (try split) <;> rfl
@[simp] theorem cRemoveClientPc_afterCmdFail (t : Thread) : cRemoveClientPc (afterCmdFail t) = false := by
  unfold afterCmdFail; split <;> rfl
@[simp] theorem cRemoveClientPc_afterChecks (t : Thread) : cRemoveClientPc (afterChecks t) = false := by
  unfold afterChecks; split <;> (try split) <;> rfl
@[simp] theorem cRemoveClientPc_afterPres (t : Thread) : cRemoveClientPc (afterPres t) = false := by
  unfold afterPres; split <;> rfl

def closeKindPc : Pc → Bool
  | .cEnter | .cRemoveClient | .cDpf | .cWriter | .cTClose | .cLoop | .cOnDisc | .cExit | .uSnap | .uWait | .uTmoLog | .uRemove | .uPresRm | .uLeave | .uHubRm | .uOnUnsub | .done => true
  | _ => false
@[simp] theorem closeKindPc_sReserve : closeKindPc .sReserve = false := rfl
@[simp] theorem closeKindPc_sOnSub : closeKindPc .sOnSub = false := rfl
@[simp] theorem closeKindPc_sReadGen : closeKindPc .sReadGen = false := rfl
@[simp] theorem closeKindPc_sCheck1 : closeKindPc .sCheck1 = false := rfl
@[simp] theorem closeKindPc_sHubAdd : closeKindPc .sHubAdd = false := rfl
@[simp] theorem closeKindPc_sCheck2 : closeKindPc .sCheck2 = false := rfl
@[simp] theorem closeKindPc_sPresAdd : closeKindPc .sPresAdd = false := rfl
@[simp] theorem closeKindPc_sReply : closeKindPc .sReply = false := rfl
@[simp] theorem closeKindPc_sCommit : closeKindPc .sCommit = false := rfl
@[simp] theorem closeKindPc_sRbHub : closeKindPc .sRbHub = false := rfl
@[simp] theorem closeKindPc_sRbPres : closeKindPc .sRbPres = false := rfl
@[simp] theorem closeKindPc_sRbClose : closeKindPc .sRbClose = false := rfl
@[simp] theorem closeKindPc_sCloseGate : closeKindPc .sCloseGate = false := rfl
@[simp] theorem closeKindPc_sDpf : closeKindPc .sDpf = false := rfl
@[simp] theorem closeKindPc_sPush : closeKindPc .sPush = false := rfl
@[simp] theorem closeKindPc_sJoin : closeKindPc .sJoin = false := rfl
@[simp] theorem closeKindPc_sDeferPres : closeKindPc .sDeferPres = false := rfl
@[simp] theorem closeKindPc_sErrDel : closeKindPc .sErrDel = false := rfl
@[simp] theorem closeKindPc_sErrHub : closeKindPc .sErrHub = false := rfl
@[simp] theorem closeKindPc_sErrClose : closeKindPc .sErrClose = false := rfl
@[simp] theorem closeKindPc_sErrOut : closeKindPc .sErrOut = false := rfl
@[simp] theorem closeKindPc_uStatus : closeKindPc .uStatus = false := rfl
@[simp] theorem closeKindPc_uSnap : closeKindPc .uSnap = true := rfl
@[simp] theorem closeKindPc_uWait : closeKindPc .uWait = true := rfl
@[simp] theorem closeKindPc_uTmoLog : closeKindPc .uTmoLog = true := rfl
@[simp] theorem closeKindPc_uRemove : closeKindPc .uRemove = true := rfl
@[simp] theorem closeKindPc_uPresRm : closeKindPc .uPresRm = true := rfl
@[simp] theorem closeKindPc_uLeave : closeKindPc .uLeave = true := rfl
@[simp] theorem closeKindPc_uHubRm : closeKindPc .uHubRm = true := rfl
@[simp] theorem closeKindPc_uOnUnsub : closeKindPc .uOnUnsub = true := rfl
@[simp] theorem closeKindPc_uOut : closeKindPc .uOut = false := rfl
@[simp] theorem closeKindPc_cEnter : closeKindPc .cEnter = true := rfl
@[simp] theorem closeKindPc_cRemoveClient : closeKindPc .cRemoveClient = true := rfl
@[simp] theorem closeKindPc_cDpf : closeKindPc .cDpf = true := rfl
@[simp] theorem closeKindPc_cWriter : closeKindPc .cWriter = true := rfl
@[simp] theorem closeKindPc_cTClose : closeKindPc .cTClose = true := rfl
@[simp] theorem closeKindPc_cLoop : closeKindPc .cLoop = true := rfl
@[simp] theorem closeKindPc_cOnDisc : closeKindPc .cOnDisc = true := rfl
@[simp] theorem closeKindPc_cExit : closeKindPc .cExit = true := rfl
@[simp] theorem closeKindPc_done : closeKindPc .done = true := rfl
@[simp] theorem closeKindPc_ite (c : Prop) [Decidable c] (a b : Pc) :
    closeKindPc (if c then a else b) = if c then closeKindPc a else closeKindPc b := apply_ite closeKindPc c a b
@[simp] theorem closeKindPc_afterRemove (c : Entry) : closeKindPc (afterRemove c) = true := by
  unfold afterRemove; split <;> (try split) <;> rfl
@[simp] theorem closeKindPc_afterCmdFail (t : Thread) : closeKindPc (afterCmdFail t) = false := by
  unfold afterCmdFail; split <;> rfl
@[simp] theorem closeKindPc_afterChecks (t : Thread) : closeKindPc (afterChecks t) = false := by
  unfold afterChecks; split <;> (try split) <;> rfl
@[simp] theorem closeKindPc_afterPres (t : Thread) : closeKindPc (afterPres t) = false := by
  unfold afterPres; split <;> rfl
@[simp] theorem closeKindPc_unsubRetPc_close : closeKindPc (unsubRetPc .close) = true := rfl

def inClosePc : Pc → Bool
  | .cRemoveClient | .cDpf | .cWriter | .cTClose | .cLoop | .cOnDisc | .cExit | .uSnap | .uWait | .uTmoLog | .uRemove | .uPresRm | .uLeave | .uHubRm | .uOnUnsub => true
  | _ => false
@[simp] theorem inClosePc_sReserve : inClosePc .sReserve = false := rfl
@[simp] theorem inClosePc_sOnSub : inClosePc .sOnSub = false := rfl
@[simp] theorem inClosePc_sReadGen : inClosePc .sReadGen = false := rfl
@[simp] theorem inClosePc_sCheck1 : inClosePc .sCheck1 = false := rfl
@[simp] theorem inClosePc_sHubAdd : inClosePc .sHubAdd = false := rfl
@[simp] theorem inClosePc_sCheck2 : inClosePc .sCheck2 = false := rfl
@[simp] theorem inClosePc_sPresAdd : inClosePc .sPresAdd = false := rfl
@[simp] theorem inClosePc_sReply : inClosePc .sReply = false := rfl
@[simp] theorem inClosePc_sCommit : inClosePc .sCommit = false := rfl
@[simp] theorem inClosePc_sRbHub : inClosePc .sRbHub = false := rfl
@[simp] theorem inClosePc_sRbPres : inClosePc .sRbPres = false := rfl
@[simp] theorem inClosePc_sRbClose : inClosePc .sRbClose = false := rfl
@[simp] theorem inClosePc_sCloseGate : inClosePc .sCloseGate = false := rfl
@[simp] theorem inClosePc_sDpf : inClosePc .sDpf = false := rfl
@[simp] theorem inClosePc_sPush : inClosePc .sPush = false := rfl
@[simp] theorem inClosePc_sJoin : inClosePc .sJoin = false := rfl
@[simp] theorem inClosePc_sDeferPres : inClosePc .sDeferPres = false := rfl
@[simp] theorem inClosePc_sErrDel : inClosePc .sErrDel = false := rfl
@[simp] theorem inClosePc_sErrHub : inClosePc .sErrHub = false := rfl
@[simp] theorem inClosePc_sErrClose : inClosePc .sErrClose = false := rfl
@[simp] theorem inClosePc_sErrOut : inClosePc .sErrOut = false := rfl
@[simp] theorem inClosePc_uStatus : inClosePc .uStatus = false := rfl
@[simp] theorem inClosePc_uSnap : inClosePc .uSnap = true := rfl
@[simp] theorem inClosePc_uWait : inClosePc .uWait = true := rfl
@[simp] theorem inClosePc_uTmoLog : inClosePc .uTmoLog = true := rfl
@[simp] theorem inClosePc_uRemove : inClosePc .uRemove = true := rfl
@[simp] theorem inClosePc_uPresRm : inClosePc .uPresRm = true := rfl
@[simp] theorem inClosePc_uLeave : inClosePc .uLeave = true := rfl
@[simp] theorem inClosePc_uHubRm : inClosePc .uHubRm = true := rfl
@[simp] theorem inClosePc_uOnUnsub : inClosePc .uOnUnsub = true := rfl
@[simp] theorem inClosePc_uOut : inClosePc .uOut = false := rfl
@[simp] theorem inClosePc_cEnter : inClosePc .cEnter = false := rfl
@[simp] theorem inClosePc_cRemoveClient : inClosePc .cRemoveClient = true := rfl
@[simp] theorem inClosePc_cDpf : inClosePc .cDpf = true := rfl
@[simp] theorem inClosePc_cWriter : inClosePc .cWriter = true := rfl
@[simp] theorem inClosePc_cTClose : inClosePc .cTClose = true := rfl
@[simp] theorem inClosePc_cLoop : inClosePc .cLoop = true := rfl
@[simp] theorem inClosePc_cOnDisc : inClosePc .cOnDisc = true := rfl
@[simp] theorem inClosePc_cExit : inClosePc .cExit = true := rfl
@[simp] theorem inClosePc_done : inClosePc .done = false := rfl
@[simp] theorem inClosePc_ite (c : Prop) [Decidable c] (a b : Pc) :
    inClosePc (if c then a else b) = if c then inClosePc a else inClosePc b := apply_ite inClosePc c a b
@[simp] theorem inClosePc_afterRemove (c : Entry) : inClosePc (afterRemove c) = true := by
  unfold afterRemove; split <;> (try split) <;> rfl
@[simp] theorem inClosePc_afterCmdFail (t : Thread) : inClosePc (afterCmdFail t) = false := by
  unfold afterCmdFail; split <;> rfl
@[simp] theorem inClosePc_afterChecks (t : Thread) : inClosePc (afterChecks t) = false := by
  unfold afterChecks; split <;> (try split) <;> rfl
@[simp] theorem inClosePc_afterPres (t : Thread) : inClosePc (afterPres t) = false := by
  unfold afterPres; split <;> rfl
@[simp] theorem inClosePc_unsubRetPc_close : inClosePc (unsubRetPc .close) = true := rfl

def snapPc : Pc → Bool
  | .uSnap => true
  | _ => false
@[simp] theorem snapPc_sReserve : snapPc .sReserve = false := rfl
@[simp] theorem snapPc_sOnSub : snapPc .sOnSub = false := rfl
@[simp] theorem snapPc_sReadGen : snapPc .sReadGen = false := rfl
@[simp] theorem snapPc_sCheck1 : snapPc .sCheck1 = false := rfl
@[simp] theorem snapPc_sHubAdd : snapPc .sHubAdd = false := rfl
@[simp] theorem snapPc_sCheck2 : snapPc .sCheck2 = false := rfl
@[simp] theorem snapPc_sPresAdd : snapPc .sPresAdd = false := rfl
@[simp] theorem snapPc_sReply : snapPc .sReply = false := rfl
@[simp] theorem snapPc_sCommit : snapPc .sCommit = false := rfl
@[simp] theorem snapPc_sRbHub : snapPc .sRbHub = false := rfl
@[simp] theorem snapPc_sRbPres : snapPc .sRbPres = false := rfl
@[simp] theorem snapPc_sRbClose : snapPc .sRbClose = false := rfl
@[simp] theorem snapPc_sCloseGate : snapPc .sCloseGate = false := rfl
@[simp] theorem snapPc_sDpf : snapPc .sDpf = false := rfl
@[simp] theorem snapPc_sPush : snapPc .sPush = false := rfl
@[simp] theorem snapPc_sJoin : snapPc .sJoin = false := rfl
@[simp] theorem snapPc_sDeferPres : snapPc .sDeferPres = false := rfl
@[simp] theorem snapPc_sErrDel : snapPc .sErrDel = false := rfl
@[simp] theorem snapPc_sErrHub : snapPc .sErrHub = false := rfl
@[simp] theorem snapPc_sErrClose : snapPc .sErrClose = false := rfl
@[simp] theorem snapPc_sErrOut : snapPc .sErrOut = false := rfl
@[simp] theorem snapPc_uStatus : snapPc .uStatus = false := rfl
@[simp] theorem snapPc_uSnap : snapPc .uSnap = true := rfl
@[simp] theorem snapPc_uWait : snapPc .uWait = false := rfl
@[simp] theorem snapPc_uTmoLog : snapPc .uTmoLog = false := rfl
@[simp] theorem snapPc_uRemove : snapPc .uRemove = false := rfl
@[simp] theorem snapPc_uPresRm : snapPc .uPresRm = false := rfl
@[simp] theorem snapPc_uLeave : snapPc .uLeave = false := rfl
@[simp] theorem snapPc_uHubRm : snapPc .uHubRm = false := rfl
@[simp] theorem snapPc_uOnUnsub : snapPc .uOnUnsub = false := rfl
@[simp] theorem snapPc_uOut : snapPc .uOut = false := rfl
@[simp] theorem snapPc_cEnter : snapPc .cEnter = false := rfl
@[simp] theorem snapPc_cRemoveClient : snapPc .cRemoveClient = false := rfl
@[simp] theorem snapPc_cDpf : snapPc .cDpf = false := rfl
@[simp] theorem snapPc_cWriter : snapPc .cWriter = false := rfl
@[simp] theorem snapPc_cTClose : snapPc .cTClose = false := rfl
@[simp] theorem snapPc_cLoop : snapPc .cLoop = false := rfl
@[simp] theorem snapPc_cOnDisc : snapPc .cOnDisc = false := rfl
@[simp] theorem snapPc_cExit : snapPc .cExit = false := rfl
@[simp] theorem snapPc_done : snapPc .done = false := rfl
@[simp] theorem snapPc_ite (c : Prop) [Decidable c] (a b : Pc) :
    snapPc (if c then a else b) = if c then snapPc a else snapPc b := apply_ite snapPc c a b
@[simp] theorem snapPc_unsubRetPc (k : Kind) : snapPc (unsubRetPc k) = false := by
  cases k <;> rfl
@[simp] theorem snapPc_afterRemove (c : Entry) : snapPc (afterRemove c) = false := by
  unfold afterRemove; split <;> (try split) <;> rfl
@[simp] theorem snapPc_afterCmdFail (t : Thread) : snapPc (afterCmdFail t) = false := by
  unfold afterCmdFail; split <;> rfl
@[simp] theorem snapPc_afterChecks (t : Thread) : snapPc (afterChecks t) = false := by
  unfold afterChecks; split <;> (try split) <;> rfl
@[simp] theorem snapPc_afterPres (t : Thread) : snapPc (afterPres t) = false := by
  unfold afterPres; split <;> rfl
@[simp] theorem snapPc_unsubRetPc_close : snapPc (unsubRetPc .close) = false := rfl

def unsubWorkPc : Pc → Bool
  | .uSnap | .uWait | .uTmoLog | .uRemove | .uPresRm | .uLeave | .uHubRm | .uOnUnsub => true
  | _ => false
@[simp] theorem unsubWorkPc_sReserve : unsubWorkPc .sReserve = false := rfl
@[simp] theorem unsubWorkPc_sOnSub : unsubWorkPc .sOnSub = false := rfl
@[simp] theorem unsubWorkPc_sReadGen : unsubWorkPc .sReadGen = false := rfl
@[simp] theorem unsubWorkPc_sCheck1 : unsubWorkPc .sCheck1 = false := rfl
@[simp] theorem unsubWorkPc_sHubAdd : unsubWorkPc .sHubAdd = false := rfl
@[simp] theorem unsubWorkPc_sCheck2 : unsubWorkPc .sCheck2 = false := rfl
@[simp] theorem unsubWorkPc_sPresAdd : unsubWorkPc .sPresAdd = false := rfl
@[simp] theorem unsubWorkPc_sReply : unsubWorkPc .sReply = false := rfl
@[simp] theorem unsubWorkPc_sCommit : unsubWorkPc .sCommit = false := rfl
@[simp] theorem unsubWorkPc_sRbHub : unsubWorkPc .sRbHub = false := rfl
@[simp] theorem unsubWorkPc_sRbPres : unsubWorkPc .sRbPres = false := rfl
@[simp] theorem unsubWorkPc_sRbClose : unsubWorkPc .sRbClose = false := rfl
@[simp] theorem unsubWorkPc_sCloseGate : unsubWorkPc .sCloseGate = false := rfl
@[simp] theorem unsubWorkPc_sDpf : unsubWorkPc .sDpf = false := rfl
@[simp] theorem unsubWorkPc_sPush : unsubWorkPc .sPush = false := rfl
@[simp] theorem unsubWorkPc_sJoin : unsubWorkPc .sJoin = false := rfl
@[simp] theorem unsubWorkPc_sDeferPres : unsubWorkPc .sDeferPres = false := rfl
@[simp] theorem unsubWorkPc_sErrDel : unsubWorkPc .sErrDel = false := rfl
@[simp] theorem unsubWorkPc_sErrHub : unsubWorkPc .sErrHub = false := rfl
@[simp] theorem unsubWorkPc_sErrClose : unsubWorkPc .sErrClose = false := rfl
@[simp] theorem unsubWorkPc_sErrOut : unsubWorkPc .sErrOut = false := rfl
@[simp] theorem unsubWorkPc_uStatus : unsubWorkPc .uStatus = false := rfl
@[simp] theorem unsubWorkPc_uSnap : unsubWorkPc .uSnap = true := rfl
@[simp] theorem unsubWorkPc_uWait : unsubWorkPc .uWait = true := rfl
@[simp] theorem unsubWorkPc_uTmoLog : unsubWorkPc .uTmoLog = true := rfl
@[simp] theorem unsubWorkPc_uRemove : unsubWorkPc .uRemove = true := rfl
@[simp] theorem unsubWorkPc_uPresRm : unsubWorkPc .uPresRm = true := rfl
@[simp] theorem unsubWorkPc_uLeave : unsubWorkPc .uLeave = true := rfl
@[simp] theorem unsubWorkPc_uHubRm : unsubWorkPc .uHubRm = true := rfl
@[simp] theorem unsubWorkPc_uOnUnsub : unsubWorkPc .uOnUnsub = true := rfl
@[simp] theorem unsubWorkPc_uOut : unsubWorkPc .uOut = false := rfl
@[simp] theorem unsubWorkPc_cEnter : unsubWorkPc .cEnter = false := rfl
@[simp] theorem unsubWorkPc_cRemoveClient : unsubWorkPc .cRemoveClient = false := rfl
@[simp] theorem unsubWorkPc_cDpf : unsubWorkPc .cDpf = false := rfl
@[simp] theorem unsubWorkPc_cWriter : unsubWorkPc .cWriter = false := rfl
@[simp] theorem unsubWorkPc_cTClose : unsubWorkPc .cTClose = false := rfl
@[simp] theorem unsubWorkPc_cLoop : unsubWorkPc .cLoop = false := rfl
@[simp] theorem unsubWorkPc_cOnDisc : unsubWorkPc .cOnDisc = false := rfl
@[simp] theorem unsubWorkPc_cExit : unsubWorkPc .cExit = false := rfl
@[simp] theorem unsubWorkPc_done : unsubWorkPc .done = false := rfl
@[simp] theorem unsubWorkPc_ite (c : Prop) [Decidable c] (a b : Pc) :
    unsubWorkPc (if c then a else b) = if c then unsubWorkPc a else unsubWorkPc b := apply_ite unsubWorkPc c a b
@[simp] theorem unsubWorkPc_unsubRetPc (k : Kind) : unsubWorkPc (unsubRetPc k) = false := by
  cases k <;> rfl
@[simp] theorem unsubWorkPc_afterRemove (c : Entry) : unsubWorkPc (afterRemove c) = true := by
  unfold afterRemove; split <;> (try split) <;> rfl
@[simp] theorem unsubWorkPc_afterCmdFail (t : Thread) : unsubWorkPc (afterCmdFail t) = false := by
  unfold afterCmdFail; split <;> rfl
@[simp] theorem unsubWorkPc_afterChecks (t : Thread) : unsubWorkPc (afterChecks t) = false := by
  unfold afterChecks; split <;> (try split) <;> rfl
@[simp] theorem unsubWorkPc_afterPres (t : Thread) : unsubWorkPc (afterPres t) = false := by
  unfold afterPres; split <;> rfl
@[simp] theorem unsubWorkPc_unsubRetPc_close : unsubWorkPc (unsubRetPc .close) = false := rfl

def donePendPc : Pc → Bool
  | .cOnDisc | .cExit => true
  | _ => false
@[simp] theorem donePendPc_sReserve : donePendPc .sReserve = false := rfl
@[simp] theorem donePendPc_sOnSub : donePendPc .sOnSub = false := rfl
@[simp] theorem donePendPc_sReadGen : donePendPc .sReadGen = false := rfl
@[simp] theorem donePendPc_sCheck1 : donePendPc .sCheck1 = false := rfl
@[simp] theorem donePendPc_sHubAdd : donePendPc .sHubAdd = false := rfl
@[simp] theorem donePendPc_sCheck2 : donePendPc .sCheck2 = false := rfl
@[simp] theorem donePendPc_sPresAdd : donePendPc .sPresAdd = false := rfl
@[simp] theorem donePendPc_sReply : donePendPc .sReply = false := rfl
@[simp] theorem donePendPc_sCommit : donePendPc .sCommit = false := rfl
@[simp] theorem donePendPc_sRbHub : donePendPc .sRbHub = false := rfl
@[simp] theorem donePendPc_sRbPres : donePendPc .sRbPres = false := rfl
@[simp] theorem donePendPc_sRbClose : donePendPc .sRbClose = false := rfl
@[simp] theorem donePendPc_sCloseGate : donePendPc .sCloseGate = false := rfl
@[simp] theorem donePendPc_sDpf : donePendPc .sDpf = false := rfl
@[simp] theorem donePendPc_sPush : donePendPc .sPush = false := rfl
@[simp] theorem donePendPc_sJoin : donePendPc .sJoin = false := rfl
@[simp] theorem donePendPc_sDeferPres : donePendPc .sDeferPres = false := rfl
@[simp] theorem donePendPc_sErrDel : donePendPc .sErrDel = false := rfl
@[simp] theorem donePendPc_sErrHub : donePendPc .sErrHub = false := rfl
@[simp] theorem donePendPc_sErrClose : donePendPc .sErrClose = false := rfl
@[simp] theorem donePendPc_sErrOut : donePendPc .sErrOut = false := rfl
@[simp] theorem donePendPc_uStatus : donePendPc .uStatus = false := rfl
@[simp] theorem donePendPc_uSnap : donePendPc .uSnap = false := rfl
@[simp] theorem donePendPc_uWait : donePendPc .uWait = false := rfl
@[simp] theorem donePendPc_uTmoLog : donePendPc .uTmoLog = false := rfl
@[simp] theorem donePendPc_uRemove : donePendPc .uRemove = false := rfl
@[simp] theorem donePendPc_uPresRm : donePendPc .uPresRm = false := rfl
@[simp] theorem donePendPc_uLeave : donePendPc .uLeave = false := rfl
@[simp] theorem donePendPc_uHubRm : donePendPc .uHubRm = false := rfl
@[simp] theorem donePendPc_uOnUnsub : donePendPc .uOnUnsub = false := rfl
@[simp] theorem donePendPc_uOut : donePendPc .uOut = false := rfl
@[simp] theorem donePendPc_cEnter : donePendPc .cEnter = false := rfl
@[simp] theorem donePendPc_cRemoveClient : donePendPc .cRemoveClient = false := rfl
@[simp] theorem donePendPc_cDpf : donePendPc .cDpf = false := rfl
@[simp] theorem donePendPc_cWriter : donePendPc .cWriter = false := rfl
@[simp] theorem donePendPc_cTClose : donePendPc .cTClose = false := rfl
@[simp] theorem donePendPc_cLoop : donePendPc .cLoop = false := rfl
@[simp] theorem donePendPc_cOnDisc : donePendPc .cOnDisc = true := rfl
@[simp] theorem donePendPc_cExit : donePendPc .cExit = true := rfl
@[simp] theorem donePendPc_done : donePendPc .done = false := rfl
@[simp] theorem donePendPc_ite (c : Prop) [Decidable c] (a b : Pc) :
    donePendPc (if c then a else b) = if c then donePendPc a else donePendPc b := apply_ite donePendPc c a b
@[simp] theorem donePendPc_unsubRetPc (k : Kind) : donePendPc (unsubRetPc k) = false := by
  cases k <;> rfl
@[simp] theorem donePendPc_afterRemove (c : Entry) : donePendPc (afterRemove c) = false := by
  unfold afterRemove; split <;> (try split) <;> rfl
@[simp] theorem donePendPc_afterCmdFail (t : Thread) : donePendPc (afterCmdFail t) = false := by
  unfold afterCmdFail; split <;> rfl
@[simp] theorem donePendPc_afterChecks (t : Thread) : donePendPc (afterChecks t) = false := by
  unfold afterChecks; split <;> (try split) <;> rfl
@[simp] theorem donePendPc_afterPres (t : Thread) : donePendPc (afterPres t) = false := by
  unfold afterPres; split <;> rfl
@[simp] theorem donePendPc_unsubRetPc_close : donePendPc (unsubRetPc .close) = false := rfl

def cPc : Pc → Bool
  | .cEnter | .cRemoveClient | .cDpf | .cWriter | .cTClose | .cLoop | .cOnDisc | .cExit => true
  | _ => false
@[simp] theorem cPc_sReserve : cPc .sReserve = false := rfl
@[simp] theorem cPc_sOnSub : cPc .sOnSub = false := rfl
@[simp] theorem cPc_sReadGen : cPc .sReadGen = false := rfl
@[simp] theorem cPc_sCheck1 : cPc .sCheck1 = false := rfl
@[simp] theorem cPc_sHubAdd : cPc .sHubAdd = false := rfl
@[simp] theorem cPc_sCheck2 : cPc .sCheck2 = false := rfl
@[simp] theorem cPc_sPresAdd : cPc .sPresAdd = false := rfl
@[simp] theorem cPc_sReply : cPc .sReply = false := rfl
@[simp] theorem cPc_sCommit : cPc .sCommit = false := rfl
@[simp] theorem cPc_sRbHub : cPc .sRbHub = false := rfl
@[simp] theorem cPc_sRbPres : cPc .sRbPres = false := rfl
@[simp] theorem cPc_sRbClose : cPc .sRbClose = false := rfl
@[simp] theorem cPc_sCloseGate : cPc .sCloseGate = false := rfl
@[simp] theorem cPc_sDpf : cPc .sDpf = false := rfl
@[simp] theorem cPc_sPush : cPc .sPush = false := rfl
@[simp] theorem cPc_sJoin : cPc .sJoin = false := rfl
@[simp] theorem cPc_sDeferPres : cPc .sDeferPres = false := rfl
@[simp] theorem cPc_sErrDel : cPc .sErrDel = false := rfl
@[simp] theorem cPc_sErrHub : cPc .sErrHub = false := rfl
@[simp] theorem cPc_sErrClose : cPc .sErrClose = false := rfl
@[simp] theorem cPc_sErrOut : cPc .sErrOut = false := rfl
@[simp] theorem cPc_uStatus : cPc .uStatus = false := rfl
@[simp] theorem cPc_uSnap : cPc .uSnap = false := rfl
@[simp] theorem cPc_uWait : cPc .uWait = false := rfl
@[simp] theorem cPc_uTmoLog : cPc .uTmoLog = false := rfl
@[simp] theorem cPc_uRemove : cPc .uRemove = false := rfl
@[simp] theorem cPc_uPresRm : cPc .uPresRm = false := rfl
@[simp] theorem cPc_uLeave : cPc .uLeave = false := rfl
@[simp] theorem cPc_uHubRm : cPc .uHubRm = false := rfl
@[simp] theorem cPc_uOnUnsub : cPc .uOnUnsub = false := rfl
@[simp] theorem cPc_uOut : cPc .uOut = false := rfl
@[simp] theorem cPc_cEnter : cPc .cEnter = true := rfl
@[simp] theorem cPc_cRemoveClient : cPc .cRemoveClient = true := rfl
@[simp] theorem cPc_cDpf : cPc .cDpf = true := rfl
@[simp] theorem cPc_cWriter : cPc .cWriter = true := rfl
@[simp] theorem cPc_cTClose : cPc .cTClose = true := rfl
@[simp] theorem cPc_cLoop : cPc .cLoop = true := rfl
@[simp] theorem cPc_cOnDisc : cPc .cOnDisc = true := rfl
@[simp] theorem cPc_cExit : cPc .cExit = true := rfl
@[simp] theorem cPc_done : cPc .done = false := rfl
@[simp] theorem cPc_ite (c : Prop) [Decidable c] (a b : Pc) :
    cPc (if c then a else b) = if c then cPc a else cPc b := apply_ite cPc c a b
@[simp] theorem cPc_afterRemove (c : Entry) : cPc (afterRemove c) = false := by
  unfold afterRemove; split <;> (try split) <;> rfl
@[simp] theorem cPc_afterCmdFail (t : Thread) : cPc (afterCmdFail t) = false := by
  unfold afterCmdFail; split <;> rfl
@[simp] theorem cPc_afterChecks (t : Thread) : cPc (afterChecks t) = false := by
  unfold afterChecks; split <;> (try split) <;> rfl
@[simp] theorem cPc_afterPres (t : Thread) : cPc (afterPres t) = false := by
  unfold afterPres; split <;> rfl
@[simp] theorem cPc_unsubRetPc (k : Kind) : cPc (unsubRetPc k) = (k == .close) := by cases k <;> rfl

def presAddPc : Pc → Bool
  | .sPresAdd => true
  | _ => false
@[simp] theorem presAddPc_sReserve : presAddPc .sReserve = false := rfl
@[simp] theorem presAddPc_sOnSub : presAddPc .sOnSub = false := rfl
@[simp] theorem presAddPc_sReadGen : presAddPc .sReadGen = false := rfl
@[simp] theorem presAddPc_sCheck1 : presAddPc .sCheck1 = false := rfl
@[simp] theorem presAddPc_sHubAdd : presAddPc .sHubAdd = false := rfl
@[simp] theorem presAddPc_sCheck2 : presAddPc .sCheck2 = false := rfl
@[simp] theorem presAddPc_sPresAdd : presAddPc .sPresAdd = true := rfl
@[simp] theorem presAddPc_sReply : presAddPc .sReply = false := rfl
@[simp] theorem presAddPc_sCommit : presAddPc .sCommit = false := rfl
@[simp] theorem presAddPc_sRbHub : presAddPc .sRbHub = false := rfl
@[simp] theorem presAddPc_sRbPres : presAddPc .sRbPres = false := rfl
@[simp] theorem presAddPc_sRbClose : presAddPc .sRbClose = false := rfl
@[simp] theorem presAddPc_sCloseGate : presAddPc .sCloseGate = false := rfl
@[simp] theorem presAddPc_sDpf : presAddPc .sDpf = false := rfl
@[simp] theorem presAddPc_sPush : presAddPc .sPush = false := rfl
@[simp] theorem presAddPc_sJoin : presAddPc .sJoin = false := rfl
@[simp] theorem presAddPc_sDeferPres : presAddPc .sDeferPres = false := rfl
@[simp] theorem presAddPc_sErrDel : presAddPc .sErrDel = false := rfl
@[simp] theorem presAddPc_sErrHub : presAddPc .sErrHub = false := rfl
@[simp] theorem presAddPc_sErrClose : presAddPc .sErrClose = false := rfl
@[simp] theorem presAddPc_sErrOut : presAddPc .sErrOut = false := rfl
@[simp] theorem presAddPc_uStatus : presAddPc .uStatus = false := rfl
@[simp] theorem presAddPc_uSnap : presAddPc .uSnap = false := rfl
@[simp] theorem presAddPc_uWait : presAddPc .uWait = false := rfl
@[simp] theorem presAddPc_uTmoLog : presAddPc .uTmoLog = false := rfl
@[simp] theorem presAddPc_uRemove : presAddPc .uRemove = false := rfl
@[simp] theorem presAddPc_uPresRm : presAddPc .uPresRm = false := rfl
@[simp] theorem presAddPc_uLeave : presAddPc .uLeave = false := rfl
@[simp] theorem presAddPc_uHubRm : presAddPc .uHubRm = false := rfl
@[simp] theorem presAddPc_uOnUnsub : presAddPc .uOnUnsub = false := rfl
@[simp] theorem presAddPc_uOut : presAddPc .uOut = false := rfl
@[simp] theorem presAddPc_cEnter : presAddPc .cEnter = false := rfl
@[simp] theorem presAddPc_cRemoveClient : presAddPc .cRemoveClient = false := rfl
@[simp] theorem presAddPc_cDpf : presAddPc .cDpf = false := rfl
@[simp] theorem presAddPc_cWriter : presAddPc .cWriter = false := rfl
@[simp] theorem presAddPc_cTClose : presAddPc .cTClose = false := rfl
@[simp] theorem presAddPc_cLoop : presAddPc .cLoop = false := rfl
@[simp] theorem presAddPc_cOnDisc : presAddPc .cOnDisc = false := rfl
@[simp] theorem presAddPc_cExit : presAddPc .cExit = false := rfl
@[simp] theorem presAddPc_done : presAddPc .done = false := rfl
@[simp] theorem presAddPc_ite (c : Prop) [Decidable c] (a b : Pc) :
    presAddPc (if c then a else b) = if c then presAddPc a else presAddPc b := apply_ite presAddPc c a b
@[simp] theorem presAddPc_unsubRetPc (k : Kind) : presAddPc (unsubRetPc k) = false := by
  cases k <;> rfl
@[simp] theorem presAddPc_afterRemove (c : Entry) : presAddPc (afterRemove c) = false := by
  unfold afterRemove; split <;> (try split) <;> rfl
@[simp] theorem presAddPc_afterCmdFail (t : Thread) : presAddPc (afterCmdFail t) = false := by
  unfold afterCmdFail; split <;> rfl
@[simp] theorem presAddPc_afterPres (t : Thread) : presAddPc (afterPres t) = false := by
  unfold afterPres; split <;> rfl
@[simp] theorem presAddPc_afterChecks (t : Thread) : presAddPc (afterChecks t) = t.opts.presence := by
  unfold afterChecks; cases t.opts.presence <;> simp <;> split <;> rfl

def preJoinPc : Pc → Bool
  | .sOnSub | .sReadGen | .sCheck1 | .sHubAdd | .sCheck2 | .sPresAdd | .sReply | .sCommit | .sCloseGate | .sDpf | .sPush | .sJoin => true
  | _ => false
@[simp] theorem preJoinPc_sReserve : preJoinPc .sReserve = false := rfl
@[simp] theorem preJoinPc_sOnSub : preJoinPc .sOnSub = true := rfl
@[simp] theorem preJoinPc_sReadGen : preJoinPc .sReadGen = true := rfl
@[simp] theorem preJoinPc_sCheck1 : preJoinPc .sCheck1 = true := rfl
@[simp] theorem preJoinPc_sHubAdd : preJoinPc .sHubAdd = true := rfl
@[simp] theorem preJoinPc_sCheck2 : preJoinPc .sCheck2 = true := rfl
@[simp] theorem preJoinPc_sPresAdd : preJoinPc .sPresAdd = true := rfl
@[simp] theorem preJoinPc_sReply : preJoinPc .sReply = true := rfl
@[simp] theorem preJoinPc_sCommit : preJoinPc .sCommit = true := rfl
@[simp] theorem preJoinPc_sRbHub : preJoinPc .sRbHub = false := rfl
@[simp] theorem preJoinPc_sRbPres : preJoinPc .sRbPres = false := rfl
@[simp] theorem preJoinPc_sRbClose : preJoinPc .sRbClose = false := rfl
@[simp] theorem preJoinPc_sCloseGate : preJoinPc .sCloseGate = true := rfl
@[simp] theorem preJoinPc_sDpf : preJoinPc .sDpf = true := rfl
@[simp] theorem preJoinPc_sPush : preJoinPc .sPush = true := rfl
@[simp] theorem preJoinPc_sJoin : preJoinPc .sJoin = true := rfl
@[simp] theorem preJoinPc_sDeferPres : preJoinPc .sDeferPres = false := rfl
@[simp] theorem preJoinPc_sErrDel : preJoinPc .sErrDel = false := rfl
@[simp] theorem preJoinPc_sErrHub : preJoinPc .sErrHub = false := rfl
@[simp] theorem preJoinPc_sErrClose : preJoinPc .sErrClose = false := rfl
@[simp] theorem preJoinPc_sErrOut : preJoinPc .sErrOut = false := rfl
@[simp] theorem preJoinPc_uStatus : preJoinPc .uStatus = false := rfl
@[simp] theorem preJoinPc_uSnap : preJoinPc .uSnap = false := rfl
@[simp] theorem preJoinPc_uWait : preJoinPc .uWait = false := rfl
@[simp] theorem preJoinPc_uTmoLog : preJoinPc .uTmoLog = false := rfl
@[simp] theorem preJoinPc_uRemove : preJoinPc .uRemove = false := rfl
@[simp] theorem preJoinPc_uPresRm : preJoinPc .uPresRm = false := rfl
@[simp] theorem preJoinPc_uLeave : preJoinPc .uLeave = false := rfl
@[simp] theorem preJoinPc_uHubRm : preJoinPc .uHubRm = false := rfl
@[simp] theorem preJoinPc_uOnUnsub : preJoinPc .uOnUnsub = false := rfl
@[simp] theorem preJoinPc_uOut : preJoinPc .uOut = false := rfl
@[simp] theorem preJoinPc_cEnter : preJoinPc .cEnter = false := rfl
@[simp] theorem preJoinPc_cRemoveClient : preJoinPc .cRemoveClient = false := rfl
@[simp] theorem preJoinPc_cDpf : preJoinPc .cDpf = false := rfl
@[simp] theorem preJoinPc_cWriter : preJoinPc .cWriter = false := rfl
@[simp] theorem preJoinPc_cTClose : preJoinPc .cTClose = false := rfl
@[simp] theorem preJoinPc_cLoop : preJoinPc .cLoop = false := rfl
@[simp] theorem preJoinPc_cOnDisc : preJoinPc .cOnDisc = false := rfl
@[simp] theorem preJoinPc_cExit : preJoinPc .cExit = false := rfl
@[simp] theorem preJoinPc_done : preJoinPc .done = false := rfl
@[simp] theorem preJoinPc_ite (c : Prop) [Decidable c] (a b : Pc) :
    preJoinPc (if c then a else b) = if c then preJoinPc a else preJoinPc b := apply_ite preJoinPc c a b
@[simp] theorem preJoinPc_unsubRetPc (k : Kind) : preJoinPc (unsubRetPc k) = false := by
  cases k <;> rfl
@[simp] theorem preJoinPc_afterRemove (c : Entry) : preJoinPc (afterRemove c) = false := by
  unfold afterRemove; split <;> (try split) <;> rfl
@[simp] theorem preJoinPc_afterCmdFail (t : Thread) : preJoinPc (afterCmdFail t) = false := by
  unfold afterCmdFail; split <;> rfl
@[simp] theorem preJoinPc_afterChecks (t : Thread) : preJoinPc (afterChecks t) = true := by
  unfold afterChecks; split <;> (try split) <;> rfl
@[simp] theorem preJoinPc_afterPres (t : Thread) : preJoinPc (afterPres t) = true := by
  unfold afterPres; split <;> rfl

def preLeavePc : Pc → Bool
  | .uPresRm | .uLeave => true
  | _ => false
@[simp] theorem preLeavePc_sReserve : preLeavePc .sReserve = false := rfl
@[simp] theorem preLeavePc_sOnSub : preLeavePc .sOnSub = false := rfl
@[simp] theorem preLeavePc_sReadGen : preLeavePc .sReadGen = false := rfl
@[simp] theorem preLeavePc_sCheck1 : preLeavePc .sCheck1 = false := rfl
@[simp] theorem preLeavePc_sHubAdd : preLeavePc .sHubAdd = false := rfl
@[simp] theorem preLeavePc_sCheck2 : preLeavePc .sCheck2 = false := rfl
@[simp] theorem preLeavePc_sPresAdd : preLeavePc .sPresAdd = false := rfl
@[simp] theorem preLeavePc_sReply : preLeavePc .sReply = false := rfl
@[simp] theorem preLeavePc_sCommit : preLeavePc .sCommit = false := rfl
@[simp] theorem preLeavePc_sRbHub : preLeavePc .sRbHub = false := rfl
@[simp] theorem preLeavePc_sRbPres : preLeavePc .sRbPres = false := rfl
@[simp] theorem preLeavePc_sRbClose : preLeavePc .sRbClose = false := rfl
@[simp] theorem preLeavePc_sCloseGate : preLeavePc .sCloseGate = false := rfl
@[simp] theorem preLeavePc_sDpf : preLeavePc .sDpf = false := rfl
@[simp] theorem preLeavePc_sPush : preLeavePc .sPush = false := rfl
@[simp] theorem preLeavePc_sJoin : preLeavePc .sJoin = false := rfl
@[simp] theorem preLeavePc_sDeferPres : preLeavePc .sDeferPres = false := rfl
@[simp] theorem preLeavePc_sErrDel : preLeavePc .sErrDel = false := rfl
@[simp] theorem preLeavePc_sErrHub : preLeavePc .sErrHub = false := rfl
@[simp] theorem preLeavePc_sErrClose : preLeavePc .sErrClose = false := rfl
@[simp] theorem preLeavePc_sErrOut : preLeavePc .sErrOut = false := rfl
@[simp] theorem preLeavePc_uStatus : preLeavePc .uStatus = false := rfl
@[simp] theorem preLeavePc_uSnap : preLeavePc .uSnap = false := rfl
@[simp] theorem preLeavePc_uWait : preLeavePc .uWait = false := rfl
@[simp] theorem preLeavePc_uTmoLog : preLeavePc .uTmoLog = false := rfl
@[simp] theorem preLeavePc_uRemove : preLeavePc .uRemove = false := rfl
@[simp] theorem preLeavePc_uPresRm : preLeavePc .uPresRm = true := rfl
@[simp] theorem preLeavePc_uLeave : preLeavePc .uLeave = true := rfl
@[simp] theorem preLeavePc_uHubRm : preLeavePc .uHubRm = false := rfl
@[simp] theorem preLeavePc_uOnUnsub : preLeavePc .uOnUnsub = false := rfl
@[simp] theorem preLeavePc_uOut : preLeavePc .uOut = false := rfl
@[simp] theorem preLeavePc_cEnter : preLeavePc .cEnter = false := rfl
@[simp] theorem preLeavePc_cRemoveClient : preLeavePc .cRemoveClient = false := rfl
@[simp] theorem preLeavePc_cDpf : preLeavePc .cDpf = false := rfl
@[simp] theorem preLeavePc_cWriter : preLeavePc .cWriter = false := rfl
@[simp] theorem preLeavePc_cTClose : preLeavePc .cTClose = false := rfl
@[simp] theorem preLeavePc_cLoop : preLeavePc .cLoop = false := rfl
@[simp] theorem preLeavePc_cOnDisc : preLeavePc .cOnDisc = false := rfl
@[simp] theorem preLeavePc_cExit : preLeavePc .cExit = false := rfl
@[simp] theorem preLeavePc_done : preLeavePc .done = false := rfl
@[simp] theorem preLeavePc_ite (c : Prop) [Decidable c] (a b : Pc) :
    preLeavePc (if c then a else b) = if c then preLeavePc a else preLeavePc b := apply_ite preLeavePc c a b
@[simp] theorem preLeavePc_unsubRetPc (k : Kind) : preLeavePc (unsubRetPc k) = false := by
  cases k <;> rfl
@[simp] theorem preLeavePc_afterCmdFail (t : Thread) : preLeavePc (afterCmdFail t) = false := by
  unfold afterCmdFail; split <;> rfl
@[simp] theorem preLeavePc_afterChecks (t : Thread) : preLeavePc (afterChecks t) = false := by
  unfold afterChecks; split <;> (try split) <;> rfl
@[simp] theorem preLeavePc_afterPres (t : Thread) : preLeavePc (afterPres t) = false := by
  unfold afterPres; split <;> rfl

def postCommitPc : Pc → Bool
  | .sCloseGate | .sDpf | .sPush | .sJoin => true
  | _ => false
@[simp] theorem postCommitPc_sReserve : postCommitPc .sReserve = false := rfl
@[simp] theorem postCommitPc_sOnSub : postCommitPc .sOnSub = false := rfl
@[simp] theorem postCommitPc_sReadGen : postCommitPc .sReadGen = false := rfl
@[simp] theorem postCommitPc_sCheck1 : postCommitPc .sCheck1 = false := rfl
@[simp] theorem postCommitPc_sHubAdd : postCommitPc .sHubAdd = false := rfl
@[simp] theorem postCommitPc_sCheck2 : postCommitPc .sCheck2 = false := rfl
@[simp] theorem postCommitPc_sPresAdd : postCommitPc .sPresAdd = false := rfl
@[simp] theorem postCommitPc_sReply : postCommitPc .sReply = false := rfl
@[simp] theorem postCommitPc_sCommit : postCommitPc .sCommit = false := rfl
@[simp] theorem postCommitPc_sRbHub : postCommitPc .sRbHub = false := rfl
@[simp] theorem postCommitPc_sRbPres : postCommitPc .sRbPres = false := rfl
@[simp] theorem postCommitPc_sRbClose : postCommitPc .sRbClose = false := rfl
@[simp] theorem postCommitPc_sCloseGate : postCommitPc .sCloseGate = true := rfl
@[simp] theorem postCommitPc_sDpf : postCommitPc .sDpf = true := rfl
@[simp] theorem postCommitPc_sPush : postCommitPc .sPush = true := rfl
@[simp] theorem postCommitPc_sJoin : postCommitPc .sJoin = true := rfl
@[simp] theorem postCommitPc_sDeferPres : postCommitPc .sDeferPres = false := rfl
@[simp] theorem postCommitPc_sErrDel : postCommitPc .sErrDel = false := rfl
@[simp] theorem postCommitPc_sErrHub : postCommitPc .sErrHub = false := rfl
@[simp] theorem postCommitPc_sErrClose : postCommitPc .sErrClose = false := rfl
@[simp] theorem postCommitPc_sErrOut : postCommitPc .sErrOut = false := rfl
@[simp] theorem postCommitPc_uStatus : postCommitPc .uStatus = false := rfl
@[simp] theorem postCommitPc_uSnap : postCommitPc .uSnap = false := rfl
@[simp] theorem postCommitPc_uWait : postCommitPc .uWait = false := rfl
@[simp] theorem postCommitPc_uTmoLog : postCommitPc .uTmoLog = false := rfl
@[simp] theorem postCommitPc_uRemove : postCommitPc .uRemove = false := rfl
@[simp] theorem postCommitPc_uPresRm : postCommitPc .uPresRm = false := rfl
@[simp] theorem postCommitPc_uLeave : postCommitPc .uLeave = false := rfl
@[simp] theorem postCommitPc_uHubRm : postCommitPc .uHubRm = false := rfl
@[simp] theorem postCommitPc_uOnUnsub : postCommitPc .uOnUnsub = false := rfl
@[simp] theorem postCommitPc_uOut : postCommitPc .uOut = false := rfl
@[simp] theorem postCommitPc_cEnter : postCommitPc .cEnter = false := rfl
@[simp] theorem postCommitPc_cRemoveClient : postCommitPc .cRemoveClient = false := rfl
@[simp] theorem postCommitPc_cDpf : postCommitPc .cDpf = false := rfl
@[simp] theorem postCommitPc_cWriter : postCommitPc .cWriter = false := rfl
@[simp] theorem postCommitPc_cTClose : postCommitPc .cTClose = false := rfl
@[simp] theorem postCommitPc_cLoop : postCommitPc .cLoop = false := rfl
@[simp] theorem postCommitPc_cOnDisc : postCommitPc .cOnDisc = false := rfl
@[simp] theorem postCommitPc_cExit : postCommitPc .cExit = false := rfl
@[simp] theorem postCommitPc_done : postCommitPc .done = false := rfl
@[simp] theorem postCommitPc_ite (c : Prop) [Decidable c] (a b : Pc) :
    postCommitPc (if c then a else b) = if c then postCommitPc a else postCommitPc b := apply_ite postCommitPc c a b
@[simp] theorem postCommitPc_unsubRetPc (k : Kind) : postCommitPc (unsubRetPc k) = false := by
  cases k <;> rfl
@[simp] theorem postCommitPc_afterRemove (c : Entry) : postCommitPc (afterRemove c) = false := by
  unfold afterRemove; split <;> (try split) <;> rfl
@[simp] theorem postCommitPc_afterCmdFail (t : Thread) : postCommitPc (afterCmdFail t) = false := by
  unfold afterCmdFail; split <;> rfl
@[simp] theorem postCommitPc_afterChecks (t : Thread) : postCommitPc (afterChecks t) = false := by
  unfold afterChecks; split <;> (try split) <;> rfl
@[simp] theorem postCommitPc_afterPres (t : Thread) : postCommitPc (afterPres t) = false := by
  unfold afterPres; split <;> rfl

end CentrifugeVerif.SubProto
