import CentrifugeVerif.Proofs.RedisLua
import CentrifugeVerif.Gen.Lua.MapBrokerStreamRead
/- Vocabulary for the theorems about the translated `map_broker_stream_read.lua` (Props/C23.lean). -/
namespace CentrifugeVerif.MapRead
open CentrifugeVerif CentrifugeVerif.Redis CentrifugeVerif.Lua CentrifugeVerif.LuaRedis CentrifugeVerif.Gen.Lua

/-- the argument vector of `map_broker_stream_read.lua` -/
structure ReadArgs where
  includePubs : String
  since : String
  limit : String
  reverse : String
  metaExp : String
  fresh : String

def ReadArgs.argv (a : ReadArgs) : LVal :=
  .tbl [.str a.includePubs, .str a.since, .str a.limit, .str a.reverse, .str a.metaExp, .str a.fresh]

def keys2 (sk mk : String) : LVal := .tbl [.str sk, .str mk]

def HashAt (s : Redis) (k : String) (h : List (String × String)) : Prop := getHash s k = .ok h

/-- the script from its third part on, with the epoch and top offset the first parts determined -/
abbrev P2 (sk mk : String) (a : ReadArgs) (smeta ep top : LVal) : RedisM LVal :=
  map_broker_stream_read_p2 (keys2 sk mk) a.argv (.str sk) (.str mk) (.str a.includePubs) (.str a.since)
    (.str a.limit) (.str a.reverse) (.str a.metaExp) (.str a.fresh) smeta ep top

end CentrifugeVerif.MapRead
