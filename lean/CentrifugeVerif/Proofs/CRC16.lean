import CentrifugeVerif.Proofs.CRC16Table
/-!
`crc16_table_eq_bitwise`: the table-driven CRC16 of `redis_cluster_slot.go` equals the bitwise
CRC-16/XMODEM specification on every byte string; `goRedisSlot_eq_spec`: Go's `redisSlot` equals
the specified slot function on every key.
-/
namespace CentrifugeVerif.CRC16
open CentrifugeVerif.Spec.RedisSlot
open CentrifugeVerif.Gen.Crc16Tab

theorem crcStep_lt (c : Nat) : crcStep c < 65536 := by
  unfold crcStep
  have := @Nat.and_le_right ((c <<< 1) ^^^ (if c &&& 0x8000 = 0 then 0 else 0x1021)) 0xFFFF
  omega

theorem crcStep8_lt (c : Nat) : crcStep8 c < 65536 := by
  unfold crcStep8; exact crcStep_lt _

theorem crcByte_lt (c : Nat) (b : UInt8) : crcByte c b < 65536 := crcStep8_lt _

theorem checkRows_spec : ∀ (tab : List Nat) (h0 : Nat), checkRows tab h0 = true →
    ∀ i, i < tab.length → checkRow (h0 + i) (tab.getD i 0) = true
  | [], _, _, i, hi => by simp at hi
  | t :: ts, h0, h, i, hi => by
    simp only [checkRows, Bool.and_eq_true] at h
    cases i with
    | zero => simpa using h.1
    | succ j =>
      have := checkRows_spec ts (h0 + 1) h.2 j (by simpa using hi)
      simpa [Nat.add_assoc, Nat.add_comm 1 j] using this

/-- every table entry, for every low byte of the register -/
theorem row_fact (h l : Nat) (hh : h < 256) (hl : l < 256) :
    crcStep8 ((h <<< 8) ^^^ l) = tabAt h ^^^ (l <<< 8) := by
  have hr := checkRows_spec crc16tab 0 rows_ok h (by rw [tab_length]; exact hh)
  have := allBelow_spec 256 _ hr l hl
  simpa [tabAt] using this

theorem id_facts (c : Nat) (hc : c < 65536) :
    c = ((((c >>> 8) &&& 0xFF) <<< 8) ^^^ (c &&& 0xFF)) ∧ ((c &&& 0xFF) <<< 8) = ((c <<< 8) &&& 0xFFFF) ∧
      ((c >>> 8) &&& 0xFF) < 256 ∧ (c &&& 0xFF) < 256 := by
  have := allBelow_spec 65536 idChk ids_ok c hc
  simpa [idChk, and_assoc] using this

/-- one byte: the table-driven update of `redisSlot` equals eight bitwise shifts -/
theorem goCrcByte_eq (c : Nat) (b : UInt8) (hc : c < 65536) : goCrcByte c b = crcByte c b := by
  obtain ⟨h1, h2, h3, h4⟩ := id_facts c hc
  have hb : b.toNat < 256 := b.toNat_lt
  have hx : (((c >>> 8) &&& 0xFF) ^^^ b.toNat) < 256 := Nat.xor_lt_two_pow (n := 8) h3 hb
  have e : c ^^^ (b.toNat <<< 8) = ((((c >>> 8) &&& 0xFF) ^^^ b.toNat) <<< 8) ^^^ (c &&& 0xFF) := by
    rw [Nat.shiftLeft_xor_distrib]
    calc c ^^^ (b.toNat <<< 8)
        = ((((c >>> 8) &&& 0xFF) <<< 8) ^^^ (c &&& 0xFF)) ^^^ (b.toNat <<< 8) := by rw [← h1]
      _ = _ := by ac_rfl
  unfold goCrcByte crcByte
  rw [e, row_fact _ _ hx h4, h2, Nat.xor_comm]

theorem foldl_eq : ∀ (bs : Bytes) (c : Nat), c < 65536 → bs.foldl goCrcByte c = bs.foldl crcByte c
  | [], _, _ => rfl
  | b :: bs, c, hc => by
    simp only [List.foldl_cons]
    rw [goCrcByte_eq c b hc]
    exact foldl_eq bs _ (crcByte_lt c b)

/-- **the Go table computes CRC-16/XMODEM**, for every byte string -/
theorem crc16_table_eq_bitwise (bs : Bytes) : goCrc16 bs = crc16 bs :=
  foldl_eq bs 0 (by decide)

theorem indexByte_eq : ∀ (c : UInt8) (s : Bytes), indexByte c s = indexOf c s
  | _, [] => rfl
  | c, b :: bs => by simp [indexByte, indexOf, indexByte_eq c bs]

/-- Go's `redisSlot` is the specified slot function (hash-tag rule and CRC), for every key -/
theorem goRedisSlot_eq_spec (key : Bytes) : goRedisSlot key = slot key := by
  unfold goRedisSlot slot hashTag totalSlots
  simp only [indexByte_eq, crc16_table_eq_bitwise]
  exact Nat.and_two_pow_sub_one_eq_mod _ 14

end CentrifugeVerif.CRC16
